(** C17 — reset: promoteExecutables and demoteUnexecutables against a NEW chain state restore the
    invariant (no reinjected transactions). *)
From Coq Require Import List ZArith NArith Bool Lia.
From Kardia Require Import Generated.C17Facts C17.Model C17.ProofsBasic C17.ProofsInv C17.ProofsOps C17.ProofsReorg C17.ProofsPromote C17.ProofsStep.
Import ListNotations.
Local Open Scope Z_scope.

Lemma filter_filter {A} (f g : A -> bool) l : filter f (filter g l) = filter (fun x => g x && f x) l.
Proof.
  induction l as [|x l IH]; cbn [filter]; auto.
  destruct (g x); cbn [filter andb]; [destruct (f x)|]; rewrite IH; reflexivity.
Qed.

Lemma filter_all_true {A} (f : A -> bool) l : (forall x, In x l -> f x = true) -> filter f l = l.
Proof.
  induction l as [|x l IH]; cbn [filter]; auto. intros H.
  rewrite (H x (or_introl eq_refl)). f_equal. apply IH. intros y Hy. apply H. cbn. auto.
Qed.

Lemma filter_all_false {A} (f : A -> bool) l : (forall x, In x l -> f x = false) -> filter f l = [].
Proof.
  induction l as [|x l IH]; cbn [filter]; auto. intros H.
  rewrite (H x (or_introl eq_refl)). apply IH. intros y Hy. apply H. cbn. auto.
Qed.

(* ---- one phase of demoteUnexecutables: some pending entries are dropped, some go back to the queue *)

Lemma struct_split q drop move q1 :
  Struct [] q ->
  p_pending q1 = filter (fun t => negb (drop t) && negb (move t)) (p_pending q) ->
  p_queue q1 = p_queue q ->
  map fst (p_all q1) = map fst (all_remove_list (p_all q) (filter drop (p_pending q))) ->
  (forall t, move t = true -> drop t = false) ->
  (forall x y, In x (p_pending q) -> move x = true -> In y (p_queue q) -> key y <> key x) ->
  let q' := enqueue_all q1 (filter move (p_pending q)) in
  Struct [] q' /\ p_pending q' = p_pending q1 /\
  (forall x, In x (p_queue q') <-> (In x (p_pending q) /\ move x = true) \/ In x (p_queue q)) /\
  p_chain q' = p_chain q1 /\ p_nonces q' = p_nonces q1.
Proof.
  intros S Hp Hq Ha Hdm Hk. cbn zeta.
  destruct (enqueue_all_spec (filter move (p_pending q)) q1) as [E1 [E2 [E3 [E4 [E5 E6]]]]].
  { apply NoDup_map_filter. apply (s_kp _ q S). }
  { intros t Ht x Hx. apply filter_In in Ht. rewrite Hq in Hx. apply (Hk t x); tauto. }
  set (q' := enqueue_all q1 (filter move (p_pending q))) in *.
  assert (Hqq : forall x, In x (p_queue q') <-> (In x (p_pending q) /\ move x = true) \/ In x (p_queue q)).
  { intros x. rewrite E5, filter_In, Hq. tauto. }
  split; [|repeat split; auto; apply Hqq].
  constructor.
  - rewrite E2, Hp. apply NoDup_map_filter. apply (s_kp _ q S).
  - apply E6. rewrite Hq. apply (s_kq _ q S).
  - intros x. rewrite E3, Ha, all_remove_list_In, (s_idx _ q S), E2, Hp, Hqq, filter_In. cbn [In].
    rewrite andb_true_iff, !negb_true_iff. split.
    + intros [[Hx|[Hx|[]]] Hn]; auto.
      destruct (move x) eqn:Em; [right; left; left; auto|].
      left. repeat split; auto. destruct (drop x) eqn:Ed; auto.
      exfalso. apply Hn. apply in_map. apply filter_In. auto.
    + intros [[Hx [Hd Hm]]|[[[Hx Hm]|Hx]|[]]].
      * split; auto. intros Hin. apply in_map_iff in Hin. destruct Hin as [y [Hid Hy]]. apply filter_In in Hy.
        destruct Hy as [Hy Hdy].
        assert (y = x) by (eapply (id_inj _ q S); auto; apply (s_idx _ q S); auto). subst. congruence.
      * split; auto. intros Hin. apply in_map_iff in Hin. destruct Hin as [y [Hid Hy]]. apply filter_In in Hy.
        destruct Hy as [Hy Hdy].
        assert (y = x) by (eapply (id_inj _ q S); auto; apply (s_idx _ q S); auto). subst.
        rewrite (Hdm x Hm) in Hdy. discriminate.
      * split; auto. intros Hin. apply in_map_iff in Hin. destruct Hin as [y [Hid Hy]]. apply filter_In in Hy.
        destruct Hy as [Hy Hdy].
        assert (y = x) by (eapply (id_inj _ q S); auto; apply (s_idx _ q S); auto). subst.
        eapply (s_dpq _ q S); eauto.
  - rewrite E3, Ha. apply all_remove_list_ids. apply (s_ids _ q S).
  - intros x Hx Hxq. rewrite E2, Hp in Hx. apply filter_In in Hx. destruct Hx as [Hx Hb].
    apply andb_true_iff in Hb. destruct Hb as [_ Hm]. apply negb_true_iff in Hm.
    apply Hqq in Hxq. destruct Hxq as [[_ Hm']|Hxq]; [congruence|]. eapply (s_dpq _ q S); eauto.
  - intros x [].
Qed.

Lemma l_filter_true l a c g :
  let bad := fun t => is_acct a t && ((g <? t_gas t) || (c <? cost t)) in
  let removed := filter bad l in
  let mv := fun t => match removed with [] => false | _ => negb (bad t) && (is_acct a t && (min_nonce removed <? t_nonce t)) end in
  l_filter true l a c g = (removed, filter mv l, filter (fun t => negb (bad t) && negb (mv t)) l).
Proof.
  cbn zeta. unfold l_filter.
  destruct (filter (fun t => is_acct a t && ((g <? t_gas t) || (c <? cost t))) l) as [|r rs] eqn:E.
  - rewrite filter_all_false by auto. f_equal.
    symmetry. apply filter_all_true. intros x Hx. rewrite andb_true_r. apply negb_true_iff.
    destruct (is_acct a x && ((g <? t_gas x) || (c <? cost x))) eqn:Eb; auto.
    assert (In x (filter (fun t => is_acct a t && ((g <? t_gas t) || (c <? cost t))) l)) by (apply filter_In; auto).
    rewrite E in H. destruct H.
  - rewrite !filter_filter. f_equal. apply filter_ext. intros t.
    destruct (is_acct a t && ((g <? t_gas t) || (c <? cost t))); reflexivity.
Qed.

(** What demoteUnexecutables does to one account, in terms of a "keep" predicate. *)
Definition demote_post (q q' : pool) (a : N) (keep : tx -> bool) : Prop :=
  let s := st_nonce (p_chain q) a in
  (forall x, In x (p_pending q') <-> In x (p_pending q) /\ (sender x = a -> keep x = true)) /\
  (forall x, In x (p_queue q') ->
             In x (p_queue q) \/ (In x (p_pending q) /\ sender x = a /\ s <= t_nonce x /\ keep x = false)) /\
  (forall x, In x (p_queue q) -> In x (p_queue q')) /\
  (forall x, In x (p_pending q) -> sender x = a -> keep x = true -> s <= t_nonce x /\ affordable q x) /\
  (forall x y, In x (p_pending q) -> In y (p_pending q) -> sender x = a -> sender y = a -> keep y = true ->
               s <= t_nonce x <= t_nonce y -> keep x = true) /\
  ((exists x, In x (p_pending q) /\ sender x = a /\ keep x = true) ->
   exists x, In x (p_pending q) /\ sender x = a /\ keep x = true /\ t_nonce x = s).

Lemma demote_account_spec q a :
  Struct [] q ->
  (forall x y, In x (p_pending q) -> In y (p_queue q) -> sender x = a -> sender y = a ->
               st_nonce (p_chain q) a <= t_nonce x -> t_nonce x < t_nonce y) ->
  let q' := demote_account q a in
  Struct [] q' /\ p_chain q' = p_chain q /\ p_nonces q' = p_nonces q /\ exists keep, demote_post q q' a keep.
Proof.
  intros S Hsep. cbn zeta. unfold demote_account.
  set (s := st_nonce (p_chain q) a).
  unfold l_forward. cbv beta iota zeta.
  set (old := fun t => is_acct a t && (t_nonce t <? s)).
  set (q1 := set_all (set_pending q (filter (fun t => negb (old t)) (p_pending q))) (all_remove_list (p_all q) (filter old (p_pending q)))).
  (* phase 1: forward *)
  destruct (struct_split q old (fun _ => false) q1 S) as [S1 _]; auto.
  { unfold q1. cbn [p_pending set_all set_pending]. apply filter_ext. intros t. rewrite andb_true_r. reflexivity. }
  { intros; discriminate. }
  { intros; discriminate. }
  rewrite filter_all_false in S1 by auto. unfold enqueue_all in S1. cbn [fold_left] in S1.
  (* phase 2: filter *)
  rewrite l_filter_true.
  set (bad := fun t => is_acct a t && ((ch_gaslimit (p_chain q) <? t_gas t) || (st_balance (p_chain q) a <? cost t))).
  set (removed := filter bad (p_pending q1)).
  set (mv := fun t => match removed with [] => false | _ => negb (bad t) && (is_acct a t && (min_nonce removed <? t_nonce t)) end).
  cbv beta iota zeta.
  set (q2 := set_all (set_pending q1 (filter (fun t => negb (bad t) && negb (mv t)) (p_pending q1))) (all_remove_list (p_all q1) removed)).
  assert (Hp1 : forall x, In x (p_pending q1) <-> In x (p_pending q) /\ old x = false).
  { intros x. unfold q1. cbn [p_pending set_all set_pending]. rewrite filter_In, negb_true_iff. tauto. }
  assert (Hold : forall x, old x = false <-> (sender x = a -> s <= t_nonce x)).
  { intros x. unfold old. rewrite andb_false_iff, is_acct_false_iff, Z.ltb_ge. split.
    - intros [H|H]; [contradiction|auto].
    - intros H. destruct (N.eq_dec (sender x) a); auto. }
  assert (Hmv_a : forall x, mv x = true -> sender x = a /\ bad x = false).
  { intros x. unfold mv. destruct removed; [discriminate|]. rewrite !andb_true_iff, negb_true_iff, is_acct_true. tauto. }
  destruct (struct_split q1 bad mv q2 S1) as [S3 [P3 [Q3 [C3 N3]]]]; auto.
  { intros t Ht. apply Hmv_a in Ht. tauto. }
  { intros x y Hx Hm Hy. apply Hp1 in Hx. destruct Hx as [Hx Ho]. apply Hmv_a in Hm. destruct Hm as [Hs _].
    unfold q1 in Hy. cbn [p_queue set_all set_pending] in Hy.
    intros Hk. unfold key in Hk. injection Hk as Hks Hkn.
    pose proof (proj1 (Hold x) Ho Hs) as Hge.
    assert (t_nonce x < t_nonce y) by (apply Hsep; auto; congruence). lia. }
  fold removed in S3, P3, Q3, C3, N3.
  set (q3 := enqueue_all q2 (filter mv (p_pending q1))) in *.
  assert (Hp3 : forall x, In x (p_pending q3) <-> In x (p_pending q) /\ old x = false /\ bad x = false /\ mv x = false).
  { intros x. rewrite P3. unfold q2. cbn [p_pending set_all set_pending]. rewrite filter_In, Hp1, andb_true_iff, !negb_true_iff. tauto. }
  assert (Hq3 : forall x, In x (p_queue q3) <-> In x (p_queue q) \/ (In x (p_pending q) /\ old x = false /\ mv x = true)).
  { intros x. rewrite Q3, Hp1. unfold q1. cbn [p_queue set_all set_pending]. tauto. }
  assert (Hch3 : p_chain q3 = p_chain q) by (rewrite C3; reflexivity).
  assert (Hn3 : p_nonces q3 = p_nonces q) by (rewrite N3; reflexivity).
  assert (Hbad : forall x, sender x = a -> bad x = false -> affordable q x).
  { intros x Hs Hb. unfold bad in Hb. apply andb_false_iff in Hb. destruct Hb as [Hb|Hb].
    - apply is_acct_false_iff in Hb. contradiction.
    - apply orb_false_iff in Hb. destruct Hb as [H1 H2]. apply Z.ltb_ge in H1, H2. unfold affordable. rewrite Hs. auto. }
  assert (Hdown : forall x y, In x (p_pending q) -> In y (p_pending q) -> sender x = a -> sender y = a ->
                              old y = false -> bad y = false -> mv y = false -> s <= t_nonce x <= t_nonce y ->
                              old x = false /\ bad x = false /\ mv x = false).
  { intros x y Hx Hy Hsx Hsy Hoy Hby Hmy Hle.
    assert (Hox : old x = false) by (apply Hold; intros; lia).
    split; auto.
    assert (Hx1 : In x (p_pending q1)) by (apply Hp1; auto).
    destruct (bad x) eqn:Ebx.
    - exfalso. assert (Hrx : In x removed) by (apply filter_In; auto).
      pose proof (min_nonce_le _ _ Hrx) as Hlow.
      unfold mv in Hmy. destruct removed as [|r rs] eqn:Er; [destruct Hrx|].
      rewrite Hby in Hmy. cbn [negb andb] in Hmy.
      apply andb_false_iff in Hmy. destruct Hmy as [Hmy|Hmy].
      + apply is_acct_false_iff in Hmy. contradiction.
      + apply Z.ltb_ge in Hmy.
        assert (x = y).
        { eapply NoDup_map_inj; [apply (s_kp _ q S)| | |]; auto. unfold key. f_equal; [congruence|lia]. }
        subst. congruence.
    - split; auto. unfold mv. destruct removed as [|r rs] eqn:Er; auto.
      rewrite Ebx. cbn [negb andb]. apply andb_false_iff. right. apply Z.ltb_ge.
      unfold mv in Hmy. rewrite Hby in Hmy. cbn [negb andb] in Hmy.
      apply andb_false_iff in Hmy. destruct Hmy as [Hmy|Hmy].
      + apply is_acct_false_iff in Hmy. contradiction.
      + apply Z.ltb_ge in Hmy. lia. }
  (* phase 3: the gap check *)
  match goal with |- Struct [] ?F /\ _ =>
    change F with (match of_acct a (p_pending q3), l_get (p_pending q3) a s with
                   | _ :: _, None => let '(gapped, pd3) := l_cap (p_pending q3) a 0 in enqueue_all (set_pending q3 pd3) gapped
                   | _, _ => q3 end) end.
  destruct (of_acct a (p_pending q3)) as [|z zs] eqn:Eacct.
  { (* no pending entry left for the account *)
    split; [exact S3|]. split; [exact Hch3|]. split; [exact Hn3|].
    exists (fun t => negb (old t) && negb (bad t) && negb (mv t)).
    pose proof (of_acct_nil _ _ Eacct) as Hno.
    assert (Hk : forall x, negb (old x) && negb (bad x) && negb (mv x) = true <-> old x = false /\ bad x = false /\ mv x = false).
    { intros x. rewrite !andb_true_iff, !negb_true_iff. tauto. }
    unfold demote_post. fold s. split; [|split; [|split; [|split; [|split]]]].
    - intros x. rewrite Hp3, Hk. split.
      + intros [Hx H]. split; auto.
      + intros [Hx H]. split; auto. destruct (N.eq_dec (sender x) a) as [Hs|Hs]; auto.
        repeat split.
        * apply Hold. intros; contradiction.
        * unfold bad. apply andb_false_iff. left. apply is_acct_false_iff. auto.
        * destruct (mv x) eqn:Em; auto. apply Hmv_a in Em. tauto.
    - intros x Hx. apply Hq3 in Hx. destruct Hx as [Hx|[Hx [Ho Hm]]]; auto. right.
      destruct (Hmv_a x Hm) as [Hs _]. repeat split; auto. { apply Hold; auto. }
      rewrite Hm. cbn. apply andb_false_r.
    - intros x Hx. apply Hq3. auto.
    - intros x Hx Hs Hkx. apply Hk in Hkx. destruct Hkx as [Ho [Hb Hm]]. split; [apply Hold; auto|apply Hbad; auto].
    - intros x y Hx Hy Hsx Hsy Hky Hle. apply Hk in Hky. destruct Hky as [Ho [Hb Hm]]. apply Hk. eapply Hdown; eauto.
    - intros [x [Hx [Hs Hkx]]]. exfalso. apply Hk in Hkx. apply (Hno x); auto. apply Hp3. tauto. }
  destruct (l_get (p_pending q3) a s) as [t0|] eqn:Eg.
  { (* the entry at the state nonce is there: no gap *)
    split; [exact S3|]. split; [exact Hch3|]. split; [exact Hn3|].
    exists (fun t => negb (old t) && negb (bad t) && negb (mv t)).
    assert (Hk : forall x, negb (old x) && negb (bad x) && negb (mv x) = true <-> old x = false /\ bad x = false /\ mv x = false).
    { intros x. rewrite !andb_true_iff, !negb_true_iff. tauto. }
    unfold demote_post. fold s. split; [|split; [|split; [|split; [|split]]]].
    - intros x. rewrite Hp3, Hk. split.
      + intros [Hx H]. split; auto.
      + intros [Hx H]. split; auto. destruct (N.eq_dec (sender x) a) as [Hs|Hs]; auto.
        repeat split.
        * apply Hold. intros; contradiction.
        * unfold bad. apply andb_false_iff. left. apply is_acct_false_iff. auto.
        * destruct (mv x) eqn:Em; auto. apply Hmv_a in Em. tauto.
    - intros x Hx. apply Hq3 in Hx. destruct Hx as [Hx|[Hx [Ho Hm]]]; auto. right.
      destruct (Hmv_a x Hm) as [Hs _]. repeat split; auto. { apply Hold; auto. }
      rewrite Hm. cbn. apply andb_false_r.
    - intros x Hx. apply Hq3. auto.
    - intros x Hx Hs Hkx. apply Hk in Hkx. destruct Hkx as [Ho [Hb Hm]]. split; [apply Hold; auto|apply Hbad; auto].
    - intros x y Hx Hy Hsx Hsy Hky Hle. apply Hk in Hky. destruct Hky as [Ho [Hb Hm]]. apply Hk. eapply Hdown; eauto.
    - intros _. apply l_get_some in Eg. destruct Eg as [Ht0 Hk0]. unfold key in Hk0. injection Hk0 as Hs0 Hn0.
      apply Hp3 in Ht0. exists t0. repeat split; try tauto. apply Hk. tauto. }
  (* a gap in front: everything of the account goes back to the queue *)
  unfold l_cap. destruct (l_len (p_pending q3) a <=? 0) eqn:El.
  { exfalso. apply Z.leb_le in El. unfold l_len in El. rewrite Eacct in El. cbn [length] in El. lia. }
  cbv beta iota zeta.
  assert (Hf : forall l, filter (fun t => is_acct a t && (0 <=? rank_in (p_pending q3) a t)) l = filter (is_acct a) l).
  { intros l. apply filter_ext. intros t. unfold rank_in. destruct (0 <=? Z.of_nat _) eqn:E; [apply andb_true_r|].
    apply Z.leb_gt in E. lia. }
  assert (Hf' : forall l, filter (fun t => negb (is_acct a t && (0 <=? rank_in (p_pending q3) a t))) l = filter (fun t => negb (is_acct a t)) l).
  { intros l. apply filter_ext. intros t. unfold rank_in. destruct (0 <=? Z.of_nat _) eqn:E; [rewrite andb_true_r; auto|].
    apply Z.leb_gt in E. lia. }
  rewrite Hf, Hf'.
  destruct (struct_split q3 (fun _ => false) (is_acct a) (set_pending q3 (filter (fun t => negb (is_acct a t)) (p_pending q3))) S3)
    as [S4 [P4 [Q4 [C4 N4]]]].
  { cbn [p_pending set_pending]. apply filter_ext. intros t. reflexivity. }
  { reflexivity. }
  { cbn [p_all set_pending]. rewrite filter_all_false by auto. reflexivity. }
  { auto. }
  { intros x y Hx Hm Hy. apply is_acct_true in Hm. apply Hp3 in Hx. destruct Hx as [Hx [Ho [Hb Hmx]]].
    apply Hq3 in Hy. intros Hk. unfold key in Hk. injection Hk as Hks Hkn.
    destruct Hy as [Hy|[Hy [Hoy Hmy]]].
    - assert (t_nonce x < t_nonce y) by (apply Hsep; auto; try congruence; apply Hold; auto). lia.
    - assert (x = y).
      { eapply NoDup_map_inj; [apply (s_kp _ q S)| | |]; auto. unfold key. congruence. }
      subst. congruence. }
  cbn [p_pending p_queue p_chain p_nonces set_pending] in P4, Q4, C4, N4.
  split; [exact S4|]. split; [rewrite C4; exact Hch3|]. split; [rewrite N4; exact Hn3|].
  exists (fun _ => false).
  unfold demote_post. fold s. split; [|split; [|split; [|split; [|split]]]].
  - intros x. rewrite P4, filter_In, negb_true_iff, is_acct_false_iff, Hp3. split.
    + intros [[Hx _] Hs]. split; auto; intros; contradiction.
    + intros [Hx Hk]. destruct (N.eq_dec (sender x) a) as [Hs|Hs]; [specialize (Hk Hs); discriminate|].
      repeat split; auto.
      * apply Hold. intros; contradiction.
      * unfold bad. apply andb_false_iff. left. apply is_acct_false_iff. auto.
      * destruct (mv x) eqn:Em; auto. apply Hmv_a in Em. tauto.
  - intros x Hx. apply Q4 in Hx. destruct Hx as [[Hx Hm]|Hx].
    + apply is_acct_true in Hm. apply Hp3 in Hx. destruct Hx as [Hx [Ho _]]. right. repeat split; auto. apply Hold; auto.
    + apply Hq3 in Hx. destruct Hx as [Hx|[Hx [Ho Hm]]]; auto. right.
      destruct (Hmv_a x Hm) as [Hs _]. repeat split; auto. apply Hold; auto.
  - intros x Hx. apply Q4. right. apply Hq3. auto.
  - intros; discriminate.
  - intros; discriminate.
  - intros [x [_ [_ H]]]. discriminate.
Qed.

(* ---- per-account predicates against the new chain state *)

Definition has (l : list tx) (a : N) (n : Z) : Prop := exists t, In t l /\ sender t = a /\ t_nonce t = n.

(* before the account's promotion run: pending is an interval, the queue lies beyond it, fresh noncer *)
Definition W (q : pool) (a : N) : Prop :=
  exists lo0 hi, lo0 <= hi /\ (forall n, has (p_pending q) a n <-> lo0 <= n < hi) /\
                 (forall t, In t (p_queue q) -> sender t = a -> hi <= t_nonce t) /\
                 pn_get q a = st_nonce (p_chain q) a.

(* after it: above the state nonce pending is an interval, the queue is not stale and lies beyond it *)
Definition M (q : pool) (a : N) : Prop :=
  exists f0 top, st_nonce (p_chain q) a <= f0 /\
                 (forall n, st_nonce (p_chain q) a <= n -> (has (p_pending q) a n <-> f0 <= n < top)) /\
                 (forall t, In t (p_queue q) -> sender t = a -> st_nonce (p_chain q) a <= t_nonce t /\ top <= t_nonce t).

(* after demotion: the per-account invariant up to the value of the pending nonce *)
Definition D (q : pool) (a : N) : Prop :=
  exists x, st_nonce (p_chain q) a <= x /\
            (forall n, has (p_pending q) a n <-> st_nonce (p_chain q) a <= n < x) /\
            (forall t, In t (p_queue q) -> sender t = a -> x <= t_nonce t) /\
            (forall t, In t (p_pending q) -> sender t = a -> affordable q t).

Lemma promote_step q a :
  Struct [] q -> W q a ->
  let q' := promote_account q a in
  Struct [] q' /\ p_chain q' = p_chain q /\ M q' a /\
  (forall x, In x (p_queue q') -> In x (p_queue q)) /\
  (forall b, b <> a -> (W q b -> W q' b) /\ (M q b -> M q' b)).
Proof.
  intros S [lo0 [hi [Hle [Hrun [Hq Hpn]]]]]. cbn zeta.
  destruct (promote_account_spec q a S) as [S' [Hch [R [lo [P1 [P2 [P3 [P4 [P5 [P6 [P7 P8]]]]]]]]]]].
  { intros x y Hx Hy Hsx Hsy _. specialize (Hq y Hy Hsy).
    assert (lo0 <= t_nonce x < hi) by (apply Hrun; exists x; auto). lia. }
  set (q' := promote_account q a) in *. set (s := st_nonce (p_chain q) a) in *.
  split; auto. split; auto. split; [|split].
  - (* M for the promoted account *)
    unfold M. rewrite Hch. fold s.
    destruct R as [|r0 R0] eqn:ER.
    + (* nothing promoted *)
      destruct (Z_le_gt_dec hi s) as [Hhs|Hhs].
      * exists s, s. split; [lia|]. split.
        -- intros n Hn. split; [|lia]. intros [t [Ht [Hs Hnn]]]. apply P1 in Ht. destruct Ht as [Ht|[]].
           assert (lo0 <= n < hi) by (apply Hrun; exists t; auto). lia.
        -- intros t Ht Hs. destruct (P5 t Ht) as [_ [_ Hc]]. specialize (Hc Hs). lia.
      * exists (Z.max lo0 s), hi. split; [lia|]. split.
        -- intros n Hn. split.
           ++ intros [t [Ht [Hs Hnn]]]. apply P1 in Ht. destruct Ht as [Ht|[]].
              assert (lo0 <= n < hi) by (apply Hrun; exists t; auto). lia.
           ++ intros Hr. destruct (proj2 (Hrun n)) as [t [Ht [Hs Hnn]]]; [lia|]. exists t. split; auto. apply P1. auto.
        -- intros t Ht Hs. destruct (P5 t Ht) as [Htq [_ Hc]]. specialize (Hc Hs). specialize (Hq t Htq Hs). lia.
    + rewrite <- ER in *.
      assert (HRne : R <> []) by (rewrite ER; discriminate).
      destruct (P4 HRne) as [Hlo1 Hlo2]. rewrite Hpn in Hlo2. fold s in Hlo2.
      assert (Hlo : lo = s) by lia.
      assert (Hhi : hi <= lo).
      { destruct (P3 lo) as [x [Hx Hxn]]; [destruct R; [congruence|cbn [length]; lia]|].
        destruct (P2 x Hx) as [Hxq [Hxs _]]. specialize (Hq x Hxq Hxs). lia. }
      exists s, (s + Z.of_nat (length R)). split; [lia|]. split.
      * intros n Hn. split.
        -- intros [t [Ht [Hs Hnn]]]. apply P1 in Ht. destruct Ht as [Ht|Ht].
           ++ assert (lo0 <= n < hi) by (apply Hrun; exists t; auto). lia.
           ++ destruct (P2 t Ht) as [_ [_ [_ Hr]]]. lia.
        -- intros Hr. destruct (P3 n) as [t [Ht Htn]]; [lia|]. exists t. split; [apply P1; auto|].
           split; auto. apply P2. auto.
      * intros t Ht Hs. destruct (P5 t Ht) as [_ [_ Hc]]. destruct (Hc Hs) as [H1 H2]. specialize (H2 HRne). lia.
  - intros x Hx. apply P5 in Hx. tauto.
  - (* frame *)
    intros b Hb.
    assert (HRb : forall x, In x R -> sender x <> b) by (intros x Hx Hs; destruct (P2 x Hx) as [_ [Hs' _]]; congruence).
    assert (Hhas : forall n, has (p_pending q') b n <-> has (p_pending q) b n).
    { intros n. unfold has. split; intros [t [Ht [Hs Hn]]]; exists t; (split; [|auto]).
      - apply P1 in Ht. destruct Ht; auto. exfalso. eapply HRb; eauto.
      - apply P1. auto. }
    assert (Hqb : forall t, sender t = b -> (In t (p_queue q') <-> In t (p_queue q))).
    { intros t Hs. split; [intros H; apply P5 in H; tauto|]. intros H. apply P6; auto. congruence. }
    split.
    + intros [l0 [h0 [H1 [H2 [H3 H4]]]]]. exists l0, h0. split; auto. split; [|split].
      * intros n. rewrite Hhas. auto.
      * intros t Ht Hs. apply H3; auto. apply Hqb; auto.
      * rewrite Hch, P7 by auto. auto.
    + intros [f0 [top [H1 [H2 H3]]]]. exists f0, top. rewrite Hch. split; auto. split.
      * intros n Hn. rewrite Hhas. auto.
      * intros t Ht Hs. apply H3; auto. apply Hqb; auto.
Qed.

Lemma max_nonce_ge l t : In t l -> t_nonce t <= max_nonce l.
Proof.
  unfold max_nonce. induction l as [|y l IH]; cbn [fold_right In]; [tauto|].
  intros [->|H]; [lia|]. specialize (IH H). lia.
Qed.

Lemma max_nonce_attained l : l <> [] -> (forall t, In t l -> 0 <= t_nonce t) -> exists t, In t l /\ t_nonce t = max_nonce l.
Proof.
  unfold max_nonce. induction l as [|y l IH]; [congruence|]. intros _ Hnn. cbn [fold_right].
  destruct l as [|z l'].
  - exists y. cbn. split; auto. specialize (Hnn y (or_introl eq_refl)). lia.
  - destruct IH as [t [Ht Hm]]; [discriminate|intros t Ht; apply Hnn; cbn; auto|].
    destruct (Z_le_gt_dec (t_nonce y) (fold_right (fun t m => Z.max (t_nonce t) m) 0 (z :: l'))).
    + exists t. split; [right; auto|]. lia.
    + exists y. split; [left; auto|]. lia.
Qed.

Lemma demote_step q a :
  Struct [] q -> M q a -> 0 <= st_nonce (p_chain q) a ->
  let q' := demote_account q a in
  Struct [] q' /\ p_chain q' = p_chain q /\ D q' a /\
  (forall b, b <> a -> (M q b -> M q' b) /\ (D q b -> D q' b)).
Proof.
  intros S [f0 [top [Hf0 [Hrun Hq]]]] Hnn. cbn zeta.
  destruct (demote_account_spec q a S) as [S' [Hch [_ [keep [P1 [P2 [P3 [P4 [P5 P6]]]]]]]]].
  { intros x y Hx Hy Hsx Hsy Hge. destruct (Hq y Hy Hsy) as [_ Ht].
    assert (f0 <= t_nonce x < top) by (apply Hrun; auto; exists x; auto). lia. }
  set (q' := demote_account q a) in *. set (s := st_nonce (p_chain q) a) in *.
  split; auto. split; auto. split.
  - unfold D. rewrite Hch. fold s.
    destruct (of_acct a (p_pending q')) as [|z zs] eqn:Eacct.
    + (* nothing of the account stays pending *)
      pose proof (of_acct_nil _ _ Eacct) as Hno.
      exists s. split; [lia|]. split; [|split].
      * intros n. split; [|lia]. intros [t [Ht [Hs _]]]. exfalso. eapply Hno; eauto.
      * intros t Ht Hs. apply P2 in Ht. destruct Ht as [Ht|[_ [_ [Hge _]]]]; [|auto]. apply Hq; auto.
      * intros t Ht Hs. exfalso. eapply Hno; eauto.
    + set (l := of_acct a (p_pending q')) in *.
      assert (Hl : forall t, In t l <-> In t (p_pending q) /\ sender t = a /\ keep t = true).
      { intros t. unfold l, of_acct. rewrite filter_In, is_acct_true, P1. split; [intros [[H1 H2] H3]|intros [H1 [H2 H3]]]; auto. }
      assert (Hlne : l <> []) by (rewrite Eacct; discriminate).
      destruct (max_nonce_attained l Hlne) as [y [Hy Hym]].
      { intros t Ht. apply Hl in Ht. destruct Ht as [Ht [Hs Hk]]. destruct (P4 t Ht Hs Hk). lia. }
      apply Hl in Hy. destruct Hy as [Hyp [Hys Hyk]].
      destruct P6 as [t0 [Ht0 [Hs0 [Hk0 Hn0]]]]; [exists y; auto|].
      assert (Hf0s : f0 = s).
      { assert (f0 <= s < top) by (apply Hrun; [lia|]; exists t0; auto). lia. }
      assert (Hytop : t_nonce y < top).
      { destruct (P4 y Hyp Hys Hyk) as [Hge _].
        assert (f0 <= t_nonce y < top) by (apply Hrun; auto; exists y; auto). lia. }
      exists (max_nonce l + 1). split; [|split; [|split]].
      * destruct (P4 y Hyp Hys Hyk). lia.
      * intros n. split.
        -- intros [t [Ht [Hs Hn]]]. apply P1 in Ht. destruct Ht as [Ht Hk]. specialize (Hk Hs).
           destruct (P4 t Ht Hs Hk) as [Hge _].
           assert (t_nonce t <= max_nonce l) by (apply max_nonce_ge; apply Hl; auto). lia.
        -- intros Hn. destruct (proj2 (Hrun n (proj1 Hn))) as [u [Hu [Hus Hun]]]; [lia|].
           exists u. split; auto. apply P1. split; auto. intros _.
           apply (P5 u y); auto. lia.
      * intros t Ht Hs. apply P2 in Ht. destruct Ht as [Ht|[Ht [_ [Hge Hk]]]].
        -- destruct (Hq t Ht Hs). lia.
        -- destruct (Z_lt_ge_dec (t_nonce t) (max_nonce l + 1)) as [Hlt|]; [|lia].
           exfalso. assert (keep t = true) by (apply (P5 t y); auto; lia). congruence.
      * intros t Ht Hs. apply P1 in Ht. destruct Ht as [Ht Hk]. specialize (Hk Hs).
        destruct (P4 t Ht Hs Hk) as [_ Haff]. unfold affordable in *. rewrite Hch. auto.
  - (* frame *)
    intros b Hb.
    assert (Hhas : forall n, has (p_pending q') b n <-> has (p_pending q) b n).
    { intros n. unfold has. split; intros [t [Ht [Hs Hn]]]; exists t; (split; [|auto]).
      - apply P1 in Ht. tauto.
      - apply P1. split; auto. intros; congruence. }
    assert (Hqb : forall t, sender t = b -> (In t (p_queue q') <-> In t (p_queue q))).
    { intros t Hs. split; [|apply P3]. intros H. apply P2 in H. destruct H as [H|[_ [Hs' _]]]; auto. congruence. }
    split.
    + intros [g0 [tp [H1 [H2 H3]]]]. exists g0, tp. rewrite Hch. split; auto. split.
      * intros n Hn. rewrite Hhas. auto.
      * intros t Ht Hs. apply H3; auto. apply Hqb; auto.
    + intros [x [H1 [H2 [H3 H4]]]]. exists x. rewrite Hch. split; auto. split; [|split].
      * intros n. rewrite Hhas. auto.
      * intros t Ht Hs. apply H3; auto. apply Hqb; auto.
      * intros t Ht Hs. apply P1 in Ht. destruct Ht as [Ht _]. unfold affordable. rewrite Hch. apply H4; auto.
Qed.

(* ---- the account lists the two loops run over *)

Lemma accounts_aux_spec l : forall seen,
  NoDup (accounts_aux seen l) /\
  forall a, In a (accounts_aux seen l) <-> (exists t, In t l /\ sender t = a) /\ ~ In a seen.
Proof.
  induction l as [|t r IH]; intros seen; cbn [accounts_aux].
  - split; [constructor|]. intros a. cbn. split; [tauto|]. intros [[t [[] _]] _].
  - destruct (memN (sender t) seen) eqn:E.
    + apply memN_In in E. destruct (IH seen) as [H1 H2]. split; auto. intros a. rewrite H2. split.
      * intros [[u [Hu Hs]] Hn]. split; auto. exists u. cbn. auto.
      * intros [[u [[->|Hu] Hs]] Hn]; [subst; contradiction|]. split; auto. exists u. auto.
    + assert (Hns : ~ In (sender t) seen) by (intros H; apply memN_In in H; congruence).
      destruct (IH (sender t :: seen)) as [H1 H2]. split.
      * constructor; auto. intros H. apply H2 in H. destruct H as [_ H]. apply H. cbn. auto.
      * intros a. cbn [In]. rewrite H2. split.
        -- intros [<-|[[u [Hu Hs]] Hn]].
           ++ split; auto. exists t. cbn. auto.
           ++ split; [exists u; cbn; auto|]. intros H. apply Hn. cbn. auto.
        -- intros [[u [[->|Hu] Hs]] Hn]; [left; auto|].
           destruct (N.eq_dec (sender t) a) as [He|He]; [left; auto|]. right. split; [exists u; auto|].
           intros [H|H]; auto.
Qed.

Lemma accounts_spec l : NoDup (accounts l) /\ forall a, In a (accounts l) <-> exists t, In t l /\ sender t = a.
Proof.
  unfold accounts. destruct (accounts_aux_spec l []) as [H1 H2]. split; auto.
  intros a. rewrite H2. cbn. tauto.
Qed.

Lemma promote_fold accts : forall q,
  NoDup accts -> Struct [] q -> (forall a, In a accts -> W q a) ->
  let q' := promote_executables q accts in
  Struct [] q' /\ p_chain q' = p_chain q /\ (forall a, In a accts -> M q' a) /\
  (forall x, In x (p_queue q') -> In x (p_queue q)) /\
  (forall b, ~ In b accts -> (W q b -> W q' b) /\ (M q b -> M q' b)).
Proof.
  unfold promote_executables. induction accts as [|a r IH]; intros q Hd S HW; cbn zeta; cbn [fold_left].
  - split; [exact S|]. split; [reflexivity|]. split; [intros a []|]. split; auto.
  - apply NoDup_cons_iff in Hd. destruct Hd as [Hna Hd].
    destruct (promote_step q a S (HW a (or_introl eq_refl))) as [S1 [C1 [M1 [Q1 F1]]]]. cbn zeta in *.
    destruct (IH (promote_account q a) Hd S1) as [S2 [C2 [M2 [Q2 F2]]]].
    { intros b Hb. apply F1; [intros ->; contradiction|]. apply HW. cbn. auto. }
    cbn zeta in *. split; auto. split; [congruence|]. split; [|split].
    + intros b [<-|Hb]; [|auto]. apply F2; auto.
    + intros x Hx. apply Q1. apply Q2. auto.
    + intros b Hb. assert (b <> a) by (intros ->; apply Hb; cbn; auto).
      assert (~ In b r) by (intros H'; apply Hb; cbn; auto).
      split; intros H'; apply F2; auto; apply F1; auto.
Qed.

Lemma W_noqueue_M q a : W q a -> (forall t, In t (p_queue q) -> sender t <> a) -> M q a.
Proof.
  intros [lo0 [hi [Hle [Hrun [Hq Hpn]]]]] Hno. unfold M. set (s := st_nonce (p_chain q) a).
  destruct (Z_le_gt_dec hi s) as [Hhs|Hhs].
  - exists s, s. split; [lia|]. split.
    + intros n Hn. split; [|lia]. intros Hh. apply Hrun in Hh. lia.
    + intros t Ht Hs. exfalso. eapply Hno; eauto.
  - exists (Z.max lo0 s), hi. split; [lia|]. split.
    + intros n Hn. rewrite Hrun. lia.
    + intros t Ht Hs. exfalso. eapply Hno; eauto.
Qed.

Lemma demote_fold accts : forall q,
  NoDup accts -> Struct [] q -> (forall a, 0 <= st_nonce (p_chain q) a) ->
  (forall a, In a accts -> M q a) ->
  let q' := fold_left demote_account accts q in
  Struct [] q' /\ p_chain q' = p_chain q /\ (forall a, In a accts -> D q' a) /\
  (forall b, ~ In b accts -> (M q b -> M q' b) /\ (D q b -> D q' b)).
Proof.
  induction accts as [|a r IH]; intros q Hd S Hnn HM; cbn zeta; cbn [fold_left].
  - split; [exact S|]. split; [reflexivity|]. split; [intros a []|]. auto.
  - apply NoDup_cons_iff in Hd. destruct Hd as [Hna Hd].
    destruct (demote_step q a S (HM a (or_introl eq_refl)) (Hnn a)) as [S1 [C1 [D1 F1]]]. cbn zeta in *.
    destruct (IH (demote_account q a) Hd S1) as [S2 [C2 [D2 F2]]].
    { intros b. rewrite C1. auto. }
    { intros b Hb. apply F1; [intros ->; contradiction|]. apply HM. cbn. auto. }
    cbn zeta in *. split; auto. split; [congruence|]. split.
    + intros b [<-|Hb]; [|auto]. apply F2; auto.
    + intros b Hb. assert (b <> a) by (intros ->; apply Hb; cbn; auto).
      assert (~ In b r) by (intros H'; apply Hb; cbn; auto).
      split; intros H'; apply F2; auto; apply F1; auto.
Qed.

Lemma lookupZ_map (f : N -> Z) l a :
  lookupZ (map (fun b => (b, f b)) l) a = if memN a l then Some (f a) else None.
Proof.
  induction l as [|b l IH]; cbn [map lookupZ memN existsb]; auto.
  unfold memN in IH. rewrite N.eqb_sym. destruct (N.eqb a b) eqn:E; cbn [orb].
  - apply N.eqb_eq in E. subst. reflexivity.
  - exact IH.
Qed.

Definition chain_nonneg (ch : chain) : Prop := forall a, 0 <= st_nonce ch a.

(** the pool a reset produces before the two truncations *)
Definition reset_core (c : choice) (p : pool) (ch : chain) : pool :=
  let q0 := do_reset c p ch [] in
  let q1 := promote_executables q0 (accounts (p_queue q0)) in
  let q2 := demote_unexecutables q1 in
  set_nonces q2 (map (fun a => (a, max_nonce (of_acct a (p_pending q2)) + 1)) (accounts (p_pending q2))).

Lemma run_reorg_reset_eq c p ch :
  run_reorg c p (Some (ch, [])) [] = set_changes (truncate_queue (o3 c) (truncate_pending (o2 c) (reset_core c p ch))) 0.
Proof. reflexivity. Qed.

Lemma inv_reset_core c p ch : Inv p -> chain_nonneg ch -> Inv (reset_core c p ch).
Proof.
  intros I Hnn. unfold reset_core, do_reset. cbn [add_txs_locked].
  set (q0 := set_galaxias (set_nonces (set_chain p ch) []) (chain_galaxias ch)).
  pose proof I as I0. apply Inv_split in I0. destruct I0 as [S0 A0].
  assert (Sq0 : Struct [] q0) by (eapply Struct_ext; [| | |exact S0]; reflexivity).
  assert (Wq0 : forall a, W q0 a).
  { intros a. destruct (A0 a) as [Hrun [Hpn [Hq _]]].
    exists (st_nonce (p_chain p) a), (pn_get p a). split; [exact Hpn|]. split; [exact Hrun|]. split; [exact Hq|]. reflexivity. }
  destruct (accounts_spec (p_queue q0)) as [Hnd Hacc].
  destruct (promote_fold (accounts (p_queue q0)) q0 Hnd Sq0) as [S1 [C1 [M1 [Q1 F1]]]]; [intros; apply Wq0|].
  cbn zeta in *. set (q1 := promote_executables q0 (accounts (p_queue q0))) in *.
  assert (Mq1 : forall a, M q1 a).
  { intros a. destruct (in_dec N.eq_dec a (accounts (p_queue q0))) as [Hin|Hnin]; [auto|].
    apply W_noqueue_M; [apply F1; auto|]. intros t Ht Hs. apply Hnin. apply Hacc. exists t. split; auto. }
  assert (Hch1 : p_chain q1 = ch) by (rewrite C1; reflexivity).
  destruct (accounts_spec (p_pending q1)) as [Hnd1 Hacc1].
  assert (Dstart : forall b, ~ In b (accounts (p_pending q1)) -> D q1 b).
  { intros b Hb. destruct (Mq1 b) as [f0 [top [Hf0 [Hrun Hq]]]].
    exists (st_nonce (p_chain q1) b). split; [lia|]. split; [|split].
    - intros n. split; [|lia]. intros [t [Ht [Hs _]]]. exfalso. apply Hb. apply Hacc1. eauto.
    - intros t Ht Hs. apply Hq; auto.
    - intros t Ht Hs. exfalso. apply Hb. apply Hacc1. eauto. }
  destruct (demote_fold (accounts (p_pending q1)) q1 Hnd1 S1) as [S2 [C2 [D2 F2]]]; auto.
  { intros a. rewrite Hch1. apply Hnn. }
  cbn zeta in *. fold (demote_unexecutables q1) in *. set (q2 := demote_unexecutables q1) in *.
  assert (Dq2 : forall a, D q2 a).
  { intros a. destruct (in_dec N.eq_dec a (accounts (p_pending q1))) as [Hin|Hnin]; [auto|]. apply F2; auto. }
  set (q3 := set_nonces q2 (map (fun a => (a, max_nonce (of_acct a (p_pending q2)) + 1)) (accounts (p_pending q2)))).
  assert (I3 : Inv q3).
  { apply Inv_split. split; [eapply Struct_ext; [| | |exact S2]; reflexivity|].
    intros a. destruct (Dq2 a) as [x [Hx [Hrun [Hq Haff]]]].
    destruct (accounts_spec (p_pending q2)) as [_ Hacc2].
    assert (Hpn : pn_get q3 a = x).
    { unfold pn_get, q3. cbn [p_nonces p_chain set_nonces]. rewrite lookupZ_map.
      destruct (memN a (accounts (p_pending q2))) eqn:Em.
      - apply memN_In in Em. apply Hacc2 in Em. destruct Em as [t [Ht Hs]].
        set (l := of_acct a (p_pending q2)).
        assert (Hl : forall u, In u l <-> In u (p_pending q2) /\ sender u = a).
        { intros u. unfold l, of_acct. rewrite filter_In, is_acct_true. tauto. }
        assert (Hlne : l <> []) by (intros E; assert (In t l) by (apply Hl; auto); rewrite E in H; destruct H).
        assert (Hs0 : 0 <= st_nonce (p_chain q2) a) by (rewrite C2, Hch1; apply Hnn).
        destruct (max_nonce_attained l Hlne) as [y [Hy Hym]].
        { intros u Hu. apply Hl in Hu. destruct Hu as [Hu Hus].
          assert (st_nonce (p_chain q2) a <= t_nonce u < x) by (apply Hrun; exists u; auto). lia. }
        apply Hl in Hy. destruct Hy as [Hy Hys].
        assert (st_nonce (p_chain q2) a <= t_nonce y < x) by (apply Hrun; exists y; auto).
        destruct (proj2 (Hrun (x - 1))) as [u [Hu [Hus Hun]]]; [lia|].
        assert (t_nonce u <= max_nonce l) by (apply max_nonce_ge; apply Hl; auto).
        f_equal. lia.
      - assert (Hno : forall n, ~ has (p_pending q2) a n).
        { intros n [t [Ht [Hs _]]]. assert (In a (accounts (p_pending q2))) by (apply Hacc2; eauto).
          apply memN_In in H. congruence. }
        specialize (Hno (st_nonce (p_chain q2) a)). rewrite Hrun in Hno. unfold q3. cbn [p_chain set_nonces]. lia. }
    unfold AcctInv. rewrite Hpn. unfold q3 at 1 2 3 4. cbn [p_chain p_pending p_queue set_nonces].
    split; [exact Hrun|]. split; [exact Hx|]. split; [exact Hq|]. exact Haff. }
  exact I3.
Qed.

Theorem inv_reset c p ch : Inv p -> chain_nonneg ch -> Inv (run_reorg c p (Some (ch, [])) []).
Proof.
  intros I Hnn. rewrite run_reorg_reset_eq.
  eapply Inv_core with (p := truncate_queue (o3 c) (truncate_pending (o2 c) (reset_core c p ch))); [reflexivity|].
  apply inv_truncate_queue. apply inv_truncate_pending. apply inv_reset_core; auto.
Qed.
