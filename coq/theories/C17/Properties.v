(** C17 — property theorems only.  Each is closed by [exact] of a lemma proved in Proofs*.v and
    followed by [Print Assumptions]. *)
From Coq Require Import List ZArith NArith Bool.
From Kardia Require Import Generated.C17Facts C17.Model C17.ProofsBasic C17.ProofsInv C17.ProofsOps
     C17.ProofsReset C17.ProofsFinal C17.ProofsLimits C17.ProofsReinject C17.ProofsLocals C17.ProofsLocalFlag C17.ProofsQueueCap C17.ProofsPendingLimit C17.SourceTie.
Import ListNotations.
Local Open Scope Z_scope.

(** Every operation (AddLocals/AddRemotes batch, head reset, SetGasPrice, lifetime expiry, journal
    reload), under every resolution [c] of the heap/map-order choices, preserves the invariant.
    _partial: the invariant [Inv] covers gap-free pending runs from the state nonce, affordability,
    gas limit, disjointness, index = disjoint union, no stale nonces, Nonce(); it does NOT include
    the slot limits (separate theorems: C17_pending_limit_after_reorg_partial,
    C17_queue_limit_after_reorg_partial, C17_account_queue_cap; the locals clauses are
    C17_local_flag_every_history / C17_price_eviction_spares_locals / C17_setprice_spares_locals);
    a reset is covered without reinjected (reorged-out) transactions and for non-negative account
    nonces ([op_ok]) - with reinjection the statement is FALSE: C17_reset_with_reinjection_refuted. *)
Theorem C17_inv_preserved_partial :
  forall c p o, Inv p -> op_ok o -> Inv (fst (step c p o)).
Proof. exact inv_step. Qed.
Print Assumptions C17_inv_preserved_partial.

(** ... hence for every history from pool creation (with any journal content), unbounded. *)
Theorem C17_inv_every_history_partial :
  forall c0 cfg ch file cs ops, Forall op_ok ops -> Inv (run cs (new_pool c0 cfg ch file) ops).
Proof. exact inv_history. Qed.
Print Assumptions C17_inv_every_history_partial.

(** What [Inv] says, in the words of the property. *)
Theorem C17_inv_meaning :
  forall p, Inv p ->
  (forall t, In t (p_pending p) -> forall n, st_nonce (p_chain p) (sender t) <= n <= t_nonce t ->
             exists t', In t' (p_pending p) /\ sender t' = sender t /\ t_nonce t' = n) /\
  (forall t, In t (p_pending p) -> st_nonce (p_chain p) (sender t) <= t_nonce t) /\
  (forall t, In t (p_pending p) -> t_price t * t_gas t + t_value t <= st_balance (p_chain p) (sender t) /\
                                   t_gas t <= ch_gaslimit (p_chain p)) /\
  NoDup (map key (p_pending p)) /\ NoDup (map key (p_queue p)) /\
  (forall t t', In t (p_pending p) -> In t' (p_queue p) -> key t <> key t' /\ t <> t') /\
  (forall t, In t (map fst (p_all p)) <-> In t (p_pending p) \/ In t (p_queue p)) /\
  NoDup (map t_id (map fst (p_all p))) /\
  (forall t, In t (p_queue p) -> st_nonce (p_chain p) (sender t) <= t_nonce t) /\
  (forall a n, (exists t, In t (p_pending p) /\ sender t = a /\ t_nonce t = n) <-> st_nonce (p_chain p) a <= n < pn_get p a).
Proof. exact inv_meaning. Qed.
Print Assumptions C17_inv_meaning.

(** txList.Add: a same-nonce replacement is accepted only with a strictly higher price that also
    reaches old*(100+bump)/100. *)
Theorem C17_replace_rule :
  forall l t bump old l', 0 <= bump -> l_add l t bump = (true, Some old, l') ->
  key old = key t /\ In old l /\ t_price old < t_price t /\ ((100 + bump) * t_price old) / 100 <= t_price t.
Proof. exact l_add_replace_rule. Qed.
Print Assumptions C17_replace_rule.

(** ... and at pool level whenever the pool-full branch of add is not taken. *)
Theorem C17_replace_rule_pool_partial :
  forall o p t l p' r, Inv p -> add o p t l = (p', r, EOk) -> ~ pool_full p t -> 0 <= c_price_bump (p_cfg p) ->
  forall old, In old (p_pending p) \/ In old (p_queue p) -> key old = key t ->
              t_price old < t_price t /\ ((100 + c_price_bump (p_cfg p)) * t_price old) / 100 <= t_price t.
Proof. exact add_replace_rule. Qed.
Print Assumptions C17_replace_rule_pool_partial.

(** When the pool is full the rule is bypassed: the same-nonce old tx, being the cheapest remote, is
    evicted by the pool-full branch and the new one enters with a 1% bump (PriceBump = 10). *)
Theorem C17_replace_rule_pool_refuted :
  Inv ex_q0 /\ pool_full ex_q0 ex_tx4 /\
  snd (add_txs ex_c0 ex_q0 [ex_tx4] false) = [EOk] /\
  In ex_tx2 (p_pending ex_q0) /\ key ex_tx2 = key ex_tx4 /\
  map t_id (p_pending (fst (add_txs ex_c0 ex_q0 [ex_tx4] false))) = [4%N; 1%N] /\
  ~ ((100 + c_price_bump (p_cfg ex_q0)) * t_price ex_tx2 / 100 <= t_price ex_tx4).
Proof. exact replace_bypass_example. Qed.
Print Assumptions C17_replace_rule_pool_refuted.

(** A rejected add leaves the pool content unchanged on every error path except
    ErrReplaceUnderpriced after the pool-full branch has run. *)
Theorem C17_reject_unchanged_partial :
  forall o p t l p' r e,
  Inv p -> add o p t l = (p', r, e) -> e <> EOk -> (e = EReplace -> ~ pool_full p t) -> same_content p p'.
Proof. exact add_reject_unchanged. Qed.
Print Assumptions C17_reject_unchanged_partial.

(** ... and that exception is real: a reachable pool, an add rejected with ErrReplaceUnderpriced, and
    an unrelated pending transaction (id 1) gone. *)
Theorem C17_reject_unchanged_refuted :
  Inv ex_p0 /\ pool_full ex_p0 ex_tx3 /\
  snd (add_txs ex_c0 ex_p0 [ex_tx3] false) = [EReplace] /\
  map t_id (p_pending ex_p0) = [2%N; 1%N] /\
  map t_id (p_pending (fst (add_txs ex_c0 ex_p0 [ex_tx3] false))) = [2%N].
Proof. exact reject_changes_example. Qed.
Print Assumptions C17_reject_unchanged_refuted.

(** GlobalQueue: after every reorg run (the one that follows an add batch, and the one of a head
    reset) the queue is within GlobalQueue unless only local accounts still have queued transactions
    (the post-condition of truncateQueue).  _partial: without reinjected transactions at a reset (the
    GlobalSlots/AccountSlots half is C17_pending_limit_after_reorg_partial, the AccountQueue cap
    C17_account_queue_cap); SetGasPrice runs no reorg and
    can leave the queue over the limit (known finding). *)
Theorem C17_queue_limit_after_reorg_partial :
  forall c p,
  Inv p ->
  ((forall dirty, queue_ok (run_reorg c p None dirty)) /\
   (forall ch, chain_nonneg ch -> queue_ok (run_reorg c p (Some (ch, [])) [])))%type.
Proof. exact queue_limit. Qed.
Print Assumptions C17_queue_limit_after_reorg_partial.

(** A head reset WITH reinjection of reorged-out transactions does not preserve the invariant
    (refutes the statement kept open so far): sender 1 has state nonce 2 and nonce 2 pending, the
    price floor was raised to 5; the reorg brings the state nonce back to 0 and reinjects n0 (price
    10) and n1 (price 1).  n1 is rejected as underpriced, n0 is promoted below the still-pending
    nonce 2 and demoteUnexecutables only looks for a gap in front: pending = nonces {0, 2}.
    Go reproduction: corpus/C17/repro_reorg_gap (known finding pending-gap-reinject). *)
Theorem C17_reset_with_reinjection_refuted :
  Inv rx_p0 /\ chain_nonneg rx_chain_new /\
  map t_nonce (p_pending rx_p0) = [2] /\
  map (fun t => (sender t, t_nonce t)) (p_pending (run_reorg rx_c rx_p0 (Some (rx_chain_new, [rx_n0; rx_n1])) [])) = [(1%N, 0); (1%N, 2)] /\
  ~ Inv (run_reorg rx_c rx_p0 (Some (rx_chain_new, [rx_n0; rx_n1])) []).
Proof. exact reset_with_reinjection_refuted. Qed.
Print Assumptions C17_reset_with_reinjection_refuted.

(** Every transaction of a local account is flagged local in the index (txLookup.locals), after ANY
    history from pool creation - no side condition on the operations, resets with reinjected
    transactions included.  Together with the next two theorems: locals are exempt from price
    eviction. *)
Theorem C17_local_flag_every_history :
  forall c0 cfg ch file cs ops,
  let p := run cs (new_pool c0 cfg ch file) ops in
  forall t, In t (map fst (p_all p)) -> In (sender t) (p_locals p) -> In (t, true) (p_all p).
Proof. exact local_flag_every_history. Qed.
Print Assumptions C17_local_flag_every_history.

(** Locals are exempt from price eviction: the pool-full branch of add (priced.Discard + removeTx)
    never un-indexes a transaction flagged local, whatever error or success it ends with ... *)
Theorem C17_price_eviction_spares_locals :
  forall o p t l p1 oe, Inv p -> make_room o p t l = (p1, oe) ->
  forall x, In (x, true) (p_all p) -> In (x, true) (p_all p1).
Proof. exact make_room_spares_locals. Qed.
Print Assumptions C17_price_eviction_spares_locals.

(** ... and neither does SetGasPrice (priced.Cap + removeTx). *)
Theorem C17_setprice_spares_locals :
  forall c p price, Inv p -> forall x, In (x, true) (p_all p) -> In (x, true) (p_all (set_gas_price c p price)).
Proof. exact set_gas_price_spares_locals. Qed.
Print Assumptions C17_setprice_spares_locals.

(** AccountQueue: right after its own promotion run a non-local account holds at most AccountQueue
    queued transactions.  The side condition 0 <= AccountQueue holds for every pool the model builds
    (NewTxPool sanitizes the configuration: second conjunct). *)
Theorem C17_account_queue_cap :
  (forall p a, Inv p -> ~ In a (p_locals p) -> 0 <= c_aqueue (p_cfg p) ->
               l_len (p_queue (promote_account p a)) a <= c_aqueue (p_cfg p)) /\
  (forall c, 1 <= c_aqueue (sanitize c)).
Proof. split; [exact account_queue_cap|exact sanitize_aqueue]. Qed.
Print Assumptions C17_account_queue_cap.

(** GlobalSlots / AccountSlots: after every reorg run (the one that follows an add batch, and the one
    of a head reset) the pool holds at most GlobalSlots pending transactions unless every non-local
    account is within AccountSlots (the post-condition of truncatePending; truncateQueue, which runs
    after it, never grows a pending list).  The side condition 0 <= AccountSlots holds for every pool
    the model builds (sanitize: third conjunct).  _partial: a head reset is covered without
    reinjected transactions (with them the invariant the proof rests on fails:
    C17_reset_with_reinjection_refuted); SetGasPrice and the expiry loop run no reorg. *)
Theorem C17_pending_limit_after_reorg_partial :
  (forall c p dirty, Inv p -> 0 <= c_aslots (p_cfg p) -> pending_ok (run_reorg c p None dirty)) /\
  (forall c p ch, Inv p -> chain_nonneg ch -> 0 <= c_aslots (p_cfg p) -> pending_ok (run_reorg c p (Some (ch, [])) [])) /\
  (forall c, 1 <= c_aslots (sanitize c)).
Proof. split; [exact pending_limit_after_reorg|split; [exact pending_limit_after_reset|exact sanitize_aslots]]. Qed.
Print Assumptions C17_pending_limit_after_reorg_partial.

(** ... where [pending_ok] reads: *)
Theorem C17_pending_ok_meaning :
  forall q, pending_ok q <->
  (Z.of_nat (length (p_pending q)) <= c_gslots (p_cfg q) \/
   forall a, ~ In a (p_locals q) -> l_len (p_pending q) a <= c_aslots (p_cfg q)).
Proof. intros q. reflexivity. Qed.
Print Assumptions C17_pending_ok_meaning.

(** Source tie: the guards and arithmetic of the model are the expressions /verif/go2coq regenerates
    from the Go sources of mainchain/tx_pool on every check (Generated/C17Source.v): validateTx in
    source order, IntrinsicGas with its uint64 overflow guards, the replacement guard of txList.Add,
    the predicates of Filter/Forward/Cap/Ready/Remove, the price-heap tie order, txPricedList
    Removed/Cap/Underpriced/Discard, the pool-full branch of add, journalTx, setIfLower, SetGasPrice,
    the demotion gap test, the truncation loops, the reorg nonce/fork arithmetic, the reorg depth
    limit and the lifetime test; operands pinned by the _atoms equalities. *)
Theorem C17_source_tie : C17_source_tie_statement.
Proof. exact C17_source_tie_proof. Qed.
Print Assumptions C17_source_tie.

(** The decision-critical functions of the anchored code have exactly the decisions the source tie knows about
    (go2coq manifests, regenerated from /repo on every check; statement in SourceManifest.v). *)
From Kardia Require Import C17.SourceManifest.
Theorem C17_source_manifest : C17_source_manifest_statement.
Proof. exact C17_source_manifest_proof. Qed.
Print Assumptions C17_source_manifest.
