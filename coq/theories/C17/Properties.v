(** C17 — property theorems only.  Each is closed by [exact] of a lemma proved in Proofs*.v and
    followed by [Print Assumptions]. *)
From Coq Require Import List ZArith NArith Bool.
From Kardia Require Import Generated.C17Facts C17.Model C17.ProofsBasic C17.ProofsInv C17.ProofsOps
     C17.ProofsReset C17.ProofsFinal C17.ProofsLimits.
Import ListNotations.
Local Open Scope Z_scope.

(** Every operation (AddLocals/AddRemotes batch, head reset, SetGasPrice, lifetime expiry, journal
    reload), under every resolution [c] of the heap/map-order choices, preserves the invariant.
    _partial: the invariant [Inv] covers gap-free pending runs from the state nonce, affordability,
    gas limit, disjointness, index = disjoint union, no stale nonces, Nonce(); it does NOT include
    the slot-limit / locals-exempt clauses (Open.v), and a reset is covered without reinjected
    (reorged-out) transactions and for non-negative account nonces ([op_ok]). *)
Theorem C17_inv_preserved_partial :
  forall c p o, Inv p -> op_ok o -> Inv (fst (step c p o)).
Proof. exact inv_step. Qed.
Print Assumptions C17_inv_preserved_partial.

(** ... hence for every history from pool creation (with any journal content), unbounded. *)
Theorem C17_inv_every_history_partial :
  forall c0 cfg ch file cs ops, Forall op_ok ops -> Inv (run cs (new_pool c0 cfg ch file) ops).
Proof. exact inv_history. Qed.
Print Assumptions C17_inv_every_history_partial.

(** What [Inv] says, in the words of the property. *)
Theorem C17_inv_meaning :
  forall p, Inv p ->
  (forall t, In t (p_pending p) -> forall n, st_nonce (p_chain p) (sender t) <= n <= t_nonce t ->
             exists t', In t' (p_pending p) /\ sender t' = sender t /\ t_nonce t' = n) /\
  (forall t, In t (p_pending p) -> st_nonce (p_chain p) (sender t) <= t_nonce t) /\
  (forall t, In t (p_pending p) -> t_price t * t_gas t + t_value t <= st_balance (p_chain p) (sender t) /\
                                   t_gas t <= ch_gaslimit (p_chain p)) /\
  NoDup (map key (p_pending p)) /\ NoDup (map key (p_queue p)) /\
  (forall t t', In t (p_pending p) -> In t' (p_queue p) -> key t <> key t' /\ t <> t') /\
  (forall t, In t (map fst (p_all p)) <-> In t (p_pending p) \/ In t (p_queue p)) /\
  NoDup (map t_id (map fst (p_all p))) /\
  (forall t, In t (p_queue p) -> st_nonce (p_chain p) (sender t) <= t_nonce t) /\
  (forall a n, (exists t, In t (p_pending p) /\ sender t = a /\ t_nonce t = n) <-> st_nonce (p_chain p) a <= n < pn_get p a).
Proof. exact inv_meaning. Qed.
Print Assumptions C17_inv_meaning.

(** txList.Add: a same-nonce replacement is accepted only with a strictly higher price that also
    reaches old*(100+bump)/100. *)
Theorem C17_replace_rule :
  forall l t bump old l', 0 <= bump -> l_add l t bump = (true, Some old, l') ->
  key old = key t /\ In old l /\ t_price old < t_price t /\ ((100 + bump) * t_price old) / 100 <= t_price t.
Proof. exact l_add_replace_rule. Qed.
Print Assumptions C17_replace_rule.

(** ... and at pool level whenever the pool-full branch of add is not taken. *)
Theorem C17_replace_rule_pool_partial :
  forall o p t l p' r, Inv p -> add o p t l = (p', r, EOk) -> ~ pool_full p t -> 0 <= c_price_bump (p_cfg p) ->
  forall old, In old (p_pending p) \/ In old (p_queue p) -> key old = key t ->
              t_price old < t_price t /\ ((100 + c_price_bump (p_cfg p)) * t_price old) / 100 <= t_price t.
Proof. exact add_replace_rule. Qed.
Print Assumptions C17_replace_rule_pool_partial.

(** When the pool is full the rule is bypassed: the same-nonce old tx, being the cheapest remote, is
    evicted by the pool-full branch and the new one enters with a 1% bump (PriceBump = 10). *)
Theorem C17_replace_rule_pool_refuted :
  Inv ex_q0 /\ pool_full ex_q0 ex_tx4 /\
  snd (add_txs ex_c0 ex_q0 [ex_tx4] false) = [EOk] /\
  In ex_tx2 (p_pending ex_q0) /\ key ex_tx2 = key ex_tx4 /\
  map t_id (p_pending (fst (add_txs ex_c0 ex_q0 [ex_tx4] false))) = [4%N; 1%N] /\
  ~ ((100 + c_price_bump (p_cfg ex_q0)) * t_price ex_tx2 / 100 <= t_price ex_tx4).
Proof. exact replace_bypass_example. Qed.
Print Assumptions C17_replace_rule_pool_refuted.

(** A rejected add leaves the pool content unchanged on every error path except
    ErrReplaceUnderpriced after the pool-full branch has run. *)
Theorem C17_reject_unchanged_partial :
  forall o p t l p' r e,
  Inv p -> add o p t l = (p', r, e) -> e <> EOk -> (e = EReplace -> ~ pool_full p t) -> same_content p p'.
Proof. exact add_reject_unchanged. Qed.
Print Assumptions C17_reject_unchanged_partial.

(** ... and that exception is real: a reachable pool, an add rejected with ErrReplaceUnderpriced, and
    an unrelated pending transaction (id 1) gone. *)
Theorem C17_reject_unchanged_refuted :
  Inv ex_p0 /\ pool_full ex_p0 ex_tx3 /\
  snd (add_txs ex_c0 ex_p0 [ex_tx3] false) = [EReplace] /\
  map t_id (p_pending ex_p0) = [2%N; 1%N] /\
  map t_id (p_pending (fst (add_txs ex_c0 ex_p0 [ex_tx3] false))) = [2%N].
Proof. exact reject_changes_example. Qed.
Print Assumptions C17_reject_unchanged_refuted.

(** GlobalQueue: after every reorg run (the one that follows an add batch, and the one of a head
    reset) the queue is within GlobalQueue unless only local accounts still have queued transactions
    (the post-condition of truncateQueue).  _partial: the GlobalSlots/AccountSlots post-condition of
    truncatePending and the AccountQueue cap are not proved (Open.v); SetGasPrice runs no reorg and
    can leave the queue over the limit (known finding). *)
Theorem C17_queue_limit_after_reorg_partial :
  forall c p,
  Inv p ->
  ((forall dirty, queue_ok (run_reorg c p None dirty)) /\
   (forall ch, chain_nonneg ch -> queue_ok (run_reorg c p (Some (ch, [])) [])))%type.
Proof. exact queue_limit. Qed.
Print Assumptions C17_queue_limit_after_reorg_partial.
