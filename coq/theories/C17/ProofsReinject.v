(** C17 — reset WITH reinjection of reorged-out transactions does not preserve the invariant:
    the Go reproduction corpus/C17/repro_reorg_gap in the model (computed witness).

    Sender 1 has state nonce 2 (its nonces 0 and 1 were mined in the block that is about to be
    reorged out) and a pending transaction at nonce 2; the operator has raised the price floor to 5.
    The reorg brings the state nonce back to 0 and reinjects n0 (price 10) and n1 (price 1): n1 is
    rejected as underpriced, n0 is promoted below the still-pending nonce 2, and
    demoteUnexecutables only looks for a gap in front. *)
From Coq Require Import List ZArith NArith Bool Lia.
From Kardia Require Import Generated.C17Facts C17.Model C17.ProofsBasic C17.ProofsInv C17.ProofsReset C17.ProofsFinal.
Import ListNotations.
Local Open Scope Z_scope.

Definition rx_cfg : config := mkCfg 1 10 16 5120 64 1024 false false [].
Definition rx_chain_old : chain := mkChain [(1%N, 2)] [(1%N, 1000000000)] 10000000 1.
Definition rx_chain_new : chain := mkChain [(1%N, 0)] [(1%N, 1000000000)] 10000000 1.
Definition rx_c : choice := mkChoice [] [] [].
Definition rx_n0 : tx := mkTx 10 (Some 1%N) 0 10 100000 100 100 0 0 false.
Definition rx_n1 : tx := mkTx 11 (Some 1%N) 1 1 100000 100 100 0 0 false.
Definition rx_n2 : tx := mkTx 12 (Some 1%N) 2 10 100000 100 100 0 0 false.
(* NewTxPool; AddRemotesSync{n2}; SetGasPrice(5) *)
Definition rx_ops : list op := [OpAdd false [rx_n2]; OpSetPrice 5].
Definition rx_p0 : pool := run [] (new_pool rx_c rx_cfg rx_chain_old []) rx_ops.
Definition rx_p1 : pool := run_reorg rx_c rx_p0 (Some (rx_chain_new, [rx_n0; rx_n1])) [].

Lemma rx_inv_before : Inv rx_p0.
Proof. apply inv_history. repeat constructor. Qed.

Lemma rx_nonneg : chain_nonneg rx_chain_new.
Proof. intros a. unfold st_nonce, getZ, rx_chain_new. cbn [ch_nonces lookupZ]. destruct (N.eqb 1 a); lia. Qed.

Lemma rx_pending_before : map t_nonce (p_pending rx_p0) = [2] /\ p_gasprice rx_p0 = 5.
Proof. vm_compute. split; reflexivity. Qed.

Lemma rx_pending_after :
  map (fun t => (sender t, t_nonce t)) (p_pending rx_p1) = [(1%N, 0); (1%N, 2)] /\ p_queue rx_p1 = [] /\
  st_nonce (p_chain rx_p1) 1%N = 0.
Proof. vm_compute. repeat split. Qed.

Lemma rx_not_inv : ~ Inv rx_p1.
Proof.
  intros I.
  assert (H2 : st_nonce (p_chain rx_p1) 1%N <= 2 < pn_get rx_p1 1%N).
  { apply (inv_run _ _ I). exists rx_n2. vm_compute. split; [|split]; auto. }
  assert (H1 : exists t, In t (p_pending rx_p1) /\ sender t = 1%N /\ t_nonce t = 1).
  { apply (inv_run _ _ I). destruct rx_pending_after as [_ [_ Hs]]. rewrite Hs. lia. }
  destruct H1 as [t [Hin [_ Hn]]].
  assert (Hm : In (t_nonce t) (map t_nonce (p_pending rx_p1))) by (apply in_map; exact Hin).
  rewrite Hn in Hm. vm_compute in Hm. destruct Hm as [Hm|[Hm|[]]]; discriminate.
Qed.

Lemma reset_with_reinjection_refuted :
  Inv rx_p0 /\ chain_nonneg rx_chain_new /\
  map t_nonce (p_pending rx_p0) = [2] /\
  map (fun t => (sender t, t_nonce t)) (p_pending (run_reorg rx_c rx_p0 (Some (rx_chain_new, [rx_n0; rx_n1])) [])) = [(1%N, 0); (1%N, 2)] /\
  ~ Inv (run_reorg rx_c rx_p0 (Some (rx_chain_new, [rx_n0; rx_n1])) []).
Proof.
  split; [exact rx_inv_before|]. split; [exact rx_nonneg|]. split; [apply rx_pending_before|].
  split; [apply rx_pending_after|]. exact rx_not_inv.
Qed.
