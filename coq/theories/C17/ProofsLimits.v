(** C17 — the post-condition of truncateQueue: afterwards the queue is within GlobalQueue unless only
    local accounts still have queued transactions. *)
From Coq Require Import List ZArith NArith Bool Lia.
From Kardia Require Import Generated.C17Facts C17.Model C17.ProofsBasic C17.ProofsInv C17.ProofsOps C17.ProofsReorg
     C17.ProofsPromote C17.ProofsStep C17.ProofsReset.
Import ListNotations.
Local Open Scope Z_scope.

Lemma remove_tx_queue p t b :
  Inv p -> In t (p_queue p) ->
  let p' := remove_tx p (t_id t) b in
  p_queue p' = l_del (p_queue p) (sender t) (t_nonce t) /\ p_locals p' = p_locals p /\ p_cfg p' = p_cfg p.
Proof.
  intros I Hq. cbn zeta. unfold remove_tx.
  assert (Hall : In t (map fst (p_all p))) by (apply (inv_idx _ p I); auto).
  destruct (all_get (p_all p) (t_id t)) as [t'|] eqn:Eg.
  2:{ exfalso. eapply (all_get_none _ _ Eg t); auto. }
  apply all_get_some in Eg. destruct Eg as [Hin' Hid].
  assert (t' = t) by (eapply (inv_id_inj _ p I); eauto). subst t'.
  set (p1 := set_all p (all_remove (p_all p) (t_id t))).
  set (p2 := if b then priced_removed p1 1 else p1).
  assert (H2 : p_pending p2 = p_pending p /\ p_queue p2 = p_queue p /\ p_locals p2 = p_locals p /\ p_cfg p2 = p_cfg p).
  { subst p2. destruct b; [unfold priced_removed, reheap; destruct (_ <=? _)|]; cbn; auto. }
  destruct H2 as [A1 [A2 [A3 A4]]].
  unfold l_remove. rewrite A1, (inv_queue_not_pending _ p I t Hq), A2, (l_get_in_nodup _ _ (inv_kq _ p I) Hq).
  cbn [p_queue p_locals p_cfg set_queue]. auto.
Qed.

Lemma l_del_length l t : NoDup (map key l) -> In t l -> S (length (l_del l (sender t) (t_nonce t))) = length l.
Proof.
  induction l as [|x l IH]; intros Hd Hin; [destruct Hin|].
  cbn [map] in Hd. apply NoDup_cons_iff in Hd. destruct Hd as [Hn Hd].
  unfold l_del. cbn [filter]. destruct (same_slot (sender t) (t_nonce t) x) eqn:E; cbn [negb length].
  - apply same_slot_key in E. f_equal.
    (* nothing else in l has that key *)
    assert (Hall : forall y, In y l -> negb (same_slot (sender t) (t_nonce t) y) = true).
    { intros y Hy. apply negb_true_iff. destruct (same_slot (sender t) (t_nonce t) y) eqn:Ey; auto.
      apply same_slot_key in Ey. exfalso. apply Hn. rewrite E, <- Ey. apply in_map. auto. }
    clear -Hall. induction l as [|y l IH]; cbn [filter]; auto. rewrite (Hall y (or_introl eq_refl)). cbn. f_equal.
    apply IH. intros z Hz. apply Hall. cbn. auto.
  - destruct Hin as [->|Hin].
    + exfalso. assert (same_slot (sender t) (t_nonce t) t = true) by (apply same_slot_key; reflexivity). congruence.
    + f_equal. apply IH; auto.
Qed.

(* removing a list of queued transactions with distinct slots *)
Lemma remove_txs_queue L : forall p,
  Inv p -> NoDup (map key L) -> (forall t, In t L -> In t (p_queue p)) ->
  let p' := remove_txs p L true in
  Inv p' /\ p_locals p' = p_locals p /\ p_cfg p' = p_cfg p /\
  (length (p_queue p') + length L = length (p_queue p))%nat /\
  (forall x, In x (p_queue p') <-> In x (p_queue p) /\ ~ In (key x) (map key L)).
Proof.
  unfold remove_txs. induction L as [|t L IH]; intros p I Hd Hin; cbn zeta; cbn [fold_left].
  - split; auto. split; auto. split; auto. split; [cbn; lia|]. intros x. cbn. tauto.
  - cbn [map] in Hd. apply NoDup_cons_iff in Hd. destruct Hd as [Hn Hd].
    assert (Ht : In t (p_queue p)) by (apply Hin; cbn; auto).
    destruct (remove_tx_queue p t true I Ht) as [Q1 [Q2 Q3]]. cbn zeta in *.
    set (p1 := remove_tx p (t_id t) true) in *.
    assert (I1 : Inv p1) by (apply inv_remove_tx; auto).
    destruct (IH p1 I1 Hd) as [I2 [L2 [C2 [N2 E2]]]].
    { intros u Hu. rewrite Q1. apply l_del_In. split; [apply Hin; cbn; auto|].
      intros Hk. apply Hn. change (sender t, t_nonce t) with (key t) in Hk. rewrite <- Hk. apply in_map. auto. }
    cbn zeta in *. split; auto. split; [congruence|]. split; [congruence|]. split.
    + rewrite Q1 in N2. pose proof (l_del_length (p_queue p) t (inv_kq _ p I) Ht). cbn [length]. lia.
    + intros x. rewrite E2, Q1, l_del_In. cbn [map In]. change (sender t, t_nonce t) with (key t). split.
      * intros [[H1 H2] H3]. split; auto. intros [H|H]; [apply H2; auto|auto].
      * intros [H1 H2]. repeat split; auto.
Qed.

(* ---- Flatten *)

Lemma insert_nonce_In t l x : In x (insert_nonce t l) <-> x = t \/ In x l.
Proof.
  induction l as [|y l IH]; cbn [insert_nonce In]; [intuition|].
  destruct (t_nonce t <? t_nonce y); cbn [In]; [intuition|]. rewrite IH. intuition.
Qed.

Lemma insert_nonce_length t l : length (insert_nonce t l) = S (length l).
Proof.
  induction l as [|y l IH]; cbn [insert_nonce length]; auto.
  destruct (t_nonce t <? t_nonce y); cbn [length]; auto.
Qed.

Lemma insert_nonce_nodup t l : NoDup (map key l) -> ~ In (key t) (map key l) -> NoDup (map key (insert_nonce t l)).
Proof.
  induction l as [|y l IH]; intros Hd Hn; cbn [insert_nonce map].
  - constructor; auto.
  - destruct (t_nonce t <? t_nonce y); cbn [map].
    + constructor; auto.
    + cbn [map] in Hd, Hn. apply NoDup_cons_iff in Hd. destruct Hd as [Hy Hd]. constructor.
      * intros Hc. apply in_map_iff in Hc. destruct Hc as [z [Hk Hz]]. apply insert_nonce_In in Hz.
        destruct Hz as [->|Hz]; [apply Hn; cbn; auto|]. apply Hy. rewrite <- Hk. apply in_map. auto.
      * apply IH; auto. intros Hc. apply Hn. cbn. auto.
Qed.

Lemma flatten_spec l a :
  NoDup (map key l) ->
  (forall x, In x (flatten l a) <-> In x l /\ sender x = a) /\ NoDup (map key (flatten l a)).
Proof.
  intros Hd. unfold flatten, of_acct.
  assert (H : forall m, NoDup (map key m) ->
              (forall x, In x (fold_right insert_nonce [] m) <-> In x m) /\ NoDup (map key (fold_right insert_nonce [] m))).
  { induction m as [|y m IH]; intros Hm; cbn [fold_right].
    - split; [tauto|constructor].
    - cbn [map] in Hm. apply NoDup_cons_iff in Hm. destruct Hm as [Hy Hm]. destruct (IH Hm) as [H1 H2]. split.
      + intros x. rewrite insert_nonce_In, H1. cbn. intuition.
      + apply insert_nonce_nodup; auto. intros Hc. apply Hy. apply in_map_iff in Hc. destruct Hc as [z [Hk Hz]].
        apply H1 in Hz. rewrite <- Hk. apply in_map. auto. }
  destruct (H (filter (is_acct a) l)) as [H1 H2]; [apply NoDup_map_filter; auto|]. split; auto.
  intros x. rewrite H1, filter_In, is_acct_true. tauto.
Qed.

(* ---- the two ways truncateQueue removes transactions *)

Lemma drop_last_few_spec fuel : forall txs p d,
  Inv p -> NoDup (map key txs) -> (forall t, In t txs -> In t (p_queue p)) ->
  0 <= d <= Z.of_nat (length txs) -> (length txs <= fuel)%nat ->
  let r := drop_last_few fuel p txs d in
  Inv (fst r) /\ p_locals (fst r) = p_locals p /\ p_cfg (fst r) = p_cfg p /\ snd r = 0 /\
  Z.of_nat (length (p_queue (fst r))) = Z.of_nat (length (p_queue p)) - d.
Proof.
  induction fuel as [|f IH]; intros txs p d I Hd Hin Hr Hf; cbn zeta.
  - destruct txs; [|cbn in Hf; lia]. cbn [drop_last_few fst snd]. cbn in Hr.
    split; [exact I|]. split; [reflexivity|]. split; [reflexivity|]. split; lia.
  - destruct txs as [|t r]; cbn [drop_last_few].
    + cbn in Hr. cbn [fst snd]. split; [exact I|]. split; [reflexivity|]. split; [reflexivity|]. split; lia.
    + destruct (0 <? d) eqn:E.
      * apply Z.ltb_lt in E. cbn [map] in Hd. apply NoDup_cons_iff in Hd. destruct Hd as [Hn Hd].
        assert (Ht : In t (p_queue p)) by (apply Hin; cbn; auto).
        destruct (remove_tx_queue p t true I Ht) as [Q1 [Q2 Q3]]. cbn zeta in *.
        destruct (IH r (remove_tx p (t_id t) true) (d - 1)) as [J1 [J2 [J3 [J4 J5]]]].
        { apply inv_remove_tx; auto. }
        { auto. }
        { intros u Hu. rewrite Q1. apply l_del_In. split; [apply Hin; cbn; auto|].
          intros Hk. apply Hn. change (sender t, t_nonce t) with (key t) in Hk. rewrite <- Hk. apply in_map. auto. }
        { cbn [length] in Hr. lia. }
        { cbn [length] in Hf. lia. }
        cbn zeta in *. split; auto. split; [congruence|]. split; [congruence|]. split; auto.
        rewrite J5, Q1. pose proof (l_del_length (p_queue p) t (inv_kq _ p I) Ht). lia.
      * apply Z.ltb_ge in E. cbn [fst snd]. split; [exact I|]. split; [reflexivity|]. split; [reflexivity|]. split; lia.
Qed.

Lemma loop_done addrs p d : d <= 0 -> truncate_queue_loop p addrs d = p.
Proof. intros H. destruct addrs; cbn [truncate_queue_loop]; auto. destruct (0 <? d) eqn:E; auto. apply Z.ltb_lt in E. lia. Qed.

Definition queue_ok (p : pool) : Prop :=
  Z.of_nat (length (p_queue p)) <= c_gqueue (p_cfg p) \/ forall t, In t (p_queue p) -> In (sender t) (p_locals p).

Lemma truncate_queue_loop_post addrs : forall p drop,
  Inv p -> drop = Z.of_nat (length (p_queue p)) - c_gqueue (p_cfg p) ->
  (forall t, In t (p_queue p) -> ~ In (sender t) (p_locals p) -> In (sender t) addrs) ->
  queue_ok (truncate_queue_loop p addrs drop).
Proof.
  induction addrs as [|a rest IH]; intros p drop I Hdrop Hcov; cbn [truncate_queue_loop].
  - right. intros t Ht. destruct (in_dec N.eq_dec (sender t) (p_locals p)); auto. exfalso. eapply Hcov; eauto.
  - destruct (0 <? drop) eqn:E.
    2:{ apply Z.ltb_ge in E. left. lia. }
    apply Z.ltb_lt in E.
    destruct (flatten_spec (p_queue p) a (inv_kq _ p I)) as [F1 F2].
    set (txs := flatten (p_queue p) a) in *.
    destruct (Z.of_nat (length txs) <=? drop) eqn:Es.
    + apply Z.leb_le in Es.
      destruct (remove_txs_queue txs p I F2) as [I1 [L1 [C1 [N1 E1]]]]; [intros t Ht; apply F1; auto|].
      cbn zeta in *. apply IH; auto.
      * rewrite C1. lia.
      * intros t Ht Hnl. apply E1 in Ht. destruct Ht as [Ht Hk]. rewrite L1 in Hnl.
        destruct (Hcov t Ht Hnl) as [Ha|Hr]; auto.
        exfalso. apply Hk. apply in_map. apply F1. auto.
    + apply Z.leb_gt in Es.
      destruct (drop_last_few_spec (length txs) (rev txs) p drop I) as [J1 [J2 [J3 [J4 J5]]]].
      { rewrite map_rev. apply NoDup_rev. auto. }
      { intros t Ht. apply in_rev in Ht. apply F1. auto. }
      { rewrite rev_length. lia. }
      { rewrite rev_length. lia. }
      cbn zeta in *. destruct (drop_last_few (length txs) p (rev txs) drop) as [p1 d1]. cbn [fst snd] in *.
      subst d1. rewrite loop_done by lia. left. rewrite J3. lia.
Qed.

Lemma truncate_queue_post o p : Inv p -> queue_ok (truncate_queue o p).
Proof.
  intros I. unfold truncate_queue. destruct (_ <=? _) eqn:E.
  - apply Z.leb_le in E. left. exact E.
  - apply truncate_queue_loop_post; auto.
    intros t Ht Hnl. destruct (accounts_spec (p_queue p)) as [_ Hacc].
    assert (Hqa : In (sender t) (accounts (p_queue p))) by (apply Hacc; eauto).
    assert (Hl : memN (sender t) (p_locals p) = false).
    { destruct (memN (sender t) (p_locals p)) eqn:Em; auto. apply memN_In in Em. contradiction. }
    apply in_app_iff. destruct (memN (sender t) o) eqn:Eo.
    + left. apply filter_In. split; [apply memN_In; auto|]. rewrite Hl. cbn. rewrite andb_true_r. apply memN_In. auto.
    + right. apply filter_In. split; auto. rewrite Eo, Hl. reflexivity.
Qed.

(* after every reorg run the queue is within GlobalQueue unless only local accounts are still queued *)
Lemma queue_limit_after_reorg c p dirty : Inv p -> queue_ok (run_reorg c p None dirty).
Proof.
  intros I. unfold run_reorg.
  assert (H : queue_ok (truncate_queue (o3 c) (truncate_pending (o2 c) (promote_executables p dirty)))).
  { apply truncate_queue_post. apply inv_truncate_pending. apply inv_promote_executables. auto. }
  exact H.
Qed.

Lemma queue_limit_after_reset c p ch : Inv p -> chain_nonneg ch -> queue_ok (run_reorg c p (Some (ch, [])) []).
Proof.
  intros I Hnn. rewrite run_reorg_reset_eq.
  assert (H : queue_ok (truncate_queue (o3 c) (truncate_pending (o2 c) (reset_core c p ch)))).
  { apply truncate_queue_post. apply inv_truncate_pending. apply inv_reset_core; auto. }
  exact H.
Qed.

Lemma queue_limit c p :
  Inv p ->
  ((forall dirty, queue_ok (run_reorg c p None dirty)) /\
   (forall ch, chain_nonneg ch -> queue_ok (run_reorg c p (Some (ch, [])) [])))%type.
Proof.
  intros I. split.
  - intros dirty. exact (queue_limit_after_reorg c p dirty I).
  - intros ch Hnn. exact (queue_limit_after_reset c p ch I Hnn).
Qed.
