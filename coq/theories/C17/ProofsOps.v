(** C17 — preservation of the invariant by removeTx, enqueueTx, add and the queue filters. *)
From Coq Require Import List ZArith NArith Bool Lia.
From Kardia Require Import Generated.C17Facts C17.Model C17.ProofsBasic C17.ProofsInv.
Import ListNotations.
Local Open Scope Z_scope.

(* ---- enqueueTx of transactions that left the pending list (addAll = false) *)

Lemma enqueue_fresh p t :
  (forall x, In x (p_queue p) -> key x <> key t) ->
  fst (fst (enqueue_tx p t false false)) = set_queue p (l_put (p_queue p) t).
Proof.
  intros Hf. unfold enqueue_tx.
  pose proof (l_add_cases (p_queue p) t (c_price_bump (p_cfg p))) as Hc.
  destruct (l_get (p_queue p) (sender t) (t_nonce t)) eqn:E.
  - apply l_get_some in E. destruct E as [Hin Hk]. exfalso. apply (Hf t0 Hin). exact Hk.
  - rewrite Hc. reflexivity.
Qed.

Lemma enqueue_all_spec l : forall p,
  NoDup (map key l) ->
  (forall t, In t l -> forall x, In x (p_queue p) -> key x <> key t) ->
  let p' := enqueue_all p l in
  p_chain p' = p_chain p /\ p_pending p' = p_pending p /\ p_all p' = p_all p /\ p_nonces p' = p_nonces p /\
  (forall x, In x (p_queue p') <-> In x l \/ In x (p_queue p)) /\
  (NoDup (map key (p_queue p)) -> NoDup (map key (p_queue p'))).
Proof.
  induction l as [|t l IH]; intros p Hd Hf; cbn zeta.
  - unfold enqueue_all. cbn [fold_left In]. repeat split; auto; tauto.
  - unfold enqueue_all. cbn [fold_left]. fold (enqueue_all (fst (fst (enqueue_tx p t false false))) l).
    rewrite enqueue_fresh by (apply Hf; cbn; auto).
    inversion Hd as [|? ? Hn Hd']; subst.
    specialize (IH (set_queue p (l_put (p_queue p) t)) Hd').
    cbn zeta in IH. cbn [p_queue set_queue p_chain p_pending p_all p_nonces] in IH.
    destruct IH as [H1 [H2 [H3 [H4 [H5 H6]]]]].
    { intros u Hu x Hx. apply l_put_In in Hx. destruct Hx as [-> |[Hx _]].
      - intros Hk. apply Hn. rewrite Hk. apply in_map. auto.
      - apply Hf; cbn; auto. }
    repeat split; auto.
    + intros Hx. apply H5 in Hx. destruct Hx as [Hx|Hx]; [left; right; auto|].
      apply l_put_In in Hx. destruct Hx as [-> |[Hx _]]; [left; left; auto|right; auto].
    + intros [[-> |Hx]|Hx]; apply H5.
      * right. apply l_put_In. auto.
      * left. auto.
      * right. apply l_put_In. right. split; auto. apply Hf; cbn; auto.
    + intros Hq. apply H6. apply l_put_nodup. auto.
Qed.

(* ---- removing transactions from the queue (and from the index) *)

Lemma invo_shrink_queue out p p' :
  InvO out p -> p_chain p' = p_chain p -> p_pending p' = p_pending p -> p_nonces p' = p_nonces p ->
  (forall t, In t (p_queue p') -> In t (p_queue p)) -> NoDup (map key (p_queue p')) ->
  (forall t, In t (map fst (p_all p')) <-> In t (p_pending p') \/ In t (p_queue p') \/ In t out) ->
  NoDup (map t_id (map fst (p_all p'))) -> InvO out p'.
Proof.
  intros I Hc Hp Hn Hq Hkq Hidx Hids.
  assert (Hpn : forall x, pn_get p' x = pn_get p x) by (intros x; unfold pn_get; rewrite Hc, Hn; reflexivity).
  destruct I as [a b c d e f g h].
  constructor; auto; rewrite ?Hc, ?Hp; auto.
  - intros x n. rewrite Hpn. apply e.
  - intros x. rewrite Hpn. apply f.
  - intros t Ht. rewrite Hpn. apply g. auto.
Qed.

(* dropping the queue entries selected by [g], un-indexing them *)
Lemma inv_filter_queue p g :
  Inv p ->
  Inv (set_all (set_queue p (filter (fun t => negb (g t)) (p_queue p)))
               (all_remove_list (p_all p) (filter g (p_queue p)))).
Proof.
  intros I. eapply invo_shrink_queue; eauto; cbn [p_chain p_pending p_nonces p_queue p_all set_all set_queue].
  - intros t Ht. apply filter_In in Ht. tauto.
  - apply NoDup_map_filter. apply (inv_kq _ p I).
  - intros t. rewrite all_remove_list_In, (inv_idx _ p I), !filter_In. cbn [In].
    split.
    + intros [[H|[H|[]]] Hn]; auto. right. left. split; auto.
      destruct (g t) eqn:E; auto. exfalso. apply Hn. apply in_map. apply filter_In. auto.
    + intros [H|[[H Hg]|[]]].
      * split; auto. intros Hin. apply in_map_iff in Hin. destruct Hin as [x [Hid Hx]].
        apply filter_In in Hx. destruct Hx as [Hx _].
        assert (x = t).
        { eapply (inv_id_inj _ p I); auto; apply (inv_idx _ p I); auto. }
        subst x. eapply (inv_disjoint _ p I); eauto.
      * split; auto. intros Hin. apply in_map_iff in Hin. destruct Hin as [x [Hid Hx]].
        apply filter_In in Hx. destruct Hx as [Hx Hgx].
        assert (x = t).
        { eapply (inv_id_inj _ p I); auto; apply (inv_idx _ p I); auto. }
        subst x. rewrite Hgx in Hg. discriminate.
  - apply all_remove_list_ids. apply (inv_ids _ p I).
Qed.

(* ---- removeTx *)

Lemma inv_remove_tx p id b : Inv p -> Inv (remove_tx p id b).
Proof.
  intros I. unfold remove_tx.
  destruct (all_get (p_all p) id) as [t|] eqn:Eg; auto.
  apply all_get_some in Eg. destruct Eg as [Hall Hid].
  set (p1 := set_all p (all_remove (p_all p) id)).
  set (p2 := if b then priced_removed p1 1 else p1).
  assert (Hcore : core p2 = core p1) by (subst p2; destruct b; [apply core_priced_removed|reflexivity]).
  unfold core in Hcore. inversion Hcore as [[Hc Hp Hq Ha Hn]]. cbn [p1 p_chain p_pending p_queue p_all p_nonces set_all] in Hc, Hp, Hq, Ha, Hn.
  assert (Hpn2 : forall x, pn_get p2 x = pn_get p x) by (intros x; unfold pn_get; rewrite Hc, Hn; reflexivity).
  assert (Hlist : In t (p_pending p) \/ In t (p_queue p)).
  { apply (inv_idx _ p I) in Hall. cbn [In] in Hall. tauto. }
  unfold l_remove. rewrite Hp.
  destruct (l_get (p_pending p) (sender t) (t_nonce t)) as [t0|] eqn:Egp.
  - (* in pending *)
    assert (Hinp : In t (p_pending p)).
    { destruct Hlist as [H|H]; auto. rewrite (inv_queue_not_pending _ p I t H) in Egp. discriminate. }
    assert (t0 = t).
    { rewrite (l_get_in_nodup _ _ (inv_kp _ p I) Hinp) in Egp. congruence. }
    subst t0.
    set (a := sender t). set (n := t_nonce t).
    set (inval := filter (fun x => is_acct a x && (n <? t_nonce x)) (l_del (p_pending p) a n)).
    set (rest := filter (fun x => negb (is_acct a x && (n <? t_nonce x))) (l_del (p_pending p) a n)).
    assert (Hrun : st_nonce (p_chain p) a <= n < pn_get p a).
    { apply (inv_run _ p I). exists t. auto. }
    pose proof (enqueue_all_spec inval (set_pending p2 rest)) as Hs.
    cbn zeta in Hs. cbn [p_queue p_chain p_pending p_all p_nonces set_pending] in Hs.
    assert (Hinval : forall x, In x inval <-> In x (p_pending p) /\ sender x = a /\ n < t_nonce x).
    { intros x. unfold inval. rewrite filter_In, l_del_In, andb_true_iff, is_acct_true, Z.ltb_lt.
      split; [tauto|]. intros [H1 [H2 H3]]. repeat split; auto. unfold key. intros Hk. inversion Hk. lia. }
    destruct Hs as [Hs1 [Hs2 [Hs3 [Hs4 [Hs5 Hs6]]]]].
    { unfold inval. apply NoDup_map_filter. unfold l_del. apply NoDup_map_filter. apply (inv_kp _ p I). }
    { intros x Hx y Hy. rewrite Hq in Hy. apply Hinval in Hx. intros Hk. symmetry in Hk. revert Hk.
      eapply (inv_disjoint _ p I); tauto. }
    set (p3 := enqueue_all (set_pending p2 rest) inval) in *.
    assert (Hpn3 : forall x, pn_get p3 x = pn_get p x).
    { intros x. unfold pn_get. rewrite Hs1, Hs4, Hc, Hn. reflexivity. }
    assert (Hlow : pn_set_if_lower p3 a n = pn_set p3 a n).
    { unfold pn_set_if_lower. rewrite Hpn3. destruct (pn_get p a <=? n) eqn:E; auto. apply Z.leb_le in E. lia. }
    rewrite Hlow.
    eapply (inv_cut [] [] p _ a n I); cbn [p_chain p_pending p_queue p_all pn_set set_nonces].
    + lia.
    + rewrite Hs1. exact Hc.
    + intros x. destruct (N.eqb a x) eqn:E.
      * apply N.eqb_eq in E. subst x. apply pn_get_set_eq.
      * apply N.eqb_neq in E. rewrite pn_get_set_neq by auto. apply Hpn3.
    + intros x. rewrite Hs2. unfold rest. rewrite filter_In, l_del_In, negb_true_iff, andb_false_iff, is_acct_false_iff, Z.ltb_ge.
      split.
      * intros [[Hx Hk] Hor]. split; auto. intros [Hsx Hge]. destruct Hor as [Hor|Hor]; [contradiction|].
        apply Hk. unfold key. f_equal; auto. unfold n in *. lia.
      * intros [Hx Hnot]. repeat split; auto.
        -- unfold key. intros Hk. inversion Hk. apply Hnot. split; auto. unfold n. lia.
        -- destruct (N.eq_dec (sender x) a); [right|left; auto]. destruct (Z_le_gt_dec (t_nonce x) n); auto.
           exfalso. apply Hnot. split; auto. lia.
    + rewrite Hs2. unfold rest. apply NoDup_map_filter. unfold l_del. apply NoDup_map_filter. apply (inv_kp _ p I).
    + apply Hs6. rewrite Hq. apply (inv_kq _ p I).
    + intros x Hx. apply Hs5 in Hx. rewrite Hq in Hx. destruct Hx as [Hx|Hx]; auto.
      apply Hinval in Hx. right. repeat split; try tauto. lia.
    + intros x. rewrite Hs3, Ha, all_remove_In, (inv_idx _ p I), Hs2, Hs5, Hq, Hinval. cbn [In].
      unfold rest. rewrite filter_In, l_del_In, negb_true_iff, andb_false_iff, is_acct_false_iff, Z.ltb_ge.
      split.
      * intros [[Hx|[Hx|[]]] Hne]; [|auto].
        assert (Hkx : key x <> (a, n)).
        { intros Hk. apply Hne. rewrite <- Hid. f_equal.
          eapply NoDup_map_inj; [apply (inv_kp _ p I)| | |]; eauto. }
        destruct (N.eq_dec (sender x) a) as [Hsa|Hsa]; [|left; auto].
        destruct (Z_le_gt_dec (t_nonce x) n) as [Hle|Hgt]; [left; auto|].
        right. left. left. repeat split; auto. lia.
      * intros [[[Hx Hk] _]|[[[Hx [Hsx Hgt]]|Hx]|[]]].
        -- split; auto. intros He. apply Hk. rewrite <- Hid in He.
           assert (x = t) by (eapply (inv_id_inj _ p I); auto; apply (inv_idx _ p I); auto).
           subst. reflexivity.
        -- split; auto. intros He. rewrite <- Hid in He.
           assert (x = t) by (eapply (inv_id_inj _ p I); auto; apply (inv_idx _ p I); auto).
           subst. unfold n in Hgt. lia.
        -- split; auto. intros He. rewrite <- Hid in He.
           assert (x = t) by (eapply (inv_id_inj _ p I); auto; apply (inv_idx _ p I); auto).
           subst. eapply (inv_disjoint _ p I); eauto.
    + rewrite Hs3, Ha. apply all_remove_ids. apply (inv_ids _ p I).
  - (* not in pending: in the queue *)
    assert (Hinq : In t (p_queue p)).
    { destruct Hlist as [H|H]; auto. destruct (l_get_in _ _ H) as [x Hx]. congruence. }
    rewrite Hq. rewrite (l_get_in_nodup _ _ (inv_kq _ p I) Hinq).
    eapply invo_shrink_queue; eauto; cbn [p_chain p_pending p_nonces p_queue p_all set_queue]; auto.
    + intros x Hx. apply l_del_In in Hx. tauto.
    + unfold l_del. apply NoDup_map_filter. apply (inv_kq _ p I).
    + intros x. rewrite Ha, Hp, all_remove_In, (inv_idx _ p I), l_del_In. cbn [In].
      split.
      * intros [[Hx|[Hx|[]]] Hne]; auto. right. left. split; auto.
        intros Hk. apply Hne. rewrite <- Hid. f_equal.
        eapply NoDup_map_inj; [apply (inv_kq _ p I)| | |]; eauto.
      * intros [Hx|[[Hx Hk]|[]]].
        -- split; auto. intros He. rewrite <- Hid in He.
           assert (x = t) by (eapply (inv_id_inj _ p I); auto; apply (inv_idx _ p I); auto).
           subst. eapply (inv_disjoint _ p I); eauto.
        -- split; auto. intros He. rewrite <- Hid in He.
           assert (x = t) by (eapply (inv_id_inj _ p I); auto; apply (inv_idx _ p I); auto).
           subst. apply Hk. reflexivity.
    + rewrite Ha. apply all_remove_ids. apply (inv_ids _ p I).
Qed.

Lemma inv_remove_txs l : forall p b, Inv p -> Inv (remove_txs p l b).
Proof.
  unfold remove_txs. induction l as [|t l IH]; intros p b I; cbn [fold_left]; auto.
  apply IH. apply inv_remove_tx. auto.
Qed.

(* ---- facts about the fields removeTx / enqueueTx leave alone *)

Lemma enqueue_tx_stable p t l :
  let p' := fst (fst (enqueue_tx p t l false)) in
  p_chain p' = p_chain p /\ p_cfg p' = p_cfg p /\ p_locals p' = p_locals p /\
  (forall x, In x (map fst (p_all p')) -> In x (map fst (p_all p))).
Proof.
  cbn zeta. unfold enqueue_tx.
  destruct (l_add (p_queue p) t (c_price_bump (p_cfg p))) as [[ok old] q'].
  destruct ok; cbn [fst]; [|auto].
  destruct old as [o|]; cbn [fst].
  - unfold priced_removed, reheap. destruct (_ <=? _); cbn; repeat split; auto; intros x Hx; apply all_remove_In in Hx; tauto.
  - cbn. auto.
Qed.

Lemma enqueue_all_stable l : forall p,
  let p' := enqueue_all p l in
  p_chain p' = p_chain p /\ p_cfg p' = p_cfg p /\ p_locals p' = p_locals p /\
  (forall x, In x (map fst (p_all p')) -> In x (map fst (p_all p))).
Proof.
  induction l as [|t l IH]; intros p; cbn zeta.
  - unfold enqueue_all. cbn. auto.
  - unfold enqueue_all. cbn [fold_left]. fold (enqueue_all (fst (fst (enqueue_tx p t false false))) l).
    destruct (IH (fst (fst (enqueue_tx p t false false)))) as [H1 [H2 [H3 H4]]].
    destruct (enqueue_tx_stable p t false) as [G1 [G2 [G3 G4]]].
    repeat split; try congruence. auto.
Qed.

Lemma remove_tx_stable p id b :
  let p' := remove_tx p id b in
  p_chain p' = p_chain p /\ p_cfg p' = p_cfg p /\ p_locals p' = p_locals p /\
  (forall x, In x (map fst (p_all p')) -> In x (map fst (p_all p))).
Proof.
  cbn zeta. unfold remove_tx. destruct (all_get (p_all p) id) as [t|]; [|auto].
  set (p1 := set_all p (all_remove (p_all p) id)).
  set (p2 := if b then priced_removed p1 1 else p1).
  assert (H2 : p_chain p2 = p_chain p /\ p_cfg p2 = p_cfg p /\ p_locals p2 = p_locals p /\
               (forall x, In x (map fst (p_all p2)) -> In x (map fst (p_all p)))).
  { subst p2. destruct b; [unfold priced_removed, reheap; destruct (_ <=? _)|]; cbn; repeat split; auto;
      intros x Hx; apply all_remove_In in Hx; tauto. }
  destruct H2 as [A1 [A2 [A3 A4]]].
  destruct (l_remove true (p_pending p2) (sender t) (t_nonce t)) as [[r inv] rest].
  destruct r.
  - unfold pn_set_if_lower. destruct (_ <=? _); [|unfold pn_set; cbn [p_chain p_cfg p_locals p_all set_nonces]];
      destruct (enqueue_all_stable inv (set_pending p2 rest)) as [B1 [B2 [B3 B4]]];
      cbn [p_chain p_cfg p_locals p_all set_pending] in *; repeat split; try congruence; auto.
  - destruct (l_remove false (p_queue p2) (sender t) (t_nonce t)) as [[r' inv'] rest'].
    cbn. auto.
Qed.

Lemma remove_txs_stable l : forall p b,
  let p' := remove_txs p l b in
  p_chain p' = p_chain p /\ p_cfg p' = p_cfg p /\ p_locals p' = p_locals p /\
  (forall x, In x (map fst (p_all p')) -> In x (map fst (p_all p))).
Proof.
  unfold remove_txs. induction l as [|t l IH]; intros p b; cbn [fold_left]; auto.
  destruct (IH (remove_tx p (t_id t) b) b) as [H1 [H2 [H3 H4]]].
  destruct (remove_tx_stable p (t_id t) b) as [G1 [G2 [G3 G4]]].
  repeat split; try congruence; auto.
Qed.

(* ---- the pool-full branch *)

Lemma priced_underpriced_core p o t : core (fst (priced_underpriced p o t)) = core p.
Proof. unfold priced_underpriced. destruct (drop_stale_heads _ _ _ _ _). reflexivity. Qed.

Lemma priced_discard_core p o s f : core (fst (fst (priced_discard p o s f))) = core p.
Proof.
  unfold priced_discard. destruct (discard_loop _ _ _ _ _ _ _) as [[[h s'] sl] drop].
  destruct (_ && _); reflexivity.
Qed.

Definition same_but_heap (p p' : pool) : Prop :=
  core p' = core p /\ p_cfg p' = p_cfg p /\ p_locals p' = p_locals p /\ p_gasprice p' = p_gasprice p /\
  p_journal p' = p_journal p /\ p_galaxias p' = p_galaxias p /\ p_changes p' = p_changes p /\ p_all p' = p_all p.

Lemma make_room_spec o p t l p1 oe :
  Inv p -> make_room o p t l = (p1, oe) ->
  Inv p1 /\ p_chain p1 = p_chain p /\ p_cfg p1 = p_cfg p /\ p_locals p1 = p_locals p /\
  (forall x, In x (map fst (p_all p1)) -> In x (map fst (p_all p))) /\
  (oe <> None -> same_but_heap p p1).
Proof.
  intros I. unfold make_room.
  destruct (_ <? _).
  2:{ intros H; inversion H; subst. split; [exact I|]. repeat split; auto; congruence. }
  set (q1u := if l then (p, false) else priced_underpriced p o t).
  assert (Hq1 : same_but_heap p (fst q1u)).
  { subst q1u. destruct l; cbn [fst]; unfold same_but_heap; [repeat split; auto|].
    unfold priced_underpriced. destruct (drop_stale_heads _ _ _ _ _). cbn. repeat split; auto. }
  destruct q1u as [q1 under]. cbn [fst] in Hq1.
  destruct Hq1 as [C1 [C2 [C3 [C4 [C5 [C6 [C7 C8]]]]]]].
  assert (I1 : Inv q1) by (eapply Inv_core; [symmetry; exact C1|auto]).
  assert (Hc1 : p_chain q1 = p_chain p /\ p_all q1 = p_all p) by (unfold core in C1; inversion C1; auto).
  destruct Hc1 as [Hch1 Hal1].
  destruct (negb l && under).
  { intros H; inversion H; subst. split; [exact I1|]. repeat split; auto; try congruence. }
  destruct (_ <? _).
  { intros H; inversion H; subst. split; [exact I1|]. repeat split; auto; try congruence. }
  pose proof (priced_discard_core q1 o (all_slots (p_all q1) - (c_gslots (p_cfg p) + c_gqueue (p_cfg p)) + num_slots t) l) as D1.
  assert (D2 : same_but_heap q1 (fst (fst (priced_discard q1 o (all_slots (p_all q1) - (c_gslots (p_cfg p) + c_gqueue (p_cfg p)) + num_slots t) l)))).
  { unfold priced_discard. destruct (discard_loop _ _ _ _ _ _ _) as [[[h s'] sl] drop].
    destruct (_ && _); cbn; unfold same_but_heap; repeat split; auto. }
  destruct (priced_discard q1 o _ l) as [[q2 drop] success]. cbn [fst] in D1, D2.
  destruct D2 as [E1 [E2 [E3 [E4 [E5 [E6 [E7 E8]]]]]]].
  destruct (negb l && negb success).
  { intros H; inversion H; subst. unfold same_but_heap. unfold core in *. inversion C1; inversion E1.
    split; [eapply Inv_core; [|exact I]; unfold core; congruence|].
    repeat split; auto; try congruence. }
  intros H; inversion H; subst. clear H.
  set (q3 := set_changes q2 (p_changes q2 + Z.of_nat (length drop))).
  assert (I3 : Inv q3).
  { eapply Inv_core; [|exact I1]. rewrite <- D1. reflexivity. }
  destruct (remove_txs_stable drop q3 false) as [R1 [R2 [R3 R4]]].
  unfold core in D1. inversion D1 as [[F1 F2 F3 F4 F5]]. clear F4. pose proof E8 as F4.
  split; [apply inv_remove_txs; auto|].
  split; [rewrite R1; cbn; congruence|].
  split; [rewrite R2; cbn; congruence|].
  split; [rewrite R3; cbn; congruence|].
  split; [|congruence].
  intros x Hx. apply R4 in Hx. cbn in Hx. rewrite F4, Hal1 in Hx. auto.
Qed.

(* ---- add *)

Lemma validate_ok p t l : validate_tx p t l = EOk ->
  exists from, t_from t = Some from /\ st_nonce (p_chain p) from <= t_nonce t /\
               cost t <= st_balance (p_chain p) from /\ t_gas t <= ch_gaslimit (p_chain p).
Proof.
  unfold validate_tx.
  destruct (tx_max_size <? t_size t); [discriminate|].
  destruct (t_value t <? 0); [discriminate|].
  destruct (ch_gaslimit (p_chain p) <? t_gas t) eqn:Eg; [discriminate|].
  destruct (t_from t) as [from|]; [|discriminate].
  destruct (negb l && _); [discriminate|].
  destruct (t_nonce t <? st_nonce (p_chain p) from) eqn:En; [discriminate|].
  destruct (st_balance (p_chain p) from <? cost t) eqn:Eb; [discriminate|].
  intros _. exists from. apply Z.ltb_ge in Eg, En, Eb. auto.
Qed.

Lemma all_to_locals_fst al locals : map fst (snd (all_to_locals al locals)) = map fst al.
Proof.
  unfold all_to_locals. cbn [snd]. rewrite map_map. apply map_ext. intros e. destruct (migrates locals e); reflexivity.
Qed.

Lemma map_fst_flag (f : tx * bool -> bool) al :
  map fst (map (fun e => if f e then (fst e, true) else e) al) = map fst al.
Proof. rewrite map_map. apply map_ext. intros e. destruct (f e); reflexivity. Qed.

Lemma inv_replace_pending p t o b :
  Inv p -> l_get (p_pending p) (sender t) (t_nonce t) = Some o ->
  (forall x, In x (map fst (p_all p)) -> t_id x <> t_id t) ->
  cost t <= st_balance (p_chain p) (sender t) -> t_gas t <= ch_gaslimit (p_chain p) ->
  Inv (set_all (set_pending p (l_put (p_pending p) t)) (all_add (all_remove (p_all p) (t_id o)) t b)).
Proof.
  intros I Hg Hfresh Hc Hgas.
  apply l_get_some in Hg. destruct Hg as [Hino Hko].
  assert (Hko' : key o = key t) by exact Hko.
  constructor; cbn [p_chain p_pending p_queue p_all set_all set_pending].
  - apply l_put_nodup. apply (inv_kp _ p I).
  - apply (inv_kq _ p I).
  - intros x. rewrite all_add_In, all_remove_In, (inv_idx _ p I), l_put_In. cbn [In]. split.
    + intros [[[Hx|[Hx|[]]] Hne]| ->]; auto. left. right. split; auto.
      intros Hk. apply Hne. f_equal. eapply NoDup_map_inj; [apply (inv_kp _ p I)| | |]; eauto. congruence.
    + intros [[-> |[Hx Hk]]|[Hx|[]]]; auto; left; split; auto.
      * intros He. assert (x = o) by (eapply (inv_id_inj _ p I); auto; apply (inv_idx _ p I); auto).
        subst. congruence.
      * intros He. assert (x = o) by (eapply (inv_id_inj _ p I); auto; apply (inv_idx _ p I); auto).
        subst. eapply (inv_disjoint _ p I); eauto.
  - apply all_add_ids.
    + apply all_remove_ids. apply (inv_ids _ p I).
    + intros x Hx. apply all_remove_In in Hx. apply Hfresh. tauto.
  - intros a n. unfold pn_get. cbn [p_nonces p_chain set_all set_pending].
    fold (pn_get p a). rewrite <- (inv_run _ p I). split.
    + intros [x [Hx [Hs Hn]]]. apply l_put_In in Hx. destruct Hx as [-> |[Hx _]]; [|eauto].
      exists o. unfold key in Hko'. inversion Hko'. repeat split; auto; congruence.
    + intros [x [Hx [Hs Hn]]]. destruct (N.eq_dec (sender x) (sender t)) as [E1|E1];
        [destruct (Z.eq_dec (t_nonce x) (t_nonce t)) as [E2|E2]|].
      * exists t. split; [apply l_put_In; auto|]. split; congruence.
      * exists x. split; auto. apply l_put_In. right. split; auto. unfold key. intros Hk; inversion Hk; auto.
      * exists x. split; auto. apply l_put_In. right. split; auto. unfold key. intros Hk; inversion Hk; auto.
  - intros a. apply (inv_pn _ p I).
  - intros x Hx. apply (inv_q _ p I x Hx).
  - intros x Hx. apply l_put_In in Hx. destruct Hx as [-> |[Hx _]]; auto. apply (inv_aff _ p I). auto.
Qed.

Lemma inv_enqueue_new p t b :
  Inv p -> l_get (p_pending p) (sender t) (t_nonce t) = None ->
  st_nonce (p_chain p) (sender t) <= t_nonce t ->
  (forall x, In x (map fst (p_all p)) -> t_id x <> t_id t) ->
  Inv (set_all (set_queue p (l_put (p_queue p) t))
               (all_add (match l_get (p_queue p) (sender t) (t_nonce t) with
                         | Some o => all_remove (p_all p) (t_id o) | None => p_all p end) t b)).
Proof.
  intros I Hg Hst Hfresh.
  assert (Hge : pn_get p (sender t) <= t_nonce t).
  { destruct (Z_le_gt_dec (pn_get p (sender t)) (t_nonce t)); auto. exfalso.
    assert (Hr : st_nonce (p_chain p) (sender t) <= t_nonce t < pn_get p (sender t)) by lia.
    apply (inv_run _ p I) in Hr. destruct Hr as [x [Hx [Hs Hn]]].
    eapply (l_get_none _ _ _ Hg x Hx). unfold key. congruence. }
  constructor; cbn [p_chain p_pending p_queue p_all set_all set_queue].
  - apply (inv_kp _ p I).
  - apply l_put_nodup. apply (inv_kq _ p I).
  - intros x. rewrite all_add_In, l_put_In. cbn [In].
    destruct (l_get (p_queue p) (sender t) (t_nonce t)) as [o|] eqn:Eq.
    + apply l_get_some in Eq. destruct Eq as [Hino Hko].
      rewrite all_remove_In, (inv_idx _ p I). cbn [In]. split.
      * intros [[[Hx|[Hx|[]]] Hne]| ->]; auto. right. left. right. split; auto.
        intros Hk. apply Hne. f_equal. eapply NoDup_map_inj; [apply (inv_kq _ p I)| | |]; eauto.
        unfold key in *. congruence.
      * intros [Hx|[[-> |[Hx Hk]]|[]]]; auto; left; split; auto.
        -- intros He. assert (x = o) by (eapply (inv_id_inj _ p I); auto; apply (inv_idx _ p I); auto).
           subst. eapply (inv_disjoint _ p I); eauto.
        -- intros He. assert (x = o) by (eapply (inv_id_inj _ p I); auto; apply (inv_idx _ p I); auto).
           subst. apply Hk. exact Hko.
    + rewrite (inv_idx _ p I). cbn [In]. split.
      * intros [[Hx|[Hx|[]]]| ->]; auto. right. left. right. split; auto.
        eapply l_get_none; eauto.
      * intros [Hx|[[-> |[Hx Hk]]|[]]]; auto.
  - apply all_add_ids.
    + destruct (l_get (p_queue p) (sender t) (t_nonce t)); [apply all_remove_ids|]; apply (inv_ids _ p I).
    + intros x Hx. apply Hfresh. destruct (l_get (p_queue p) (sender t) (t_nonce t)); auto.
      apply all_remove_In in Hx. tauto.
  - intros a n. apply (inv_run _ p I).
  - intros a. apply (inv_pn _ p I).
  - intros x Hx. unfold pn_get. cbn [p_nonces p_chain set_all set_queue]. fold (pn_get p (sender x)).
    apply l_put_In in Hx. destruct Hx as [-> |[Hx _]]; auto. apply (inv_q _ p I x Hx).
  - intros x Hx. apply (inv_aff _ p I x Hx).
Qed.

Ltac destruct_ifs :=
  repeat match goal with
         | |- context [if ?c then _ else _] => destruct c
         | |- context [match ?c with Some _ => _ | None => _ end] => destruct c
         end.

Lemma inv_add o p t l p' r e : Inv p -> add o p t l = (p', r, e) -> Inv p' /\ p_chain p' = p_chain p.
Proof.
  intros I. unfold add.
  destruct (all_get (p_all p) (t_id t)) eqn:Eall.
  { intros H; inversion H; subst; auto. }
  pose proof (all_get_none _ _ Eall) as Hfresh.
  set (is_local := l || contains_tx (p_locals p) t).
  destruct (validate_tx p t is_local) eqn:V; try (intros H; inversion H; subst; auto; fail).
  apply validate_ok in V. destruct V as [from [Hfrom [Hst [Hcost Hgas]]]].
  assert (Hsender : sender t = from) by (unfold sender; rewrite Hfrom; reflexivity).
  destruct (make_room o p t is_local) as [p1 oe] eqn:Emr.
  destruct (make_room_spec _ _ _ _ _ _ I Emr) as [I1 [Hch [Hcfg [Hloc [Hsub _]]]]].
  destruct oe as [e1|].
  { intros H; inversion H; subst; auto. }
  assert (Hfresh1 : forall x, In x (map fst (p_all p1)) -> t_id x <> t_id t) by (intros x Hx; apply Hfresh; auto).
  destruct (l_get (p_pending p1) (sender t) (t_nonce t)) as [o0|] eqn:Egp.
  - destruct (l_add (p_pending p1) t (c_price_bump (p_cfg p))) as [[ok old] pd'] eqn:Ea.
    apply l_add_result in Ea. destruct Ea as [[-> [-> ->]]|[-> [-> ->]]].
    { intros H; inversion H; subst; auto. }
    rewrite Egp. intros H; inversion H; subst p' r e. clear H. split.
    + eapply Inv_core; [|eapply (inv_replace_pending p1 t o0 is_local); eauto; rewrite ?Hch, ?Hsender; auto].
      rewrite core_journal_tx, core_priced_put. unfold core, priced_removed, reheap.
      cbn [p_chain p_pending p_queue p_all p_nonces set_all set_pending]. destruct (_ <=? _); reflexivity.
    + unfold journal_tx, priced_put, priced_removed, reheap. destruct_ifs; cbn; auto.
  - unfold enqueue_tx.
    destruct (l_add (p_queue p1) t (c_price_bump (p_cfg p1))) as [[ok old] q'] eqn:Ea.
    apply l_add_result in Ea. destruct Ea as [[-> [-> ->]]|[-> [-> ->]]].
    { intros H; inversion H; subst; auto. }
    intros H; inversion H; subst p' r e. clear H. split.
    + eapply Inv_core; [|eapply (inv_enqueue_new p1 t is_local); eauto; rewrite ?Hch, ?Hsender; auto].
      rewrite core_journal_tx.
      unfold core, priced_put, priced_removed, reheap.
      destruct (l_get (p_queue p1) (sender t) (t_nonce t));
      destruct_ifs; cbn [p_chain p_pending p_queue p_all p_nonces set_all set_queue set_locals set_heap snd fst];
        try reflexivity;
        try (rewrite map_fst_flag; reflexivity);
        try (rewrite (surjective_pairing (all_to_locals _ _)); cbn [p_chain p_pending p_queue p_all p_nonces set_all set_queue set_locals set_heap snd fst];
             try rewrite all_to_locals_fst; reflexivity).
    + unfold journal_tx, priced_put, priced_removed, reheap.
      destruct (l_get (p_queue p1) (sender t) (t_nonce t)); destruct_ifs; cbn; auto;
        rewrite (surjective_pairing (all_to_locals _ _)); destruct_ifs; cbn; auto.
Qed.
