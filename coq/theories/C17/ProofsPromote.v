(** C17 — promoteExecutables: structural part of the invariant, per-account part, and the
    characterisation of one account's promotion run. *)
From Coq Require Import List ZArith NArith Bool Lia.
From Kardia Require Import Generated.C17Facts C17.Model C17.ProofsBasic C17.ProofsInv C17.ProofsOps.
Import ListNotations.
Local Open Scope Z_scope.

(** The chain-independent part of the invariant. *)
Record Struct (out : list tx) (p : pool) : Prop := mkStruct {
  s_kp : NoDup (map key (p_pending p));
  s_kq : NoDup (map key (p_queue p));
  s_idx : forall t, In t (map fst (p_all p)) <-> In t (p_pending p) \/ In t (p_queue p) \/ In t out;
  s_ids : NoDup (map t_id (map fst (p_all p)));
  s_dpq : forall t, In t (p_pending p) -> In t (p_queue p) -> False;
  s_dout : forall t, In t out -> ~ In t (p_pending p) /\ ~ In t (p_queue p)
}.

Definition affordable (p : pool) (t : tx) : Prop :=
  cost t <= st_balance (p_chain p) (sender t) /\ t_gas t <= ch_gaslimit (p_chain p).

(** The per-account part. *)
Definition AcctInv (p : pool) (a : N) : Prop :=
  (forall n, (exists t, In t (p_pending p) /\ sender t = a /\ t_nonce t = n) <-> st_nonce (p_chain p) a <= n < pn_get p a) /\
  st_nonce (p_chain p) a <= pn_get p a /\
  (forall t, In t (p_queue p) -> sender t = a -> pn_get p a <= t_nonce t) /\
  (forall t, In t (p_pending p) -> sender t = a -> affordable p t).

Lemma Inv_split p : Inv p <-> Struct [] p /\ forall a, AcctInv p a.
Proof.
  split.
  - intros I. split.
    + constructor.
      * apply (inv_kp _ p I).
      * apply (inv_kq _ p I).
      * apply (inv_idx _ p I).
      * apply (inv_ids _ p I).
      * intros t H1 H2. eapply (inv_disjoint _ p I); eauto.
      * intros t [].
    + intros a. split; [apply (inv_run _ p I)|]. split; [apply (inv_pn _ p I)|]. split.
      * intros t Ht Hs. subst. apply (inv_q _ p I). auto.
      * intros t Ht Hs. apply (inv_aff _ p I). auto.
  - intros [S A]. constructor.
    + apply (s_kp _ p S).
    + apply (s_kq _ p S).
    + apply (s_idx _ p S).
    + apply (s_ids _ p S).
    + intros a n. apply (A a).
    + intros a. apply (A a).
    + intros t Ht. apply (A (sender t)); auto.
    + intros t Ht. apply (A (sender t)); auto.
Qed.

Lemma id_inj out p : Struct out p -> forall t t', In t (map fst (p_all p)) -> In t' (map fst (p_all p)) -> t_id t = t_id t' -> t = t'.
Proof. intros S t t' H1 H2 H3. eapply NoDup_map_inj; eauto. apply (s_ids _ p S). Qed.

(* ---- dropping queue entries selected by [g] and un-indexing them *)

Lemma struct_filter_queue p g :
  Struct [] p ->
  Struct [] (set_all (set_queue p (filter (fun t => negb (g t)) (p_queue p)))
                     (all_remove_list (p_all p) (filter g (p_queue p)))).
Proof.
  intros S. constructor; cbn [p_chain p_pending p_nonces p_queue p_all set_all set_queue].
  - apply (s_kp _ p S).
  - apply NoDup_map_filter. apply (s_kq _ p S).
  - intros t. rewrite all_remove_list_In, (s_idx _ p S), !filter_In. cbn [In]. split.
    + intros [[H|[H|[]]] Hn]; auto. right. left. split; auto.
      destruct (g t) eqn:E; auto. exfalso. apply Hn. apply in_map. apply filter_In. auto.
    + intros [H|[[H Hg]|[]]].
      * split; auto. intros Hin. apply in_map_iff in Hin. destruct Hin as [x [Hid Hx]].
        apply filter_In in Hx. destruct Hx as [Hx _].
        assert (x = t) by (eapply (id_inj _ p S); auto; apply (s_idx _ p S); auto).
        subst x. eapply (s_dpq _ p S); eauto.
      * split; auto. intros Hin. apply in_map_iff in Hin. destruct Hin as [x [Hid Hx]].
        apply filter_In in Hx. destruct Hx as [Hx Hgx].
        assert (x = t) by (eapply (id_inj _ p S); auto; apply (s_idx _ p S); auto).
        subst x. rewrite Hgx in Hg. discriminate.
  - apply all_remove_list_ids. apply (s_ids _ p S).
  - intros t H1 H2. apply filter_In in H2. eapply (s_dpq _ p S); eauto. tauto.
  - intros t [].
Qed.

(* ---- txList.Ready *)

Lemma run_from_spec fuel : forall l a next,
  let R := run_from fuel l a next in
  (forall x, In x R -> In x l /\ sender x = a /\ next <= t_nonce x < next + Z.of_nat (length R)) /\
  (forall n, next <= n < next + Z.of_nat (length R) -> exists x, In x R /\ t_nonce x = n) /\
  NoDup (map key R).
Proof.
  induction fuel as [|f IH]; intros l a next; cbn zeta; cbn [run_from].
  - cbn. repeat split; try tauto; try lia. constructor.
  - destruct (l_get l a next) as [t|] eqn:E.
    2:{ cbn. repeat split; try tauto; try lia. constructor. }
    apply l_get_some in E. destruct E as [Hin Hk]. unfold key in Hk. injection Hk as Hs Hn.
    destruct (IH l a (next + 1)) as [H1 [H2 H3]]. cbn zeta in *.
    set (R := run_from f l a (next + 1)) in *.
    cbn [length]. rewrite Nat2Z.inj_succ. repeat split.
    + destruct H as [<-|Hx]; auto. apply H1 in Hx. tauto.
    + destruct H as [<-|Hx]; auto. apply H1 in Hx. tauto.
    + destruct H as [<-|Hx]; [lia|]. apply H1 in Hx. lia.
    + destruct H as [<-|Hx]; [lia|]. apply H1 in Hx. lia.
    + intros n Hn'. destruct (Z.eq_dec n next) as [->|Hne].
      * exists t. cbn. auto.
      * destruct (H2 n) as [x [Hx Hxn]]; [lia|]. exists x. cbn. auto.
    + cbn [map]. constructor; auto. intros Hc. apply in_map_iff in Hc. destruct Hc as [x [Hkx Hx]].
      apply H1 in Hx. unfold key in Hkx. inversion Hkx. lia.
Qed.

Lemma min_nonce_le l x : In x l -> min_nonce l <= t_nonce x.
Proof.
  unfold min_nonce. induction l as [|y l IH]; cbn [fold_right In]; [tauto|].
  intros [->|H]; [lia|]. specialize (IH H). lia.
Qed.

(* ---- promoteTx of a transaction whose slot is free *)

Lemma promote_tx_fresh p a r :
  (forall x, In x (p_pending p) -> key x <> key r) ->
  fst (promote_tx p a r) = pn_set (set_pending p (l_put (p_pending p) r)) a (t_nonce r + 1).
Proof.
  intros Hf. unfold promote_tx.
  pose proof (l_add_cases (p_pending p) r (c_price_bump (p_cfg p))) as Hc.
  destruct (l_get (p_pending p) (sender r) (t_nonce r)) eqn:E.
  - apply l_get_some in E. destruct E as [Hin Hk]. exfalso. apply (Hf t Hin). exact Hk.
  - rewrite Hc. reflexivity.
Qed.

Lemma promote_list_spec R : forall p a,
  Struct R p ->
  NoDup (map key R) ->
  (forall r, In r R -> sender r = a /\ forall x, In x (p_pending p) -> key x <> key r) ->
  let p' := promote_list p a R in
  Struct [] p' /\ p_chain p' = p_chain p /\ p_queue p' = p_queue p /\ p_cfg p' = p_cfg p /\ p_locals p' = p_locals p /\
  (forall x, In x (p_pending p') <-> In x (p_pending p) \/ In x R) /\
  (forall b, a <> b -> pn_get p' b = pn_get p b) /\
  pn_get p' a = match rev R with [] => pn_get p a | r :: _ => t_nonce r + 1 end.
Proof.
  induction R as [|r R IH]; intros p a S Hd Hr; cbn zeta.
  - unfold promote_list. cbn [fold_left rev In]. split; [exact S|]. repeat split; auto; tauto.
  - unfold promote_list. cbn [fold_left]. fold (promote_list (fst (promote_tx p a r)) a R).
    destruct (Hr r (or_introl eq_refl)) as [Hs Hfree].
    rewrite promote_tx_fresh by auto.
    set (p1 := pn_set (set_pending p (l_put (p_pending p) r)) a (t_nonce r + 1)).
    cbn [map] in Hd. apply NoDup_cons_iff in Hd. destruct Hd as [Hn Hd'].
    assert (Hp1 : forall x, In x (p_pending p1) <-> x = r \/ In x (p_pending p)).
    { intros x. unfold p1. cbn [p_pending pn_set set_nonces set_pending]. rewrite l_put_In. split.
      - intros [->|[Hx _]]; auto.
      - intros [->|Hx]; auto. }
    assert (S1 : Struct R p1).
    { constructor.
      - unfold p1; cbn [p_pending p_queue p_all pn_set set_nonces set_pending]. apply l_put_nodup. apply (s_kp _ p S).
      - apply (s_kq _ p S).
      - intros x. rewrite Hp1. unfold p1; cbn [p_queue p_all pn_set set_nonces set_pending].
        rewrite (s_idx _ p S). cbn [In]. intuition.
      - apply (s_ids _ p S).
      - intros x Hx Hq. apply Hp1 in Hx. destruct Hx as [->|Hx].
        + destruct (s_dout _ p S r) as [_ Hnq]; [cbn; auto|]. contradiction.
        + eapply (s_dpq _ p S); eauto.
      - intros x Hx. destruct (s_dout _ p S x) as [Hnp Hnq]; [cbn; auto|]. split; auto.
        rewrite Hp1. intros [->|Hc]; auto. apply Hn. apply in_map. auto. }
    destruct (IH p1 a S1 Hd') as [T [C1 [C2 [C3 [C4 [C5 [C6 C7]]]]]]].
    { intros r' Hr'. destruct (Hr r' (or_intror Hr')) as [Hs' Hf']. split; auto.
      intros x Hx. apply Hp1 in Hx. destruct Hx as [->|Hx]; auto.
      intros Hk. apply Hn. rewrite Hk. apply in_map. auto. }
    split; [exact T|]. repeat split; try (rewrite ?C1, ?C2, ?C3, ?C4; reflexivity).
    + intros Hx. apply C5 in Hx. rewrite Hp1 in Hx. cbn [In]. intuition.
    + intros Hx. apply C5. rewrite Hp1. cbn [In] in Hx. intuition.
    + intros b Hb. rewrite C6 by auto. unfold p1. rewrite pn_get_set_neq by auto. reflexivity.
    + rewrite C7. cbn [rev]. destruct (rev R) as [|z zs] eqn:Er; cbn [app].
      * unfold p1. apply pn_get_set_eq.
      * reflexivity.
Qed.

Lemma run_from_last fuel : forall l a next,
  match rev (run_from fuel l a next) with
  | [] => True
  | r :: _ => t_nonce r = next + Z.of_nat (length (run_from fuel l a next)) - 1
  end.
Proof.
  induction fuel as [|f IH]; intros l a next; cbn [run_from]; [cbn; auto|].
  destruct (l_get l a next) as [t|] eqn:E; [|cbn; auto].
  apply l_get_some in E. destruct E as [_ Hk]. unfold key in Hk. injection Hk as _ Hn.
  specialize (IH l a (next + 1)). cbn [rev length]. rewrite Nat2Z.inj_succ.
  destruct (rev (run_from f l a (next + 1))) as [|z zs] eqn:Er; cbn [app].
  - assert (run_from f l a (next + 1) = []) as ->.
    { destruct (run_from f l a (next + 1)); auto. cbn [rev] in Er. destruct (rev l0); discriminate. }
    cbn. lia.
  - lia.
Qed.

Lemma Struct_ext out p p' :
  p_pending p' = p_pending p -> p_queue p' = p_queue p -> map fst (p_all p') = map fst (p_all p) ->
  Struct out p -> Struct out p'.
Proof.
  intros H1 H2 H3 S. destruct S as [a b c d e f]. constructor; rewrite ?H1, ?H2, ?H3; auto.
Qed.

Lemma l_filter_false l a c g :
  l_filter false l a c g =
  (filter (fun t => is_acct a t && ((g <? t_gas t) || (c <? cost t))) l, [],
   filter (fun t => negb (is_acct a t && ((g <? t_gas t) || (c <? cost t)))) l).
Proof.
  unfold l_filter.
  destruct (filter (fun t => is_acct a t && ((g <? t_gas t) || (c <? cost t))) l) eqn:E; auto.
  rewrite (filter_nil_all _ _ E). reflexivity.
Qed.

Lemma minus_ids_In l rm x : In x (minus_ids l rm) <-> In x l /\ ~ In (t_id x) (map t_id rm).
Proof.
  unfold minus_ids. rewrite filter_In, negb_true_iff. split; intros [H1 H2]; split; auto.
  - intros Hin. apply in_map_iff in Hin. destruct Hin as [r [Hid Hr]].
    assert (existsb (fun r => N.eqb (t_id r) (t_id x)) rm = true).
    { apply existsb_exists. exists r. split; auto. apply N.eqb_eq. auto. }
    congruence.
  - destruct (existsb _ rm) eqn:E; auto. apply existsb_exists in E. destruct E as [r [Hr He]].
    apply N.eqb_eq in He. exfalso. apply H2. rewrite <- He. apply in_map. auto.
Qed.

Lemma of_acct_nil a l : of_acct a l = [] -> forall x, In x l -> sender x <> a.
Proof.
  intros H x Hx Hs. assert (In x (of_acct a l)) by (apply filter_In; split; auto; apply is_acct_true; auto).
  rewrite H in H0. destruct H0.
Qed.

Lemma promote_account_spec p a :
  Struct [] p ->
  (forall x y, In x (p_pending p) -> In y (p_queue p) -> sender x = a -> sender y = a ->
               st_nonce (p_chain p) a <= t_nonce y -> t_nonce x < t_nonce y) ->
  let p' := promote_account p a in
  Struct [] p' /\ p_chain p' = p_chain p /\
  exists R lo,
    (forall x, In x (p_pending p') <-> In x (p_pending p) \/ In x R) /\
    (forall x, In x R -> In x (p_queue p) /\ sender x = a /\ affordable p x /\ lo <= t_nonce x < lo + Z.of_nat (length R)) /\
    (forall n, lo <= n < lo + Z.of_nat (length R) -> exists x, In x R /\ t_nonce x = n) /\
    (R <> [] -> st_nonce (p_chain p) a <= lo <= pn_get p a) /\
    (forall x, In x (p_queue p') -> In x (p_queue p) /\ ~ In x R /\
         (sender x = a -> st_nonce (p_chain p) a <= t_nonce x /\ (R <> [] -> lo + Z.of_nat (length R) <= t_nonce x))) /\
    (forall x, In x (p_queue p) -> sender x <> a -> In x (p_queue p')) /\
    (forall b, a <> b -> pn_get p' b = pn_get p b) /\
    pn_get p' a = (match R with [] => pn_get p a | _ => lo + Z.of_nat (length R) end).
Proof.
  intros S Hsep. cbn zeta. unfold promote_account.
  destruct (of_acct a (p_queue p)) as [|z zs] eqn:Eacct.
  { split; [exact S|]. split; [reflexivity|]. exists [], 0. cbn [In length].
    pose proof (of_acct_nil _ _ Eacct) as Hno.
    repeat split; auto; try tauto; try lia; try (intros; exfalso; eapply Hno; eauto; fail). }
  clear z zs Eacct.
  unfold l_forward. rewrite l_filter_false. cbv beta iota zeta.
  set (g1 := fun t => is_acct a t && (t_nonce t <? st_nonce (p_chain p) a)).
  set (p1 := set_all (set_queue p (filter (fun t => negb (g1 t)) (p_queue p))) (all_remove_list (p_all p) (filter g1 (p_queue p)))).
  assert (S1 : Struct [] p1) by (apply struct_filter_queue; auto).
  set (bad := fun t => is_acct a t && ((ch_gaslimit (p_chain p) <? t_gas t) || (st_balance (p_chain p) a <? cost t))).
  set (p2 := set_all (set_queue p1 (filter (fun t => negb (bad t)) (p_queue p1))) (all_remove_list (p_all p1) (filter bad (p_queue p1)))).
  assert (S2 : Struct [] p2) by (apply struct_filter_queue; auto).
  assert (Hq2 : forall x, In x (p_queue p2) <-> In x (p_queue p) /\ g1 x = false /\ bad x = false).
  { intros x. unfold p2, p1. cbn [p_queue set_all set_queue]. rewrite !filter_In, !negb_true_iff. tauto. }
  assert (Hpn2 : forall b, pn_get p2 b = pn_get p b) by reflexivity.
  set (R := l_ready (p_queue p2) a (pn_get p2 a)).
  set (lo := min_nonce (of_acct a (p_queue p2))).
  (* facts about the run *)
  assert (HR : (forall x, In x R -> In x (p_queue p2) /\ sender x = a /\ lo <= t_nonce x < lo + Z.of_nat (length R)) /\
               (forall n, lo <= n < lo + Z.of_nat (length R) -> exists x, In x R /\ t_nonce x = n) /\
               NoDup (map key R) /\ (R <> [] -> lo <= pn_get p a) /\
               match rev R with [] => True | r :: _ => t_nonce r = lo + Z.of_nat (length R) - 1 end).
  { unfold R, l_ready. fold lo. destruct (of_acct a (p_queue p2)) eqn:Eo.
    - cbn [In length rev map]. split; [intros x Hx; destruct Hx|]. split; [intros n Hn; lia|]. split; [constructor|]. split; [congruence|exact I].
    - assert (Hlo : min_nonce (t :: l) = lo) by (unfold lo; try rewrite Eo; reflexivity). rewrite Hlo.
      destruct (pn_get p2 a <? lo) eqn:El.
      + cbn [In length rev map]. split; [intros x Hx; destruct Hx|]. split; [intros n Hn; lia|]. split; [constructor|]. split; [congruence|exact I].
      + apply Z.ltb_ge in El.
        destruct (run_from_spec (length (p_queue p2)) (p_queue p2) a lo) as [H1 [H2 H3]]. cbn zeta in *.
        pose proof (run_from_last (length (p_queue p2)) (p_queue p2) a lo) as H4.
        split; [intros x Hx; apply H1; auto|]. split; [exact H2|]. split; [exact H3|]. split; [intros _; rewrite <- Hpn2; exact El|exact H4]. }
  destruct HR as [HR1 [HR2 [HR3 [HR4 HR5]]]].
  set (p2' := set_queue p2 (minus_ids (p_queue p2) R)).
  assert (S2' : Struct R p2').
  { constructor; unfold p2'; cbn [p_pending p_queue p_all set_queue].
    - apply (s_kp _ p2 S2).
    - unfold minus_ids. apply NoDup_map_filter. apply (s_kq _ p2 S2).
    - intros x. rewrite (s_idx _ p2 S2), minus_ids_In. cbn [In]. split.
      + intros [H|[H|[]]]; auto.
        destruct (in_dec N.eq_dec (t_id x) (map t_id R)) as [Hin|Hnin]; [|auto].
        right. right. apply in_map_iff in Hin. destruct Hin as [r [Hid Hr]].
        assert (r = x).
        { eapply (id_inj _ p2 S2); auto; apply (s_idx _ p2 S2); auto. right. left. apply HR1. auto. }
        subst. auto.
      + intros [H|[[H _]|H]]; auto. right. left. apply HR1. auto.
    - apply (s_ids _ p2 S2).
    - intros x Hp Hq. apply minus_ids_In in Hq. eapply (s_dpq _ p2 S2); eauto. tauto.
    - intros x Hx. split.
      + intros Hp. eapply (s_dpq _ p2 S2); eauto. apply HR1. auto.
      + intros Hq. apply minus_ids_In in Hq. destruct Hq as [_ Hn]. apply Hn. apply in_map. auto. }
  destruct (promote_list_spec R p2' a S2' HR3) as [S3 [C1 [C2 [C3 [C4 [C5 [C6 C7]]]]]]].
  { intros r Hr. destruct (HR1 r Hr) as [Hq [Hs Hn]]. split; auto.
    intros x Hx Hk. unfold key in Hk. injection Hk as Hks Hkn.
    apply Hq2 in Hq. destruct Hq as [Hq [Hg1 _]].
    assert (t_nonce x < t_nonce r).
    { apply Hsep; auto; try congruence.
      unfold g1 in Hg1. apply andb_false_iff in Hg1. destruct Hg1 as [Hg1|Hg1].
      - apply is_acct_false_iff in Hg1. contradiction.
      - apply Z.ltb_ge in Hg1. auto. }
    lia. }
  set (p3 := promote_list p2' a R) in *.
  (* the cap on the account's queue *)
  set (capres := if memN a (p_locals p3) then ([], p3)
                 else let '(caps, q3) := l_cap (p_queue p3) a (c_aqueue (p_cfg p3)) in
                      (caps, set_all (set_queue p3 q3) (all_remove_list (p_all p3) caps))).
  assert (HP4 : Struct [] (snd capres) /\ p_chain (snd capres) = p_chain p3 /\ p_pending (snd capres) = p_pending p3 /\
                p_nonces (snd capres) = p_nonces p3 /\
                (forall x, In x (p_queue (snd capres)) -> In x (p_queue p3)) /\
                (forall x, In x (p_queue p3) -> sender x <> a -> In x (p_queue (snd capres)))).
  { unfold capres. destruct (memN a (p_locals p3)); cbn [snd].
    { split; [exact S3|repeat split; auto]. }
    unfold l_cap. destruct (_ <=? _); cbn [snd].
    - split; [|repeat split; auto].
      eapply Struct_ext; [| | |exact S3]; reflexivity.
    - split; [apply struct_filter_queue; auto|]. cbn [p_chain p_pending p_nonces p_queue set_all set_queue].
      repeat split; auto.
      + intros x Hx. apply filter_In in Hx. tauto.
      + intros x Hx Hs. apply filter_In. split; auto. apply negb_true_iff. apply andb_false_iff. left.
        apply is_acct_false_iff. auto. }
  destruct HP4 as [S4 [D1 [D2 [D3 [D4 D5]]]]].
  match goal with |- Struct [] ?F /\ _ =>
    change F with (let '(caps, p4) := capres in
                   priced_removed p4 (Z.of_nat (length (filter g1 (p_queue p)) + length (filter bad (p_queue p1)) + length caps))) end.
  clearbody capres. destruct capres as [caps p4]. cbn [snd] in *. cbv beta iota.
  match goal with |- Struct [] ?F /\ _ => assert (HF : p_chain F = p_chain p4 /\ p_pending F = p_pending p4 /\ p_queue F = p_queue p4 /\ map fst (p_all F) = map fst (p_all p4) /\ p_nonces F = p_nonces p4) end.
  { unfold priced_removed, reheap. destruct (_ <=? _); cbn; auto. }
  match goal with |- Struct [] ?F /\ _ => set (pf := F) in * end.
  destruct HF as [F1 [F2 [F3 [F4 F5]]]].
  assert (Hpnf : forall b, pn_get pf b = pn_get p3 b).
  { intros b. unfold pn_get. rewrite F1, F5, D1, D3. reflexivity. }
  split; [eapply Struct_ext; [exact F2|exact F3|exact F4|exact S4]|].
  split; [rewrite F1, D1, C1; reflexivity|].
  exists R, lo.
  assert (Hne : R <> [] -> st_nonce (p_chain p) a <= lo).
  { intros Hne. destruct (HR2 lo) as [x [Hx Hn]].
    { destruct R; [congruence|]. cbn [length]. lia. }
    destruct (HR1 x Hx) as [Hq [Hs _]]. apply Hq2 in Hq. destruct Hq as [_ [Hg1 _]].
    unfold g1 in Hg1. apply andb_false_iff in Hg1. destruct Hg1 as [Hg1|Hg1].
    - apply is_acct_false_iff in Hg1. contradiction.
    - apply Z.ltb_ge in Hg1. lia. }
  split; [|split; [|split; [|split; [|split; [|split; [|split]]]]]].
  - intros x. rewrite F2, D2. rewrite C5. unfold p2'. cbn [p_pending set_queue]. reflexivity.
  - intros x Hx. destruct (HR1 x Hx) as [Hq [Hs Hn]]. apply Hq2 in Hq. destruct Hq as [Hq [_ Hbad]].
    repeat split; auto; try lia.
    + unfold bad in Hbad. apply andb_false_iff in Hbad. destruct Hbad as [Hb|Hb].
      * apply is_acct_false_iff in Hb. contradiction.
      * apply orb_false_iff in Hb. destruct Hb as [_ Hb]. apply Z.ltb_ge in Hb. rewrite Hs. exact Hb.
    + unfold bad in Hbad. apply andb_false_iff in Hbad. destruct Hbad as [Hb|Hb].
      * apply is_acct_false_iff in Hb. contradiction.
      * apply orb_false_iff in Hb. destruct Hb as [Hb _]. apply Z.ltb_ge in Hb. exact Hb.
  - exact HR2.
  - intros Hn. split; auto.
  - intros x Hx. rewrite F3 in Hx. apply D4 in Hx. rewrite C2 in Hx. unfold p2' in Hx. cbn [p_queue set_queue] in Hx.
    apply minus_ids_In in Hx. destruct Hx as [Hq2x Hnid].
    pose proof Hq2x as Hq2x'. apply Hq2 in Hq2x. destruct Hq2x as [Hq [Hg1 _]].
    assert (HnR : ~ In x R) by (intros Hc; apply Hnid; apply in_map; auto).
    repeat split; auto.
    + unfold g1 in Hg1. apply andb_false_iff in Hg1. destruct Hg1 as [Hg1|Hg1].
      * apply is_acct_false_iff in Hg1. contradiction.
      * apply Z.ltb_ge in Hg1. auto.
    + intros HRne.
      assert (Hlo : lo <= t_nonce x).
      { unfold lo. apply min_nonce_le. apply filter_In. split; auto. apply is_acct_true. auto. }
      destruct (Z_lt_ge_dec (t_nonce x) (lo + Z.of_nat (length R))) as [Hlt|Hge]; [|lia].
      exfalso. destruct (HR2 (t_nonce x)) as [r [Hr Hrn]]; [lia|].
      destruct (HR1 r Hr) as [Hrq [Hrs _]].
      apply HnR. assert (r = x); [|subst; auto].
      eapply NoDup_map_inj; [apply (s_kq _ p2 S2)| | |]; eauto. unfold key. congruence.
  - intros x Hx Hs. rewrite F3. apply D5; auto. rewrite C2. unfold p2'. cbn [p_queue set_queue].
    apply minus_ids_In. split.
    + apply Hq2. repeat split; auto.
      * unfold g1. apply andb_false_iff. left. apply is_acct_false_iff. auto.
      * unfold bad. apply andb_false_iff. left. apply is_acct_false_iff. auto.
    + intros Hin. apply in_map_iff in Hin. destruct Hin as [r [Hid Hr]].
      destruct (HR1 r Hr) as [Hrq [Hrs _]].
      assert (r = x); [|subst; contradiction].
      eapply (id_inj _ p2 S2); auto; apply (s_idx _ p2 S2); right; left; auto.
      apply Hq2. repeat split; auto.
      * unfold g1. apply andb_false_iff. left. apply is_acct_false_iff. auto.
      * unfold bad. apply andb_false_iff. left. apply is_acct_false_iff. auto.
  - intros b Hb. rewrite Hpnf, C6 by auto. reflexivity.
  - rewrite Hpnf, C7. destruct R as [|r0 R0] eqn:ER.
    + cbn [rev]. reflexivity.
    + rewrite <- ER in *. destruct (rev R) as [|z zs] eqn:Er.
      * exfalso. assert (R = []) by (destruct R; auto; cbn [rev] in Er; destruct (rev R); discriminate). congruence.
      * rewrite HR5. lia.
Qed.
