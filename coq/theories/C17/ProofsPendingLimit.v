(** C17 — the post-condition of truncatePending: afterwards the pool is within GlobalSlots unless
    every non-local account is within AccountSlots. *)
From Coq Require Import List ZArith NArith Bool Lia Sorted.
From Kardia Require Import Generated.C17Facts C17.Model C17.ProofsBasic C17.ProofsInv C17.ProofsOps C17.ProofsReorg
     C17.ProofsPromote C17.ProofsStep C17.ProofsReset C17.ProofsQueueCap C17.ProofsLocals C17.ProofsLocalFlag.
Import ListNotations.
Local Open Scope Z_scope.

Definition plen (q : pool) (a : N) : Z := l_len (p_pending q) a.
Definition ptotal (q : pool) : Z := Z.of_nat (length (p_pending q)).

(* ---- lists *)

Lemma filter_length_split {A} (f : A -> bool) l :
  (length (filter f l) + length (filter (fun x => negb (f x)) l) = length l)%nat.
Proof. induction l as [|x l IH]; cbn [filter length]; auto. destruct (f x); cbn [negb length]; lia. Qed.

Lemma rank_lt_len l a x : In x l -> sender x = a -> rank_in l a x < l_len l a.
Proof.
  intros Hin Hs. unfold rank_in, l_len, of_acct. apply Nat2Z.inj_lt.
  apply (filter_length_strict _ _ l x); auto.
  - intros y Hy. apply andb_true_iff in Hy. tauto.
  - apply andb_false_iff. right. apply Z.ltb_irrefl.
  - apply is_acct_true. exact Hs.
Qed.

Lemma rank_inj l a x y :
  NoDup (map key l) -> In x l -> In y l -> sender x = a -> sender y = a -> rank_in l a x = rank_in l a y -> x = y.
Proof.
  intros Hd Hx Hy Hsx Hsy Hr.
  assert (Hn : t_nonce x = t_nonce y).
  { destruct (Z.lt_trichotomy (t_nonce x) (t_nonce y)) as [H|[H|H]]; auto.
    - pose proof (rank_strict l a x y Hx Hsx H). lia.
    - pose proof (rank_strict l a y x Hy Hsy H). lia. }
  eapply (NoDup_map_inj key); eauto. unfold key. congruence.
Qed.

Lemma rank_nonneg l a x : 0 <= rank_in l a x.
Proof. unfold rank_in. lia. Qed.

(* exactly one entry of the account has the top rank *)
Lemma cap_top_unique l a :
  NoDup (map key l) -> 1 <= l_len l a ->
  length (filter (fun t => is_acct a t && (l_len l a - 1 <=? rank_in l a t)) l) = 1%nat.
Proof.
  intros Hd Hlen.
  set (f := fun t => is_acct a t && (l_len l a - 1 <=? rank_in l a t)).
  set (L := of_acct a l).
  assert (HL : forall t, In t L <-> In t l /\ sender t = a).
  { intros t. unfold L, of_acct. rewrite filter_In, is_acct_true. tauto. }
  assert (Hf : forall t, In t (filter f l) <-> In t l /\ sender t = a /\ rank_in l a t = l_len l a - 1).
  { intros t. unfold f. rewrite filter_In, andb_true_iff, is_acct_true, Z.leb_le. split.
    - intros [H1 [H2 H3]]. pose proof (rank_lt_len l a t H1 H2). repeat split; auto. lia.
    - intros [H1 [H2 H3]]. repeat split; auto. lia. }
  assert (Hnd : NoDup (filter f l)) by (apply NoDup_filter; eapply NoDup_of_map; eauto).
  (* existence by pigeonhole *)
  assert (Hex : exists x, In x (filter f l)).
  { set (r := fun t => Z.to_nat (rank_in l a t)).
    assert (HndL : NoDup (map r L)).
    { apply NoDup_map_on.
      - unfold L, of_acct. apply NoDup_filter. eapply NoDup_of_map; eauto.
      - intros x y Hx Hy Hr. apply HL in Hx. apply HL in Hy. destruct Hx as [Hx Hsx]. destruct Hy as [Hy Hsy].
        eapply (rank_inj l a); eauto. unfold r in Hr.
        pose proof (rank_nonneg l a x). pose proof (rank_nonneg l a y). lia. }
    assert (Hincl : incl (map r L) (seq 0 (length L))).
    { intros n Hn. apply in_map_iff in Hn. destruct Hn as [t [Hr Ht]]. apply HL in Ht. destruct Ht as [Ht Hs].
      apply in_seq. pose proof (rank_lt_len l a t Ht Hs). pose proof (rank_nonneg l a t).
      unfold l_len in H. fold L in H. unfold r in Hr. lia. }
    assert (Hrev : incl (seq 0 (length L)) (map r L)).
    { apply NoDup_length_incl; auto. rewrite seq_length, map_length. lia. }
    assert (Hin : In (length L - 1)%nat (seq 0 (length L))).
    { apply in_seq. unfold l_len in Hlen. fold L in Hlen. lia. }
    apply Hrev in Hin. apply in_map_iff in Hin. destruct Hin as [x [Hr Hx]]. exists x. apply Hf.
    apply HL in Hx. destruct Hx as [Hx Hs]. repeat split; auto.
    unfold r in Hr. pose proof (rank_nonneg l a x). unfold l_len. fold L. unfold l_len in Hlen. fold L in Hlen. lia. }
  destruct Hex as [x Hx].
  destruct (filter f l) as [|y [|z rest]] eqn:E; [destruct Hx|reflexivity|exfalso].
  assert (Hy : In y (y :: z :: rest)) by (cbn; auto).
  assert (Hz : In z (y :: z :: rest)) by (cbn; auto).
  apply Hf in Hy. apply Hf in Hz. destruct Hy as [Hy [Hsy Hry]]. destruct Hz as [Hz [Hsz Hrz]].
  assert (y = z) by (eapply (rank_inj l a); eauto; congruence).
  subst z. inversion Hnd as [|? ? Hn _]. apply Hn. cbn. auto.
Qed.

Lemma filter_commute {A} (f g : A -> bool) l : filter f (filter g l) = filter g (filter f l).
Proof. rewrite !filter_filter. apply filter_ext_in. intros. apply andb_comm. Qed.

(* list.Cap(list.Len()-1): exactly the top entry of the account goes *)
Lemma l_cap_top l a :
  NoDup (map key l) -> 1 <= l_len l a ->
  let rest := snd (l_cap l a (l_len l a - 1)) in
  Z.of_nat (length rest) = Z.of_nat (length l) - 1 /\ l_len rest a = l_len l a - 1 /\
  (forall b, b <> a -> l_len rest b = l_len l b).
Proof.
  intros Hd Hlen. cbn zeta. unfold l_cap.
  replace (l_len l a <=? l_len l a - 1) with false by (symmetry; apply Z.leb_gt; lia). cbn [snd].
  set (f := fun t => is_acct a t && (l_len l a - 1 <=? rank_in l a t)).
  pose proof (cap_top_unique l a Hd Hlen) as H1. fold f in H1.
  change (filter (fun t => negb (is_acct a t && (l_len l a - 1 <=? rank_in l a t))) l) with (filter (fun x => negb (f x)) l).
  split; [|split].
  - pose proof (filter_length_split f l). lia.
  - unfold l_len at 1. unfold of_acct. rewrite filter_commute. fold (of_acct a l).
    pose proof (filter_length_split f (of_acct a l)) as H2.
    assert (H3 : filter f (of_acct a l) = filter f l).
    { unfold of_acct. rewrite filter_filter. apply filter_ext_in. intros t _. unfold f. destruct (is_acct a t); reflexivity. }
    rewrite H3, H1 in H2. unfold l_len. lia.
  - intros b Hb. unfold l_len, of_acct. f_equal. f_equal. rewrite filter_filter. apply filter_ext_in.
    intros t _. unfold f. destruct (is_acct b t) eqn:Eb; [|apply andb_false_r].
    apply is_acct_true in Eb. assert (is_acct a t = false) by (apply is_acct_false_iff; congruence).
    rewrite H. reflexivity.
Qed.

(* ---- cap_one / cap_each *)

Lemma fold_lower_frame a caps : forall p,
  let p' := fold_left (fun q t => pn_set_if_lower q a (t_nonce t)) caps p in
  p_pending p' = p_pending p /\ p_locals p' = p_locals p /\ p_cfg p' = p_cfg p.
Proof.
  induction caps as [|t l IH]; intros p; cbn zeta; cbn [fold_left]; auto.
  destruct (IH (pn_set_if_lower p a (t_nonce t))) as [H1 [H2 H3]]. cbn zeta in *.
  assert (G : p_pending (pn_set_if_lower p a (t_nonce t)) = p_pending p /\ p_locals (pn_set_if_lower p a (t_nonce t)) = p_locals p /\
              p_cfg (pn_set_if_lower p a (t_nonce t)) = p_cfg p).
  { unfold pn_set_if_lower. destruct (_ <=? _); auto. }
  destruct G as [G1 [G2 G3]]. repeat split; congruence.
Qed.

Lemma cap_one_pending q a :
  p_pending (cap_one q a) = snd (l_cap (p_pending q) a (l_len (p_pending q) a - 1)) /\
  p_locals (cap_one q a) = p_locals q /\ p_cfg (cap_one q a) = p_cfg q.
Proof.
  unfold cap_one. destruct (l_cap (p_pending q) a (l_len (p_pending q) a - 1)) as [caps pd]. cbn [snd].
  set (p1 := set_all (set_pending q pd) (all_remove_list (p_all q) caps)).
  destruct (fold_lower_frame a caps p1) as [H1 [H2 H3]]. cbn zeta in *.
  unfold priced_removed, reheap. destruct (_ <=? _); cbn [p_pending p_locals p_cfg set_heap]; rewrite ?H1, ?H2, ?H3; auto.
Qed.

Lemma cap_one_effect q a :
  Inv q -> 1 <= plen q a ->
  Inv (cap_one q a) /\ ptotal (cap_one q a) = ptotal q - 1 /\ plen (cap_one q a) a = plen q a - 1 /\
  (forall b, b <> a -> plen (cap_one q a) b = plen q b) /\
  p_locals (cap_one q a) = p_locals q /\ p_cfg (cap_one q a) = p_cfg q.
Proof.
  intros I Hlen. destruct (cap_one_pending q a) as [Hp [Hl Hc]].
  destruct (l_cap_top (p_pending q) a (inv_kp _ q I) Hlen) as [T1 [T2 T3]]. cbn zeta in *.
  split; [apply inv_cap_one; exact I|]. unfold ptotal, plen. rewrite Hp. auto.
Qed.

Lemma cap_each_effect offs : forall q n,
  Inv q -> NoDup offs -> (forall a, In a offs -> 1 <= plen q a) ->
  let q' := fst (cap_each q n offs) in
  Inv q' /\ snd (cap_each q n offs) = n - Z.of_nat (length offs) /\ ptotal q' = ptotal q - Z.of_nat (length offs) /\
  (forall a, In a offs -> plen q' a = plen q a - 1) /\ (forall b, ~ In b offs -> plen q' b = plen q b) /\
  p_locals q' = p_locals q /\ p_cfg q' = p_cfg q.
Proof.
  unfold cap_each. induction offs as [|a r IH]; intros q n I Hd Hge; cbn zeta; cbn [fold_left fst snd length].
  - split; [exact I|]. split; [lia|]. split; [lia|]. split; [intros a []|]. split; [auto|]. split; reflexivity.
  - apply NoDup_cons_iff in Hd. destruct Hd as [Hna Hd].
    destruct (cap_one_effect q a I (Hge a (or_introl eq_refl))) as [I1 [E1 [E2 [E3 [E4 E5]]]]].
    destruct (IH (cap_one q a) (n - 1) I1 Hd) as [I2 [F1 [F2 [F3 [F4 [F5 F6]]]]]].
    { intros b Hb. rewrite E3; [apply Hge; cbn; auto|]. intros ->. contradiction. }
    cbn zeta in *. split; [exact I2|]. split; [rewrite F1; lia|]. split; [rewrite F2, E1; lia|].
    split; [|split; [|split; congruence]].
    + intros b [<-|Hb].
      * rewrite F4 by exact Hna. exact E2.
      * rewrite F3 by exact Hb. rewrite E3; [reflexivity|]. intros ->. contradiction.
    + intros b Hb. rewrite F4 by (intros H; apply Hb; cbn; auto). apply E3. intros ->. apply Hb. cbn. auto.
Qed.

(* ---- the two equalization loops *)

Definition EqLen (q : pool) (offs : list N) (L : Z) : Prop := forall a, In a offs -> plen q a = L.

Lemma cap_each_cfg offs : forall q n, p_cfg (fst (cap_each q n offs)) = p_cfg q.
Proof.
  unfold cap_each. induction offs as [|a r IH]; intros q n; cbn [fold_left fst]; auto.
  rewrite IH. apply cap_one_pending.
Qed.

Lemma equalize_spec offs lp th : NoDup offs -> In lp offs -> 0 <= th ->
  forall fuel q n L,
  Inv q -> n = ptotal q -> EqLen q offs L -> L <= th + Z.of_nat fuel ->
  let r := equalize fuel q n offs lp th in
  Inv (fst r) /\ snd r = ptotal (fst r) /\
  (exists L', EqLen (fst r) offs L' /\ L' <= L /\ (th <= L -> th <= L') /\ (snd r <= c_gslots (p_cfg q) \/ L' <= th)) /\
  (forall b, ~ In b offs -> plen (fst r) b = plen q b) /\ ptotal (fst r) <= ptotal q /\
  p_locals (fst r) = p_locals q /\ p_cfg (fst r) = p_cfg q.
Proof.
  intros Hd Hlp Hth. induction fuel as [|f IH]; intros q n L I Hn HE Hfuel; cbn zeta.
  - cbn [equalize fst snd]. split; [exact I|]. split; [exact Hn|]. split.
    + exists L. split; [exact HE|]. split; [lia|]. split; [auto|]. right. lia.
    + repeat split; auto; lia.
  - cbn [equalize]. fold (plen q lp). rewrite (HE lp Hlp).
    destruct ((c_gslots (p_cfg q) <? n) && (th <? L)) eqn:G.
    + apply andb_true_iff in G. destruct G as [G1 G2]. apply Z.ltb_lt in G1, G2.
      destruct (cap_each_effect offs q n I Hd) as [I1 [E1 [E2 [E3 [E4 [E5 E6]]]]]].
      { intros a Ha. rewrite (HE a Ha). lia. }
      cbn zeta in *. destruct (cap_each q n offs) as [q1 n1] eqn:Ec. cbn [fst snd] in *.
      destruct (IH q1 n1 (L - 1) I1) as [J1 [J2 [[L' [K1 [K2 [K3 K4]]]] [J4 [J5 [J6 J7]]]]]].
      { lia. }
      { intros a Ha. rewrite E3 by exact Ha. rewrite (HE a Ha). reflexivity. }
      { lia. }
      cbn zeta in *. split; [exact J1|]. split; [exact J2|]. split.
      * exists L'. split; [exact K1|]. split; [lia|]. split; [intros; apply K3; lia|]. rewrite <- E6. exact K4.
      * split; [intros b Hb; rewrite J4 by exact Hb; apply E4; exact Hb|]. split; [lia|]. split; congruence.
    + cbn [fst snd]. split; [exact I|]. split; [exact Hn|]. split.
      * exists L. split; [exact HE|]. split; [lia|]. split; [auto|].
        apply andb_false_iff in G. destruct G as [G|G]; [left; apply Z.ltb_ge in G; lia|right; apply Z.ltb_ge in G; lia].
      * repeat split; auto; lia.
Qed.

Lemma reduce_all_eq offs last : forall fuel q n,
  reduce_all fuel q n offs last = equalize fuel q n offs last (c_aslots (p_cfg q)).
Proof.
  induction fuel as [|f IH]; intros q n; cbn [reduce_all equalize]; auto.
  destruct (_ && _); auto.
  pose proof (cap_each_cfg offs q n) as Hc. destruct (cap_each q n offs) as [q1 n1]. cbn [fst] in Hc.
  rewrite IH, Hc. reflexivity.
Qed.

(* ---- the spam order *)

Definition Rdesc (u v : N * Z) : Prop := snd v <= snd u.

Lemma insert_spammer_In o x l z : In z (insert_spammer o x l) <-> z = x \/ In z l.
Proof.
  induction l as [|y r IH]; cbn [insert_spammer In]; [intuition|].
  destruct (_ || _); cbn [In]; [intuition|]. rewrite IH. intuition.
Qed.

Lemma insert_spammer_sorted o x l : StronglySorted Rdesc l -> StronglySorted Rdesc (insert_spammer o x l).
Proof.
  induction l as [|y r IH]; intros Hs; cbn [insert_spammer].
  - constructor; constructor.
  - inversion Hs as [|? ? Hr Hy]; subst.
    destruct ((snd y <? snd x) || ((snd y =? snd x) && Nat.ltb (rank o (fst x)) (rank o (fst y)))) eqn:E.
    + constructor; [exact Hs|]. constructor.
      * unfold Rdesc. apply orb_true_iff in E. destruct E as [E|E]; [apply Z.ltb_lt in E; lia|].
        apply andb_true_iff in E. destruct E as [E _]. apply Z.eqb_eq in E. lia.
      * rewrite Forall_forall in *. intros z Hz. specialize (Hy z Hz). unfold Rdesc in *.
        apply orb_true_iff in E. destruct E as [E|E]; [apply Z.ltb_lt in E; lia|].
        apply andb_true_iff in E. destruct E as [E _]. apply Z.eqb_eq in E. lia.
    + constructor; [apply IH; exact Hr|].
      rewrite Forall_forall in *. intros z Hz. apply insert_spammer_In in Hz. destruct Hz as [->|Hz]; [|apply Hy; exact Hz].
      unfold Rdesc. apply orb_false_iff in E. destruct E as [E _]. apply Z.ltb_ge in E. lia.
Qed.

Lemma insert_spammer_nodup o x l :
  NoDup (map fst l) -> ~ In (fst x) (map fst l) -> NoDup (map fst (insert_spammer o x l)).
Proof.
  induction l as [|y r IH]; intros Hd Hn; cbn [insert_spammer map].
  - constructor; [intros []|constructor].
  - destruct (_ || _); cbn [map].
    + constructor; [exact Hn|exact Hd].
    + cbn [map] in Hd, Hn. inversion Hd as [|? ? Hy Hr]; subst. constructor.
      * intros Hin. apply in_map_iff in Hin. destruct Hin as [z [Hz Hin]]. apply insert_spammer_In in Hin.
        destruct Hin as [->|Hin]; [apply Hn; cbn; auto|]. apply Hy. rewrite <- Hz. apply in_map. exact Hin.
      * apply IH; auto. intros H. apply Hn. cbn. auto.
Qed.

Lemma sort_spammers_spec o (g : N -> Z) l :
  NoDup l ->
  let s := fold_right (insert_spammer o) [] (map (fun a => (a, g a)) l) in
  StronglySorted Rdesc s /\ NoDup (map fst s) /\ (forall z, In z s <-> exists a, In a l /\ z = (a, g a)).
Proof.
  induction l as [|a r IH]; intros Hd; cbn zeta; cbn [map fold_right].
  - split; [constructor|]. split; [constructor|]. intros z. cbn. split; [tauto|]. intros [a [[] _]].
  - inversion Hd as [|? ? Ha Hr]; subst. destruct (IH Hr) as [S1 [S2 S3]]. cbn zeta in *.
    split; [apply insert_spammer_sorted; exact S1|]. split.
    + apply insert_spammer_nodup; [exact S2|]. cbn [fst]. intros Hin. apply in_map_iff in Hin.
      destruct Hin as [z [Hz Hin]]. apply S3 in Hin. destruct Hin as [b [Hb ->]]. cbn [fst] in Hz. subst. contradiction.
    + intros z. rewrite insert_spammer_In, S3. split.
      * intros [->|[b [Hb ->]]]; [exists a; cbn; auto|exists b; cbn; auto].
      * intros [b [[<-|Hb] ->]]; [left; reflexivity|right; exists b; auto].
Qed.

Definition DescLen (q : pool) (sp : list N) : Prop := StronglySorted (fun a b => plen q b <= plen q a) sp.

Lemma sorted_map_fst (g : N -> Z) s :
  StronglySorted Rdesc s -> (forall z, In z s -> snd z = g (fst z)) ->
  StronglySorted (fun a b => g b <= g a) (map fst s).
Proof.
  induction s as [|x r IH]; intros Hs Hg; cbn [map]; [constructor|].
  inversion Hs as [|? ? Hr Hx]; subst. constructor.
  - apply IH; auto. intros z Hz. apply Hg. cbn. auto.
  - rewrite Forall_forall in *. intros b Hb. apply in_map_iff in Hb. destruct Hb as [z [<- Hz]].
    specialize (Hx z Hz). unfold Rdesc in Hx. rewrite <- (Hg z), <- (Hg x); cbn; auto.
Qed.

Lemma spammers_spec q o :
  let sp := spammers q o in
  NoDup sp /\ DescLen q sp /\
  (forall a, In a sp <-> In a (accounts (p_pending q)) /\ memN a (p_locals q) = false /\ c_aslots (p_cfg q) < plen q a).
Proof.
  cbn zeta. unfold spammers.
  set (cands := filter (fun a => negb (memN a (p_locals q)) && (c_aslots (p_cfg q) <? l_len (p_pending q) a)) (accounts (p_pending q))).
  assert (Hnd : NoDup cands) by (unfold cands; apply NoDup_filter; apply accounts_spec).
  destruct (sort_spammers_spec o (fun a => l_len (p_pending q) a) cands Hnd) as [S1 [S2 S3]]. cbn zeta in *.
  split; [exact S2|]. split.
  - unfold DescLen, plen. apply sorted_map_fst; [exact S1|]. intros z Hz. apply S3 in Hz. destruct Hz as [a [_ ->]]. reflexivity.
  - intros a. rewrite in_map_iff. split.
    + intros [z [Hz Hin]]. apply S3 in Hin. destruct Hin as [b [Hb ->]]. cbn [fst] in Hz. subst b.
      unfold cands in Hb. apply filter_In in Hb. destruct Hb as [H1 H2]. apply andb_true_iff in H2. destruct H2 as [H2 H3].
      apply negb_true_iff in H2. apply Z.ltb_lt in H3. auto.
    + intros [H1 [H2 H3]]. exists (a, l_len (p_pending q) a). split; [reflexivity|]. apply S3. exists a. split; [|reflexivity].
      unfold cands. apply filter_In. split; [exact H1|]. rewrite H2. cbn [negb andb]. apply Z.ltb_lt. exact H3.
Qed.

(* ---- the offenders loop *)

Lemma plen_le_total q a : plen q a <= ptotal q.
Proof.
  unfold plen, ptotal, l_len, of_acct. apply Nat2Z.inj_le.
  induction (p_pending q) as [|x l IH]; cbn [filter length]; auto. destruct (is_acct a x); cbn [length]; lia.
Qed.

Lemma DescLen_transfer q q' sp : (forall s, In s sp -> plen q' s = plen q s) -> DescLen q sp -> DescLen q' sp.
Proof.
  unfold DescLen. induction sp as [|x r IH]; intros Heq Hs; [constructor|].
  inversion Hs as [|? ? Hr Hx]; subst. constructor.
  - apply IH; auto. intros s Hs'. apply Heq. cbn. auto.
  - rewrite Forall_forall in *. intros b Hb. rewrite (Heq x), (Heq b); cbn; auto.
Qed.

Lemma NoDup_app_parts {A} (l l' : list A) :
  NoDup (l ++ l') -> NoDup l /\ NoDup l' /\ (forall x, In x l -> ~ In x l').
Proof.
  induction l as [|a r IH]; cbn [app]; intros H.
  - split; [constructor|]. split; [exact H|]. intros x [].
  - inversion H as [|? ? Ha Hr]; subst. destruct (IH Hr) as [H1 [H2 H3]]. split; [|split; [exact H2|]].
    + constructor; [|exact H1]. intros Hin. apply Ha. apply in_or_app. auto.
    + intros x [<-|Hx]; [|apply H3; exact Hx]. intros Hin. apply Ha. apply in_or_app. auto.
Qed.

Lemma offenders_loop_spec fuel : forall sp q n offs,
  Inv q -> n = ptotal q -> NoDup (offs ++ sp) -> 0 <= c_aslots (p_cfg q) ->
  (c_gslots (p_cfg q) < n -> offs <> [] -> exists L, EqLen q offs L /\ (forall s, In s sp -> plen q s <= L)) ->
  DescLen q sp -> (forall s, In s sp -> c_aslots (p_cfg q) < plen q s) ->
  ptotal q < Z.of_nat fuel ->
  let r := offenders_loop fuel q n sp offs in
  let q' := fst (fst r) in let n' := snd (fst r) in let offs' := snd r in
  Inv q' /\ n' = ptotal q' /\ p_locals q' = p_locals q /\ p_cfg q' = p_cfg q /\ ptotal q' <= ptotal q /\
  (forall b, ~ In b (offs ++ sp) -> plen q' b = plen q b) /\
  (n' <= c_gslots (p_cfg q) \/ (offs' = offs ++ sp /\ (offs' <> [] -> exists L, EqLen q' offs' L))).
Proof.
  induction sp as [|o rest IH]; intros q n offs I Hn Hd Has HE Hdesc Hbig Hfuel; cbn zeta; cbn [offenders_loop fst snd].
  - split; [exact I|]. split; [exact Hn|]. split; [reflexivity|]. split; [reflexivity|]. split; [lia|]. split; [auto|].
    destruct (Z_le_gt_dec n (c_gslots (p_cfg q))) as [Hle|Hgt]; [left; exact Hle|right].
    rewrite app_nil_r. split; [reflexivity|]. intros Hne. destruct (HE ltac:(lia) Hne) as [L [H1 _]]. exists L. exact H1.
  - destruct (c_gslots (p_cfg q) <? n) eqn:G.
    2:{ cbn [fst snd]. apply Z.ltb_ge in G. split; [exact I|]. split; [exact Hn|]. repeat split; auto; try lia. }
    apply Z.ltb_lt in G. fold (plen q o).
    assert (Hth : c_aslots (p_cfg q) < plen q o) by (apply Hbig; cbn; auto).
    assert (Hno : ~ In o offs /\ NoDup offs /\ NoDup (o :: rest) /\ (forall s, In s rest -> ~ In s offs)).
    { destruct (NoDup_app_parts offs (o :: rest) Hd) as [P1 [P2 P3]]. split; [|split; [exact P1|split; [exact P2|]]].
      - intros Hin. apply (P3 o Hin). cbn. auto.
      - intros s Hs Hin. apply (P3 s Hin). cbn. auto. }
    destruct Hno as [No1 [No2 [No3 No4]]].
    unfold DescLen in Hdesc. apply StronglySorted_inv in Hdesc. destruct Hdesc as [Hdr Hdo]. rewrite Forall_forall in Hdo.
    (* the state after the equalization of the previous offenders *)
    assert (Hstep : exists q1 n1,
      (match rev offs with [] => (q, n) | lp :: _ => equalize fuel q n offs lp (plen q o) end) = (q1, n1) /\
      Inv q1 /\ n1 = ptotal q1 /\ p_locals q1 = p_locals q /\ p_cfg q1 = p_cfg q /\ ptotal q1 <= ptotal q /\
      (forall b, ~ In b offs -> plen q1 b = plen q b) /\
      (c_gslots (p_cfg q) < n1 -> EqLen q1 (offs ++ [o]) (plen q o))).
    { destruct (rev offs) as [|lp rr] eqn:Er.
      - exists q, n. assert (offs = []) by (destruct offs; [reflexivity|]; apply (f_equal (@length N)) in Er; rewrite rev_length in Er; discriminate).
        subst offs. split; [reflexivity|]. split; [exact I|]. split; [exact Hn|]. split; [reflexivity|]. split; [reflexivity|].
        split; [lia|]. split; [auto|]. intros _ a [<-|[]]. reflexivity.
      - assert (Hlp : In lp offs) by (apply in_rev; rewrite Er; cbn; auto).
        assert (Hne : offs <> []) by (intros ->; destruct Hlp).
        destruct (HE G Hne) as [L [HL HLs]].
        assert (HoL : plen q o <= L) by (apply HLs; cbn; auto).
        pose proof (plen_le_total q lp) as Hlt. rewrite (HL lp Hlp) in Hlt.
        destruct (equalize_spec offs lp (plen q o) No2 Hlp ltac:(lia) fuel q n L I Hn HL ltac:(lia))
          as [J1 [J2 [[L' [K1 [K2 [K3 K4]]]] [J4 [J5 [J6 J7]]]]]]. cbn zeta in *.
        destruct (equalize fuel q n offs lp (plen q o)) as [q1 n1]. cbn [fst snd] in *.
        exists q1, n1. split; [reflexivity|]. split; [exact J1|]. split; [exact J2|]. split; [exact J6|]. split; [exact J7|].
        split; [exact J5|]. split; [exact J4|].
        intros Hg a Ha. apply in_app_iff in Ha. destruct Ha as [Ha|[<-|[]]].
        + rewrite (K1 a Ha). specialize (K3 HoL). destruct K4 as [K4|K4]; lia.
        + apply J4. exact No1. }
    destruct Hstep as [q1 [n1 [Est [I1 [Hn1 [Hl1 [Hc1 [Ht1 [Hf1 HE1]]]]]]]]]. rewrite Est.
    destruct (IH q1 n1 (offs ++ [o]) I1 Hn1) as [R1 [R2 [R3 [R4 [R5 [R6 R7]]]]]].
    { rewrite <- app_assoc. exact Hd. }
    { rewrite Hc1. exact Has. }
    { rewrite Hc1. intros Hg _. exists (plen q o). split; [apply HE1; exact Hg|].
      intros s Hs. rewrite Hf1 by (apply No4; exact Hs). apply Hdo. exact Hs. }
    { apply (DescLen_transfer q); [|exact Hdr]. intros s Hs. apply Hf1. apply No4. exact Hs. }
    { intros s Hs. rewrite Hc1, Hf1 by (apply No4; exact Hs). apply Hbig. cbn. auto. }
    { lia. }
    cbn zeta in *. split; [exact R1|]. split; [exact R2|]. split; [congruence|]. split; [congruence|]. split; [lia|]. split.
    + intros b Hb. rewrite R6.
      * apply Hf1. intros Hin. apply Hb. apply in_or_app. auto.
      * rewrite <- app_assoc. exact Hb.
    + rewrite Hc1 in R7. rewrite <- app_assoc in R7. exact R7.
Qed.

(* ---- the post-condition of truncatePending *)

Definition pending_ok (q : pool) : Prop :=
  ptotal q <= c_gslots (p_cfg q) \/ forall a, ~ In a (p_locals q) -> plen q a <= c_aslots (p_cfg q).

Lemma plen_not_account q a : ~ In a (accounts (p_pending q)) -> plen q a = 0.
Proof.
  intros Hn. unfold plen, l_len. destruct (of_acct a (p_pending q)) as [|x r] eqn:E; [reflexivity|exfalso].
  apply Hn. apply accounts_spec. exists x.
  assert (In x (of_acct a (p_pending q))) by (rewrite E; cbn; auto).
  unfold of_acct in H. apply filter_In in H. destruct H as [H1 H2]. apply is_acct_true in H2. auto.
Qed.

Theorem truncate_pending_post o p :
  Inv p -> 0 <= c_aslots (p_cfg p) -> pending_ok (truncate_pending o p).
Proof.
  intros I Has. unfold truncate_pending. fold (ptotal p).
  destruct (ptotal p <=? c_gslots (p_cfg p)) eqn:E0; [left; apply Z.leb_le; exact E0|].
  apply Z.leb_gt in E0.
  destruct (spammers_spec p o) as [Snd [Sdesc Smem]]. cbn zeta in *. set (sp := spammers p o) in *.
  assert (Hothers : forall b, ~ In b (p_locals p) -> ~ In b sp -> plen p b <= c_aslots (p_cfg p)).
  { intros b Hl Hb. destruct (in_dec N.eq_dec b (accounts (p_pending p))) as [Hin|Hnin]; [|rewrite plen_not_account; auto].
    destruct (Z_le_gt_dec (plen p b) (c_aslots (p_cfg p))); auto. exfalso. apply Hb. apply Smem. split; auto. split; [|lia].
    destruct (memN b (p_locals p)) eqn:Em; auto. apply memN_In in Em. contradiction. }
  pose proof (offenders_loop_spec (S (length (p_pending p))) sp p (ptotal p) [] I eq_refl) as Hloop.
  cbn [app] in Hloop. specialize (Hloop Snd Has ltac:(intros _ H; contradiction) Sdesc ltac:(intros s Hs; apply Smem; exact Hs)
                                        ltac:(unfold ptotal; lia)).
  cbn zeta in Hloop.
  destruct (offenders_loop (S (length (p_pending p))) p (ptotal p) sp []) as [[p1 n1] offs]. cbn [fst snd] in Hloop.
  destruct Hloop as [I1 [Hn1 [Hl1 [Hc1 [Ht1 [Hf1 Hend]]]]]].
  assert (Hleft : n1 <= c_gslots (p_cfg p) -> pending_ok p1) by (intros H; left; rewrite Hc1, <- Hn1; exact H).
  destruct (rev offs) as [|last rr] eqn:Er.
  - destruct Hend as [Hend|[Hoffs _]]; [apply Hleft; exact Hend|].
    assert (offs = []) by (destruct offs; [reflexivity|]; apply (f_equal (@length N)) in Er; rewrite rev_length in Er; discriminate).
    right. intros a Ha. rewrite Hl1 in Ha. rewrite Hc1, Hf1; [apply Hothers; auto|]; rewrite <- Hoffs, H; intros [].
  - destruct (c_gslots (p_cfg p1) <? n1) eqn:G; [|apply Hleft; apply Z.ltb_ge in G; rewrite <- Hc1; exact G].
    apply Z.ltb_lt in G. destruct Hend as [Hend|[Hoffs HEq]]; [rewrite Hc1 in G; lia|].
    assert (Hlast : In last offs) by (apply in_rev; rewrite Er; cbn; auto).
    destruct (HEq ltac:(intros ->; destruct Hlast)) as [L HL].
    rewrite reduce_all_eq.
    pose proof (plen_le_total p1 last) as Hlt. rewrite (HL last Hlast) in Hlt.
    assert (Hndo : NoDup offs) by (rewrite Hoffs; exact Snd).
    destruct (equalize_spec offs last (c_aslots (p_cfg p1)) Hndo Hlast ltac:(rewrite Hc1; exact Has)
                            (S (length (p_pending p))) p1 n1 L I1 Hn1 HL ltac:(unfold ptotal in *; rewrite Hc1; lia))
      as [J1 [J2 [[L' [K1 [K2 [K3 K4]]]] [J4 [J5 [J6 J7]]]]]]. cbn zeta in *.
    destruct (equalize (S (length (p_pending p))) p1 n1 offs last (c_aslots (p_cfg p1))) as [q2 n2]. cbn [fst snd] in *.
    destruct K4 as [K4|K4]; [left; rewrite J7, <- J2; exact K4|].
    right. intros a Ha. rewrite J6, Hl1 in Ha. rewrite J7.
    destruct (in_dec N.eq_dec a offs) as [Hin|Hnin].
    + rewrite (K1 a Hin). exact K4.
    + rewrite J4 by exact Hnin. rewrite Hc1, Hf1; [apply Hothers; auto|]. rewrite <- Hoffs. exact Hnin.
      rewrite <- Hoffs. exact Hnin.
Qed.

(* ---- truncateQueue never grows a pending list *)

Definition pend_le (q q' : pool) : Prop :=
  (forall a, plen q' a <= plen q a) /\ ptotal q' <= ptotal q /\ p_locals q' = p_locals q /\ p_cfg q' = p_cfg q.

Lemma pend_le_refl q : pend_le q q.
Proof. repeat split; auto; lia. Qed.
Lemma pend_le_trans q r s : pend_le q r -> pend_le r s -> pend_le q s.
Proof.
  intros [A1 [A2 [A3 A4]]] [B1 [B2 [B3 B4]]]. split; [intros a; specialize (A1 a); specialize (B1 a); lia|].
  split; [lia|]. split; congruence.
Qed.
Lemma pending_ok_le q q' : pending_ok q -> pend_le q q' -> pending_ok q'.
Proof.
  intros [H|H] [A1 [A2 [A3 A4]]]; [left; rewrite A4; lia|].
  right. intros a Ha. rewrite A3 in Ha. rewrite A4. specialize (H a Ha). specialize (A1 a). lia.
Qed.

Lemma filter_sub_len {A} (f g : A -> bool) l : (length (filter f (filter g l)) <= length (filter f l))%nat.
Proof.
  induction l as [|x l IH]; cbn [filter length]; auto.
  destruct (g x); cbn [filter]; destruct (f x); cbn [length]; lia.
Qed.
Lemma filter_len_le {A} (g : A -> bool) l : (length (filter g l) <= length l)%nat.
Proof. induction l as [|x l IH]; cbn [filter length]; auto. destruct (g x); cbn [length]; lia. Qed.

Lemma enqueue_tx_pending p t l : p_pending (fst (fst (enqueue_tx p t l false))) = p_pending p.
Proof.
  unfold enqueue_tx. destruct (l_add (p_queue p) t (c_price_bump (p_cfg p))) as [[ok old] q'].
  destruct ok; cbn [fst]; auto. destruct old; cbn [fst]; auto.
  unfold priced_removed, reheap. destruct (_ <=? _); reflexivity.
Qed.
Lemma enqueue_all_pending l : forall p, p_pending (enqueue_all p l) = p_pending p.
Proof.
  unfold enqueue_all. induction l as [|t l IH]; intros p; cbn [fold_left]; auto.
  rewrite IH. apply enqueue_tx_pending.
Qed.

Lemma pend_le_remove_tx p id b : pend_le p (remove_tx p id b).
Proof.
  destruct (remove_tx_stable p id b) as [_ [Hc [Hl _]]]. cbn zeta in *.
  assert (Hp : p_pending (remove_tx p id b) = p_pending p \/
               exists g h, p_pending (remove_tx p id b) = filter g (filter h (p_pending p))).
  { unfold remove_tx. destruct (all_get (p_all p) id) as [t|]; [|left; reflexivity].
    set (p1 := set_all p (all_remove (p_all p) id)).
    set (p2 := if b then priced_removed p1 1 else p1).
    assert (H2 : p_pending p2 = p_pending p).
    { subst p2. destruct b; [unfold priced_removed, reheap; destruct (_ <=? _)|]; reflexivity. }
    unfold l_remove. rewrite H2.
    destruct (l_get (p_pending p) (sender t) (t_nonce t)).
    - right. eexists. eexists.
      unfold pn_set_if_lower. destruct (_ <=? _); [|unfold pn_set; cbn [p_pending set_nonces]];
        rewrite enqueue_all_pending; cbn [p_pending set_pending]; unfold l_del; reflexivity.
    - left. destruct (l_get (p_queue p2) (sender t) (t_nonce t)); cbn [p_pending set_queue]; exact H2. }
  split; [|split; [|split; auto]].
  - intros a. unfold plen, l_len, of_acct. destruct Hp as [->|[g [h ->]]]; [lia|].
    apply Nat2Z.inj_le. etransitivity; [apply filter_sub_len|apply filter_sub_len].
  - unfold ptotal. destruct Hp as [->|[g [h ->]]]; [lia|].
    apply Nat2Z.inj_le. etransitivity; [apply filter_len_le|apply filter_len_le].
Qed.
Lemma pend_le_remove_txs l : forall p b, pend_le p (remove_txs p l b).
Proof.
  unfold remove_txs. induction l as [|t l IH]; intros p b; cbn [fold_left]; [apply pend_le_refl|].
  eapply pend_le_trans; [apply pend_le_remove_tx|apply IH].
Qed.
Lemma pend_le_drop_last_few fuel : forall p l d, pend_le p (fst (drop_last_few fuel p l d)).
Proof.
  induction fuel as [|f IH]; intros p l d; cbn [drop_last_few fst]; [apply pend_le_refl|].
  destruct l as [|t r]; [apply pend_le_refl|]. destruct (0 <? d); [|apply pend_le_refl].
  eapply pend_le_trans; [apply pend_le_remove_tx|apply IH].
Qed.
Lemma pend_le_truncate_queue_loop addrs : forall p d, pend_le p (truncate_queue_loop p addrs d).
Proof.
  induction addrs as [|a rest IH]; intros p d; cbn [truncate_queue_loop]; [apply pend_le_refl|].
  destruct (0 <? d); [|apply pend_le_refl]. destruct (_ <=? _).
  - eapply pend_le_trans; [apply pend_le_remove_txs|apply IH].
  - pose proof (pend_le_drop_last_few (length (flatten (p_queue p) a)) p (rev (flatten (p_queue p) a)) d) as H.
    destruct (drop_last_few _ p _ d) as [p1 d1]. cbn [fst] in H. eapply pend_le_trans; [exact H|apply IH].
Qed.
Lemma pend_le_truncate_queue o p : pend_le p (truncate_queue o p).
Proof. unfold truncate_queue. destruct (_ <=? _); [apply pend_le_refl|apply pend_le_truncate_queue_loop]. Qed.

(* ---- after every reorg run *)

Lemma promote_account_cfg p a : p_cfg (promote_account p a) = p_cfg p.
Proof.
  unfold promote_account. destruct (of_acct a (p_queue p)); [reflexivity|].
  destruct (l_forward _ _ _) as [forwards q1]. destruct (l_filter _ _ _ _ _) as [[drops inv] q2].
  match goal with |- context [promote_list ?q a ?R] => destruct (promote_list_frame R q a) as [_ [_ F3]]; set (p3 := promote_list q a R) in * end.
  destruct (memN a (p_locals p3)).
  - unfold priced_removed, reheap. destruct (_ <=? _); cbn [p_cfg set_heap]; rewrite F3; reflexivity.
  - destruct (l_cap _ _ _) as [caps q3]. unfold priced_removed, reheap. destruct (_ <=? _); cbn [p_cfg set_heap set_all set_queue]; rewrite F3; reflexivity.
Qed.
Lemma promote_executables_cfg l : forall p, p_cfg (promote_executables p l) = p_cfg p.
Proof.
  unfold promote_executables. induction l as [|a l IH]; intros p; cbn [fold_left]; auto.
  rewrite IH. apply promote_account_cfg.
Qed.

Lemma pending_ok_set_changes q v : pending_ok q -> pending_ok (set_changes q v).
Proof. intros H. exact H. Qed.

Theorem pending_limit_after_reorg c p dirty :
  Inv p -> 0 <= c_aslots (p_cfg p) -> pending_ok (run_reorg c p None dirty).
Proof.
  intros I Has. unfold run_reorg. apply pending_ok_set_changes.
  eapply pending_ok_le; [|apply pend_le_truncate_queue].
  apply truncate_pending_post; [apply inv_promote_executables; exact I|].
  rewrite promote_executables_cfg. exact Has.
Qed.

Lemma fold_demote_cfg l : forall p, p_cfg (fold_left demote_account l p) = p_cfg p.
Proof.
  induction l as [|a l IH]; intros p; cbn [fold_left]; auto. rewrite IH.
  unfold demote_account. destruct (l_forward _ _ _) as [olds pd1]. destruct (l_filter _ _ _ _ _) as [[drops invalids] pd2].
  match goal with |- context [enqueue_all ?q ?l] => destruct (enqueue_all_stable l q) as [_ [E2 _]]; set (p3 := enqueue_all q l) in * end.
  cbn zeta in E2.
  destruct (of_acct a (p_pending p3)); [exact E2|]. destruct (l_get (p_pending p3) a _); [exact E2|].
  destruct (l_cap (p_pending p3) a 0) as [gapped pd3].
  destruct (enqueue_all_stable gapped (set_pending p3 pd3)) as [_ [E3 _]]. cbn zeta in E3. rewrite E3. exact E2.
Qed.

Theorem pending_limit_after_reset c p ch :
  Inv p -> chain_nonneg ch -> 0 <= c_aslots (p_cfg p) -> pending_ok (run_reorg c p (Some (ch, [])) []).
Proof.
  intros I Hnn Has. rewrite run_reorg_reset_eq. apply pending_ok_set_changes.
  eapply pending_ok_le; [|apply pend_le_truncate_queue].
  apply truncate_pending_post; [apply inv_reset_core; auto|].
  unfold reset_core, do_reset. cbn [add_txs_locked]. cbn [p_cfg set_nonces].
  unfold demote_unexecutables. rewrite fold_demote_cfg, promote_executables_cfg. exact Has.
Qed.

Lemma sanitize_aslots c : 1 <= c_aslots (sanitize c).
Proof. unfold sanitize. cbn [c_aslots]. destruct (Z.ltb_spec (c_aslots c) 1); [unfold def_account_slots|]; lia. Qed.
