(** C17 — basic lemmas: list helpers, the txList primitives, the replacement rule. *)
From Coq Require Import List ZArith NArith Bool Lia Permutation.
From Kardia Require Import Generated.C17Facts C17.Model.
Import ListNotations.
Local Open Scope Z_scope.

Definition key (t : tx) : N * Z := (sender t, t_nonce t).

Lemma same_slot_true a n t : same_slot a n t = true <-> sender t = a /\ t_nonce t = n.
Proof.
  unfold same_slot. rewrite andb_true_iff, N.eqb_eq, Z.eqb_eq. tauto.
Qed.

Lemma same_slot_key a n t : same_slot a n t = true <-> key t = (a, n).
Proof.
  rewrite same_slot_true. unfold key. split.
  - intros [-> ->]. reflexivity.
  - intros H. inversion H. auto.
Qed.

Lemma is_acct_true a t : is_acct a t = true <-> sender t = a.
Proof. unfold is_acct. apply N.eqb_eq. Qed.

Lemma is_acct_false_iff a t : is_acct a t = false <-> sender t <> a.
Proof. unfold is_acct. apply N.eqb_neq. Qed.

Lemma memN_In a l : memN a l = true <-> In a l.
Proof.
  unfold memN. rewrite existsb_exists. split.
  - intros [x [Hx He]]. apply N.eqb_eq in He. subst. auto.
  - intros H. exists a. split; auto. apply N.eqb_refl.
Qed.

Lemma NoDup_map_filter {A B} (f : A -> B) (g : A -> bool) l :
  NoDup (map f l) -> NoDup (map f (filter g l)).
Proof.
  induction l as [|x l IH]; cbn [map filter]; intros H; auto.
  inversion H as [|? ? Hn Hd]; subst.
  destruct (g x); cbn [map]; auto.
  constructor; auto. intros Hin. apply Hn.
  apply in_map_iff in Hin. destruct Hin as [y [Hy Hin]]. apply filter_In in Hin.
  apply in_map_iff. exists y. tauto.
Qed.

Lemma NoDup_map_inj {A B} (f : A -> B) l x y :
  NoDup (map f l) -> In x l -> In y l -> f x = f y -> x = y.
Proof.
  induction l as [|z l IH]; cbn [map]; intros Hd Hx Hy Hf; [destruct Hx|].
  inversion Hd as [|? ? Hn Hd']; subst.
  destruct Hx as [->|Hx], Hy as [->|Hy]; auto.
  - exfalso. apply Hn. rewrite Hf. apply in_map; auto.
  - exfalso. apply Hn. rewrite <- Hf. apply in_map; auto.
Qed.

Lemma filter_nil_all {A} (f : A -> bool) l : filter f l = [] -> filter (fun x => negb (f x)) l = l.
Proof.
  induction l as [|x l IH]; cbn [filter]; auto.
  destruct (f x); cbn [negb]; [discriminate|]. intros H. f_equal. auto.
Qed.

(* ---- l_get / l_del / l_put *)

Lemma l_get_some l a n t : l_get l a n = Some t -> In t l /\ key t = (a, n).
Proof.
  unfold l_get. intros H. apply find_some in H. destruct H as [Hin Hs].
  apply same_slot_key in Hs. auto.
Qed.

Lemma l_get_none l a n : l_get l a n = None -> forall t, In t l -> key t <> (a, n).
Proof.
  unfold l_get. intros H t Hin Hk. apply same_slot_key in Hk.
  pose proof (find_none _ _ H t Hin) as Hf. congruence.
Qed.

Lemma l_get_in l t : In t l -> exists t', l_get l (sender t) (t_nonce t) = Some t'.
Proof.
  intros Hin. destruct (l_get l (sender t) (t_nonce t)) eqn:E; eauto.
  exfalso. eapply l_get_none; eauto.
Qed.

Lemma l_get_in_nodup l t : NoDup (map key l) -> In t l -> l_get l (sender t) (t_nonce t) = Some t.
Proof.
  intros Hd Hin. destruct (l_get_in l t Hin) as [t' Ht']. rewrite Ht'. f_equal.
  apply l_get_some in Ht'. destruct Ht' as [Hin' Hk].
  eapply NoDup_map_inj; eauto.
Qed.

Lemma l_del_In l a n x : In x (l_del l a n) <-> In x l /\ key x <> (a, n).
Proof.
  unfold l_del. rewrite filter_In. rewrite negb_true_iff. split; intros [H1 H2]; split; auto.
  - intros Hk. apply same_slot_key in Hk. congruence.
  - destruct (same_slot a n x) eqn:E; auto. apply same_slot_key in E. contradiction.
Qed.

Lemma l_put_In l t x : In x (l_put l t) <-> x = t \/ (In x l /\ key x <> key t).
Proof.
  unfold l_put. cbn [In]. rewrite l_del_In. unfold key. split; intros [H|H]; auto.
Qed.

Lemma l_put_nodup l t : NoDup (map key l) -> NoDup (map key (l_put l t)).
Proof.
  intros Hd. unfold l_put. cbn [map]. constructor.
  - intros Hin. apply in_map_iff in Hin. destruct Hin as [x [Hk Hin]].
    apply l_del_In in Hin. destruct Hin as [_ Hne]. apply Hne. exact Hk.
  - unfold l_del. apply NoDup_map_filter. exact Hd.
Qed.

(* ---- the replacement rule (txList.Add) *)

Lemma l_add_replace_rule l t bump old l' :
  0 <= bump ->
  l_add l t bump = (true, Some old, l') ->
  key old = key t /\ In old l /\
  t_price old < t_price t /\ ((100 + bump) * t_price old) / 100 <= t_price t.
Proof.
  intros Hb. unfold l_add.
  destruct (l_get l (sender t) (t_nonce t)) as [o|] eqn:E; [|intros H; inversion H].
  destruct ((t_price t <=? t_price o) || (t_price t <? (100 + bump) * t_price o / 100)) eqn:C; intros H; inversion H; subst.
  apply orb_false_iff in C. destruct C as [C1 C2].
  apply Z.leb_gt in C1. apply Z.ltb_ge in C2.
  apply l_get_some in E. destruct E as [Hin Hk]. unfold key in *. repeat split; auto; lia.
Qed.

(* an accepted insertion with no previous entry means the slot was free *)
Lemma l_add_cases l t bump :
  match l_get l (sender t) (t_nonce t) with
  | None => l_add l t bump = (true, None, l_put l t)
  | Some old => l_add l t bump = (false, None, l) \/ l_add l t bump = (true, Some old, l_put l t)
  end.
Proof.
  unfold l_add. destruct (l_get l (sender t) (t_nonce t)); auto.
  destruct (_ || _); auto.
Qed.

(* a rejected insertion leaves the list as it was; an accepted one puts exactly [t] in the slot *)
Lemma l_add_result l t bump ok old l' :
  l_add l t bump = (ok, old, l') ->
  (ok = false /\ l' = l /\ old = None) \/ (ok = true /\ l' = l_put l t /\ old = l_get l (sender t) (t_nonce t)).
Proof.
  unfold l_add. destruct (l_get l (sender t) (t_nonce t)) eqn:E.
  - destruct (_ || _); intros H; inversion H; subst; auto.
  - intros H; inversion H; subst; auto.
Qed.
