(** C17 — executable model of the transaction pool (mainchain/tx_pool/*.go), transcribed from the
    code as it is today.

    Representation.  [txSortedMap] is a hash map nonce -> tx plus a heap index; [pool.pending] and
    [pool.queue] are maps sender -> txList.  The model keeps each of the two as ONE flat finite map
    keyed by (sender, nonce) (a [list tx] in which [l_put] overwrites the same key, exactly as
    [txSortedMap.Put] does); the nonce-sorted views ([Flatten], [Cap], [Ready], [LastElement]) are
    computed on demand as the Go code does.  An account "has a list" iff it has at least one entry
    (the Go code deletes lists when they become empty on every path).  [all] is the hash index with
    the local/remote flag ([txLookup.locals]/[remotes]).  The price heap is a multiset of entries
    (live, stale and duplicate ones, as in the Go heap) plus the [stales] counter; [container/heap]
    pops *a* minimal element, and which one among equals is a choice ([o1]).  The cached
    [costcap]/[gascap] of a txList are not modelled: they are upper bounds of the costs/gas of the
    list's entries on every path (entries enter only through [txList.Add], which raises them), so
    the short circuit of [txList.Filter] is the identity on the result.  Heartbeats ([pool.beats])
    are not modelled; the only place they are read besides the lifetime loop is the account order of
    [truncateQueue], which is a choice ([o3]).  [prque] order among equal list lengths in
    [truncatePending] is a choice ([o2]).

    No proofs in this file. *)
From Coq Require Import List ZArith NArith Bool.
From Kardia Require Import Generated.C17Facts.
Import ListNotations.
Local Open Scope Z_scope.

Definition max_uint64 : Z := 18446744073709551615.

(* ------------------------------------------------------------------ transactions *)

Record tx := mkTx {
  t_id : N;             (* hash *)
  t_from : option N;    (* types.Sender(pool.signer, tx); None = error (bad signature / wrong chain id) *)
  t_nonce : Z;
  t_price : Z;
  t_gas : Z;
  t_value : Z;
  t_size : Z;           (* tx.Size(): RLP size *)
  t_nz : Z;             (* non-zero data bytes *)
  t_zb : Z;             (* zero data bytes *)
  t_create : bool       (* tx.To() == nil *)
}.

(* `from, _ := types.Sender(...)`: the zero address on error *)
Definition sender (t : tx) : N := match t_from t with Some a => a | None => 0%N end.
Definition cost (t : tx) : Z := t_price t * t_gas t + t_value t.
Definition num_slots (t : tx) : Z := (t_size t + tx_slot_size - 1) / tx_slot_size.

Inductive err :=
| EOk | EKnown | EInvalidSender | EOversized | ENegative | EGasLimit | EUnderpriced | ENonceLow
| EFunds | EIntrinsic | EGasOverflow | EPoolFull | EReplace.

Definition is_ok (e : err) : bool := match e with EOk => true | _ => false end.

(* ------------------------------------------------------------------ config, chain *)

Record config := mkCfg {
  c_price_limit : Z; c_price_bump : Z;
  c_aslots : Z; c_gslots : Z; c_aqueue : Z; c_gqueue : Z;
  c_nolocals : bool; c_journal : bool; c_locals : list N
}.

Definition sanitize (c : config) : config :=
  mkCfg (if c_price_limit c <? 1 then def_price_limit else c_price_limit c)
        (if c_price_bump c <? 1 then def_price_bump else c_price_bump c)
        (if c_aslots c <? 1 then def_account_slots else c_aslots c)
        (if c_gslots c <? 1 then def_global_slots else c_gslots c)
        (if c_aqueue c <? 1 then def_account_queue else c_aqueue c)
        (if c_gqueue c <? 1 then def_global_queue else c_gqueue c)
        (c_nolocals c) (c_journal c) (c_locals c).

Record chain := mkChain {
  ch_nonces : list (N * Z); ch_bals : list (N * Z); ch_gaslimit : Z; ch_height : Z
}.

Fixpoint lookupZ (m : list (N * Z)) (a : N) : option Z :=
  match m with
  | [] => None
  | (k, v) :: r => if N.eqb k a then Some v else lookupZ r a
  end.
Definition getZ (m : list (N * Z)) (a : N) : Z := match lookupZ m a with Some v => v | None => 0 end.
Definition st_nonce (ch : chain) (a : N) : Z := getZ (ch_nonces ch) a.
Definition st_balance (ch : chain) (a : N) : Z := getZ (ch_bals ch) a.
(* next := newHead.Height + 1; isForked: *s <= *head *)
Definition chain_galaxias (ch : chain) : bool := galaxias_block <=? ch_height ch + 1.

Definition memN (a : N) (l : list N) : bool := existsb (N.eqb a) l.

(* ------------------------------------------------------------------ tx lists (txList / txSortedMap) *)

Definition is_acct (a : N) (t : tx) : bool := N.eqb (sender t) a.
Definition same_slot (a : N) (n : Z) (t : tx) : bool := N.eqb (sender t) a && (t_nonce t =? n).

Definition of_acct (a : N) (l : list tx) : list tx := filter (is_acct a) l.
Definition l_len (l : list tx) (a : N) : Z := Z.of_nat (length (of_acct a l)).
Definition l_get (l : list tx) (a : N) (n : Z) : option tx := find (same_slot a n) l.
Definition l_del (l : list tx) (a : N) (n : Z) : list tx := filter (fun t => negb (same_slot a n t)) l.
Definition l_put (l : list tx) (t : tx) : list tx := t :: l_del l (sender t) (t_nonce t).

Fixpoint accounts_aux (seen : list N) (l : list tx) : list N :=
  match l with
  | [] => []
  | t :: r => if memN (sender t) seen then accounts_aux seen r else sender t :: accounts_aux (sender t :: seen) r
  end.
(* the keys of pool.pending / pool.queue *)
Definition accounts (l : list tx) : list N := accounts_aux [] l.

(* txList.Add *)
Definition l_add (l : list tx) (t : tx) (bump : Z) : bool * option tx * list tx :=
  match l_get l (sender t) (t_nonce t) with
  | Some old =>
    let threshold := ((100 + bump) * t_price old) / 100 in
    if (t_price t <=? t_price old) || (t_price t <? threshold) then (false, None, l)
    else (true, Some old, l_put l t)
  | None => (true, None, l_put l t)
  end.

Definition minus_ids (l : list tx) (rm : list tx) : list tx :=
  filter (fun t => negb (existsb (fun r => N.eqb (t_id r) (t_id t)) rm)) l.

(* txList.Forward: (removed, rest) *)
Definition l_forward (l : list tx) (a : N) (th : Z) : list tx * list tx :=
  (filter (fun t => is_acct a t && (t_nonce t <? th)) l,
   filter (fun t => negb (is_acct a t && (t_nonce t <? th))) l).

Definition min_nonce (l : list tx) : Z := fold_right (fun t m => Z.min (t_nonce t) m) max_uint64 l.
Definition max_nonce (l : list tx) : Z := fold_right (fun t m => Z.max (t_nonce t) m) 0 l.

(* txList.Filter: (removed, invalids, rest) *)
Definition l_filter (strict : bool) (l : list tx) (a : N) (cost_limit gas_limit : Z)
  : list tx * list tx * list tx :=
  let bad t := is_acct a t && ((gas_limit <? t_gas t) || (cost_limit <? cost t)) in
  let removed := filter bad l in
  match removed with
  | [] => ([], [], l)
  | _ =>
    let rest := filter (fun t => negb (bad t)) l in
    if strict then
      let lowest := min_nonce removed in
      let inv t := is_acct a t && (lowest <? t_nonce t) in
      (removed, filter inv rest, filter (fun t => negb (inv t)) rest)
    else (removed, [], rest)
  end.

(* position of an entry in the nonce order of its account *)
Definition rank_in (l : list tx) (a : N) (t : tx) : Z :=
  Z.of_nat (length (filter (fun x => is_acct a x && (t_nonce x <? t_nonce t)) l)).

(* txList.Cap: (drops, rest) *)
Definition l_cap (l : list tx) (a : N) (th : Z) : list tx * list tx :=
  if l_len l a <=? th then ([], l)
  else (filter (fun t => is_acct a t && (th <=? rank_in l a t)) l,
        filter (fun t => negb (is_acct a t && (th <=? rank_in l a t))) l).

(* txList.Remove (by nonce!): (removed?, invalids, rest) *)
Definition l_remove (strict : bool) (l : list tx) (a : N) (n : Z) : bool * list tx * list tx :=
  match l_get l a n with
  | None => (false, [], l)
  | Some _ =>
    let l1 := l_del l a n in
    if strict then
      (true, filter (fun t => is_acct a t && (n <? t_nonce t)) l1,
             filter (fun t => negb (is_acct a t && (n <? t_nonce t))) l1)
    else (true, [], l1)
  end.

Fixpoint run_from (fuel : nat) (l : list tx) (a : N) (next : Z) : list tx :=
  match fuel with
  | O => []
  | S f => match l_get l a next with
           | Some t => t :: run_from f l a (next + 1)
           | None => []
           end
  end.

(* txList.Ready: the ready run (to be removed from the list by the caller via [minus_ids]) *)
Definition l_ready (l : list tx) (a : N) (start : Z) : list tx :=
  match of_acct a l with
  | [] => []
  | la => let lo := min_nonce la in
          if start <? lo then [] else run_from (length l) l a lo
  end.

Fixpoint insert_nonce (t : tx) (l : list tx) : list tx :=
  match l with
  | [] => [t]
  | x :: r => if t_nonce t <? t_nonce x then t :: l else x :: insert_nonce t r
  end.
(* txList.Flatten *)
Definition flatten (l : list tx) (a : N) : list tx := fold_right insert_nonce [] (of_acct a l).

(* ------------------------------------------------------------------ the pool *)

Record pool := mkPool {
  p_cfg : config;
  p_chain : chain;             (* currentState / currentMaxGas / head height as of the last reset *)
  p_galaxias : bool;           (* pool.isGalaxias *)
  p_pending : list tx;
  p_queue : list tx;
  p_all : list (tx * bool);    (* txLookup: (tx, local?) *)
  p_locals : list N;           (* pool.locals *)
  p_gasprice : Z;
  p_nonces : list (N * Z);     (* pendingNonces.nonces; fallback = state nonce *)
  p_changes : Z;               (* changesSinceReorg *)
  p_journal : option (list tx);(* journal file content while a writer is active *)
  p_heap : list tx;            (* priced.remotes (multiset) *)
  p_stales : Z                 (* priced.stales *)
}.

Definition set_pending p v := mkPool (p_cfg p) (p_chain p) (p_galaxias p) v (p_queue p) (p_all p) (p_locals p) (p_gasprice p) (p_nonces p) (p_changes p) (p_journal p) (p_heap p) (p_stales p).
Definition set_queue p v := mkPool (p_cfg p) (p_chain p) (p_galaxias p) (p_pending p) v (p_all p) (p_locals p) (p_gasprice p) (p_nonces p) (p_changes p) (p_journal p) (p_heap p) (p_stales p).
Definition set_all p v := mkPool (p_cfg p) (p_chain p) (p_galaxias p) (p_pending p) (p_queue p) v (p_locals p) (p_gasprice p) (p_nonces p) (p_changes p) (p_journal p) (p_heap p) (p_stales p).
Definition set_locals p v := mkPool (p_cfg p) (p_chain p) (p_galaxias p) (p_pending p) (p_queue p) (p_all p) v (p_gasprice p) (p_nonces p) (p_changes p) (p_journal p) (p_heap p) (p_stales p).
Definition set_gasprice p v := mkPool (p_cfg p) (p_chain p) (p_galaxias p) (p_pending p) (p_queue p) (p_all p) (p_locals p) v (p_nonces p) (p_changes p) (p_journal p) (p_heap p) (p_stales p).
Definition set_nonces p v := mkPool (p_cfg p) (p_chain p) (p_galaxias p) (p_pending p) (p_queue p) (p_all p) (p_locals p) (p_gasprice p) v (p_changes p) (p_journal p) (p_heap p) (p_stales p).
Definition set_changes p v := mkPool (p_cfg p) (p_chain p) (p_galaxias p) (p_pending p) (p_queue p) (p_all p) (p_locals p) (p_gasprice p) (p_nonces p) v (p_journal p) (p_heap p) (p_stales p).
Definition set_journal p v := mkPool (p_cfg p) (p_chain p) (p_galaxias p) (p_pending p) (p_queue p) (p_all p) (p_locals p) (p_gasprice p) (p_nonces p) (p_changes p) v (p_heap p) (p_stales p).
Definition set_heap p h s := mkPool (p_cfg p) (p_chain p) (p_galaxias p) (p_pending p) (p_queue p) (p_all p) (p_locals p) (p_gasprice p) (p_nonces p) (p_changes p) (p_journal p) h s.
Definition set_chain p ch := mkPool (p_cfg p) ch (p_galaxias p) (p_pending p) (p_queue p) (p_all p) (p_locals p) (p_gasprice p) (p_nonces p) (p_changes p) (p_journal p) (p_heap p) (p_stales p).
Definition set_galaxias p g := mkPool (p_cfg p) (p_chain p) g (p_pending p) (p_queue p) (p_all p) (p_locals p) (p_gasprice p) (p_nonces p) (p_changes p) (p_journal p) (p_heap p) (p_stales p).

(* ---- txNoncer *)
Definition pn_get (p : pool) (a : N) : Z :=
  match lookupZ (p_nonces p) a with Some v => v | None => st_nonce (p_chain p) a end.
Definition pn_set (p : pool) (a : N) (v : Z) : pool :=
  set_nonces p ((a, v) :: filter (fun kv => negb (N.eqb (fst kv) a)) (p_nonces p)).
Definition pn_set_if_lower (p : pool) (a : N) (v : Z) : pool :=
  if pn_get p a <=? v then p else pn_set p a v.

(* ---- txLookup *)
Definition id_is (id : N) (e : tx * bool) : bool := N.eqb (t_id (fst e)) id.
Definition all_get (al : list (tx * bool)) (id : N) : option tx := option_map fst (find (id_is id) al).
Definition all_get_remote (al : list (tx * bool)) (id : N) : option tx :=
  option_map fst (find (fun e => id_is id e && negb (snd e)) al).
Definition all_add (al : list (tx * bool)) (t : tx) (local : bool) : list (tx * bool) := al ++ [(t, local)].
Definition all_remove (al : list (tx * bool)) (id : N) : list (tx * bool) := filter (fun e => negb (id_is id e)) al.
Definition all_slots (al : list (tx * bool)) : Z := fold_right (fun e s => num_slots (fst e) + s) 0 al.
Definition contains_tx (locals : list N) (t : tx) : bool :=
  match t_from t with Some a => memN a locals | None => false end.
Definition migrates (locals : list N) (e : tx * bool) : bool := negb (snd e) && contains_tx locals (fst e).
(* RemoteToLocals: (migrated, all') *)
Definition all_to_locals (al : list (tx * bool)) (locals : list N) : Z * list (tx * bool) :=
  (Z.of_nat (length (filter (migrates locals) al)),
   map (fun e => if migrates locals e then (fst e, true) else e) al).
Definition all_remove_list (al : list (tx * bool)) (l : list tx) : list (tx * bool) :=
  fold_left (fun acc t => all_remove acc (t_id t)) l al.

(* ---- txPricedList *)
Fixpoint rank (o : list N) (a : N) : nat :=
  match o with [] => O | x :: r => if N.eqb x a then O else S (rank r a) end.

(* priceHeap.Less extended to a total order by the tie-break choice [o1] *)
Definition hkey_lt (o1 : list N) (x y : tx) : bool :=
  if t_price x <? t_price y then true else if t_price y <? t_price x then false else
  if t_nonce y <? t_nonce x then true else if t_nonce x <? t_nonce y then false else
  let rx := rank o1 (sender x) in let ry := rank o1 (sender y) in
  if Nat.ltb rx ry then true else if Nat.ltb ry rx then false else N.ltb (t_id x) (t_id y).

Fixpoint heap_min (o1 : list N) (h : list tx) : option tx :=
  match h with
  | [] => None
  | x :: r => match heap_min o1 r with
              | None => Some x
              | Some m => if hkey_lt o1 m x then Some m else Some x
              end
  end.
Fixpoint remove_one (id : N) (h : list tx) : list tx :=
  match h with [] => [] | x :: r => if N.eqb (t_id x) id then r else x :: remove_one id r end.

Definition reheap (p : pool) : pool :=
  set_heap p (map fst (filter (fun e => negb (snd e)) (p_all p))) 0.
(* Removed(count) *)
Definition priced_removed (p : pool) (count : Z) : pool :=
  let s := p_stales p + count in
  if s <=? Z.of_nat (length (p_heap p)) / 4 then set_heap p (p_heap p) s else reheap p.
(* Put *)
Definition priced_put (p : pool) (t : tx) (local : bool) : pool :=
  if local then p else set_heap p (t :: p_heap p) (p_stales p).

Fixpoint drop_stale_heads (fuel : nat) (o1 : list N) (al : list (tx * bool)) (h : list tx) (s : Z) : list tx * Z :=
  match fuel with
  | O => (h, s)
  | S f => match heap_min o1 h with
           | None => (h, s)
           | Some m => match all_get_remote al (t_id m) with
                       | None => drop_stale_heads f o1 al (remove_one (t_id m) h) (s - 1)
                       | Some _ => (h, s)
                       end
           end
  end.
(* Underpriced *)
Definition priced_underpriced (p : pool) (o1 : list N) (t : tx) : pool * bool :=
  let '(h, s) := drop_stale_heads (length (p_heap p)) o1 (p_all p) (p_heap p) (p_stales p) in
  (set_heap p h s,
   match heap_min o1 h with None => false | Some m => t_price t <=? t_price m end).

Fixpoint discard_loop (fuel : nat) (o1 : list N) (al : list (tx * bool)) (h : list tx) (s slots : Z) (drop : list tx)
  : list tx * Z * Z * list tx :=
  match fuel with
  | O => (h, s, slots, drop)
  | S f =>
    if slots <=? 0 then (h, s, slots, drop) else
    match heap_min o1 h with
    | None => (h, s, slots, drop)
    | Some m =>
      let h' := remove_one (t_id m) h in
      match all_get_remote al (t_id m) with
      | None => discard_loop f o1 al h' (s - 1) slots drop
      | Some _ => discard_loop f o1 al h' s (slots - num_slots m) (drop ++ [m])
      end
    end
  end.
(* Discard *)
Definition priced_discard (p : pool) (o1 : list N) (slots : Z) (force : bool) : pool * list tx * bool :=
  let '(h, s, sl, drop) := discard_loop (length (p_heap p)) o1 (p_all p) (p_heap p) (p_stales p) slots [] in
  if (0 <? sl) && negb force then (set_heap p (drop ++ h) s, [], false)
  else (set_heap p h s, drop, true).

Fixpoint cap_loop (fuel : nat) (o1 : list N) (al : list (tx * bool)) (h : list tx) (s thr : Z) (drop : list tx)
  : list tx * Z * list tx :=
  match fuel with
  | O => (h, s, drop)
  | S f =>
    match heap_min o1 h with
    | None => (h, s, drop)
    | Some m =>
      match all_get_remote al (t_id m) with
      | None => cap_loop f o1 al (remove_one (t_id m) h) (s - 1) thr drop
      | Some _ => if thr <=? t_price m then (h, s, drop)
                  else cap_loop f o1 al (remove_one (t_id m) h) s thr (drop ++ [m])
      end
    end
  end.
(* Cap *)
Definition priced_cap (p : pool) (o1 : list N) (thr : Z) : pool * list tx :=
  let '(h, s, drop) := cap_loop (length (p_heap p)) o1 (p_all p) (p_heap p) (p_stales p) thr [] in
  (set_heap p h s, drop).

(* ------------------------------------------------------------------ validateTx *)

Definition intrinsic_gas (t : tx) (legacy : bool) : option Z :=
  let gas0 := if t_create t then tx_gas_creation else if legacy then tx_gas_legacy else tx_gas in
  if 0 <? t_nz t + t_zb t then
    if (max_uint64 - gas0) / tx_data_nonzero_gas <? t_nz t then None else
    let g1 := gas0 + t_nz t * tx_data_nonzero_gas in
    if (max_uint64 - g1) / tx_data_zero_gas <? t_zb t then None else
    Some (g1 + t_zb t * tx_data_zero_gas)
  else Some gas0.

Definition validate_tx (p : pool) (t : tx) (local : bool) : err :=
  if tx_max_size <? t_size t then EOversized else
  if t_value t <? 0 then ENegative else
  if ch_gaslimit (p_chain p) <? t_gas t then EGasLimit else
  match t_from t with
  | None => EInvalidSender
  | Some from =>
    if negb local && (t_price t <? p_gasprice p) then EUnderpriced else
    if t_nonce t <? st_nonce (p_chain p) from then ENonceLow else
    if st_balance (p_chain p) from <? cost t then EFunds else
    match intrinsic_gas t (negb (p_galaxias p)) with
    | None => EGasOverflow
    | Some ig => if t_gas t <? ig then EIntrinsic else EOk
    end
  end.

(* ------------------------------------------------------------------ enqueueTx / promoteTx / removeTx *)

(* (pool, replaced, inserted) *)
Definition enqueue_tx (p : pool) (t : tx) (local add_all : bool) : pool * bool * bool :=
  match l_add (p_queue p) t (c_price_bump (p_cfg p)) with
  | (false, _, _) => (p, false, false)
  | (true, old, q') =>
    let p1 := set_queue p q' in
    let p2 := match old with
              | Some o => priced_removed (set_all p1 (all_remove (p_all p1) (t_id o))) 1
              | None => p1
              end in
    let p3 := if add_all then priced_put (set_all p2 (all_add (p_all p2) t local)) t local else p2 in
    (p3, match old with Some _ => true | None => false end, true)
  end.

Definition enqueue_all (p : pool) (l : list tx) : pool :=
  fold_left (fun q t => fst (fst (enqueue_tx q t false false))) l p.

Definition promote_tx (p : pool) (a : N) (t : tx) : pool * bool :=
  match l_add (p_pending p) t (c_price_bump (p_cfg p)) with
  | (false, _, _) => (priced_removed (set_all p (all_remove (p_all p) (t_id t))) 1, false)
  | (true, old, pd') =>
    let p1 := set_pending p pd' in
    let p2 := match old with
              | Some o => priced_removed (set_all p1 (all_remove (p_all p1) (t_id o))) 1
              | None => p1
              end in
    (pn_set p2 a (t_nonce t + 1), true)
  end.

Definition remove_tx (p : pool) (id : N) (outofbound : bool) : pool :=
  match all_get (p_all p) id with
  | None => p
  | Some t =>
    let a := sender t in
    let p1 := set_all p (all_remove (p_all p) id) in
    let p2 := if outofbound then priced_removed p1 1 else p1 in
    match l_remove true (p_pending p2) a (t_nonce t) with
    | (true, invalids, rest) =>
      let p3 := enqueue_all (set_pending p2 rest) invalids in
      pn_set_if_lower p3 a (t_nonce t)
    | (false, _, _) =>
      match l_remove false (p_queue p2) a (t_nonce t) with
      | (_, _, rest) => set_queue p2 rest
      end
    end
  end.

Definition remove_txs (p : pool) (l : list tx) (outofbound : bool) : pool :=
  fold_left (fun q t => remove_tx q (t_id t) outofbound) l p.

(* ------------------------------------------------------------------ add *)

Definition journal_tx (p : pool) (from : N) (t : tx) : pool :=
  match p_journal p with
  | Some j => if memN from (p_locals p) then set_journal p (Some (j ++ [t])) else p
  | None => p
  end.

(* the pool-full branch of add: (pool, Some error) or (pool after the evictions, None) *)
Definition make_room (o1 : list N) (q : pool) (t : tx) (is_local : bool) : pool * option err :=
  let cfg := p_cfg q in
  if c_gslots cfg + c_gqueue cfg <? all_slots (p_all q) + num_slots t then
    let '(q1, under) := if is_local then (q, false) else priced_underpriced q o1 t in
    if negb is_local && under then (q1, Some EUnderpriced) else
    if c_gslots cfg / 4 <? p_changes q1 then (q1, Some EPoolFull) else
    let '(q2, drop, success) :=
        priced_discard q1 o1 (all_slots (p_all q1) - (c_gslots cfg + c_gqueue cfg) + num_slots t) is_local in
    if negb is_local && negb success then (q2, Some EPoolFull) else
    let q3 := set_changes q2 (p_changes q2 + Z.of_nat (length drop)) in
    (remove_txs q3 drop false, None)
  else (q, None).

(* (pool, replaced, error) *)
Definition add (o1 : list N) (p : pool) (t : tx) (local : bool) : pool * bool * err :=
  match all_get (p_all p) (t_id t) with
  | Some _ => (p, false, EKnown)
  | None =>
    let is_local := local || contains_tx (p_locals p) t in
    match validate_tx p t is_local with
    | EOk =>
      let cfg := p_cfg p in
      match make_room o1 p t is_local with
      | (p1, Some e) => (p1, false, e)
      | (p1, None) =>
        let from := sender t in
        match l_get (p_pending p1) from (t_nonce t) with
        | Some _ =>
          match l_add (p_pending p1) t (c_price_bump cfg) with
          | (false, _, _) => (p1, false, EReplace)
          | (true, old, pd') =>
            let p2 := set_pending p1 pd' in
            let p3 := match old with
                      | Some o => priced_removed (set_all p2 (all_remove (p_all p2) (t_id o))) 1
                      | None => p2
                      end in
            let p4 := priced_put (set_all p3 (all_add (p_all p3) t is_local)) t is_local in
            (journal_tx p4 from t, match old with Some _ => true | None => false end, EOk)
          end
        | None =>
          match enqueue_tx p1 t is_local true with
          | (_, _, false) => (p1, false, EReplace)
          | (p2, replaced, true) =>
            let p3 := if local && negb (memN from (p_locals p2)) then
                        let q := set_locals p2 (from :: p_locals p2) in
                        let '(migrated, al) := all_to_locals (p_all q) (p_locals q) in
                        priced_removed (set_all q al) migrated
                      else p2 in
            (journal_tx p3 from t, replaced, EOk)
          end
        end
      end
    | e => (p, false, e)
    end
  end.

(* addTxsLocked: (pool, errors, dirty accounts) *)
Fixpoint add_txs_locked (o1 : list N) (p : pool) (txs : list tx) (local : bool) : pool * list err * list N :=
  match txs with
  | [] => (p, [], [])
  | t :: r =>
    let '(p1, replaced, e) := add o1 p t local in
    let '(p2, es, dirty) := add_txs_locked o1 p1 r local in
    let d := if is_ok e && negb replaced then
               match t_from t with Some a => if memN a dirty then dirty else a :: dirty | None => dirty end
             else dirty in
    (p2, e :: es, d)
  end.

(* ------------------------------------------------------------------ promoteExecutables *)

Definition promote_list (p : pool) (a : N) (l : list tx) : pool :=
  fold_left (fun q t => fst (promote_tx q a t)) l p.

Definition promote_account (p : pool) (a : N) : pool :=
  match of_acct a (p_queue p) with
  | [] => p
  | _ =>
    let ch := p_chain p in
    let '(forwards, q1) := l_forward (p_queue p) a (st_nonce ch a) in
    let p1 := set_all (set_queue p q1) (all_remove_list (p_all p) forwards) in
    let '(drops, _, q2) := l_filter false (p_queue p1) a (st_balance ch a) (ch_gaslimit ch) in
    let p2 := set_all (set_queue p1 q2) (all_remove_list (p_all p1) drops) in
    let readies := l_ready (p_queue p2) a (pn_get p2 a) in
    let p3 := promote_list (set_queue p2 (minus_ids (p_queue p2) readies)) a readies in
    let '(caps, p4) :=
        if memN a (p_locals p3) then ([], p3) else
        let '(caps, q3) := l_cap (p_queue p3) a (c_aqueue (p_cfg p3)) in
        (caps, set_all (set_queue p3 q3) (all_remove_list (p_all p3) caps)) in
    priced_removed p4 (Z.of_nat (length forwards + length drops + length caps))
  end.

Definition promote_executables (p : pool) (accts : list N) : pool := fold_left promote_account accts p.

(* ------------------------------------------------------------------ demoteUnexecutables *)

Definition demote_account (p : pool) (a : N) : pool :=
  let ch := p_chain p in
  let nonce := st_nonce ch a in
  let '(olds, pd1) := l_forward (p_pending p) a nonce in
  let p1 := set_all (set_pending p pd1) (all_remove_list (p_all p) olds) in
  let '(drops, invalids, pd2) := l_filter true (p_pending p1) a (st_balance ch a) (ch_gaslimit ch) in
  let p2 := set_all (set_pending p1 pd2) (all_remove_list (p_all p1) drops) in
  let p3 := enqueue_all p2 invalids in
  match of_acct a (p_pending p3), l_get (p_pending p3) a nonce with
  | _ :: _, None =>
    let '(gapped, pd3) := l_cap (p_pending p3) a 0 in
    enqueue_all (set_pending p3 pd3) gapped
  | _, _ => p3
  end.

Definition demote_unexecutables (p : pool) : pool := fold_left demote_account (accounts (p_pending p)) p.

(* ------------------------------------------------------------------ truncatePending *)

(* list.Cap(list.Len()-1) on pool.pending[a] plus the bookkeeping that follows it *)
Definition cap_one (p : pool) (a : N) : pool :=
  let '(caps, pd) := l_cap (p_pending p) a (l_len (p_pending p) a - 1) in
  let p1 := set_all (set_pending p pd) (all_remove_list (p_all p) caps) in
  let p2 := fold_left (fun q t => pn_set_if_lower q a (t_nonce t)) caps p1 in
  priced_removed p2 (Z.of_nat (length caps)).

Fixpoint insert_spammer (o2 : list N) (x : N * Z) (l : list (N * Z)) : list (N * Z) :=
  match l with
  | [] => [x]
  | y :: r =>
    if (snd y <? snd x) || ((snd y =? snd x) && Nat.ltb (rank o2 (fst x)) (rank o2 (fst y)))
    then x :: l else y :: insert_spammer o2 x r
  end.

(* the pop order of the spammers queue: list length descending, ties by the choice [o2] *)
Definition spammers (p : pool) (o2 : list N) : list N :=
  let cands := filter (fun a => negb (memN a (p_locals p)) && (c_aslots (p_cfg p) <? l_len (p_pending p) a))
                      (accounts (p_pending p)) in
  map fst (fold_right (insert_spammer o2) [] (map (fun a => (a, l_len (p_pending p) a)) cands)).

Definition cap_each (p : pool) (pending : Z) (l : list N) : pool * Z :=
  fold_left (fun '(q, n) a => (cap_one q a, n - 1)) l (p, pending).

Fixpoint equalize (fuel : nat) (p : pool) (pending : Z) (prev : list N) (last_prev : N) (threshold : Z) : pool * Z :=
  match fuel with
  | O => (p, pending)
  | S f =>
    if (c_gslots (p_cfg p) <? pending) && (threshold <? l_len (p_pending p) last_prev) then
      let '(p1, n1) := cap_each p pending prev in equalize f p1 n1 prev last_prev threshold
    else (p, pending)
  end.

Fixpoint offenders_loop (fuel : nat) (p : pool) (pending : Z) (sp : list N) (offenders : list N) : pool * Z * list N :=
  match sp with
  | [] => (p, pending, offenders)
  | offender :: rest =>
    if c_gslots (p_cfg p) <? pending then
      let offenders' := offenders ++ [offender] in
      let '(p1, n1) :=
          match rev offenders with
          | [] => (p, pending)
          | last_prev :: _ => equalize fuel p pending offenders last_prev (l_len (p_pending p) offender)
          end in
      offenders_loop fuel p1 n1 rest offenders'
    else (p, pending, offenders)
  end.

Fixpoint reduce_all (fuel : nat) (p : pool) (pending : Z) (offenders : list N) (last : N) : pool * Z :=
  match fuel with
  | O => (p, pending)
  | S f =>
    if (c_gslots (p_cfg p) <? pending) && (c_aslots (p_cfg p) <? l_len (p_pending p) last) then
      let '(p1, n1) := cap_each p pending offenders in reduce_all f p1 n1 offenders last
    else (p, pending)
  end.

Definition truncate_pending (o2 : list N) (p : pool) : pool :=
  let pending := Z.of_nat (length (p_pending p)) in
  if pending <=? c_gslots (p_cfg p) then p else
  let fuel := S (length (p_pending p)) in
  let '(p1, n1, offenders) := offenders_loop fuel p pending (spammers p o2) [] in
  match rev offenders with
  | [] => p1
  | last :: _ => if c_gslots (p_cfg p1) <? n1 then fst (reduce_all fuel p1 n1 offenders last) else p1
  end.

(* ------------------------------------------------------------------ truncateQueue *)

Fixpoint drop_last_few (fuel : nat) (p : pool) (txs_desc : list tx) (drop : Z) : pool * Z :=
  match fuel, txs_desc with
  | S f, t :: r => if 0 <? drop then drop_last_few f (remove_tx p (t_id t) true) r (drop - 1) else (p, drop)
  | _, _ => (p, drop)
  end.

Fixpoint truncate_queue_loop (p : pool) (addrs : list N) (drop : Z) : pool :=
  match addrs with
  | [] => p
  | a :: rest =>
    if 0 <? drop then
      let txs := flatten (p_queue p) a in
      let size := Z.of_nat (length txs) in
      if size <=? drop then truncate_queue_loop (remove_txs p txs true) rest (drop - size)
      else let '(p1, d1) := drop_last_few (length txs) p (rev txs) drop in truncate_queue_loop p1 rest d1
    else p
  end.

(* [o3]: the order in which the non-local accounts are visited (latest heartbeat first) *)
Definition truncate_queue (o3 : list N) (p : pool) : pool :=
  let queued := Z.of_nat (length (p_queue p)) in
  if queued <=? c_gqueue (p_cfg p) then p else
  let qa := accounts (p_queue p) in
  let addrs := filter (fun a => memN a qa && negb (memN a (p_locals p))) o3 ++
               filter (fun a => negb (memN a o3) && negb (memN a (p_locals p))) qa in
  truncate_queue_loop p addrs (queued - c_gqueue (p_cfg p)).

(* ------------------------------------------------------------------ reset / runReorg *)

Record choice := mkChoice { o1 : list N; o2 : list N; o3 : list N }.

(* reset(oldHead, newHead): new state/gas limit, fresh noncer, reinjection, then the fork flag *)
Definition do_reset (c : choice) (p : pool) (ch : chain) (reinject : list tx) : pool :=
  let p1 := set_nonces (set_chain p ch) [] in
  let '(p2, _, _) := add_txs_locked (o1 c) p1 reinject false in
  set_galaxias p2 (chain_galaxias ch).

Definition run_reorg (c : choice) (p : pool) (reset : option (chain * list tx)) (dirty : list N) : pool :=
  let p1 := match reset with Some (ch, reinject) => do_reset c p ch reinject | None => p end in
  let addrs := match reset with Some _ => accounts (p_queue p1) | None => dirty end in
  let p2 := promote_executables p1 addrs in
  let p3 := match reset with
            | Some _ =>
              let p' := demote_unexecutables p2 in
              set_nonces p' (map (fun a => (a, max_nonce (of_acct a (p_pending p')) + 1)) (accounts (p_pending p')))
            | None => p2
            end in
  let p4 := truncate_pending (o2 c) p3 in
  let p5 := truncate_queue (o3 c) p4 in
  set_changes p5 0.

(* addTxs (sync): pre-filter, addTxsLocked, promote request *)
Fixpoint merge_errs (pre : list (option err)) (es : list err) : list err :=
  match pre with
  | [] => []
  | Some e :: r => e :: merge_errs r es
  | None :: r => match es with e :: es' => e :: merge_errs r es' | [] => EOk :: merge_errs r [] end
  end.

Definition add_txs (c : choice) (p : pool) (txs : list tx) (local : bool) : pool * list err :=
  let pre := map (fun t => match all_get (p_all p) (t_id t) with
                           | Some _ => Some EKnown
                           | None => match t_from t with None => Some EInvalidSender | Some _ => None end
                           end) txs in
  let news := filter (fun t => match all_get (p_all p) (t_id t), t_from t with None, Some _ => true | _, _ => false end) txs in
  match news with
  | [] => (p, merge_errs pre [])
  | _ =>
    let '(p1, es, dirty) := add_txs_locked (o1 c) p news local in
    (run_reorg c p1 None dirty, merge_errs pre es)
  end.

(* ------------------------------------------------------------------ SetGasPrice, lifetime loop, journal *)

Definition set_gas_price (c : choice) (p : pool) (price : Z) : pool :=
  let old := p_gasprice p in
  let p1 := set_gasprice p price in
  if old <? price then
    let '(p2, drop) := priced_cap p1 (o1 c) price in
    priced_removed (remove_txs p2 drop false) (Z.of_nat (length drop))
  else p1.

(* the eviction branch of loop(): [addrs] are the accounts whose heartbeat is older than Lifetime *)
Definition expire (p : pool) (addrs : list N) : pool :=
  fold_left (fun q a => if memN a (p_locals q) then q else remove_txs q (flatten (p_queue q) a) true) addrs p.

(* pool.local() *)
Definition local_txs (p : pool) : list tx :=
  flat_map (fun a => flatten (p_pending p) a ++ flatten (p_queue p) a) (p_locals p).

(* NewTxPool: empty pool on [ch]; journal (if enabled) loaded through AddLocals then rotated *)
Definition empty_pool (cfg : config) (ch : chain) : pool :=
  let cfg' := sanitize cfg in
  mkPool cfg' ch (chain_galaxias ch) [] [] [] (c_locals cfg') (c_price_limit cfg') [] 0 None [] 0.

Definition new_pool (c : choice) (cfg : config) (ch : chain) (file : list tx) : pool :=
  let p0 := empty_pool cfg ch in
  if negb (c_nolocals (p_cfg p0)) && c_journal (p_cfg p0) then
    let p1 := match file with
              | [] => p0
              | _ => fst (add_txs c p0 file (negb (c_nolocals (p_cfg p0))))
              end in
    set_journal p1 (Some (local_txs p1))
  else p0.

(* ------------------------------------------------------------------ operations *)

Inductive op :=
| OpAdd (local : bool) (txs : list tx)           (* AddLocals / AddRemotesSync *)
| OpReset (ch : chain) (reinject : list tx)      (* new head: state, gas limit, height; reorged-out txs *)
| OpSetPrice (price : Z)
| OpExpire (addrs : list N)
| OpReload (file : list tx).                     (* Stop + NewTxPool over the same chain, journal file content *)

Definition step (c : choice) (p : pool) (o : op) : pool * list err :=
  match o with
  | OpAdd local txs => add_txs c p txs (local && negb (c_nolocals (p_cfg p)))
  | OpReset ch reinject => (run_reorg c p (Some (ch, reinject)) [], [])
  | OpSetPrice price => (set_gas_price c p price, [])
  | OpExpire addrs => (expire p addrs, [])
  | OpReload file => (new_pool c (p_cfg p) (p_chain p) file, [])
  end.

Fixpoint run (cs : list choice) (p : pool) (ops : list op) : pool :=
  match ops with
  | [] => p
  | o :: r => let c := match cs with c :: _ => c | [] => mkChoice [] [] [] end in
              run (tl cs) (fst (step c p o)) r
  end.

(* ------------------------------------------------------------------ observables *)

(* TxPool.Status of one hash: 0 unknown, 1 queued, 2 pending *)
Definition status (p : pool) (t : tx) : Z :=
  match all_get (p_all p) (t_id t) with
  | None => 0
  | Some t' =>
    match l_get (p_pending p) (sender t') (t_nonce t') with
    | Some _ => 2
    | None => match l_get (p_queue p) (sender t') (t_nonce t') with Some _ => 1 | None => 0 end
    end
  end.
