(** C17 — every transaction of a local account is flagged local in the index, on every history
    (including resets WITH reinjection): the flag invariant [LF] is preserved by every operation. *)
From Coq Require Import List ZArith NArith Bool Lia.
From Kardia Require Import Generated.C17Facts C17.Model C17.ProofsBasic C17.ProofsInv C17.ProofsOps C17.ProofsLocals.
Import ListNotations.
Local Open Scope Z_scope.

Definition LF (p : pool) : Prop :=
  forall t b, In (t, b) (p_all p) -> t_from t <> None /\ (In (sender t) (p_locals p) -> b = true).

(* [p'] indexes a subset of [p]'s flagged entries and has the same local accounts *)
Definition sub_all (p p' : pool) : Prop :=
  (forall e, In e (p_all p') -> In e (p_all p)) /\ p_locals p' = p_locals p.

Lemma LF_sub p p' : LF p -> sub_all p p' -> LF p'.
Proof. intros H [Hs Hl] t b Hin. rewrite Hl. apply H. apply Hs. exact Hin. Qed.
Lemma sub_refl p : sub_all p p.
Proof. split; auto. Qed.
Lemma sub_trans p q r : sub_all p q -> sub_all q r -> sub_all p r.
Proof. intros [H1 H2] [H3 H4]. split; [auto|congruence]. Qed.
Lemma sub_same p p' : p_all p' = p_all p -> p_locals p' = p_locals p -> sub_all p p'.
Proof. intros H1 H2. split; [rewrite H1; auto|exact H2]. Qed.

Lemma sub_priced_removed p c : sub_all p (priced_removed p c).
Proof. apply sub_same; [apply p_all_priced_removed|]. unfold priced_removed, reheap. destruct (_ <=? _); reflexivity. Qed.
Lemma sub_all_remove p id : sub_all p (set_all p (all_remove (p_all p) id)).
Proof. split; [|reflexivity]. cbn. intros e He. apply all_remove_entry in He. tauto. Qed.
Lemma sub_all_remove_list p l : sub_all p (set_all p (all_remove_list (p_all p) l)).
Proof. split; [|reflexivity]. cbn. intros e He. apply all_remove_list_entry in He. tauto. Qed.
Lemma sub_pn_set_if_lower p a v : sub_all p (pn_set_if_lower p a v).
Proof. unfold pn_set_if_lower. destruct (_ <=? _); [apply sub_refl|]. apply sub_same; reflexivity. Qed.

Lemma sub_enqueue_tx p t l : sub_all p (fst (fst (enqueue_tx p t l false))).
Proof.
  unfold enqueue_tx. destruct (l_add (p_queue p) t (c_price_bump (p_cfg p))) as [[ok old] q'].
  destruct ok; cbn [fst]; [|apply sub_refl].
  destruct old as [o|]; cbn [fst].
  - eapply sub_trans; [|apply sub_priced_removed].
    eapply sub_trans; [|apply sub_all_remove]. apply sub_same; reflexivity.
  - apply sub_same; reflexivity.
Qed.
Lemma sub_enqueue_all l : forall p, sub_all p (enqueue_all p l).
Proof.
  unfold enqueue_all. induction l as [|t l IH]; intros p; cbn [fold_left]; [apply sub_refl|].
  eapply sub_trans; [apply sub_enqueue_tx|apply IH].
Qed.

Lemma sub_promote_tx p a t : sub_all p (fst (promote_tx p a t)).
Proof.
  unfold promote_tx. destruct (l_add (p_pending p) t (c_price_bump (p_cfg p))) as [[ok old] pd].
  destruct ok; cbn [fst].
  - destruct old as [o|].
    + eapply sub_trans; [|apply sub_same; reflexivity].
      eapply sub_trans; [|apply sub_priced_removed].
      eapply sub_trans; [|apply sub_all_remove]. apply sub_same; reflexivity.
    + apply sub_same; reflexivity.
  - eapply sub_trans; [|apply sub_priced_removed]. apply sub_all_remove.
Qed.
Lemma sub_promote_list l : forall p a, sub_all p (promote_list p a l).
Proof.
  unfold promote_list. induction l as [|t l IH]; intros p a; cbn [fold_left]; [apply sub_refl|].
  eapply sub_trans; [apply sub_promote_tx|apply IH].
Qed.

Lemma sub_remove_tx p id b : sub_all p (remove_tx p id b).
Proof.
  unfold remove_tx. destruct (all_get (p_all p) id) as [t|]; [|apply sub_refl].
  set (p1 := set_all p (all_remove (p_all p) id)).
  assert (S1 : sub_all p p1) by apply sub_all_remove.
  set (p2 := if b then priced_removed p1 1 else p1).
  assert (S2 : sub_all p p2).
  { subst p2. destruct b; [eapply sub_trans; [exact S1|apply sub_priced_removed]|exact S1]. }
  destruct (l_remove true (p_pending p2) (sender t) (t_nonce t)) as [[r inv] rest]. destruct r.
  - eapply sub_trans; [|apply sub_pn_set_if_lower].
    eapply sub_trans; [|apply sub_enqueue_all].
    eapply sub_trans; [exact S2|]. apply sub_same; reflexivity.
  - destruct (l_remove false (p_queue p2) (sender t) (t_nonce t)) as [[r' inv'] rest'].
    eapply sub_trans; [exact S2|]. apply sub_same; reflexivity.
Qed.
Lemma sub_remove_txs l : forall p b, sub_all p (remove_txs p l b).
Proof.
  unfold remove_txs. induction l as [|t l IH]; intros p b; cbn [fold_left]; [apply sub_refl|].
  eapply sub_trans; [apply sub_remove_tx|apply IH].
Qed.

(* ---- promote / demote *)

Lemma sub_promote_account p a : sub_all p (promote_account p a).
Proof.
  unfold promote_account. destruct (of_acct a (p_queue p)); [apply sub_refl|].
  destruct (l_forward (p_queue p) a (st_nonce (p_chain p) a)) as [forwards q1].
  set (p1 := set_all (set_queue p q1) (all_remove_list (p_all p) forwards)).
  assert (S1 : sub_all p p1).
  { eapply sub_trans; [apply (sub_all_remove_list p forwards)|]. apply sub_same; reflexivity. }
  destruct (l_filter false (p_queue p1) a (st_balance (p_chain p) a) (ch_gaslimit (p_chain p))) as [[drops inv] q2].
  set (p2 := set_all (set_queue p1 q2) (all_remove_list (p_all p1) drops)).
  assert (S2 : sub_all p p2).
  { eapply sub_trans; [exact S1|]. eapply sub_trans; [apply (sub_all_remove_list p1 drops)|]. apply sub_same; reflexivity. }
  set (R := l_ready (p_queue p2) a (pn_get p2 a)).
  set (p3 := promote_list (set_queue p2 (minus_ids (p_queue p2) R)) a R).
  assert (S3 : sub_all p p3).
  { eapply sub_trans; [exact S2|]. eapply sub_trans; [|apply sub_promote_list]. apply sub_same; reflexivity. }
  destruct (memN a (p_locals p3)).
  - eapply sub_trans; [exact S3|apply sub_priced_removed].
  - destruct (l_cap (p_queue p3) a (c_aqueue (p_cfg p3))) as [caps q3].
    eapply sub_trans; [|apply sub_priced_removed].
    eapply sub_trans; [exact S3|]. eapply sub_trans; [apply (sub_all_remove_list p3 caps)|]. apply sub_same; reflexivity.
Qed.
Lemma sub_promote_executables l : forall p, sub_all p (promote_executables p l).
Proof.
  unfold promote_executables. induction l as [|a l IH]; intros p; cbn [fold_left]; [apply sub_refl|].
  eapply sub_trans; [apply sub_promote_account|apply IH].
Qed.

Lemma sub_demote_account p a : sub_all p (demote_account p a).
Proof.
  unfold demote_account.
  destruct (l_forward (p_pending p) a (st_nonce (p_chain p) a)) as [olds pd1].
  set (p1 := set_all (set_pending p pd1) (all_remove_list (p_all p) olds)).
  assert (S1 : sub_all p p1).
  { eapply sub_trans; [apply (sub_all_remove_list p olds)|]. apply sub_same; reflexivity. }
  destruct (l_filter true (p_pending p1) a (st_balance (p_chain p) a) (ch_gaslimit (p_chain p))) as [[drops invalids] pd2].
  set (p2 := set_all (set_pending p1 pd2) (all_remove_list (p_all p1) drops)).
  assert (S2 : sub_all p p2).
  { eapply sub_trans; [exact S1|]. eapply sub_trans; [apply (sub_all_remove_list p1 drops)|]. apply sub_same; reflexivity. }
  set (p3 := enqueue_all p2 invalids).
  assert (S3 : sub_all p p3) by (eapply sub_trans; [exact S2|apply sub_enqueue_all]).
  destruct (of_acct a (p_pending p3)); [exact S3|].
  destruct (l_get (p_pending p3) a (st_nonce (p_chain p) a)); [exact S3|].
  destruct (l_cap (p_pending p3) a 0) as [gapped pd3].
  eapply sub_trans; [exact S3|]. eapply sub_trans; [|apply sub_enqueue_all]. apply sub_same; reflexivity.
Qed.
Lemma sub_fold_demote l : forall p, sub_all p (fold_left demote_account l p).
Proof.
  induction l as [|a l IH]; intros p; cbn [fold_left]; [apply sub_refl|].
  eapply sub_trans; [apply sub_demote_account|apply IH].
Qed.

(* ---- truncatePending *)

Lemma sub_fold_lower a caps : forall p, sub_all p (fold_left (fun q t => pn_set_if_lower q a (t_nonce t)) caps p).
Proof.
  induction caps as [|t l IH]; intros p; cbn [fold_left]; [apply sub_refl|].
  eapply sub_trans; [apply sub_pn_set_if_lower|apply IH].
Qed.
Lemma sub_cap_one p a : sub_all p (cap_one p a).
Proof.
  unfold cap_one. destruct (l_cap (p_pending p) a (l_len (p_pending p) a - 1)) as [caps pd].
  eapply sub_trans; [|apply sub_priced_removed]. eapply sub_trans; [|apply sub_fold_lower].
  eapply sub_trans; [apply (sub_all_remove_list p caps)|]. apply sub_same; reflexivity.
Qed.
Lemma sub_cap_each l : forall p n, sub_all p (fst (cap_each p n l)).
Proof.
  unfold cap_each. induction l as [|a l IH]; intros p n; cbn [fold_left fst]; [apply sub_refl|].
  eapply sub_trans; [apply (sub_cap_one p a)|apply IH].
Qed.
Lemma sub_equalize fuel : forall p n prev lp th, sub_all p (fst (equalize fuel p n prev lp th)).
Proof.
  induction fuel as [|f IH]; intros p n prev lp th; cbn [equalize fst]; [apply sub_refl|].
  destruct (_ && _); [|apply sub_refl].
  pose proof (sub_cap_each prev p n) as H. destruct (cap_each p n prev) as [p1 n1]. cbn [fst] in H.
  eapply sub_trans; [exact H|apply IH].
Qed.
Lemma sub_offenders_loop fuel sp : forall p n offs, sub_all p (fst (fst (offenders_loop fuel p n sp offs))).
Proof.
  induction sp as [|o rest IH]; intros p n offs; cbn [offenders_loop fst]; [apply sub_refl|].
  destruct (_ <? _); [|apply sub_refl].
  destruct (rev offs) as [|lp r].
  - apply IH.
  - pose proof (sub_equalize fuel p n offs lp (l_len (p_pending p) o)) as H.
    destruct (equalize fuel p n offs lp (l_len (p_pending p) o)) as [p1 n1]. cbn [fst] in H.
    eapply sub_trans; [exact H|apply IH].
Qed.
Lemma sub_reduce_all fuel : forall p n offs last, sub_all p (fst (reduce_all fuel p n offs last)).
Proof.
  induction fuel as [|f IH]; intros p n offs last; cbn [reduce_all fst]; [apply sub_refl|].
  destruct (_ && _); [|apply sub_refl].
  pose proof (sub_cap_each offs p n) as H. destruct (cap_each p n offs) as [p1 n1]. cbn [fst] in H.
  eapply sub_trans; [exact H|apply IH].
Qed.
Lemma sub_truncate_pending o p : sub_all p (truncate_pending o p).
Proof.
  unfold truncate_pending. destruct (_ <=? _); [apply sub_refl|].
  pose proof (sub_offenders_loop (S (length (p_pending p))) (spammers p o) p (Z.of_nat (length (p_pending p))) []) as H.
  destruct (offenders_loop _ p _ _ []) as [[p1 n1] offs]. cbn [fst] in H.
  destruct (rev offs); [exact H|]. destruct (_ <? _); [|exact H].
  eapply sub_trans; [exact H|apply sub_reduce_all].
Qed.

(* ---- truncateQueue, SetGasPrice, expiry *)

Lemma sub_drop_last_few fuel : forall p l d, sub_all p (fst (drop_last_few fuel p l d)).
Proof.
  induction fuel as [|f IH]; intros p l d; cbn [drop_last_few fst]; [apply sub_refl|].
  destruct l as [|t r]; [apply sub_refl|]. destruct (0 <? d); [|apply sub_refl].
  eapply sub_trans; [apply sub_remove_tx|apply IH].
Qed.
Lemma sub_truncate_queue_loop addrs : forall p d, sub_all p (truncate_queue_loop p addrs d).
Proof.
  induction addrs as [|a rest IH]; intros p d; cbn [truncate_queue_loop]; [apply sub_refl|].
  destruct (0 <? d); [|apply sub_refl]. destruct (_ <=? _).
  - eapply sub_trans; [apply sub_remove_txs|apply IH].
  - pose proof (sub_drop_last_few (length (flatten (p_queue p) a)) p (rev (flatten (p_queue p) a)) d) as H.
    destruct (drop_last_few _ p _ d) as [p1 d1]. cbn [fst] in H. eapply sub_trans; [exact H|apply IH].
Qed.
Lemma sub_truncate_queue o p : sub_all p (truncate_queue o p).
Proof. unfold truncate_queue. destruct (_ <=? _); [apply sub_refl|apply sub_truncate_queue_loop]. Qed.

Lemma sub_set_gas_price c p price : sub_all p (set_gas_price c p price).
Proof.
  unfold set_gas_price. destruct (_ <? _); [|apply sub_same; reflexivity].
  unfold priced_cap. destruct (cap_loop _ _ _ _ _ _ _) as [[h s] drop].
  eapply sub_trans; [|apply sub_priced_removed]. eapply sub_trans; [|apply sub_remove_txs]. apply sub_same; reflexivity.
Qed.
Lemma sub_expire addrs : forall p, sub_all p (expire p addrs).
Proof.
  unfold expire. induction addrs as [|a l IH]; intros p; cbn [fold_left]; [apply sub_refl|].
  destruct (memN a (p_locals p)); [apply IH|]. eapply sub_trans; [apply sub_remove_txs|apply IH].
Qed.

(* ---- add *)

Lemma LF_same p p' : p_all p' = p_all p -> p_locals p' = p_locals p -> LF p -> LF p'.
Proof. intros H1 H2 H. eapply LF_sub; [exact H|apply sub_same; auto]. Qed.

Lemma LF_add_entry p t b :
  LF p -> t_from t <> None -> (In (sender t) (p_locals p) -> b = true) ->
  LF (set_all p (all_add (p_all p) t b)).
Proof.
  intros H Hf Hb x c Hin. cbn [p_all p_locals set_all] in *. unfold all_add in Hin.
  apply in_app_iff in Hin. destruct Hin as [Hin|[Heq|[]]]; [apply H; exact Hin|].
  inversion Heq; subst. split; auto.
Qed.

Lemma LF_journal p a t : LF p -> LF (journal_tx p a t).
Proof.
  intros H. unfold journal_tx. destruct (p_journal p); [destruct (memN a (p_locals p))|]; auto.
Qed.

Lemma sub_make_room o p t l : sub_all p (fst (make_room o p t l)).
Proof.
  unfold make_room. destruct (_ <? _); [|apply sub_refl].
  set (q1u := if l then (p, false) else priced_underpriced p o t).
  assert (S1 : sub_all p (fst q1u)).
  { subst q1u. destruct l; cbn [fst]; [apply sub_refl|]. unfold priced_underpriced.
    destruct (drop_stale_heads _ _ _ _ _). apply sub_same; reflexivity. }
  destruct q1u as [q1 under]. cbn [fst] in S1.
  destruct (negb l && under); [exact S1|]. destruct (_ <? _); [exact S1|].
  unfold priced_discard. destruct (discard_loop _ _ _ _ _ _ _) as [[[h s'] sl] drop].
  destruct ((0 <? sl) && negb l).
  - destruct (negb l && negb false); cbn [fst remove_txs fold_left]; (eapply sub_trans; [exact S1|apply sub_same; reflexivity]).
  - destruct (negb l && negb true); cbn [fst].
    + eapply sub_trans; [exact S1|apply sub_same; reflexivity].
    + eapply sub_trans; [exact S1|]. eapply sub_trans; [|apply sub_remove_txs]. apply sub_same; reflexivity.
Qed.

Lemma contains_tx_local locals t : t_from t <> None -> contains_tx locals t = memN (sender t) locals.
Proof. unfold contains_tx, sender. destruct (t_from t); [reflexivity|congruence]. Qed.

Lemma LF_add o p t l : LF p -> LF (fst (fst (add o p t l))).
Proof.
  intros H. unfold add. destruct (all_get (p_all p) (t_id t)); [exact H|].
  set (is_local := l || contains_tx (p_locals p) t).
  destruct (validate_tx p t is_local) eqn:Ev; try exact H.
  destruct (validate_ok _ _ _ Ev) as [from [Hfrom _]].
  assert (Hne : t_from t <> None) by congruence.
  pose proof (sub_make_room o p t is_local) as S1.
  destruct (make_room o p t is_local) as [p1 [e|]]; cbn [fst] in S1; [eapply LF_sub; eauto|].
  assert (H1 : LF p1) by (eapply LF_sub; eauto).
  assert (Hl1 : p_locals p1 = p_locals p) by apply S1.
  assert (Hflag : In (sender t) (p_locals p1) -> is_local = true).
  { intros Hin. unfold is_local. rewrite contains_tx_local by exact Hne. rewrite <- Hl1.
    apply memN_In in Hin. rewrite Hin. apply orb_true_r. }
  destruct (l_get (p_pending p1) (sender t) (t_nonce t)).
  - (* replacement in pending *)
    destruct (l_add (p_pending p1) t (c_price_bump (p_cfg p))) as [[ok old] pd']. destruct ok; [|exact H1].
    cbn [fst].
    set (p2 := set_pending p1 pd').
    set (p3 := match old with Some o0 => priced_removed (set_all p2 (all_remove (p_all p2) (t_id o0))) 1 | None => p2 end).
    assert (S3 : sub_all p1 p3).
    { subst p3. destruct old as [o0|].
      - eapply sub_trans; [|apply sub_priced_removed]. eapply sub_trans; [|apply sub_all_remove]. apply sub_same; reflexivity.
      - apply sub_same; reflexivity. }
    assert (H3 : LF p3) by (eapply LF_sub; eauto).
    apply LF_journal. eapply LF_same; [| |apply (LF_add_entry p3 t is_local H3 Hne)].
    + unfold priced_put. destruct is_local; reflexivity.
    + unfold priced_put. destruct is_local; reflexivity.
    + destruct S3 as [_ Hl3]. rewrite Hl3. exact Hflag.
  - (* enqueue *)
    unfold enqueue_tx. destruct (l_add (p_queue p1) t (c_price_bump (p_cfg p1))) as [[ok old] q']. destruct ok; [|exact H1].
    cbn [fst].
    set (pa := set_queue p1 q').
    set (pb := match old with Some o0 => priced_removed (set_all pa (all_remove (p_all pa) (t_id o0))) 1 | None => pa end).
    assert (Sb : sub_all p1 pb).
    { subst pb. destruct old as [o0|].
      - eapply sub_trans; [|apply sub_priced_removed]. eapply sub_trans; [|apply sub_all_remove]. apply sub_same; reflexivity.
      - apply sub_same; reflexivity. }
    assert (Hb : LF pb) by (eapply LF_sub; eauto).
    set (pc := priced_put (set_all pb (all_add (p_all pb) t is_local)) t is_local).
    assert (Hc : LF pc).
    { eapply LF_same; [| |apply (LF_add_entry pb t is_local Hb Hne)].
      - unfold pc, priced_put. destruct is_local; reflexivity.
      - unfold pc, priced_put. destruct is_local; reflexivity.
      - destruct Sb as [_ Hlb]. rewrite Hlb. exact Hflag. }
    assert (Hlc : p_locals pc = p_locals p1).
    { unfold pc, priced_put. destruct Sb as [_ Hlb]. destruct is_local; cbn; exact Hlb. }
    assert (Hfin : LF (if l && negb (memN (sender t) (p_locals pc)) then
                         let q := set_locals pc (sender t :: p_locals pc) in
                         let '(migrated, al) := all_to_locals (p_all q) (p_locals q) in
                         priced_removed (set_all q al) migrated
                       else pc)).
    { destruct (l && negb (memN (sender t) (p_locals pc))); [|exact Hc].
      cbv zeta. unfold all_to_locals.
      eapply LF_sub; [|apply sub_priced_removed].
      intros x b Hin. cbn [p_all p_locals set_all set_locals] in *.
      apply in_map_iff in Hin. destruct Hin as [[y c] [Heq Hy]].
      destruct (Hc y c Hy) as [Hy1 Hy2].
      destruct (migrates (sender t :: p_locals pc) (y, c)) eqn:Em; inversion Heq; subst; split; auto.
      intros Hloc. unfold migrates in Em. cbn [fst snd] in Em.
      rewrite contains_tx_local in Em by exact Hy1.
      assert (memN (sender x) (sender t :: p_locals pc) = true) by (apply memN_In; exact Hloc).
      rewrite H0, andb_true_r in Em. apply negb_false_iff in Em. exact Em. }
    apply LF_journal. exact Hfin.
Qed.

(* ---- batches, reorg runs, every operation, every history *)

Lemma LF_add_txs_locked o txs : forall p l, LF p -> LF (fst (fst (add_txs_locked o p txs l))).
Proof.
  induction txs as [|t r IH]; intros p l H; cbn [add_txs_locked fst]; [exact H|].
  pose proof (LF_add o p t l H) as H1.
  destruct (add o p t l) as [[p1 replaced] e]. cbn [fst] in H1.
  specialize (IH p1 l H1). destruct (add_txs_locked o p1 r l) as [[p2 es] dirty]. cbn [fst] in *. exact IH.
Qed.

Lemma LF_run_reorg c p reset dirty : LF p -> LF (run_reorg c p reset dirty).
Proof.
  intros H. unfold run_reorg.
  set (p1 := match reset with Some (ch, reinject) => do_reset c p ch reinject | None => p end).
  assert (H1 : LF p1).
  { subst p1. destruct reset as [[ch reinject]|]; [|exact H]. unfold do_reset.
    pose proof (LF_add_txs_locked (o1 c) reinject (set_nonces (set_chain p ch) []) false) as Hx.
    destruct (add_txs_locked (o1 c) (set_nonces (set_chain p ch) []) reinject false) as [[p2 es] d]. cbn [fst] in Hx.
    eapply LF_same; [| |apply Hx]; try reflexivity. eapply LF_same; [| |exact H]; reflexivity. }
  set (addrs := match reset with Some _ => accounts (p_queue p1) | None => dirty end).
  set (p2 := promote_executables p1 addrs).
  assert (H2 : LF p2) by (eapply LF_sub; [exact H1|apply sub_promote_executables]).
  set (p3 := match reset with
             | Some _ => let p' := demote_unexecutables p2 in
                         set_nonces p' (map (fun a => (a, max_nonce (of_acct a (p_pending p')) + 1)) (accounts (p_pending p')))
             | None => p2 end).
  assert (H3 : LF p3).
  { subst p3. destruct reset; [|exact H2]. cbv zeta.
    eapply LF_same; [| |eapply LF_sub; [exact H2|apply sub_fold_demote]]; reflexivity. }
  eapply LF_same; [| |eapply LF_sub; [eapply LF_sub; [exact H3|apply sub_truncate_pending]|apply sub_truncate_queue]]; reflexivity.
Qed.

Lemma LF_add_txs c p txs l : LF p -> LF (fst (add_txs c p txs l)).
Proof.
  intros H. unfold add_txs. destruct (filter _ txs) as [|x news] eqn:E; [exact H|].
  pose proof (LF_add_txs_locked (o1 c) (x :: news) p l H) as H1.
  destruct (add_txs_locked (o1 c) p (x :: news) l) as [[p1 es] dirty]. cbn [fst] in *.
  apply LF_run_reorg. exact H1.
Qed.

Lemma LF_empty cfg ch : LF (empty_pool cfg ch).
Proof. intros t b Hin. destruct Hin. Qed.

Lemma LF_new_pool c cfg ch file : LF (new_pool c cfg ch file).
Proof.
  unfold new_pool. destruct (_ && _); [|apply LF_empty].
  eapply LF_same; [| |]; [reflexivity|reflexivity|].
  destruct file; [apply LF_empty|apply LF_add_txs; apply LF_empty].
Qed.

Lemma LF_step c p o : LF p -> LF (fst (step c p o)).
Proof.
  intros H. destruct o; cbn [step fst].
  - apply LF_add_txs. exact H.
  - apply LF_run_reorg. exact H.
  - eapply LF_sub; [exact H|apply sub_set_gas_price].
  - eapply LF_sub; [exact H|apply sub_expire].
  - apply LF_new_pool.
Qed.

Lemma LF_run ops : forall cs p, LF p -> LF (run cs p ops).
Proof. induction ops as [|o r IH]; intros cs p H; cbn [run]; [exact H|]. apply IH. apply LF_step. exact H. Qed.

(** Every transaction of a local account is flagged local in the index - after ANY history (no side
    condition on the operations: resets with reinjected transactions included). *)
Theorem local_flag_every_history c0 cfg ch file cs ops :
  let p := run cs (new_pool c0 cfg ch file) ops in
  forall t, In t (map fst (p_all p)) -> In (sender t) (p_locals p) -> In (t, true) (p_all p).
Proof.
  cbv zeta. intros t Hin Hloc.
  pose proof (LF_run ops cs _ (LF_new_pool c0 cfg ch file)) as H.
  apply in_map_iff in Hin. destruct Hin as [[x b] [Heq Hx]]. cbn [fst] in Heq. subst x.
  destruct (H t b Hx) as [_ Hb]. rewrite (Hb Hloc) in Hx. exact Hx.
Qed.
