(** C17 — preservation of the invariant by SetGasPrice, expiry, the truncations and promoteExecutables. *)
From Coq Require Import List ZArith NArith Bool Lia.
From Kardia Require Import Generated.C17Facts C17.Model C17.ProofsBasic C17.ProofsInv C17.ProofsOps.
Import ListNotations.
Local Open Scope Z_scope.

Lemma inv_add_txs_locked o txs : forall p l p' es d,
  Inv p -> add_txs_locked o p txs l = (p', es, d) -> Inv p' /\ p_chain p' = p_chain p.
Proof.
  induction txs as [|t r IH]; intros p l p' es d I; cbn [add_txs_locked].
  - intros H; inversion H; subst; auto.
  - destruct (add o p t l) as [[p1 rep] e] eqn:Ea.
    destruct (add_txs_locked o p1 r l) as [[p2 es'] dirty] eqn:Er.
    intros H; inversion H; subst. clear H.
    destruct (inv_add _ _ _ _ _ _ _ I Ea) as [I1 Hc1].
    destruct (IH _ _ _ _ _ I1 Er) as [I2 Hc2]. split; auto. congruence.
Qed.

(* ---- SetGasPrice *)

Lemma priced_cap_core p o thr : core (fst (priced_cap p o thr)) = core p.
Proof. unfold priced_cap. destruct (cap_loop _ _ _ _ _ _ _) as [[h s] d]. reflexivity. Qed.

Lemma inv_set_gas_price c p price : Inv p -> Inv (set_gas_price c p price).
Proof.
  intros I. unfold set_gas_price. destruct (_ <? _).
  - pose proof (priced_cap_core (set_gasprice p price) (o1 c) price) as Hc.
    destruct (priced_cap (set_gasprice p price) (o1 c) price) as [p2 drop]. cbn [fst] in Hc.
    eapply Inv_core; [symmetry; apply core_priced_removed|].
    apply inv_remove_txs. eapply Inv_core; [symmetry; exact Hc|]. eapply Inv_core; [|exact I]. reflexivity.
  - eapply Inv_core; [|exact I]. reflexivity.
Qed.

(* ---- lifetime expiry *)

Lemma inv_expire addrs : forall p, Inv p -> Inv (expire p addrs).
Proof.
  unfold expire. induction addrs as [|a r IH]; intros p I; cbn [fold_left]; auto.
  apply IH. destruct (memN a (p_locals p)); auto. apply inv_remove_txs. auto.
Qed.

(* ---- truncateQueue *)

Lemma inv_drop_last_few fuel : forall p l d, Inv p -> Inv (fst (drop_last_few fuel p l d)).
Proof.
  induction fuel as [|f IH]; intros p l d I; cbn [drop_last_few]; auto.
  destruct l as [|t r]; auto. destruct (0 <? d); auto. apply IH. apply inv_remove_tx. auto.
Qed.

Lemma inv_truncate_queue_loop addrs : forall p d, Inv p -> Inv (truncate_queue_loop p addrs d).
Proof.
  induction addrs as [|a r IH]; intros p d I; cbn [truncate_queue_loop]; auto.
  destruct (0 <? d); auto.
  destruct (_ <=? _).
  - apply IH. apply inv_remove_txs. auto.
  - pose proof (inv_drop_last_few (length (flatten (p_queue p) a)) p (rev (flatten (p_queue p) a)) d I) as H.
    destruct (drop_last_few _ p _ d) as [p1 d1]. cbn [fst] in H. apply IH. auto.
Qed.

Lemma inv_truncate_queue o p : Inv p -> Inv (truncate_queue o p).
Proof.
  intros I. unfold truncate_queue. destruct (_ <=? _); auto. apply inv_truncate_queue_loop. auto.
Qed.

(* ---- truncatePending: list.Cap(list.Len()-1) and its bookkeeping *)

Lemma filter_length_mono {A} (f g : A -> bool) l :
  (forall x, f x = true -> g x = true) -> (length (filter f l) <= length (filter g l))%nat.
Proof.
  intros H. induction l as [|x l IH]; cbn [filter]; auto.
  destruct (f x) eqn:E.
  - rewrite (H x E). cbn. lia.
  - destruct (g x); cbn; lia.
Qed.

Lemma rank_mono l a x y : t_nonce x <= t_nonce y -> rank_in l a x <= rank_in l a y.
Proof.
  intros H. unfold rank_in. apply Nat2Z.inj_le. apply filter_length_mono.
  intros z Hz. apply andb_true_iff in Hz. destruct Hz as [H1 H2]. apply Z.ltb_lt in H2.
  rewrite H1. cbn. apply Z.ltb_lt. lia.
Qed.

Definition lower_all (a : N) (caps : list tx) (p : pool) : pool :=
  fold_left (fun q t => pn_set_if_lower q a (t_nonce t)) caps p.

Lemma lower_all_spec a caps : forall p,
  let p' := lower_all a caps p in
  p_chain p' = p_chain p /\ p_pending p' = p_pending p /\ p_queue p' = p_queue p /\ p_all p' = p_all p /\
  (forall b, a <> b -> pn_get p' b = pn_get p b) /\
  pn_get p' a <= pn_get p a /\ (forall c, In c caps -> pn_get p' a <= t_nonce c) /\
  (pn_get p' a = pn_get p a \/ exists c, In c caps /\ t_nonce c = pn_get p' a).
Proof.
  unfold lower_all. induction caps as [|c r IH]; intros p; cbn zeta; cbn [fold_left].
  - repeat split; auto; try lia. intros c [].
  - specialize (IH (pn_set_if_lower p a (t_nonce c))). cbn zeta in IH.
    destruct IH as [H1 [H2 [H3 [H4 [H5 [H6 [H7 H8]]]]]]].
    assert (G : p_chain (pn_set_if_lower p a (t_nonce c)) = p_chain p /\
                p_pending (pn_set_if_lower p a (t_nonce c)) = p_pending p /\
                p_queue (pn_set_if_lower p a (t_nonce c)) = p_queue p /\
                p_all (pn_set_if_lower p a (t_nonce c)) = p_all p /\
                (forall b, a <> b -> pn_get (pn_set_if_lower p a (t_nonce c)) b = pn_get p b) /\
                pn_get (pn_set_if_lower p a (t_nonce c)) a = Z.min (pn_get p a) (t_nonce c)).
    { unfold pn_set_if_lower. destruct (pn_get p a <=? t_nonce c) eqn:E.
      - apply Z.leb_le in E. repeat split; auto. lia.
      - apply Z.leb_gt in E. repeat split; auto.
        + intros b Hb. apply pn_get_set_neq. auto.
        + rewrite pn_get_set_eq. lia. }
    destruct G as [G1 [G2 [G3 [G4 [G5 G6]]]]].
    repeat split; try congruence.
    + intros b Hb. rewrite H5, G5; auto.
    + lia.
    + intros x [->|Hx]; [lia|auto].
    + destruct H8 as [H8|[x [Hx Hn]]].
      * rewrite H8, G6. destruct (Z.min_spec (pn_get p a) (t_nonce c)) as [[_ ->]|[_ ->]]; auto.
        right. exists c. split; cbn; auto.
      * right. exists x. split; cbn; auto.
Qed.

Lemma inv_cap_one p a : Inv p -> Inv (cap_one p a).
Proof.
  intros I. unfold cap_one, l_cap.
  set (th := l_len (p_pending p) a - 1).
  destruct (l_len (p_pending p) a <=? th) eqn:E.
  { apply Z.leb_le in E. unfold th in E. lia. }
  set (g := fun t => is_acct a t && (th <=? rank_in (p_pending p) a t)).
  set (caps := filter g (p_pending p)).
  set (pd := filter (fun t => negb (g t)) (p_pending p)).
  eapply Inv_core; [symmetry; apply core_priced_removed|].
  set (p1 := set_all (set_pending p pd) (all_remove_list (p_all p) caps)).
  fold (lower_all a caps p1).
  destruct (lower_all_spec a caps p1) as [H1 [H2 [H3 [H4 [H5 [H6 [H7 H8]]]]]]].
  cbn [p1 p_chain p_pending p_queue p_all set_all set_pending] in H1, H2, H3, H4.
  assert (Hpn1 : forall b, pn_get p1 b = pn_get p b) by reflexivity.
  set (m := pn_get (lower_all a caps p1) a) in *.
  assert (Hcaps : forall x, In x caps -> In x (p_pending p) /\ sender x = a /\ th <= rank_in (p_pending p) a x).
  { intros x Hx. unfold caps, g in Hx. apply filter_In in Hx. destruct Hx as [Hx Hg].
    apply andb_true_iff in Hg. destruct Hg as [Hg1 Hg2]. apply is_acct_true in Hg1. apply Z.leb_le in Hg2. auto. }
  assert (Hm : st_nonce (p_chain p) a <= m <= pn_get p a).
  { split; [|rewrite <- Hpn1; exact H6].
    destruct H8 as [H8|[c [Hc Hn]]].
    - rewrite H8, Hpn1. apply (inv_pn _ p I).
    - rewrite <- Hn. apply Hcaps in Hc. destruct Hc as [Hc [Hs _]].
      assert (st_nonce (p_chain p) a <= t_nonce c < pn_get p a) by (apply (inv_run _ p I); eauto). lia. }
  assert (Hsplit : forall x, In x (p_pending p) -> (g x = true <-> sender x = a /\ m <= t_nonce x)).
  { intros x Hx. split.
    - intros Hg. assert (Hc : In x caps) by (apply filter_In; auto).
      split; [apply Hcaps in Hc; tauto|]. apply H7. auto.
    - intros [Hs Hge]. destruct H8 as [H8|[c [Hc Hn]]].
      + exfalso. fold m in H8. rewrite Hpn1 in H8.
        assert (st_nonce (p_chain p) a <= t_nonce x < pn_get p a) by (apply (inv_run _ p I); eauto). lia.
      + apply Hcaps in Hc. destruct Hc as [Hc [Hsc Hr]].
        unfold g. apply andb_true_iff. split; [apply is_acct_true; auto|]. apply Z.leb_le.
        pose proof (rank_mono (p_pending p) a c x). fold m in Hn. lia. }
  change (InvO [] (lower_all a caps p1)).
  eapply (inv_cut [] [] p _ a m I).
  - exact Hm.
  - exact H1.
  - intros b. destruct (N.eqb a b) eqn:Eb.
    + apply N.eqb_eq in Eb. subst b. reflexivity.
    + apply N.eqb_neq in Eb. rewrite H5 by auto. apply Hpn1.
  - intros x. rewrite H2. unfold pd. rewrite filter_In, negb_true_iff. split.
    + intros [Hx Hg]. split; auto. intros Hc. apply (Hsplit x Hx) in Hc. congruence.
    + intros [Hx Hn]. split; auto. destruct (g x) eqn:Eg; auto. apply (Hsplit x Hx) in Eg. contradiction.
  - rewrite H2. unfold pd. apply NoDup_map_filter. apply (inv_kp _ p I).
  - rewrite H3. apply (inv_kq _ p I).
  - intros x Hx. rewrite H3 in Hx. auto.
  - intros x. rewrite H4, H2, H3, all_remove_list_In, (inv_idx _ p I). cbn [In]. unfold pd. rewrite filter_In, negb_true_iff.
    split.
    + intros [[Hx|[Hx|[]]] Hn]; auto. left. split; auto.
      destruct (g x) eqn:Eg; auto. exfalso. apply Hn. apply in_map. apply filter_In. auto.
    + intros [[Hx Hg]|[Hx|[]]].
      * split; auto. intros Hin. apply in_map_iff in Hin. destruct Hin as [y [Hid Hy]].
        apply filter_In in Hy. destruct Hy as [Hy Hgy].
        assert (y = x) by (eapply (inv_id_inj _ p I); auto; apply (inv_idx _ p I); auto).
        subst. congruence.
      * split; auto. intros Hin. apply in_map_iff in Hin. destruct Hin as [y [Hid Hy]].
        apply filter_In in Hy. destruct Hy as [Hy Hgy].
        assert (y = x) by (eapply (inv_id_inj _ p I); auto; apply (inv_idx _ p I); auto).
        subst. eapply (inv_disjoint _ p I); eauto.
  - rewrite H4. apply all_remove_list_ids. apply (inv_ids _ p I).
Qed.

Lemma inv_cap_each l : forall p n, Inv p -> Inv (fst (cap_each p n l)).
Proof.
  unfold cap_each. induction l as [|a r IH]; intros p n I; cbn [fold_left]; auto.
  apply IH. apply inv_cap_one. auto.
Qed.

Lemma inv_equalize fuel : forall p n prev lp th, Inv p -> Inv (fst (equalize fuel p n prev lp th)).
Proof.
  induction fuel as [|f IH]; intros p n prev lp th I; cbn [equalize]; auto.
  destruct (_ && _); auto.
  pose proof (inv_cap_each prev p n I) as H. destruct (cap_each p n prev) as [p1 n1]. apply IH. auto.
Qed.

Lemma inv_offenders_loop fuel sp : forall p n offs, Inv p -> Inv (fst (fst (offenders_loop fuel p n sp offs))).
Proof.
  induction sp as [|o r IH]; intros p n offs I; cbn [offenders_loop]; auto.
  destruct (_ <? _); auto.
  destruct (rev offs) as [|lp ?].
  - apply IH. auto.
  - pose proof (inv_equalize fuel p n offs lp (l_len (p_pending p) o) I) as H.
    destruct (equalize fuel p n offs lp _) as [p1 n1]. apply IH. auto.
Qed.

Lemma inv_reduce_all fuel : forall p n offs last, Inv p -> Inv (fst (reduce_all fuel p n offs last)).
Proof.
  induction fuel as [|f IH]; intros p n offs last I; cbn [reduce_all]; auto.
  destruct (_ && _); auto.
  pose proof (inv_cap_each offs p n I) as H. destruct (cap_each p n offs) as [p1 n1]. apply IH. auto.
Qed.

Lemma inv_truncate_pending o p : Inv p -> Inv (truncate_pending o p).
Proof.
  intros I. unfold truncate_pending. destruct (_ <=? _); auto.
  pose proof (inv_offenders_loop (S (length (p_pending p))) (spammers p o) p (Z.of_nat (length (p_pending p))) [] I) as H.
  destruct (offenders_loop _ p _ _ []) as [[p1 n1] offs]. cbn [fst] in H.
  destruct (rev offs); auto. destruct (_ <? _); auto. apply inv_reduce_all. auto.
Qed.
