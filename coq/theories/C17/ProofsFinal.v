(** C17 — the step theorem, what the invariant says in the property's words, the replacement rule at
    pool level, rejected => unchanged (partial) and the two refutations. *)
From Coq Require Import List ZArith NArith Bool Lia.
From Kardia Require Import Generated.C17Facts C17.Model C17.ProofsBasic C17.ProofsInv C17.ProofsOps C17.ProofsReorg
     C17.ProofsPromote C17.ProofsStep C17.ProofsReset.
Import ListNotations.
Local Open Scope Z_scope.

(** Side conditions on operations: a reset brings non-negative (uint64) account nonces; the
    reinjection of reorged-out transactions is not covered (see Open.v). *)
Definition op_ok (o : op) : Prop :=
  match o with OpReset ch re => chain_nonneg ch /\ re = [] | _ => True end.

Lemma inv_step c p o : Inv p -> op_ok o -> Inv (fst (step c p o)).
Proof.
  intros I Hok. destruct o; cbn [step fst].
  - apply inv_add_txs. auto.
  - destruct Hok as [Hnn ->]. apply inv_reset; auto.
  - apply inv_set_gas_price. auto.
  - apply inv_expire. auto.
  - apply inv_new_pool.
Qed.

Lemma inv_run_ops ops : forall cs p, Inv p -> Forall op_ok ops -> Inv (run cs p ops).
Proof.
  induction ops as [|o r IH]; intros cs p I Hok; cbn [run]; auto.
  inversion Hok; subst. apply IH; auto. apply inv_step; auto.
Qed.

Lemma inv_history c0 cfg ch file cs ops : Forall op_ok ops -> Inv (run cs (new_pool c0 cfg ch file) ops).
Proof. intros H. apply inv_run_ops; auto. apply inv_new_pool. Qed.

(** The invariant in the words of the property. *)
Lemma inv_meaning p : Inv p ->
  (* offered txs: per sender a gap-free nonce run starting at the state nonce *)
  (forall t, In t (p_pending p) -> forall n, st_nonce (p_chain p) (sender t) <= n <= t_nonce t ->
             exists t', In t' (p_pending p) /\ sender t' = sender t /\ t_nonce t' = n) /\
  (forall t, In t (p_pending p) -> st_nonce (p_chain p) (sender t) <= t_nonce t) /\
  (* each individually affordable and within the block gas limit *)
  (forall t, In t (p_pending p) -> t_price t * t_gas t + t_value t <= st_balance (p_chain p) (sender t) /\
                                   t_gas t <= ch_gaslimit (p_chain p)) /\
  (* one tx per (sender, nonce) in each list; nothing both pending and queued *)
  NoDup (map key (p_pending p)) /\ NoDup (map key (p_queue p)) /\
  (forall t t', In t (p_pending p) -> In t' (p_queue p) -> key t <> key t' /\ t <> t') /\
  (* the index is exactly the disjoint union of the two lists, every hash once *)
  (forall t, In t (map fst (p_all p)) <-> In t (p_pending p) \/ In t (p_queue p)) /\
  NoDup (map t_id (map fst (p_all p))) /\
  (* nothing below the state nonce *)
  (forall t, In t (p_queue p) -> st_nonce (p_chain p) (sender t) <= t_nonce t) /\
  (* Nonce(addr) is the end of the pending run *)
  (forall a n, (exists t, In t (p_pending p) /\ sender t = a /\ t_nonce t = n) <-> st_nonce (p_chain p) a <= n < pn_get p a).
Proof.
  intros I.
  split.
  { intros t Ht n Hn. pose proof (inv_run _ p I (sender t) n) as H1.
    assert (st_nonce (p_chain p) (sender t) <= t_nonce t < pn_get p (sender t)) by (apply (inv_run _ p I); eauto).
    destruct (proj2 H1) as [t' Ht']; [lia|]. exists t'. tauto. }
  split.
  { intros t Ht.
    assert (st_nonce (p_chain p) (sender t) <= t_nonce t < pn_get p (sender t)) by (apply (inv_run _ p I); eauto). lia. }
  split; [intros t Ht; apply (inv_aff _ p I); auto|].
  split; [apply (inv_kp _ p I)|].
  split; [apply (inv_kq _ p I)|].
  split.
  { intros t t' Ht Ht'. split; [eapply (inv_disjoint _ p I); eauto|].
    intros ->. eapply (inv_disjoint _ p I); eauto. }
  split.
  { intros t. rewrite (inv_idx _ p I). cbn [In]. tauto. }
  split; [apply (inv_ids _ p I)|].
  split.
  { intros t Ht. pose proof (inv_q _ p I t Ht). pose proof (inv_pn _ p I (sender t)). lia. }
  apply (inv_run _ p I).
Qed.

(** ---- rejected => unchanged *)

Definition same_content (p p' : pool) : Prop :=
  p_pending p' = p_pending p /\ p_queue p' = p_queue p /\ p_all p' = p_all p /\ p_nonces p' = p_nonces p /\
  p_locals p' = p_locals p /\ p_gasprice p' = p_gasprice p /\ p_chain p' = p_chain p /\
  p_journal p' = p_journal p /\ p_cfg p' = p_cfg p.

Definition pool_full (p : pool) (t : tx) : Prop :=
  (c_gslots (p_cfg p) + c_gqueue (p_cfg p) <? all_slots (p_all p) + num_slots t) = true.

Lemma same_content_refl p : same_content p p.
Proof. unfold same_content. repeat split. Qed.

Lemma same_but_heap_content p p' : same_but_heap p p' -> same_content p p'.
Proof.
  unfold same_but_heap, same_content, core. intros [C [H1 [H2 [H3 [H4 [H5 [H6 H7]]]]]]].
  inversion C. repeat split; auto.
Qed.

Lemma make_room_not_full o p t l : ~ pool_full p t -> make_room o p t l = (p, None).
Proof.
  unfold pool_full, make_room. intros H. destruct (_ <? _); [exfalso; auto|reflexivity].
Qed.

(* every error path of add leaves the pool as it was, except ErrReplaceUnderpriced after the
   pool-full branch has evicted transactions *)
Lemma add_reject_unchanged o p t l p' r e :
  Inv p -> add o p t l = (p', r, e) -> e <> EOk -> (e = EReplace -> ~ pool_full p t) -> same_content p p'.
Proof.
  intros I. unfold add.
  destruct (all_get (p_all p) (t_id t)).
  { intros H; inversion H; subst. intros. apply same_content_refl. }
  set (is_local := l || contains_tx (p_locals p) t).
  destruct (validate_tx p t is_local) eqn:V;
    try (intros H; inversion H; subst; intros; apply same_content_refl).
  destruct (make_room o p t is_local) as [p1 oe] eqn:Emr.
  destruct (make_room_spec _ _ _ _ _ _ I Emr) as [_ [_ [_ [_ [_ Hsame]]]]].
  destruct oe as [e1|].
  { intros H; inversion H; subst. intros. apply same_but_heap_content. apply Hsame. discriminate. }
  assert (Hnf : ~ pool_full p t -> p1 = p).
  { intros Hn. rewrite (make_room_not_full _ _ _ _ Hn) in Emr. congruence. }
  destruct (l_get (p_pending p1) (sender t) (t_nonce t)).
  - destruct (l_add (p_pending p1) t (c_price_bump (p_cfg p))) as [[ok old] pd'].
    destruct ok.
    + intros H; inversion H; subst. congruence.
    + intros H; inversion H; subst. intros _ Hr. rewrite (Hnf (Hr eq_refl)). apply same_content_refl.
  - destruct (enqueue_tx p1 t is_local true) as [[p2 rep] ok].
    destruct ok.
    + intros H; inversion H; subst. congruence.
    + intros H; inversion H; subst. intros _ Hr. rewrite (Hnf (Hr eq_refl)). apply same_content_refl.
Qed.

(** ---- the replacement rule at pool level (when the pool-full branch is not taken) *)

Lemma add_replace_rule o p t l p' r :
  Inv p -> add o p t l = (p', r, EOk) -> ~ pool_full p t -> 0 <= c_price_bump (p_cfg p) ->
  forall old, In old (p_pending p) \/ In old (p_queue p) -> key old = key t ->
              t_price old < t_price t /\ ((100 + c_price_bump (p_cfg p)) * t_price old) / 100 <= t_price t.
Proof.
  intros I Ha Hnf Hb old Hold Hk. unfold add in Ha.
  destruct (all_get (p_all p) (t_id t)); [inversion Ha|].
  set (is_local := l || contains_tx (p_locals p) t) in *.
  destruct (validate_tx p t is_local); try (inversion Ha; fail).
  rewrite (make_room_not_full _ _ _ _ Hnf) in Ha.
  unfold key in Hk. injection Hk as Hks Hkn.
  destruct (l_get (p_pending p) (sender t) (t_nonce t)) as [o0|] eqn:Egp.
  - destruct (l_add (p_pending p) t (c_price_bump (p_cfg p))) as [[ok old'] pd'] eqn:Ea.
    destruct ok; [|inversion Ha].
    pose proof Ea as Ea'. apply l_add_result in Ea'. destruct Ea' as [[C _]|[_ [_ Ho]]]; [discriminate|].
    rewrite Egp in Ho. subst old'.
    destruct (l_add_replace_rule _ _ _ _ _ Hb Ea) as [_ [_ Hrule]].
    assert (o0 = old).
    { apply l_get_some in Egp. destruct Egp as [Hin Hko].
      destruct Hold as [Hp|Hq].
      - eapply NoDup_map_inj; [apply (inv_kp _ p I)| | |]; eauto. unfold key in *. congruence.
      - exfalso. eapply (inv_disjoint _ p I); eauto. unfold key in *. congruence. }
    subst. exact Hrule.
  - unfold enqueue_tx in Ha.
    destruct (l_add (p_queue p) t (c_price_bump (p_cfg p))) as [[ok old'] q'] eqn:Ea.
    destruct ok; [|inversion Ha].
    destruct Hold as [Hp|Hq].
    { exfalso. eapply (l_get_none _ _ _ Egp old Hp). unfold key. congruence. }
    pose proof Ea as Ea'. apply l_add_result in Ea'. destruct Ea' as [[C _]|[_ [_ Ho]]]; [discriminate|].
    assert (Hg : l_get (p_queue p) (sender t) (t_nonce t) = Some old).
    { rewrite <- Hks, <- Hkn. apply l_get_in_nodup; auto. apply (inv_kq _ p I). }
    rewrite Hg in Ho. subst old'.
    destruct (l_add_replace_rule _ _ _ _ _ Hb Ea) as [_ [_ Hrule]]. exact Hrule.
Qed.

(** ---- refutations by concrete histories (the Go repros, in the model) *)

Definition ex_cfg : config := mkCfg 1 10 1 1 1 1 false false [].
Definition ex_chain : chain := mkChain [] [(1%N, 1000000000); (2%N, 1000000000)] 1000000 0.
Definition ex_c0 : choice := mkChoice [] [] [].
Definition ex_tx1 : tx := mkTx 1 (Some 1%N) 0 1 100000 100 100 0 0 false.
Definition ex_tx2 : tx := mkTx 2 (Some 2%N) 0 100 100000 100 100 0 0 false.
Definition ex_tx3 : tx := mkTx 3 (Some 2%N) 0 105 100001 100 100 0 0 false.   (* +5% < 10% bump *)
Definition ex_tx4 : tx := mkTx 4 (Some 2%N) 0 101 100001 100 100 0 0 false.
Definition ex_p0 : pool := fst (add_txs ex_c0 (empty_pool ex_cfg ex_chain) [ex_tx1; ex_tx2] false).

(* a rejected add (ErrReplaceUnderpriced) has evicted an unrelated transaction *)
Lemma reject_changes_example :
  Inv ex_p0 /\ pool_full ex_p0 ex_tx3 /\
  snd (add_txs ex_c0 ex_p0 [ex_tx3] false) = [EReplace] /\
  map t_id (p_pending ex_p0) = [2%N; 1%N] /\
  map t_id (p_pending (fst (add_txs ex_c0 ex_p0 [ex_tx3] false))) = [2%N].
Proof.
  split; [apply inv_add_txs; apply inv_empty|]. vm_compute. repeat split.
Qed.

(* pool of two slots: a local tx of account 1 and a remote tx of account 2 at price 100; a remote
   same-nonce tx of account 2 at price 101 (1% < 10% bump) is accepted: the old one is evicted as the
   cheapest remote by the pool-full branch *)
Definition ex_q0 : pool :=
  fst (add_txs ex_c0 (fst (add_txs ex_c0 (empty_pool ex_cfg ex_chain) [ex_tx1] true)) [ex_tx2] false).

Lemma replace_bypass_example :
  Inv ex_q0 /\ pool_full ex_q0 ex_tx4 /\
  snd (add_txs ex_c0 ex_q0 [ex_tx4] false) = [EOk] /\
  In ex_tx2 (p_pending ex_q0) /\ key ex_tx2 = key ex_tx4 /\
  map t_id (p_pending (fst (add_txs ex_c0 ex_q0 [ex_tx4] false))) = [4%N; 1%N] /\
  ~ ((100 + c_price_bump (p_cfg ex_q0)) * t_price ex_tx2 / 100 <= t_price ex_tx4).
Proof.
  split; [apply inv_add_txs; apply inv_add_txs; apply inv_empty|]. vm_compute.
  repeat split; auto; try (intros H; apply H; reflexivity).
Qed.
