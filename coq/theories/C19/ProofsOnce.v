(** C19 — evidence is committed at most once; pending evidence stays until committed or expired. *)
From Coq Require Import List ZArith NArith Bool Lia.
From Kardia Require Import Base.Int64 C19.Model C19.ProofsBasic C19.ProofsVerify C19.ProofsPool C19.ProofsHistory.
Import ListNotations.
Local Open Scope Z_scope.

(** the keys an operation marks committed (Update runs only when it returns ROk) *)
Definition committed_by (o : op) (ob : obs) : list (Z * N) :=
  match o, o_res ob with
  | OpApply _ _ es, ROk => map ekey es
  | OpUpdate _ es, ROk => map ekey es
  | _, _ => []
  end.

Fixpoint commit_log (n : node) (ops : list op) : list (Z * N) :=
  match ops with
  | [] => []
  | o :: t => let '(n', ob) := step n o in committed_by o ob ++ commit_log n' t
  end.

(** Update is reached only through ApplyBlock, which validates the block first *)
Definition no_raw_update (ops : list op) : Prop := forall st es, ~ In (OpUpdate st es) ops.

Lemma NoDup_app_intro {A} (l1 l2 : list A) :
  NoDup l1 -> NoDup l2 -> (forall x, In x l1 -> ~ In x l2) -> NoDup (l1 ++ l2).
Proof.
  induction l1 as [|a l1 IH]; intros H1 H2 Hd.
  - exact H2.
  - cbn [app]. inversion H1 as [|a' l' Hna Hnd]; subst. constructor.
    + intros Hi. apply in_app_or in Hi. destruct Hi as [Hi|Hi]; [contradiction|].
      apply (Hd a); [left; reflexivity|exact Hi].
    + apply IH; auto. intros x Hx. apply Hd. right; exact Hx.
Qed.

Lemma apply_commits cid n mx st es n' ob :
  Inv cid n -> step n (OpApply mx st es) = (n', ob) -> o_res ob = ROk ->
  NoDup (map ekey es) /\
  (forall k, In k (map ekey es) -> ~ In k (p_committed (n_pool n))) /\
  (forall k, In k (map ekey es) -> In k (p_committed (n_pool n'))).
Proof.
  intros Hinv. cbn [step].
  destruct (block_evidence (n_pool n) (n_chain n) mx es) as [p1 r1] eqn:Hb.
  destruct r1; try (intros H; inversion H; subst; cbn; discriminate).
  destruct (update p1 st es) as [p2 r2] eqn:Hu. intros H; inversion H; subst; clear H.
  cbn [o_res mk_obs n_pool]. intros ->.
  destruct (accept_block _ _ _ _ _ Hinv Hb) as [Hnd Hall].
  pose proof (block_evidence_spec _ _ _ _ _ _ Hb) as [_ [Hco1 _]].
  split; auto. split.
  - intros k Hk. apply in_map_iff in Hk. destruct Hk as [e [<- He]].
    destruct (Hall e He) as [_ [Hn _]]. apply not_committed_iff. exact Hn.
  - intros k Hk. apply update_spec in Hu.
    destruct Hu as [[Hr _]|[_ [_ [_ [_ [Hco _]]]]]]; [discriminate|]. apply Hco. auto.
Qed.

Lemma once_gen cid : forall ops n,
  Inv cid n -> ops_ok cid n ops -> no_raw_update ops ->
  NoDup (commit_log n ops) /\ forall k, In k (commit_log n ops) -> ~ In k (p_committed (n_pool n)).
Proof.
  induction ops as [|o t IH]; intros n Hinv Hok Hnr; cbn [commit_log].
  - split; [constructor|intros k []].
  - destruct (step n o) as [n1 ob] eqn:Hs.
    cbn [ops_ok] in Hok. destruct Hok as [Ho Ht]. rewrite Hs in Ht. cbn [fst] in Ht.
    destruct (step_inv _ _ _ _ _ Hinv Ho Hs) as [Hi1 [_ Hmono]].
    assert (Hnr1 : no_raw_update t) by (intros st es Hi; apply (Hnr st es); right; auto).
    destruct (IH n1 Hi1 Ht Hnr1) as [Hnd1 Hfresh1].
    assert (HK : NoDup (committed_by o ob) /\
                 (forall k, In k (committed_by o ob) -> ~ In k (p_committed (n_pool n))) /\
                 (forall k, In k (committed_by o ob) -> In k (p_committed (n_pool n1)))).
    { unfold committed_by. destruct o; try (split; [constructor|split; intros k []]).
      - exfalso. apply (Hnr st es). left; auto.
      - destruct (o_res ob) eqn:Hr; try (split; [constructor|split; intros k []]).
        eapply apply_commits; eauto. }
    destruct HK as [HK1 [HK2 HK3]]. split.
    + apply NoDup_app_intro; auto. intros k Hk Hl. apply (Hfresh1 k Hl). apply HK3; auto.
    + intros k Hk. apply in_app_or in Hk. destruct Hk as [Hk|Hk]; auto.
      intros Hc. apply (Hfresh1 k Hk). apply Hmono; auto.
Qed.

(** CheckEvidence rejects evidence that is marked committed, and lists with a repeated hash *)
Lemma check_rejects_committed cid n es e :
  Inv cid n -> In e es -> is_committed (n_pool n) e = true ->
  snd (check_evidence (n_pool n) (n_chain n) es) <> ROk.
Proof.
  intros [_ [_ Hd]] He Hc Hr.
  destruct (check_evidence (n_pool n) (n_chain n) es) as [p' r] eqn:H. cbn [snd] in Hr. subst r.
  unfold check_evidence in H. apply check_loop_spec in H. destruct H as [_ [_ [_ [_ Hok]]]].
  destruct (Hok eq_refl) as [_ [_ [Hall _]]].
  destruct (Hall e He) as [[Hp _]|[Hn _]]; [|congruence].
  unfold is_pending in Hp. apply existsb_exists in Hp. destruct Hp as [x [Hx Hk]].
  apply key2_eqb_eq in Hk. pose proof (Hd x Hx) as Hdx. unfold is_committed in *. rewrite Hk in Hdx. congruence.
Qed.

Lemma check_rejects_duplicates p c es :
  snd (check_evidence p c es) = ROk -> NoDup (map e_hash es).
Proof.
  destruct (check_evidence p c es) as [p' r] eqn:H. cbn [snd]. intros ->.
  unfold check_evidence in H. apply check_loop_spec in H. destruct H as [_ [_ [_ [_ Hok]]]].
  destruct (Hok eq_refl) as [Hnd _]. exact Hnd.
Qed.

(* ------------------------------------------------------------------ *)
(** * pending until committed or expired *)

(** the evidence an operation commits / the state against which it prunes *)
Definition op_commits (o : op) : list evidence :=
  match o with OpUpdate _ es => es | OpApply _ _ es => es | _ => [] end.
Definition op_state (o : op) : option pstate :=
  match o with OpUpdate st _ => Some st | OpApply _ st _ => Some st | OpRestart st => Some st | _ => None end.

Lemma put_keeps k e l : has_key k l = true -> has_key k (put_pending e l) = true.
Proof.
  intros H. destruct (key2_eqb (ekey e) k) eqn:E.
  - apply key2_eqb_eq in E; subst. apply put_pending_has.
  - apply key2_eqb_neq in E. rewrite put_pending_has_other; auto.
Qed.

Lemma step_pending n o n' ob k :
  step n o = (n', ob) -> has_key k (p_pending (n_pool n)) = true ->
  has_key k (p_pending (n_pool n')) = true \/
  In k (map ekey (op_commits o)) \/
  (exists st e, op_state o = Some st /\ In e (p_pending (n_pool n)) /\ ekey e = k /\
                is_expired st (e_height e) (e_time e) = true).
Proof.
  destruct n as [c p]. cbn [n_pool n_chain]. intros Hs Hk.
  destruct o; cbn [step n_chain n_pool] in Hs.
  - inversion Hs; subst; auto.
  - inversion Hs; subst; auto.
  - destruct (peer_evidence p c e) as [p' r] eqn:Hp. inversion Hs; subst; clear Hs. cbn [n_pool].
    left. unfold peer_evidence in Hp. destruct (validate_basic e); [|inversion Hp; subst; auto].
    apply add_evidence_spec in Hp. destruct Hp as [_ [_ [Hpe|[_ [_ [_ [_ Hpe]]]]]]]; rewrite Hpe; auto.
    apply put_keeps; auto.
  - destruct (add_from_consensus p e) as [p' r] eqn:Hp. inversion Hs; subst; clear Hs. cbn [n_pool].
    left. apply add_from_consensus_spec in Hp. destruct Hp as [_ [_ [_ [Hpe|[_ Hpe]]]]]; rewrite Hpe; auto.
    apply put_keeps; auto.
  - destruct (block_evidence p c maxnum es) as [p' r] eqn:Hp. inversion Hs; subst; clear Hs. cbn [n_pool].
    left. apply block_evidence_spec in Hp. destruct Hp as [_ [_ [_ [Hkk _]]]]. auto.
  - destruct (pending_evidence p maxbytes). inversion Hs; subst; auto.
  - destruct (update p st es) as [p' r] eqn:Hp. inversion Hs; subst; clear Hs. cbn [n_pool op_commits op_state].
    apply update_spec in Hp. destruct Hp as [[_ [-> _]]|[_ [_ [_ [_ [_ Hkk]]]]]]; auto.
    destruct (Hkk k Hk) as [|[|[e [Hi [He Hx]]]]]; auto. right; right. exists st, e. auto.
  - destruct (block_evidence p c maxnum es) as [p1 r1] eqn:Hb.
    pose proof (block_evidence_spec _ _ _ _ _ _ Hb) as [_ [_ [Hsub [Hkk1 _]]]].
    destruct r1; try solve [inversion Hs; subst; clear Hs; cbn [n_pool]; left; auto].
    destruct (update p1 st es) as [p2 r2] eqn:Hu. inversion Hs; subst; clear Hs. cbn [n_pool op_commits op_state].
    apply update_spec in Hu. destruct Hu as [[_ [-> _]]|[_ [_ [_ [_ [_ Hkk]]]]]]; auto.
    destruct (Hkk k (Hkk1 k Hk)) as [|[|[e [Hi [He Hx]]]]]; auto.
    destruct (Hsub e Hi) as [Hold|[Hes _]].
    + right; right. exists st, e. auto.
    + (* verified in this very block: then this op commits it *)
      right; left. apply in_map_iff. exists e. auto.
  - destruct (restart p st) as [p' r] eqn:Hp. inversion Hs; subst; clear Hs. cbn [n_pool op_commits op_state].
    apply restart_spec in Hp. destruct Hp as [_ [_ [_ Hkk]]].
    destruct (Hkk k Hk) as [|[e [Hi [He Hx]]]]; auto. right; right. exists st, e. auto.
  - destruct (try_add_vote_gen cs hash size va vb) as [| |e]; try solve [inversion Hs; subst; auto].
    destruct (add_from_consensus p e) as [p' r] eqn:Hp. inversion Hs; subst; clear Hs. cbn [n_pool].
    left. apply add_from_consensus_spec in Hp. destruct Hp as [_ [_ [_ [Hpe|[_ Hpe]]]]]; rewrite Hpe; auto.
    apply put_keeps; auto.
Qed.
