(** C19 — effect of every pool operation on the pending / committed families and the state. *)
From Coq Require Import List ZArith NArith Bool Lia.
From Kardia Require Import Base.Int64 C19.Model C19.ProofsBasic C19.ProofsVerify.
Import ListNotations.
Local Open Scope Z_scope.

(** the three components the properties talk about *)
Definition same_core (p q : pool) : Prop :=
  p_pending q = p_pending p /\ p_committed q = p_committed p /\ p_state q = p_state p.

Lemma add_pending_pending p e : p_pending (add_pending p e) = put_pending e (p_pending p).
Proof. reflexivity. Qed.
Lemma add_pending_committed p e : p_committed (add_pending p e) = p_committed p.
Proof. reflexivity. Qed.
Lemma add_pending_state p e : p_state (add_pending p e) = p_state p.
Proof. reflexivity. Qed.

(* ------------------------------------------------------------------ *)
(** * AddEvidence *)

Lemma add_evidence_spec p c e p' r :
  add_evidence p c e = (p', r) ->
  p_state p' = p_state p /\ p_committed p' = p_committed p /\
  (p_pending p' = p_pending p \/
   (r = ROk /\ is_pending p e = false /\ is_committed p e = false /\ verify p c e = VOk /\
    p_pending p' = put_pending e (p_pending p))).
Proof.
  unfold add_evidence.
  destruct (is_pending p e) eqn:Hp; [intros H; inversion H; subst; auto|].
  destruct (is_committed p e) eqn:Hc; [intros H; inversion H; subst; auto|].
  destruct (verify p c e) eqn:Hv; intros H; inversion H; subst; auto.
  split; [reflexivity|]. split; [reflexivity|]. right. auto 6.
Qed.

Lemma add_evidence_invalid p c e p' r : add_evidence p c e = (p', r) -> r = ROk \/ exists v, r = RInvalid v /\ v <> VOk /\ p' = p.
Proof.
  unfold add_evidence.
  destruct (is_pending p e); [intros H; inversion H; auto|].
  destruct (is_committed p e); [intros H; inversion H; auto|].
  destruct (verify p c e) eqn:Hv; intros H; inversion H; subst; auto;
    right; eexists; (split; [reflexivity|]); (split; [discriminate|reflexivity]).
Qed.

Lemma add_from_consensus_spec p e p' r :
  add_from_consensus p e = (p', r) ->
  r = ROk /\ p_state p' = p_state p /\ p_committed p' = p_committed p /\
  (p_pending p' = p_pending p \/ (is_pending p e = false /\ p_pending p' = put_pending e (p_pending p))).
Proof.
  unfold add_from_consensus. destruct (is_pending p e) eqn:Hp; intros H; inversion H; subst; auto 6.
Qed.

(* ------------------------------------------------------------------ *)
(** * CheckEvidence *)

Lemma existsb_hash_false h seen : existsb (N.eqb h) seen = false <-> ~ In h seen.
Proof.
  split.
  - intros H Hi. assert (existsb (N.eqb h) seen = true).
    { apply existsb_exists. exists h. split; auto. apply N.eqb_refl. }
    congruence.
  - intros H. destruct (existsb (N.eqb h) seen) eqn:E; auto.
    apply existsb_exists in E. destruct E as [x [Hi Hx]]. apply N.eqb_eq in Hx; subst. contradiction.
Qed.

Lemma check_loop_spec c : forall evs p seen p' r,
  check_loop p c seen evs = (p', r) ->
  p_state p' = p_state p /\ p_committed p' = p_committed p /\
  (forall x, In x (p_pending p') ->
     In x (p_pending p) \/ (In x evs /\ is_committed p x = false /\ verify p c x = VOk)) /\
  (forall k, has_key k (p_pending p) = true -> has_key k (p_pending p') = true) /\
  (r = ROk ->
     NoDup (map e_hash evs) /\ (forall x, In x evs -> ~ In (e_hash x) seen) /\
     (forall x, In x evs ->
        (is_pending p x = true /\ is_expired (p_state p) (e_height x) (e_time x) = false) \/
        (is_committed p x = false /\ verify p c x = VOk)) /\
     (forall x, In x evs -> is_pending p' x = true)).
Proof.
  induction evs as [|e t IH]; intros p seen p' r; cbn [check_loop].
  - intros H; inversion H; subst. repeat split; auto; try constructor; intros; contradiction.
  - destruct (is_pending p e) eqn:Hp.
    + (* already pending *)
      destruct (is_expired (p_state p) (e_height e) (e_time e)) eqn:Hexp.
      { intros H; inversion H; subst. repeat split; auto; discriminate. }
      destruct (existsb (N.eqb (e_hash e)) seen) eqn:Hs.
      * intros H; inversion H; subst. repeat split; auto; discriminate.
      * intros H. apply IH in H. destruct H as [Hst [Hco [Hpe [Hk Hok]]]].
        split; auto. split; auto. split.
        { intros x Hx. destruct (Hpe x Hx) as [|[Hi Hr]]; auto. right; split; auto. right; auto. }
        split; auto.
        intros Hr. destruct (Hok Hr) as [Hnd [Hns [Hall Hpend]]].
        apply existsb_hash_false in Hs.
        split.
        { cbn [map]. constructor; auto.
          intros Hi. apply in_map_iff in Hi. destruct Hi as [x [Hx Hi]].
          apply (Hns x Hi). left; auto. }
        split.
        { intros x [<-|Hi]; auto. intros Hin. apply (Hns x Hi). right; auto. }
        split.
        { intros x [<-|Hi]; auto. }
        { intros x [<-|Hi]; auto. unfold is_pending in *. fold (has_key (ekey e) (p_pending p')).
          apply Hk. exact Hp. }
    + destruct (is_committed p e) eqn:Hc.
      * intros H; inversion H; subst. repeat split; auto; discriminate.
      * destruct (verify p c e) eqn:Hv;
          try (intros H; inversion H; subst; repeat split; auto; discriminate).
        destruct (existsb (N.eqb (e_hash e)) seen) eqn:Hs.
        { intros H; inversion H; subst. cbn [p_state p_committed add_pending set_size set_pending].
          split; auto. split; auto. split.
          - intros x Hx. cbn [p_pending add_pending set_size set_pending] in Hx.
            apply In_put_pending in Hx. destruct Hx as [->|Hx]; auto.
            right. split; [left; auto|auto].
          - split; [|discriminate].
            intros k Hk. cbn [p_pending add_pending set_size set_pending]. destruct (key2_eqb (ekey e) k) eqn:E.
            + apply key2_eqb_eq in E; subst. apply put_pending_has.
            + apply key2_eqb_neq in E. rewrite put_pending_has_other; auto. }
        intros H. apply IH in H. destruct H as [Hst [Hco [Hpe [Hk Hok]]]].
        rewrite add_pending_state in Hst. rewrite add_pending_committed in Hco.
        split; auto. split; auto.
        assert (Hcom : forall x, is_committed (add_pending p e) x = is_committed p x) by reflexivity.
        assert (Hver : forall x, verify (add_pending p e) c x = verify p c x) by reflexivity.
        split.
        { intros x Hx. destruct (Hpe x Hx) as [Hi|[Hi [Hr1 Hr2]]].
          - rewrite add_pending_pending in Hi. apply In_put_pending in Hi. destruct Hi as [->|Hi]; auto.
            right. split; [left; auto|auto].
          - right. split; [right; auto|]. rewrite Hcom in Hr1. rewrite Hver in Hr2. auto. }
        split.
        { intros k Hkk. apply Hk. rewrite add_pending_pending.
          destruct (key2_eqb (ekey e) k) eqn:E.
          - apply key2_eqb_eq in E; subst. apply put_pending_has.
          - apply key2_eqb_neq in E. rewrite put_pending_has_other; auto. }
        intros Hr. destruct (Hok Hr) as [Hnd [Hns [Hall Hpend]]].
        apply existsb_hash_false in Hs.
        split.
        { cbn [map]. constructor; auto.
          intros Hi. apply in_map_iff in Hi. destruct Hi as [x [Hx Hi]].
          apply (Hns x Hi). left; auto. }
        split.
        { intros x [<-|Hi]; auto. intros Hin. apply (Hns x Hi). right; auto. }
        split.
        { intros x [<-|Hi]; auto.
          destruct (Hall x Hi) as [[Hpx Hxe]|[Hr1 Hr2]].
          - left. split; [|exact Hxe]. unfold is_pending in Hpx. rewrite add_pending_pending in Hpx.
            fold (has_key (ekey x) (put_pending e (p_pending p))) in Hpx.
            destruct (key2_eqb (ekey e) (ekey x)) eqn:E.
            + exfalso. apply key2_eqb_eq in E. apply (Hns x Hi). left.
              unfold ekey in E. inversion E; auto.
            + apply key2_eqb_neq in E. rewrite put_pending_has_other in Hpx; auto.
          - right. rewrite Hcom in Hr1. rewrite Hver in Hr2. auto. }
        { intros x [<-|Hi]; auto. unfold is_pending. fold (has_key (ekey e) (p_pending p')).
          apply Hk. rewrite add_pending_pending. apply put_pending_has. }
Qed.

Lemma block_evidence_spec p c mx es p' r :
  block_evidence p c mx es = (p', r) ->
  p_state p' = p_state p /\ p_committed p' = p_committed p /\
  (forall x, In x (p_pending p') ->
     In x (p_pending p) \/ (In x es /\ is_committed p x = false /\ verify p c x = VOk)) /\
  (forall k, has_key k (p_pending p) = true -> has_key k (p_pending p') = true) /\
  (r = ROk ->
     forallb validate_basic es = true /\ NoDup (map e_hash es) /\
     (forall x, In x es ->
        (is_pending p x = true /\ is_expired (p_state p) (e_height x) (e_time x) = false) \/
        (is_committed p x = false /\ verify p c x = VOk)) /\
     (forall x, In x es -> is_pending p' x = true)).
Proof.
  unfold block_evidence.
  destruct (forallb validate_basic es) eqn:Hb; cbn [negb].
  2:{ intros H; inversion H; subst. repeat split; auto; discriminate. }
  destruct (Z.ltb mx (Z.of_nat (length es))).
  { intros H; inversion H; subst. repeat split; auto; discriminate. }
  unfold check_evidence. intros H. apply check_loop_spec in H.
  destruct H as [Hst [Hco [Hpe [Hk Hok]]]].
  split; auto. split; auto. split; auto. split; auto.
  intros Hr; destruct (Hok Hr) as [Hnd [_ [Hall Hpend]]]; auto.
Qed.

(* ------------------------------------------------------------------ *)
(** * markEvidenceAsCommitted *)

Lemma remove_from_list_core p hs : same_core p (remove_from_list p hs).
Proof. repeat split. Qed.

Lemma mark_loop_spec : forall evs p removed p' removed',
  mark_loop p evs removed = (p', removed') ->
  p_state p' = p_state p /\
  (forall x, In x (p_pending p') -> In x (p_pending p) /\ forall e, In e evs -> ekey x <> ekey e) /\
  (forall k, In k (p_committed p') <-> In k (p_committed p) \/ In k (map ekey evs)) /\
  (forall k, has_key k (p_pending p') = has_key k (p_pending p) && negb (existsb (key2_eqb k) (map ekey evs))).
Proof.
  induction evs as [|e t IH]; intros p removed p' removed'; cbn [mark_loop].
  - intros H; inversion H; subst. split; [reflexivity|]. split; [|split].
    + intros x Hx. split; [assumption|intros e []].
    + intros k. cbn [map In]. tauto.
    + intros k. cbn [map existsb negb]. rewrite andb_true_r. reflexivity.
  - destruct (is_pending p e) eqn:Hp.
    + intros H. apply IH in H. destruct H as [Hst [Hpe [Hco Hk]]].
      split; [exact Hst|]. split.
      { intros x Hx. destruct (Hpe x Hx) as [Hi Hne]. cbn in Hi. apply In_del_pending in Hi.
        destruct Hi as [Hi Hn]. split; auto. intros e' [<-|He']; auto. }
      split.
      { intros k. rewrite Hco. cbn [p_committed set_committed remove_pending set_size set_pending map In].
        rewrite In_put_key. intuition. }
      { intros k. rewrite Hk. cbn [p_pending set_committed remove_pending set_size set_pending map existsb].
        rewrite del_pending_has. rewrite negb_orb. rewrite andb_assoc. reflexivity. }
    + intros H. apply IH in H. destruct H as [Hst [Hpe [Hco Hk]]].
      split; [exact Hst|]. split.
      { intros x Hx. destruct (Hpe x Hx) as [Hi Hne]. cbn in Hi. split; auto.
        intros e' [<-|He']; auto.
        intros Heq. unfold is_pending in Hp.
        assert (existsb (fun x0 => key2_eqb (ekey x0) (ekey e)) (p_pending p) = true).
        { apply existsb_exists. exists x. split; auto. apply key2_eqb_eq; auto. }
        congruence. }
      split.
      { intros k. rewrite Hco. cbn [p_committed set_committed map In]. rewrite In_put_key. intuition. }
      { intros k. rewrite Hk. cbn [p_pending set_committed map existsb].
        rewrite negb_orb.
        destruct (key2_eqb k (ekey e)) eqn:E; cbn [negb andb]; auto.
        apply key2_eqb_eq in E; subst k. unfold is_pending in Hp. unfold has_key. rewrite Hp. reflexivity. }
Qed.

Lemma mark_committed_spec p evs :
  let p' := mark_committed p evs in
  p_state p' = p_state p /\
  (forall x, In x (p_pending p') -> In x (p_pending p) /\ forall e, In e evs -> ekey x <> ekey e) /\
  (forall k, In k (p_committed p') <-> In k (p_committed p) \/ In k (map ekey evs)) /\
  (forall k, has_key k (p_pending p') = has_key k (p_pending p) && negb (existsb (key2_eqb k) (map ekey evs))).
Proof.
  unfold mark_committed. destruct (mark_loop p evs []) as [p1 removed] eqn:H.
  apply mark_loop_spec in H. destruct removed; exact H.
Qed.

(* ------------------------------------------------------------------ *)
(** * removeExpiredPendingEvidence *)

Lemma expire_loop_spec : forall snapshot p removed p' h t,
  expire_loop p snapshot removed = (p', h, t) ->
  p_state p' = p_state p /\ p_committed p' = p_committed p /\
  (forall x, In x (p_pending p') -> In x (p_pending p)) /\
  (forall k, has_key k (p_pending p) = true ->
     has_key k (p_pending p') = true \/
     exists e, In e snapshot /\ ekey e = k /\ is_expired (p_state p) (e_height e) (e_time e) = true).
Proof.
  induction snapshot as [|e s IH]; intros p removed p' h t; cbn [expire_loop].
  - intros H. inversion H; subst. destruct removed; repeat split; auto.
  - destruct (validate_basic e); cbn [negb].
    2:{ intros H. apply IH in H. destruct H as [H1 [H2 [H3 H4]]]. repeat split; auto.
        intros k Hk. destruct (H4 k Hk) as [|[x [Hi Hx]]]; auto. right. exists x. split; [right|]; auto. }
    destruct (is_expired (p_state p) (e_height e) (e_time e)) eqn:Hx; cbn [negb].
    2:{ intros H. inversion H; subst. destruct removed; repeat split; auto. }
    intros H. apply IH in H. destruct H as [H1 [H2 [H3 H4]]].
    split; [exact H1|]. split; [exact H2|]. split.
    { intros x Hi. apply H3 in Hi. cbn in Hi. apply In_del_pending in Hi. tauto. }
    intros k Hk.
    destruct (key2_eqb k (ekey e)) eqn:E.
    + apply key2_eqb_eq in E. right. exists e. split; [left; auto|]. split; auto.
    + assert (Hk2 : has_key k (p_pending (remove_pending p e)) = true).
      { cbn [p_pending remove_pending set_size set_pending]. rewrite del_pending_has, Hk, E. reflexivity. }
      destruct (H4 k Hk2) as [|[x [Hi [Hxk Hxe]]]]; auto.
      right. exists x. split; [right; auto|]. split; auto.
Qed.

Lemma remove_expired_spec p p' h t :
  remove_expired p = (p', h, t) ->
  p_state p' = p_state p /\ p_committed p' = p_committed p /\
  (forall x, In x (p_pending p') -> In x (p_pending p)) /\
  (forall k, has_key k (p_pending p) = true ->
     has_key k (p_pending p') = true \/
     exists e, In e (p_pending p) /\ ekey e = k /\ is_expired (p_state p) (e_height e) (e_time e) = true).
Proof. unfold remove_expired. apply expire_loop_spec. Qed.

(* ------------------------------------------------------------------ *)
(** * Update / restart *)

Lemma update_spec p st evs p' r :
  update p st evs = (p', r) ->
  (r = RPanic /\ p' = p /\ st_height st <= st_height (p_state p)) \/
  (r = ROk /\ st_height (p_state p) < st_height st /\ p_state p' = st /\
   (forall x, In x (p_pending p') -> In x (p_pending p) /\ forall e, In e evs -> ekey x <> ekey e) /\
   (forall k, In k (p_committed p') <-> In k (p_committed p) \/ In k (map ekey evs)) /\
   (forall k, has_key k (p_pending p) = true ->
      has_key k (p_pending p') = true \/ In k (map ekey evs) \/
      exists e, In e (p_pending p) /\ ekey e = k /\ is_expired st (e_height e) (e_time e) = true)).
Proof.
  unfold update. destruct (Z.leb (st_height st) (st_height (p_state p))) eqn:Hl.
  - intros H; inversion H; subst. left. apply Z.leb_le in Hl. auto.
  - apply Z.leb_gt in Hl.
    pose proof (mark_committed_spec (set_state p st) evs) as Hm. cbn zeta in Hm.
    destruct Hm as [Hst [Hpe [Hco Hk]]].
    set (p1 := mark_committed (set_state p st) evs) in *.
    assert (Hkk : forall k, has_key k (p_pending p) = true ->
                  has_key k (p_pending p1) = true \/ In k (map ekey evs)).
    { intros k Hp. rewrite Hk. cbn [p_pending set_state]. rewrite Hp. cbn [andb].
      destruct (existsb (key2_eqb k) (map ekey evs)) eqn:E; auto.
      right. apply existsb_exists in E. destruct E as [x [Hi Hx]]. apply key2_eqb_eq in Hx; subst; auto. }
    destruct (Z.ltb 0 (p_size p1) && Z.ltb (p_prune_h p1) (st_height st) && Z.ltb (p_prune_t p1) (st_time st)).
    + destruct (remove_expired p1) as [[p2 h] t] eqn:Hr. intros H; inversion H; subst. right.
      apply remove_expired_spec in Hr. destruct Hr as [H1 [H2 [H3 H4]]].
      split; auto. split; auto. split; [cbn; rewrite H1; exact Hst|].
      split; [intros x Hx; apply Hpe; apply H3; exact Hx|].
      split; [intros k; cbn [p_committed set_prune]; rewrite H2; apply Hco|].
      intros k Hp. destruct (Hkk k Hp) as [Hp1|]; auto.
      cbn [p_pending set_prune]. destruct (H4 k Hp1) as [|[e [Hi [He Hx]]]]; auto.
      right; right. exists e. split; [apply Hpe in Hi; tauto|]. split; auto.
      rewrite Hst in Hx. exact Hx.
    + intros H; inversion H; subst. right. split; auto. split; auto. split; [exact Hst|].
      split; auto. split; auto.
      intros k Hp. destruct (Hkk k Hp); auto.
Qed.

Lemma list_loop_ok : forall l mb acc a b l' sz, list_loop l mb acc a b = (l', sz, true) ->
  forall x, In x l' -> In x acc \/ In x l.
Proof.
  induction l as [|e t IH]; intros mb acc a b l' sz; cbn [list_loop].
  - intros H; inversion H; subst. intros x Hx. apply in_rev in Hx. auto.
  - destruct (negb (Z.eqb mb (-1)) && Z.ltb mb (wrap64 (a + 1 + e_size e + sov (e_size e)))).
    + intros H; inversion H; subst. intros x Hx. apply in_rev in Hx. auto.
    + destruct (validate_basic e); cbn [negb]; [|discriminate].
      intros H x Hx. destruct (IH _ _ _ _ _ _ H x Hx) as [[->|Hi]|Hi]; auto.
      * right; left; auto.
      * right; right; auto.
Qed.

Lemma restart_spec p st p' r :
  restart p st = (p', r) ->
  (r = ROk -> p_state p' = st) /\ p_committed p' = p_committed p /\
  (forall x, In x (p_pending p') -> In x (p_pending p)) /\
  (forall k, has_key k (p_pending p) = true ->
     has_key k (p_pending p') = true \/
     exists e, In e (p_pending p) /\ ekey e = k /\ is_expired st (e_height e) (e_time e) = true).
Proof.
  unfold restart.
  destruct (remove_expired (set_list (set_state p st) [])) as [[p1 h] t] eqn:Hr.
  apply remove_expired_spec in Hr. destruct Hr as [H1 [H2 [H3 H4]]].
  cbn [p_state p_committed p_pending set_list set_state] in *.
  destruct (list_evidence (set_prune p1 h t) (-1)) as [[l sz] ok] eqn:Hl.
  destruct ok; intros H; inversion H; subst; cbn [p_state p_committed p_pending set_list set_size set_prune set_pending].
  - repeat split; auto.
  - split; [discriminate|]. repeat split; auto.
Qed.

(** PendingEvidence(-1) lists the whole pending family (when every stored value decodes) *)
Lemma list_loop_all : forall l acc a b,
  forallb validate_basic l = true ->
  exists sz, list_loop l (-1) acc a b = (rev acc ++ l, sz, true).
Proof.
  induction l as [|e t IH]; intros acc a b Hb; cbn [list_loop].
  - eexists. rewrite app_nil_r. reflexivity.
  - cbn [forallb] in Hb. apply andb_true_iff in Hb. destruct Hb as [He Ht].
    rewrite Z.eqb_refl. cbn [negb andb]. rewrite He. cbn [negb].
    destruct (IH (e :: acc) (wrap64 (a + 1 + e_size e + sov (e_size e))) (wrap64 (a + 1 + e_size e + sov (e_size e))) Ht) as [sz Hs].
    exists sz. rewrite Hs. cbn [rev]. rewrite <- app_assoc. reflexivity.
Qed.

Lemma pending_evidence_all p :
  forallb validate_basic (p_pending p) = true -> p_size p <> 0 ->
  fst (pending_evidence p (-1)) = p_pending p.
Proof.
  intros Hb Hs. unfold pending_evidence. apply Z.eqb_neq in Hs. rewrite Hs.
  unfold list_evidence. destruct (list_loop_all (p_pending p) [] 0 0 Hb) as [sz H]. rewrite H. reflexivity.
Qed.
