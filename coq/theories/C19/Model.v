(** C19 — executable model of the evidence pool (types/evidence/pool.go, verify.go), of
    DuplicateVoteEvidence (types/evidence.go: NewDuplicateVoteEvidence, ValidateBasic) and of
    the place where consensus turns a conflicting-vote error into evidence
    (consensus/state.go tryAddVote, with cstate.MedianTime / ktime.WeightedMedian).

    Conventions.
    - Signatures are ideal exactly as in C02: [sigv] records who produced the byte string and
      over which canonical content; the harness (which creates every signature with real
      keys) maps each real signature to that tuple.  The canonical vote contains neither the
      validator address nor the validator index (types/canonical_types.go).
    - [e_hash] is the identity of the evidence bytes (Keccak of the protobuf encoding, given
      by the harness as a number that preserves the byte order of the hash); [e_size] is the
      protobuf size of the kproto.Evidence wrapper (used by listEvidence's byte cap).
    - Times are nanoseconds since the Unix epoch, unbounded [Z]; [time.Sub] saturates at the
      int64 range as Go does.  [time.Time] values are compared with [==]/[!=] in verify.go;
      every time that reaches the pool went through protobuf (UTC, no monotonic clock
      reading), for which struct equality is instant equality.
    - The chain view is what the pool reads from the block store (LoadBlockMeta(h).Header.Time)
      and from the state store (LoadValidators(h)): two association lists.
    - The persistent key families "evidence-pending<H16>/<HASH>" and
      "evidence-committed<H16>/<HASH>" are lists sorted by (height, hash), which is the
      iteration order of the database. *)
From Coq Require Import List ZArith NArith Bool Lia.
From Kardia Require Import Base.Int64.
Import ListNotations.
Local Open Scope Z_scope.

(* ------------------------------------------------------------------ *)
(** * Data *)

Record blockid := { b_hash : N; b_total : N; b_phash : N }.

(** BlockID.Equal *)
Definition bid_eqb (a b : blockid) : bool :=
  N.eqb (b_hash a) (b_hash b) && N.eqb (b_total a) (b_total b) && N.eqb (b_phash a) (b_phash b).
(** BlockID.IsZero / IsComplete *)
Definition bid_is_zero (b : blockid) : bool :=
  N.eqb (b_hash b) 0 && (N.eqb (b_total b) 0 && N.eqb (b_phash b) 0).
Definition bid_is_complete (b : blockid) : bool :=
  negb (N.eqb (b_hash b) 0) && negb (N.eqb (b_total b) 0 && N.eqb (b_phash b) 0).

(** decimal digits of a number, most significant first (what "%d" prints) *)
Fixpoint digits_fuel (fuel : nat) (n : N) (acc : list N) : list N :=
  match fuel with
  | O => (n :: acc)
  | S f => if N.ltb n 10 then n :: acc else digits_fuel f (N.div n 10) (N.modulo n 10 :: acc)
  end.
Definition dec_digits (n : N) : list N := digits_fuel (N.to_nat (N.size n)) n [].

(** strings.Compare on two digit strings: [Lt], [Eq], [Gt] *)
Fixpoint lex_cmp (a b : list N) : comparison :=
  match a, b with
  | [], [] => Eq
  | [], _ :: _ => Lt
  | _ :: _, [] => Gt
  | x :: a', y :: b' => match N.compare x y with Eq => lex_cmp a' b' | c => c end
  end.

(** BlockID.Key() = Hash.String() ++ PartsHeader.Hash.String() ++ ":" ++ decimal total.
    The two hashes are fixed-width hex strings, so the string order is the order of the
    triple below. *)
Definition key_cmp (a b : blockid) : comparison :=
  match N.compare (b_hash a) (b_hash b) with
  | Eq => match N.compare (b_phash a) (b_phash b) with
          | Eq => lex_cmp (dec_digits (b_total a)) (dec_digits (b_total b))
          | c => c end
  | c => c end.
Definition key_lt (a b : blockid) : bool := match key_cmp a b with Lt => true | _ => false end.
Definition key_eq (a b : blockid) : bool := match key_cmp a b with Eq => true | _ => false end.

Record sigv := {
  s_id : N; s_empty : bool; s_signer : N;
  s_chain : N; s_type : N; s_height : N; s_round : N; s_bid : blockid; s_time : Z }.

Record vote := {
  v_idx : N; v_addr : N; v_height : N; v_round : N; v_type : N; v_time : Z;
  v_bid : blockid; v_sig : sigv }.

Record validator := { val_addr : N; val_power : Z }.

(** VerifySignature(addr, Keccak(VoteSignBytes(chain, vote)), sig) with ideal signatures *)
Definition sig_valid (chain addr ty h r : N) (b : blockid) (t : Z) (s : sigv) : bool :=
  negb (s_empty s) && negb (N.eqb (s_signer s) 0) && N.eqb (s_signer s) addr &&
  N.eqb (s_chain s) chain && N.eqb (s_type s) ty && N.eqb (s_height s) h &&
  N.eqb (s_round s) r && bid_eqb (s_bid s) b && Z.eqb (s_time s) t.
Definition vote_sig_valid (chain addr : N) (v : vote) : bool :=
  sig_valid chain addr (v_type v) (v_height v) (v_round v) (v_bid v) (v_time v) (v_sig v).

(** DuplicateVoteEvidence: the two votes, the two powers and the timestamp; [e_hash] and
    [e_size] are functions of the protobuf bytes, supplied by the harness. *)
Record evidence := {
  e_hash : N; e_size : Z;
  e_a : vote; e_b : vote; e_total : Z; e_power : Z; e_time : Z }.

(** Evidence.Height() = VoteA.Height (uint64) *)
Definition e_height (e : evidence) : Z := Z.of_N (v_height (e_a e)).

(* ------------------------------------------------------------------ *)
(** * ValidateBasic (types/evidence.go, types/vote.go) *)

Definition vote_basic (v : vote) : bool :=
  (N.eqb (v_type v) 1 || N.eqb (v_type v) 2) &&
  (bid_is_zero (v_bid v) || bid_is_complete (v_bid v)) &&
  negb (s_empty (v_sig v)).

Definition validate_basic (e : evidence) : bool :=
  vote_basic (e_a e) && vote_basic (e_b e) && key_lt (v_bid (e_a e)) (v_bid (e_b e)).

(* ------------------------------------------------------------------ *)
(** * Validator sets *)

Fixpoint find_val (a : N) (vs : list validator) : option validator :=
  match vs with
  | [] => None
  | v :: t => if N.eqb (val_addr v) a then Some v else find_val a t
  end.

(** ValidatorSet.GetByAddress: position and validator *)
Fixpoint find_idx (a : N) (vs : list validator) (i : N) : option (N * validator) :=
  match vs with
  | [] => None
  | v :: t => if N.eqb (val_addr v) a then Some (i, v) else find_idx a t (N.succ i)
  end.

(** updateTotalVotingPower: safeAddClip *)
Definition total_power (vs : list validator) : Z :=
  fold_left (fun acc v => safe_add_clip acc (val_power v)) vs 0.

(* ------------------------------------------------------------------ *)
(** * VerifyDuplicateVote (types/evidence/verify.go), checks in the code's order *)

Inductive verr :=
  VOk | VNoHeader | VTime | VExpired | VNoVals | VNotVal | VIndex | VHRS | VAddr | VSameId
| VPower | VTotal | VSigA | VSigB.

Definition verify_duplicate_vote (e : evidence) (chain : N) (vs : list validator) : verr :=
  let a := e_a e in let b := e_b e in
  match find_idx (v_addr a) vs 0 with
  | None => VNotVal
  | Some (idx, val) =>
    (* commit be61253: both indices must be the validator's index in the set of that height *)
    if negb (N.eqb (v_idx a) idx && N.eqb (v_idx b) idx) then VIndex
    else if negb (N.eqb (v_height a) (v_height b) && N.eqb (v_round a) (v_round b) && N.eqb (v_type a) (v_type b))
    then VHRS
    else if negb (N.eqb (v_addr a) (v_addr b)) then VAddr
    else if bid_eqb (v_bid a) (v_bid b) then VSameId
    else if negb (Z.eqb (val_power val) (e_power e)) then VPower
    else if negb (Z.eqb (total_power vs) (e_total e)) then VTotal
    else if negb (vote_sig_valid chain (val_addr val) a) then VSigA
    else if negb (vote_sig_valid chain (val_addr val) b) then VSigB
    else VOk
  end.

(* ------------------------------------------------------------------ *)
(** * Chain view and pool state *)

Record params := { max_age_blocks : Z; max_age_dur : Z }.

(** the fields of cstate.LatestBlockState the pool reads *)
Record pstate := { st_height : Z; st_time : Z; st_params : params; st_chain : N }.

Record chain := {
  ch_times : list (Z * Z);                 (* height |-> header time (block store) *)
  ch_vals : list (Z * list validator) }.   (* height |-> LoadValidators(height) (state store) *)

Fixpoint assoc {A} (k : Z) (l : list (Z * A)) : option A :=
  match l with
  | [] => None
  | (k', x) :: t => if Z.eqb k' k then Some x else assoc k t
  end.
Definition block_time (c : chain) (h : Z) : option Z := assoc h (ch_times c).
Definition vals_at (c : chain) (h : Z) : option (list validator) := assoc h (ch_vals c).

Record pool := {
  p_pending : list evidence;      (* key family "evidence-pending", sorted by (height, hash) *)
  p_committed : list (Z * N);     (* key family "evidence-committed", sorted *)
  p_list : list evidence;         (* evidenceList (clist), front first *)
  p_size : Z;                     (* evidenceSize, uint32 *)
  p_state : pstate;
  p_prune_h : Z;                  (* pruningHeight, uint64 *)
  p_prune_t : Z }.                (* pruningTime *)

Definition set_pending p l := {| p_pending := l; p_committed := p_committed p; p_list := p_list p;
  p_size := p_size p; p_state := p_state p; p_prune_h := p_prune_h p; p_prune_t := p_prune_t p |}.
Definition set_committed p l := {| p_pending := p_pending p; p_committed := l; p_list := p_list p;
  p_size := p_size p; p_state := p_state p; p_prune_h := p_prune_h p; p_prune_t := p_prune_t p |}.
Definition set_list p l := {| p_pending := p_pending p; p_committed := p_committed p; p_list := l;
  p_size := p_size p; p_state := p_state p; p_prune_h := p_prune_h p; p_prune_t := p_prune_t p |}.
Definition set_size p s := {| p_pending := p_pending p; p_committed := p_committed p; p_list := p_list p;
  p_size := s; p_state := p_state p; p_prune_h := p_prune_h p; p_prune_t := p_prune_t p |}.
Definition set_state p s := {| p_pending := p_pending p; p_committed := p_committed p; p_list := p_list p;
  p_size := p_size p; p_state := s; p_prune_h := p_prune_h p; p_prune_t := p_prune_t p |}.
Definition set_prune p h t := {| p_pending := p_pending p; p_committed := p_committed p; p_list := p_list p;
  p_size := p_size p; p_state := p_state p; p_prune_h := h; p_prune_t := t |}.

(** keySuffix: (height, hash) *)
Definition ekey (e : evidence) : Z * N := (e_height e, e_hash e).
Definition key2_eqb (a b : Z * N) : bool := Z.eqb (fst a) (fst b) && N.eqb (snd a) (snd b).
Definition key2_ltb (a b : Z * N) : bool :=
  Z.ltb (fst a) (fst b) || (Z.eqb (fst a) (fst b) && N.ltb (snd a) (snd b)).

Definition is_pending (p : pool) (e : evidence) : bool :=
  existsb (fun x => key2_eqb (ekey x) (ekey e)) (p_pending p).
Definition is_committed (p : pool) (e : evidence) : bool :=
  existsb (fun k => key2_eqb k (ekey e)) (p_committed p).

(** db.Put on a sorted key family (an existing key is overwritten) *)
Fixpoint put_pending (e : evidence) (l : list evidence) : list evidence :=
  match l with
  | [] => [e]
  | x :: t => if key2_eqb (ekey x) (ekey e) then e :: t
              else if key2_ltb (ekey e) (ekey x) then e :: x :: t
              else x :: put_pending e t
  end.
Fixpoint put_key (k : Z * N) (l : list (Z * N)) : list (Z * N) :=
  match l with
  | [] => [k]
  | x :: t => if key2_eqb x k then k :: t
              else if key2_ltb k x then k :: x :: t
              else x :: put_key k t
  end.
Definition del_pending (e : evidence) (l : list evidence) : list evidence :=
  filter (fun x => negb (key2_eqb (ekey x) (ekey e))) l.

(** addPendingEvidence: Put + evidenceSize++ *)
Definition add_pending (p : pool) (e : evidence) : pool :=
  set_size (set_pending p (put_pending e (p_pending p))) (wrapu32 (p_size p + 1)).
(** removePendingEvidence: Delete + evidenceSize-- (also when the key was absent) *)
Definition remove_pending (p : pool) (e : evidence) : pool :=
  set_size (set_pending p (del_pending e (p_pending p))) (wrapu32 (p_size p - 1)).
Definition push_list (p : pool) (e : evidence) : pool := set_list p (p_list p ++ [e]).
(** removeEvidenceFromList: by evMapKey = hash string *)
Definition remove_from_list (p : pool) (hs : list N) : pool :=
  set_list p (filter (fun x => negb (existsb (N.eqb (e_hash x)) hs)) (p_list p)).

(* ------------------------------------------------------------------ *)
(** * Pool.verify *)

(** time.Time.Sub: saturating int64 nanoseconds *)
Definition sat_sub (a b : Z) : Z :=
  let d := a - b in
  if Z.ltb max_int64 d then max_int64 else if Z.ltb d min_int64 then min_int64 else d.

Definition verify (p : pool) (c : chain) (e : evidence) : verr :=
  let st := p_state p in
  let height := wrap64 (st_height st) in
  let age_blocks := wrap64 (height - wrap64 (e_height e)) in
  match block_time c (e_height e) with
  | None => VNoHeader
  | Some evt =>
    if negb (Z.eqb (e_time e) evt) then VTime
    else
      let age_dur := sat_sub (st_time st) evt in
      if Z.ltb (max_age_dur (st_params st)) age_dur && Z.ltb (max_age_blocks (st_params st)) age_blocks
      then VExpired
      else match vals_at c (e_height e) with
           | None => VNoVals
           | Some vs => verify_duplicate_vote e (st_chain st) vs
           end
  end.

(** isExpired(height, time): uint64 subtraction, uint64(MaxAgeNumBlocks) *)
Definition is_expired (st : pstate) (h t : Z) : bool :=
  Z.ltb (wrapu64 (max_age_blocks (st_params st))) (wrapu64 (st_height st - h)) &&
  Z.ltb (max_age_dur (st_params st)) (sat_sub (st_time st) t).

(* ------------------------------------------------------------------ *)
(** * AddEvidence / AddEvidenceFromConsensus / CheckEvidence *)

Inductive result :=
  ROk | RBasic | RInvalid (e : verr) | RCommitted | RDuplicate | ROverflow | RPanic | RErr.

Definition add_evidence (p : pool) (c : chain) (e : evidence) : pool * result :=
  if is_pending p e then (p, ROk)
  else if is_committed p e then (p, ROk)
  else match verify p c e with
       | VOk => (push_list (add_pending p e) e, ROk)
       | err => (p, RInvalid err)
       end.

Definition add_from_consensus (p : pool) (e : evidence) : pool * result :=
  if is_pending p e then (p, ROk) else (push_list (add_pending p e) e, ROk).

Fixpoint check_loop (p : pool) (c : chain) (seen : list N) (evs : list evidence) : pool * result :=
  match evs with
  | [] => (p, ROk)
  | e :: t =>
    let step :=
      if is_pending p e then
        (* commit 7b4a6e2: pending evidence may have expired since it was added *)
        if is_expired (p_state p) (e_height e) (e_time e) then (p, Some (RInvalid VExpired)) else (p, None)
      else if is_committed p e then (p, Some RCommitted)
      else match verify p c e with
           | VOk => (add_pending p e, None)
           | err => (p, Some (RInvalid err))
           end in
    match step with
    | (p1, Some r) => (p1, r)
    | (p1, None) =>
      if existsb (N.eqb (e_hash e)) seen then (p1, RDuplicate)
      else check_loop p1 c (e_hash e :: seen) t
    end
  end.
Definition check_evidence (p : pool) (c : chain) (evs : list evidence) : pool * result :=
  check_loop p c [] evs.

(** the reactor's path: decodeMsg (EvidenceFromProto + ValidateBasic) then AddEvidence *)
Definition peer_evidence (p : pool) (c : chain) (e : evidence) : pool * result :=
  if validate_basic e then add_evidence p c e else (p, RBasic).

(** validateBlock's evidence part: Block.ValidateBasic (each ValidateBasic), the count limit,
    CheckEvidence *)
Definition block_evidence (p : pool) (c : chain) (maxnum : Z) (evs : list evidence) : pool * result :=
  if negb (forallb validate_basic evs) then (p, RBasic)
  else if Z.ltb maxnum (Z.of_nat (length evs)) then (p, ROverflow)
  else check_evidence p c evs.

(* ------------------------------------------------------------------ *)
(** * listEvidence / PendingEvidence *)

(** sovEvidence(x) = (bits.Len64(x|1)+6)/7 *)
Definition sov (x : Z) : Z :=
  let n := Z.to_N x in
  Z.of_N (N.div (N.size (N.lor n 1) + 6) 7).

(** returns (evidence in key order, total size, ok); a stored value that does not decode
    (EvidenceFromProto runs ValidateBasic) makes the listing fail with (nil, size so far) *)
Fixpoint list_loop (l : list evidence) (maxbytes : Z) (acc : list evidence) (evsize total : Z)
  : list evidence * Z * bool :=
  match l with
  | [] => (rev acc, total, true)
  | e :: t =>
    let evsize' := wrap64 (evsize + 1 + e_size e + sov (e_size e)) in
    if negb (Z.eqb maxbytes (-1)) && Z.ltb maxbytes evsize' then (rev acc, total, true)
    else if negb (validate_basic e) then ([], total, false)
    else list_loop t maxbytes (e :: acc) evsize' evsize'
  end.
Definition list_evidence (p : pool) (maxbytes : Z) := list_loop (p_pending p) maxbytes [] 0 0.

Definition pending_evidence (p : pool) (maxbytes : Z) : list evidence * Z :=
  if Z.eqb (p_size p) 0 then ([], 0)
  else let '(l, sz, _) := list_evidence p maxbytes in (l, sz).

(* ------------------------------------------------------------------ *)
(** * Update: markEvidenceAsCommitted, removeExpiredPendingEvidence *)

Fixpoint mark_loop (p : pool) (evs : list evidence) (removed : list N) : pool * list N :=
  match evs with
  | [] => (p, removed)
  | e :: t =>
    let '(p1, removed1) :=
      if is_pending p e then (remove_pending p e, e_hash e :: removed) else (p, removed) in
    mark_loop (set_committed p1 (put_key (ekey e) (p_committed p1))) t removed1
  end.
Definition mark_committed (p : pool) (evs : list evidence) : pool :=
  let '(p1, removed) := mark_loop p evs [] in
  match removed with [] => p1 | _ => remove_from_list p1 removed end.

Definition one_second : Z := 1000000000.

(** iterates a snapshot of the pending family in key order; entries that do not decode are
    skipped (logged); stops at the first entry that is not expired *)
Fixpoint expire_loop (p : pool) (snapshot : list evidence) (removed : list N) : pool * Z * Z :=
  match snapshot with
  | [] =>
    let p1 := match removed with [] => p | _ => remove_from_list p removed end in
    (p1, st_height (p_state p), st_time (p_state p))
  | e :: t =>
    if negb (validate_basic e) then expire_loop p t removed
    else if negb (is_expired (p_state p) (e_height e) (e_time e)) then
      let p1 := match removed with [] => p | _ => remove_from_list p removed end in
      (p1, wrapu64 (e_height e + wrapu64 (max_age_blocks (st_params (p_state p))) + 1),
       e_time e + max_age_dur (st_params (p_state p)) + one_second)
    else expire_loop (remove_pending p e) t (e_hash e :: removed)
  end.
Definition remove_expired (p : pool) : pool * Z * Z := expire_loop p (p_pending p) [].

Definition update (p : pool) (st : pstate) (evs : list evidence) : pool * result :=
  if Z.leb (st_height st) (st_height (p_state p)) then (p, RPanic)
  else
    let p1 := mark_committed (set_state p st) evs in
    if Z.ltb 0 (p_size p1) && Z.ltb (p_prune_h p1) (st_height st) && Z.ltb (p_prune_t p1) (st_time st)
    then let '(p2, h, t) := remove_expired p1 in (set_prune p2 h t, ROk)
    else (p1, ROk).

(** NewPool over an existing database: state = stateDB.Load(), prune, reload the list *)
Definition restart (p : pool) (st : pstate) : pool * result :=
  let p0 := set_list (set_state p st) [] in
  let '(p1, h, t) := remove_expired p0 in
  let p2 := set_prune p1 h t in
  let '(l, _, ok) := list_evidence p2 (-1) in
  if ok then (set_list (set_size p2 (wrapu32 (Z.of_nat (length l)))) l, ROk)
  else (set_pending p (p_pending p2), RErr).  (* NewPool fails; only its database effects remain *)

Definition empty_pool (st : pstate) : pool :=
  {| p_pending := []; p_committed := []; p_list := []; p_size := 0; p_state := st;
     p_prune_h := st_height st; p_prune_t := st_time st |}.

(* ------------------------------------------------------------------ *)
(** * Generation in consensus: tryAddVote's ErrVoteConflictingVotes branch *)

(** NewDuplicateVoteEvidence(vote1, vote2, blockTime, valSet): nil when vote1's address is
    not in valSet; ordered by BlockID.Key() *)
Definition new_duplicate_vote_evidence (hash : N) (size : Z) (v1 v2 : vote) (ts : Z)
           (vs : list validator) : option evidence :=
  match find_val (v_addr v1) vs with
  | None => None
  | Some val =>
    let '(a, b) := if key_lt (v_bid v1) (v_bid v2) then (v1, v2) else (v2, v1) in
    Some {| e_hash := hash; e_size := size; e_a := a; e_b := b;
            e_total := total_power vs; e_power := val_power val; e_time := ts |}
  end.

(** cstate.MedianTime(commit, validators) / ktime.WeightedMedian.  A commit is given by its
    non-absent signatures (validator address, timestamp), in signature order. *)
Definition zero_time : Z := -62135596800000000000.

Fixpoint insert_wt (x : Z * Z) (l : list (Z * Z)) : list (Z * Z) :=
  match l with
  | [] => [x]
  | y :: t => if Z.ltb (fst x) (fst y) then x :: y :: t else y :: insert_wt x t
  end.
Fixpoint weighted_times (commit : list (N * Z)) (vs : list validator) : list (Z * Z) :=
  match commit with
  | [] => []
  | (a, t) :: r =>
    match find_val a vs with
    | Some v => insert_wt (t, val_power v) (weighted_times r vs)
    | None => weighted_times r vs
    end
  end.
Fixpoint median_loop (l : list (Z * Z)) (median : Z) : Z :=
  match l with
  | [] => zero_time
  | (t, w) :: r => if Z.leb median w then t else median_loop r (wrap64 (median - w))
  end.
Definition median_time (commit : list (N * Z)) (vs : list validator) : Z :=
  let wts := weighted_times commit vs in
  let total := fold_left (fun acc x => wrap64 (acc + snd x)) wts 0 in
  median_loop wts (div64 total 2).

(** what tryAddVote reads from the consensus state *)
Record csview := {
  cs_init_height : N;            (* cs.state.InitialHeight *)
  cs_last_block_time : Z;        (* cs.state.LastBlockTime *)
  cs_last_commit : list (N * Z); (* cs.LastCommit.MakeCommit(), non-absent signatures *)
  cs_last_vals : list validator; (* cs.LastValidators *)
  cs_vals : list validator;      (* cs.Validators *)
  cs_me : N }.                   (* cs.privValidator.GetAddress() *)

Inductive gen_result := GSelf | GNil | GEvidence (e : evidence).

(** [va] is the vote already in the vote set, [vb] the new one (NewConflictingVoteError) *)
Definition try_add_vote_gen (cs : csview) (hash : N) (size : Z) (va vb : vote) : gen_result :=
  if N.eqb (v_addr vb) (cs_me cs) then GSelf
  else
    let ts := if N.eqb (v_height va) (cs_init_height cs) then cs_last_block_time cs
              else median_time (cs_last_commit cs) (cs_last_vals cs) in
    match new_duplicate_vote_evidence hash size va vb ts (cs_vals cs) with
    | None => GNil      (* commit a8268cc: no evidence is formed (logged) *)
    | Some e => GEvidence e
    end.

(* ------------------------------------------------------------------ *)
(** * One node: chain view + pool, and the operations the harness drives *)

Record node := { n_chain : chain; n_pool : pool }.

Inductive op :=
| OpSaveMeta (h t : Z)                       (* block store: block h with header time t *)
| OpSaveVals (h : Z) (vs : list validator)   (* state store: state h saved *)
| OpPeer (e : evidence)                      (* reactor Receive *)
| OpCons (e : evidence)                      (* AddEvidenceFromConsensus *)
| OpBlock (maxnum : Z) (es : list evidence)  (* validateBlock *)
| OpPending (maxbytes : Z)
| OpUpdate (st : pstate) (es : list evidence)
| OpApply (maxnum : Z) (st : pstate) (es : list evidence) (* ApplyBlock: validate, then Update *)
| OpRestart (st : pstate)
| OpGen (cs : csview) (hash : N) (size : Z) (va vb : vote).

Record obs := { o_res : result; o_list : list evidence; o_size : Z; o_gen : option gen_result }.
Definition mk_obs r := {| o_res := r; o_list := []; o_size := 0; o_gen := None |}.

Fixpoint put_assoc {A} (k : Z) (x : A) (l : list (Z * A)) : list (Z * A) :=
  match l with
  | [] => [(k, x)]
  | (k', y) :: t => if Z.eqb k' k then (k, x) :: t else (k', y) :: put_assoc k x t
  end.

Definition step (n : node) (o : op) : node * obs :=
  let c := n_chain n in let p := n_pool n in
  match o with
  | OpSaveMeta h t =>
    ({| n_chain := {| ch_times := put_assoc h t (ch_times c); ch_vals := ch_vals c |}; n_pool := p |},
     mk_obs ROk)
  | OpSaveVals h vs =>
    ({| n_chain := {| ch_times := ch_times c; ch_vals := put_assoc h vs (ch_vals c) |}; n_pool := p |},
     mk_obs ROk)
  | OpPeer e => let '(p', r) := peer_evidence p c e in ({| n_chain := c; n_pool := p' |}, mk_obs r)
  | OpCons e => let '(p', r) := add_from_consensus p e in ({| n_chain := c; n_pool := p' |}, mk_obs r)
  | OpBlock mx es =>
    let '(p', r) := block_evidence p c mx es in ({| n_chain := c; n_pool := p' |}, mk_obs r)
  | OpPending mb =>
    let '(l, sz) := pending_evidence p mb in
    (n, {| o_res := ROk; o_list := l; o_size := sz; o_gen := None |})
  | OpUpdate st es => let '(p', r) := update p st es in ({| n_chain := c; n_pool := p' |}, mk_obs r)
  | OpApply mx st es =>
    let '(p1, r) := block_evidence p c mx es in
    match r with
    | ROk => let '(p2, r2) := update p1 st es in ({| n_chain := c; n_pool := p2 |}, mk_obs r2)
    | _ => ({| n_chain := c; n_pool := p1 |}, mk_obs r)
    end
  | OpRestart st => let '(p', r) := restart p st in ({| n_chain := c; n_pool := p' |}, mk_obs r)
  | OpGen cs hash size va vb =>
    let g := try_add_vote_gen cs hash size va vb in
    match g with
    | GEvidence e =>
      let '(p', r) := add_from_consensus p e in
      ({| n_chain := c; n_pool := p' |}, {| o_res := r; o_list := []; o_size := 0; o_gen := Some g |})
    | GNil => (n, {| o_res := ROk; o_list := []; o_size := 0; o_gen := Some g |})
    | GSelf => (n, {| o_res := ROk; o_list := []; o_size := 0; o_gen := Some g |})
    end
  end.

Fixpoint run (n : node) (ops : list op) : node * list obs :=
  match ops with
  | [] => (n, [])
  | o :: t => let '(n1, ob) := step n o in let '(n2, obs) := run n1 t in (n2, ob :: obs)
  end.

Definition empty_node (st : pstate) : node :=
  {| n_chain := {| ch_times := []; ch_vals := [] |}; n_pool := empty_pool st |}.
