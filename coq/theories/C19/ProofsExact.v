(** C19 — the converse direction: a real, timely double-signing IS accepted (Pool.verify is exact),
    from a peer and inside a block; a stale Update changes nothing; PendingEvidence with a byte cap
    returns exactly the longest prefix of the pending family that fits. *)
From Coq Require Import List ZArith NArith Bool Lia.
From Kardia Require Import Base.Int64 C19.Model C19.ProofsBasic C19.ProofsVerify C19.ProofsPool C19.ProofsHistory.
Import ListNotations.
Local Open Scope Z_scope.

(* ------------------------------------------------------------------ *)
(** * Pool.verify accepts every sound, unexpired evidence *)

Lemma verify_duplicate_vote_complete cid c e vs :
  double_sign cid c e -> vals_at c (e_height e) = Some vs -> verify_duplicate_vote e cid vs = VOk.
Proof.
  intros Hd Hvs. destruct Hd as (H1 & H2 & H3 & H4 & H5 & vs' & val & idx & Hv & Hin & Ha & Hf & I1 & I2 & Hp & Ht & S1 & S2).
  rewrite Hvs in Hv. inversion Hv; subst vs'. clear Hv.
  unfold verify_duplicate_vote. rewrite Hf.
  rewrite I1, I2, N.eqb_refl. cbn [andb negb].
  rewrite H1, H2, H3, !N.eqb_refl. cbn [andb negb].
  rewrite H4, N.eqb_refl. cbn [negb].
  rewrite H5.
  rewrite Hp, Z.eqb_refl. cbn [negb]. rewrite Ht, Z.eqb_refl. cbn [negb].
  rewrite Ha, S1, S2. reflexivity.
Qed.

Lemma verify_complete p c e :
  sound (st_chain (p_state p)) c e -> ~ expired (p_state p) (e_height e) (e_time e) -> verify p c e = VOk.
Proof.
  intros [Hd Ht] Hx. unfold verify. unfold timed in Ht. rewrite Ht, Z.eqb_refl. cbn [negb].
  assert (Hg : Z.ltb (max_age_dur (st_params (p_state p))) (sat_sub (st_time (p_state p)) (e_time e)) &&
               Z.ltb (max_age_blocks (st_params (p_state p)))
                     (wrap64 (wrap64 (st_height (p_state p)) - wrap64 (e_height e))) = false).
  { destruct (Z.ltb_spec (max_age_dur (st_params (p_state p))) (sat_sub (st_time (p_state p)) (e_time e))); [|reflexivity].
    destruct (Z.ltb_spec (max_age_blocks (st_params (p_state p)))
                         (wrap64 (wrap64 (st_height (p_state p)) - wrap64 (e_height e)))); [|reflexivity].
    exfalso. apply Hx. split; assumption. }
  rewrite Hg.
  pose proof Hd as Hd'.
  destruct Hd' as (_ & _ & _ & _ & _ & vs & val & idx & Hv & _).
  rewrite Hv. eapply verify_duplicate_vote_complete; eauto.
Qed.

(** evidence is verified EXACTLY when it is a real double-signing with its block's time that has not expired *)
Lemma verify_exact p c e :
  verify p c e = VOk <->
  (sound (st_chain (p_state p)) c e /\ ~ expired (p_state p) (e_height e) (e_time e)).
Proof.
  split; [apply verify_ok|]. intros [Hs Hx]. apply verify_complete; assumption.
Qed.

(* ------------------------------------------------------------------ *)
(** * acceptance from a peer *)

Lemma peer_accepts_sound p c e :
  validate_basic e = true -> sound (st_chain (p_state p)) c e ->
  ~ expired (p_state p) (e_height e) (e_time e) ->
  snd (peer_evidence p c e) = ROk /\
  (is_committed p e = false -> is_pending (fst (peer_evidence p c e)) e = true).
Proof.
  intros Hb Hs Hx. unfold peer_evidence. rewrite Hb. unfold add_evidence.
  destruct (is_pending p e) eqn:Hp; [cbn [fst snd]; auto|].
  destruct (is_committed p e) eqn:Hc; [cbn [fst snd]; split; [reflexivity|discriminate]|].
  rewrite (verify_complete p c e Hs Hx). cbn [fst snd]. split; [reflexivity|]. intros _.
  unfold is_pending. cbn [p_pending push_list set_list add_pending set_size set_pending].
  apply put_pending_has.
Qed.

(* ------------------------------------------------------------------ *)
(** * acceptance inside a block *)

Lemma is_pending_add_other p e x :
  ekey x <> ekey e -> is_pending (add_pending p e) x = is_pending p x.
Proof.
  intros Hne. rewrite !is_pending_has. rewrite add_pending_pending. apply put_pending_has_other. exact Hne.
Qed.

(** the conditions under which one piece of evidence passes CheckEvidence at pool [p] *)
Definition acceptable (p : pool) (c : chain) (e : evidence) : Prop :=
  sound (st_chain (p_state p)) c e /\ ~ expired (p_state p) (e_height e) (e_time e) /\
  is_committed p e = false /\
  (is_pending p e = true -> is_expired (p_state p) (e_height e) (e_time e) = false).

Lemma acceptable_add p c e x :
  e_hash x <> e_hash e -> acceptable p c x -> acceptable (add_pending p e) c x.
Proof.
  intros Hh [Hs [Hx [Hc Hp]]]. unfold acceptable.
  rewrite add_pending_state. split; [exact Hs|]. split; [exact Hx|]. split; [exact Hc|].
  intros Hpe. apply Hp. rewrite is_pending_add_other in Hpe; auto.
  intros Hk. apply Hh. unfold ekey in Hk. inversion Hk. reflexivity.
Qed.

Lemma check_loop_accepts c : forall es p seen,
  NoDup (map e_hash es) -> (forall e, In e es -> ~ In (e_hash e) seen) ->
  (forall e, In e es -> acceptable p c e) ->
  snd (check_loop p c seen es) = ROk.
Proof.
  induction es as [|e t IH]; intros p seen Hnd Hseen Hacc; cbn [check_loop]; [reflexivity|].
  inversion Hnd as [|h l Hnin Hnd']; subst.
  destruct (Hacc e (or_introl eq_refl)) as [Hs [Hx [Hc Hp]]].
  assert (Hfresh : existsb (N.eqb (e_hash e)) seen = false).
  { apply existsb_hash_false. apply Hseen. left; reflexivity. }
  assert (Hseen' : forall x, In x t -> ~ In (e_hash x) (e_hash e :: seen)).
  { intros x Hx' [Heq|Hin].
    - apply Hnin. rewrite Heq. apply in_map. exact Hx'.
    - apply (Hseen x (or_intror Hx')). exact Hin. }
  destruct (is_pending p e) eqn:Hpe.
  - rewrite (Hp eq_refl). rewrite Hfresh. apply IH; auto.
    intros x Hx'. apply Hacc. right; exact Hx'.
  - rewrite Hc. rewrite (verify_complete p c e Hs Hx). rewrite Hfresh.
    apply IH; auto.
    intros x Hx'. apply acceptable_add.
    + intros Heq. apply Hnin. rewrite <- Heq. apply in_map. exact Hx'.
    + apply Hacc. right; exact Hx'.
Qed.

Lemma block_accepts_sound p c mx es :
  forallb validate_basic es = true -> Z.of_nat (length es) <= mx -> NoDup (map e_hash es) ->
  (forall e, In e es -> acceptable p c e) ->
  snd (block_evidence p c mx es) = ROk.
Proof.
  intros Hb Hn Hnd Hacc. unfold block_evidence. rewrite Hb. cbn [negb].
  destruct (Z.ltb_spec mx (Z.of_nat (length es))); [lia|].
  unfold check_evidence. apply check_loop_accepts; auto.
Qed.

(** conversely, a block is refused as soon as one piece of its evidence is not acceptable
    (given the pool's invariant: pending entries are sound and not committed, and the key identifies
    the evidence) *)
Lemma sound_accepted_all :
  (forall p c e, verify p c e = VOk <->
     (sound (st_chain (p_state p)) c e /\ ~ expired (p_state p) (e_height e) (e_time e))) /\
  (forall p c e, validate_basic e = true -> sound (st_chain (p_state p)) c e ->
     ~ expired (p_state p) (e_height e) (e_time e) ->
     snd (peer_evidence p c e) = ROk /\
     (is_committed p e = false -> is_pending (fst (peer_evidence p c e)) e = true)) /\
  (forall p c mx es, forallb validate_basic es = true -> Z.of_nat (length es) <= mx -> NoDup (map e_hash es) ->
     (forall e, In e es -> acceptable p c e) -> snd (block_evidence p c mx es) = ROk).
Proof.
  split; [exact verify_exact|]. split; [exact peer_accepts_sound|exact block_accepts_sound].
Qed.

(* ------------------------------------------------------------------ *)
(** * a stale Update (state not newer than the pool's) changes nothing *)

Lemma update_stale p st evs : st_height st <= st_height (p_state p) -> update p st evs = (p, RPanic).
Proof. intros H. unfold update. apply Z.leb_le in H. rewrite H. reflexivity. Qed.

Lemma update_fresh_state p st evs :
  st_height (p_state p) < st_height st -> snd (update p st evs) = ROk /\ p_state (fst (update p st evs)) = st.
Proof.
  intros H. destruct (update p st evs) as [p' r] eqn:Hu. cbn [fst snd].
  apply update_spec in Hu. destruct Hu as [[_ [_ Hle]]|[Hr [_ [Hst _]]]]; [lia|auto].
Qed.

(* ------------------------------------------------------------------ *)
(** * PendingEvidence with a byte cap: the longest prefix that fits *)

(** listEvidence's running size after one more entry *)
Definition next_size (s : Z) (e : evidence) : Z := wrap64 (s + 1 + e_size e + sov (e_size e)).
Fixpoint cum_size (s : Z) (l : list evidence) : Z :=
  match l with [] => s | e :: t => cum_size (next_size s e) t end.
(** how many leading entries fit under [cap] *)
Fixpoint fit (cap s : Z) (l : list evidence) : nat :=
  match l with
  | [] => O
  | e :: t => if Z.ltb cap (next_size s e) then O else S (fit cap (next_size s e) t)
  end.

Lemma list_loop_cap : forall l cap acc s,
  cap <> -1 -> forallb validate_basic l = true ->
  list_loop l cap acc s s = (rev acc ++ firstn (fit cap s l) l, cum_size s (firstn (fit cap s l) l), true).
Proof.
  induction l as [|e t IH]; intros cap acc s Hc Hb; cbn [list_loop fit firstn cum_size].
  - rewrite app_nil_r. reflexivity.
  - cbn [forallb] in Hb. apply andb_true_iff in Hb. destruct Hb as [He Ht].
    apply Z.eqb_neq in Hc. rewrite Hc. cbn [negb andb]. fold (next_size s e).
    destruct (Z.ltb cap (next_size s e)).
    + cbn [firstn cum_size]. rewrite app_nil_r. reflexivity.
    + rewrite He. cbn [negb]. rewrite (IH cap (e :: acc) (next_size s e)) by (auto; apply Z.eqb_neq; exact Hc).
      cbn [rev firstn cum_size]. rewrite <- app_assoc. reflexivity.
Qed.

Lemma firstn_S_cum s e t j : cum_size s (firstn (S j) (e :: t)) = cum_size (next_size s e) (firstn j t).
Proof. reflexivity. Qed.

(** every non-empty prefix up to [fit] fits, and the next one (if any) does not *)
Lemma fit_spec : forall l cap s,
  (forall j, (1 <= j <= fit cap s l)%nat -> cum_size s (firstn j l) <= cap) /\
  ((fit cap s l < length l)%nat -> cap < cum_size s (firstn (S (fit cap s l)) l)).
Proof.
  induction l as [|e t IH]; intros cap s; cbn [fit length].
  - split; [intros j Hj; lia|intros H; lia].
  - destruct (Z.ltb_spec cap (next_size s e)) as [Hlt|Hge].
    + split; [intros j Hj; lia|]. intros _. cbn [firstn cum_size]. exact Hlt.
    + destruct (IH cap (next_size s e)) as [IH1 IH2]. split.
      * intros j Hj. destruct j as [|j]; [lia|]. rewrite firstn_S_cum.
        destruct j as [|j]; [cbn [firstn cum_size]; exact Hge|].
        apply IH1. lia.
      * intros Hlen. rewrite firstn_S_cum. apply IH2. lia.
Qed.

Lemma pending_evidence_cap p cap :
  cap <> -1 -> forallb validate_basic (p_pending p) = true -> p_size p <> 0 ->
  let k := fit cap 0 (p_pending p) in
  pending_evidence p cap = (firstn k (p_pending p), cum_size 0 (firstn k (p_pending p))) /\
  (forall j, (1 <= j <= k)%nat -> cum_size 0 (firstn j (p_pending p)) <= cap) /\
  ((k < length (p_pending p))%nat -> cap < cum_size 0 (firstn (S k) (p_pending p))).
Proof.
  intros Hc Hb Hs k. split.
  - unfold pending_evidence. apply Z.eqb_neq in Hs. rewrite Hs. unfold list_evidence.
    rewrite (list_loop_cap (p_pending p) cap [] 0 Hc Hb). reflexivity.
  - exact (fit_spec (p_pending p) cap 0).
Qed.

(** when everything fits, everything is returned *)
Lemma fit_all : forall l cap s,
  (forall j, (1 <= j <= length l)%nat -> cum_size s (firstn j l) <= cap) -> fit cap s l = length l.
Proof.
  induction l as [|e t IH]; intros cap s H; cbn [fit length]; [reflexivity|].
  pose proof (H 1%nat ltac:(cbn [length]; lia)) as H1. cbn [firstn cum_size] in H1.
  destruct (Z.ltb_spec cap (next_size s e)); [lia|]. f_equal. apply IH.
  intros j Hj. specialize (H (S j) ltac:(cbn [length]; lia)). rewrite firstn_S_cum in H. exact H.
Qed.

Lemma pending_evidence_all_fit p cap :
  cap <> -1 -> forallb validate_basic (p_pending p) = true -> p_size p <> 0 ->
  (forall j, (1 <= j <= length (p_pending p))%nat -> cum_size 0 (firstn j (p_pending p)) <= cap) ->
  fst (pending_evidence p cap) = p_pending p.
Proof.
  intros Hc Hb Hs Hall. destruct (pending_evidence_cap p cap Hc Hb Hs) as [He _]. rewrite He. cbn [fst].
  rewrite (fit_all _ _ _ Hall). apply firstn_all.
Qed.
