(** C19 — tie of the model's guards and arithmetic to the Go SOURCE.
    [Generated/C19Source.v] is produced on every check by /verif/go2coq from /repo's working tree:
    the body of types.MaxEvidencePerBlock, the constants MaxEvidenceBytes / MaxEvidenceBytesDenominator and
    every guard / integer expression of Pool.verify, VerifyDuplicateVote, Pool.isExpired, Pool.Update,
    Pool.listEvidence, Pool.removeExpiredPendingEvidence, Pool.CheckEvidence, Pool.PendingEvidence,
    Pool.markEvidenceAsCommitted, Pool.AddEvidence, Pool.AddEvidenceFromConsensus (types/evidence),
    NewDuplicateVoteEvidence,
    DuplicateVoteEvidence.ValidateBasic, Vote.ValidateBasic, IsVoteTypeValid (types), validateBlock, MedianTime
    (kai/state/cstate), WeightedMedian (types/time) and ConsensusState.tryAddVote (consensus), as Gallina
    over [Z] with explicit machine-integer wraps (Base/GoSem.v).

    The lemmas below state that the hand-written model of C19/Model.v IS built from exactly those
    expressions on exactly those operands: wherever possible as an equation of the model's own function
    ([verify_duplicate_vote], [verify], [is_expired], [update], [list_loop], [expire_loop],
    [pending_evidence], [median_loop], [block_evidence] ...) with the same function written over the
    generated guards, so that the ORDER and PLACEMENT of the guards is pinned as well; the [_atoms]
    lemmas pin WHAT is compared.  A Go edit that flips a comparison, changes a constant or an operand,
    or rewrites one of these guards changes the generated file and re-opens these obligations. *)
From Coq Require Import List ZArith NArith Bool Lia String.
From Kardia Require Import Base.Int64 Base.GoSem.
From Kardia Require Import Generated.C19Source.
From Kardia Require Import Generated.C19Facts C19.Model.
Import ListNotations.
Local Open Scope Z_scope.

(* ------------------------------------------------------------------ *)
(** * small conversions *)

Lemma N2Z_eqb a b : Z.eqb (Z.of_N a) (Z.of_N b) = N.eqb a b.
Proof. destruct (N.eqb_spec a b); destruct (Z.eqb_spec (Z.of_N a) (Z.of_N b)); try reflexivity; lia. Qed.

Lemma neqb_N a b : go_neqb (Z.of_N a) (Z.of_N b) = negb (N.eqb a b).
Proof. unfold go_neqb. now rewrite N2Z_eqb. Qed.

(** the integer [strings.Compare] returns *)
Definition cmp_z (c : comparison) : Z := match c with Lt => -1 | Eq => 0 | Gt => 1 end.

(** uint32(idx) is idx for every index of a validator set that fits (MaxVotesCount is far below) *)
Lemma conv_u32 idx : Z.of_N idx < 4294967296 -> go_conv U32 (Z.of_N idx) = Z.of_N idx.
Proof. intros H. unfold go_conv. apply wrap_id. unfold in_range. lia. Qed.

Lemma find_idx_bound a : forall vs i j v, find_idx a vs i = Some (j, v) -> (j < i + N.of_nat (List.length vs))%N.
Proof.
  induction vs as [|x t IH]; intros i j v H; cbn [find_idx] in H; [discriminate|].
  destruct (N.eqb (val_addr x) a).
  - inversion H; subst. cbn [List.length]. lia.
  - apply IH in H. cbn [List.length]. lia.
Qed.

(* ------------------------------------------------------------------ *)
(** * constants and MaxEvidencePerBlock (types/evidence.go) *)

Lemma src_consts :
  types__MaxEvidenceBytes = max_evidence_bytes /\ types__MaxEvidenceBytesDenominator = max_evidence_bytes_denominator.
Proof. split; reflexivity. Qed.

(** the function, for every int64 argument: (bytes/10/484, bytes/10), truncated division *)
Lemma src_max_evidence_per_block b :
  in_range I64 b ->
  types__MaxEvidencePerBlock b =
  (Z.quot (Z.quot b max_evidence_bytes_denominator) max_evidence_bytes, Z.quot b max_evidence_bytes_denominator).
Proof.
  intros Hb. unfold types__MaxEvidencePerBlock, max_evidence_bytes_denominator, max_evidence_bytes.
  unfold in_range in Hb.
  assert (H1 : in_range I64 (Z.quot b 10)).
  { unfold in_range. pose proof (Z.quot_lt_upper_bound b 10). pose proof (Z.quot_le_lower_bound b 10).
    assert (-9223372036854775808 <= Z.quot b 10 <= 9223372036854775807).
    { destruct (Z_le_gt_dec 0 b).
      - pose proof (Z.quot_pos b 10 ltac:(lia) ltac:(lia)).
        pose proof (Z.quot_le_upper_bound b 10 9223372036854775807 ltac:(lia) ltac:(lia)). lia.
      - assert (Hq : Z.quot b 10 = - Z.quot (- b) 10) by (rewrite Z.quot_opp_l by lia; lia).
        pose proof (Z.quot_pos (- b) 10 ltac:(lia) ltac:(lia)).
        pose proof (Z.quot_le_upper_bound (- b) 10 9223372036854775808 ltac:(lia) ltac:(lia)). lia. }
    lia. }
  assert (H2 : in_range I64 (Z.quot (Z.quot b 10) 484)).
  { unfold in_range in *. set (q := Z.quot b 10) in *.
    destruct (Z_le_gt_dec 0 q).
    - pose proof (Z.quot_pos q 484 ltac:(lia) ltac:(lia)).
      pose proof (Z.quot_le_upper_bound q 484 9223372036854775807 ltac:(lia) ltac:(lia)). lia.
    - assert (Hq : Z.quot q 484 = - Z.quot (- q) 484) by (rewrite Z.quot_opp_l by lia; lia).
      pose proof (Z.quot_pos (- q) 484 ltac:(lia) ltac:(lia)).
      pose proof (Z.quot_le_upper_bound (- q) 484 9223372036854775808 ltac:(lia) ltac:(lia)). lia. }
  unfold go_quot. rewrite (wrap_id I64 (Z.quot b 10)) by exact H1.
  rewrite (wrap_id I64 _) by exact H2. reflexivity.
Qed.

(** the numbers the facts translator printed from a run of the Go function are what the translated
    function computes on the default parameters: the count limit of validateBlock and the byte cap
    CreateProposalBlock hands to PendingEvidence *)
Lemma src_default_caps :
  types__MaxEvidencePerBlock default_evidence_max_bytes = (default_proposal_evidence_count, default_proposal_pending_cap).
Proof. vm_compute. reflexivity. Qed.

(** validateBlock's limit: "too much evidence" is [numEvidence > maxNumEvidence] *)
Lemma src_block_count_guard n mx :
  kai_state_cstate__validateBlock__if_numEvidence_gt_maxNumEvidence n mx = Z.ltb mx n.
Proof. unfold kai_state_cstate__validateBlock__if_numEvidence_gt_maxNumEvidence. now rewrite Z.gtb_ltb. Qed.
Lemma src_block_count_guard_atoms :
  kai_state_cstate__validateBlock__if_numEvidence_gt_maxNumEvidence_atoms = ["numEvidence : int64"; "maxNumEvidence : int64"]%string.
Proof. reflexivity. Qed.

(** the model's validateBlock (evidence part) with the source's limit test in its place *)
Lemma src_block_evidence p c mx evs :
  block_evidence p c mx evs =
  if negb (forallb validate_basic evs) then (p, RBasic)
  else if kai_state_cstate__validateBlock__if_numEvidence_gt_maxNumEvidence (Z.of_nat (List.length evs)) mx then (p, ROverflow)
  else check_evidence p c evs.
Proof. unfold block_evidence. now rewrite src_block_count_guard. Qed.

(* ------------------------------------------------------------------ *)
(** * VerifyDuplicateVote (types/evidence/verify.go) *)

Definition src_index_guard := types_evidence__VerifyDuplicateVote__if_e_VoteA_ValidatorIndex_ne_uint32_idx_or_e_VoteB_ValidatorInd_6979641e.
Definition src_hrs_guard := types_evidence__VerifyDuplicateVote__if_e_VoteA_Height_ne_e_VoteB_Height_or_e_VoteA_Round_ne_e_VoteB_94a279ba.
Definition src_addr_guard := types_evidence__VerifyDuplicateVote__if_not_bytes_Equal_e_VoteA_ValidatorAddress_Bytes_e_VoteB_Valid_d37704cb.
Definition src_sameid_guard := types_evidence__VerifyDuplicateVote__if_e_VoteA_BlockID_Equal_e_VoteB_BlockID.
Definition src_power_guard := types_evidence__VerifyDuplicateVote__if_val_VotingPower_ne_e_ValidatorPower.
Definition src_total_guard := types_evidence__VerifyDuplicateVote__if_valSet_TotalVotingPower_ne_e_TotalVotingPower.
Definition src_siga_guard := types_evidence__VerifyDuplicateVote__if_not_types_VerifySignature_val_Address_crypto_Keccak256_types_b38e27e6.
Definition src_sigb_guard := types_evidence__VerifyDuplicateVote__if_not_types_VerifySignature_val_Address_crypto_Keccak256_types_3ee76410.

Lemma src_vdv_atoms :
  types_evidence__VerifyDuplicateVote__if_e_VoteA_ValidatorIndex_ne_uint32_idx_or_e_VoteB_ValidatorInd_6979641e_atoms
    = ["e.VoteA.ValidatorIndex : uint32"; "idx : int"; "e.VoteB.ValidatorIndex : uint32"]%string
  /\ types_evidence__VerifyDuplicateVote__if_e_VoteA_Height_ne_e_VoteB_Height_or_e_VoteA_Round_ne_e_VoteB_94a279ba_atoms
    = ["e.VoteA.Height : uint64"; "e.VoteB.Height : uint64"; "e.VoteA.Round : uint32"; "e.VoteB.Round : uint32";
       "e.VoteA.Type : github.com/kardiachain/go-kardia/proto/kardiachain/types.SignedMsgType";
       "e.VoteB.Type : github.com/kardiachain/go-kardia/proto/kardiachain/types.SignedMsgType"]%string
  /\ types_evidence__VerifyDuplicateVote__if_not_bytes_Equal_e_VoteA_ValidatorAddress_Bytes_e_VoteB_Valid_d37704cb_atoms
    = ["bytes.Equal(e.VoteA.ValidatorAddress.Bytes(), e.VoteB.ValidatorAddress.Bytes()) : bool"]%string
  /\ types_evidence__VerifyDuplicateVote__if_val_VotingPower_ne_e_ValidatorPower_atoms
    = ["val.VotingPower : int64"; "e.ValidatorPower : int64"]%string
  /\ types_evidence__VerifyDuplicateVote__if_valSet_TotalVotingPower_ne_e_TotalVotingPower_atoms
    = ["valSet.TotalVotingPower() : int64"; "e.TotalVotingPower : int64"]%string
  /\ types_evidence__VerifyDuplicateVote__if_not_types_VerifySignature_val_Address_crypto_Keccak256_types_b38e27e6_atoms
    = ["types.VerifySignature(val.Address, crypto.Keccak256(types.VoteSignBytes(chainID, va)), e.VoteA.Signature) : bool"]%string
  /\ types_evidence__VerifyDuplicateVote__if_not_types_VerifySignature_val_Address_crypto_Keccak256_types_3ee76410_atoms
    = ["types.VerifySignature(val.Address, crypto.Keccak256(types.VoteSignBytes(chainID, vb)), e.VoteB.Signature) : bool"]%string.
Proof. repeat split; reflexivity. Qed.

(** VerifyDuplicateVote written over the generated guards, in the source's order *)
Definition verify_duplicate_vote_src (e : evidence) (chain : N) (vs : list validator) : verr :=
  let a := e_a e in let b := e_b e in
  match find_idx (v_addr a) vs 0 with
  | None => VNotVal
  | Some (idx, val) =>
    if src_index_guard (Z.of_N (v_idx a)) (Z.of_N idx) (Z.of_N (v_idx b)) then VIndex
    else if src_hrs_guard (Z.of_N (v_height a)) (Z.of_N (v_height b)) (Z.of_N (v_round a)) (Z.of_N (v_round b))
                          (Z.of_N (v_type a)) (Z.of_N (v_type b)) then VHRS
    else if src_addr_guard (N.eqb (v_addr a) (v_addr b)) then VAddr
    else if src_sameid_guard (bid_eqb (v_bid a) (v_bid b)) then VSameId
    else if src_power_guard (val_power val) (e_power e) then VPower
    else if src_total_guard (total_power vs) (e_total e) then VTotal
    else if src_siga_guard (vote_sig_valid chain (val_addr val) a) then VSigA
    else if src_sigb_guard (vote_sig_valid chain (val_addr val) b) then VSigB
    else VOk
  end.

Lemma src_verify_duplicate_vote e chain vs :
  (N.of_nat (List.length vs) < 4294967296)%N ->
  verify_duplicate_vote e chain vs = verify_duplicate_vote_src e chain vs.
Proof.
  intros Hlen. unfold verify_duplicate_vote, verify_duplicate_vote_src.
  destruct (find_idx (v_addr (e_a e)) vs 0) as [[idx val]|] eqn:Hf; [|reflexivity].
  apply find_idx_bound in Hf.
  assert (Hi : Z.of_N idx < 4294967296) by lia.
  unfold src_index_guard, src_hrs_guard, src_addr_guard, src_sameid_guard,
    types_evidence__VerifyDuplicateVote__if_e_VoteA_BlockID_Equal_e_VoteB_BlockID, src_power_guard, src_total_guard, src_siga_guard, src_sigb_guard,
    types_evidence__VerifyDuplicateVote__if_e_VoteA_ValidatorIndex_ne_uint32_idx_or_e_VoteB_ValidatorInd_6979641e,
    types_evidence__VerifyDuplicateVote__if_e_VoteA_Height_ne_e_VoteB_Height_or_e_VoteA_Round_ne_e_VoteB_94a279ba,
    types_evidence__VerifyDuplicateVote__if_not_bytes_Equal_e_VoteA_ValidatorAddress_Bytes_e_VoteB_Valid_d37704cb,
    types_evidence__VerifyDuplicateVote__if_val_VotingPower_ne_e_ValidatorPower,
    types_evidence__VerifyDuplicateVote__if_valSet_TotalVotingPower_ne_e_TotalVotingPower,
    types_evidence__VerifyDuplicateVote__if_not_types_VerifySignature_val_Address_crypto_Keccak256_types_b38e27e6,
    types_evidence__VerifyDuplicateVote__if_not_types_VerifySignature_val_Address_crypto_Keccak256_types_3ee76410.
  rewrite (conv_u32 idx Hi), !neqb_N.
  rewrite <- !negb_andb.
  unfold go_neqb. reflexivity.
Qed.

(* ------------------------------------------------------------------ *)
(** * Pool.verify and Pool.isExpired *)

Definition src_verify_expiry_guard := types_evidence__Pool_verify__if_ageDuration_gt_evidenceParams_MaxAgeDuration_and_ageNumBlock_d6138d0b.
Definition src_is_expired_ret := types_evidence__Pool_isExpired__ret_ageNumBlocks_gt_uint64_params_MaxAgeNumBlocks_and_ageDuratio_f33c0c52.

Lemma src_expiry_atoms :
  types_evidence__Pool_verify__if_ageDuration_gt_evidenceParams_MaxAgeDuration_and_ageNumBlock_d6138d0b_atoms
    = ["ageDuration : time.Duration"; "evidenceParams.MaxAgeDuration : time.Duration"; "ageNumBlocks : int64"; "evidenceParams.MaxAgeNumBlocks : int64"]%string
  /\ types_evidence__Pool_isExpired__ret_ageNumBlocks_gt_uint64_params_MaxAgeNumBlocks_and_ageDuratio_f33c0c52_atoms
    = ["ageNumBlocks : uint64"; "params.MaxAgeNumBlocks : int64"; "ageDuration : time.Duration"; "params.MaxAgeDuration : time.Duration"]%string.
Proof. split; reflexivity. Qed.

(** Pool.verify with the source's expiry test (both ages strictly above their limits) and the
    source's VerifyDuplicateVote *)
Definition verify_src (p : pool) (c : chain) (e : evidence) : verr :=
  let st := p_state p in
  let height := wrap64 (st_height st) in
  let age_blocks := wrap64 (height - wrap64 (e_height e)) in
  match block_time c (e_height e) with
  | None => VNoHeader
  | Some evt =>
    if types_evidence__Pool_verify__if_evidence_Time_ne_evTime (negb (Z.eqb (e_time e) evt)) then VTime
    else
      let age_dur := types_evidence__Pool_verify__let_ageDuration (sat_sub (st_time st) evt) in
      if src_verify_expiry_guard age_dur (max_age_dur (st_params st)) age_blocks (max_age_blocks (st_params st))
      then VExpired
      else match vals_at c (e_height e) with
           | None => VNoVals
           | Some vs => verify_duplicate_vote_src e (st_chain st) vs
           end
  end.

Definition small_sets (c : chain) : Prop :=
  forall h vs, vals_at c h = Some vs -> (N.of_nat (List.length vs) < 4294967296)%N.

Lemma src_verify p c e : small_sets c -> verify p c e = verify_src p c e.
Proof.
  intros Hs. unfold verify, verify_src.
  destruct (block_time c (e_height e)) as [evt|]; [|reflexivity].
  unfold types_evidence__Pool_verify__if_evidence_Time_ne_evTime, types_evidence__Pool_verify__let_ageDuration.
  destruct (negb (e_time e =? evt)); [reflexivity|].
  unfold src_verify_expiry_guard, types_evidence__Pool_verify__if_ageDuration_gt_evidenceParams_MaxAgeDuration_and_ageNumBlock_d6138d0b.
  rewrite !Z.gtb_ltb.
  destruct (_ && _); [reflexivity|].
  destruct (vals_at c (e_height e)) as [vs|] eqn:Hv; [|reflexivity].
  apply src_verify_duplicate_vote. exact (Hs _ _ Hv).
Qed.

(** isExpired: uint64 age in blocks against uint64(MaxAgeNumBlocks), saturating duration against MaxAgeDuration *)
Lemma src_is_expired st h t :
  is_expired st h t =
  src_is_expired_ret (wrapu64 (st_height st - h)) (max_age_blocks (st_params st))
                     (sat_sub (st_time st) t) (max_age_dur (st_params st)).
Proof.
  unfold is_expired, src_is_expired_ret,
    types_evidence__Pool_isExpired__ret_ageNumBlocks_gt_uint64_params_MaxAgeNumBlocks_and_ageDuratio_f33c0c52.
  rewrite !Z.gtb_ltb. reflexivity.
Qed.

(* ------------------------------------------------------------------ *)
(** * Pool.Update, removeExpiredPendingEvidence, listEvidence, PendingEvidence, CheckEvidence *)

Definition src_update_sanity := types_evidence__Pool_Update__if_state_LastBlockHeight_le_evpool_state_LastBlockHeight.
Definition src_update_prune := types_evidence__Pool_Update__if_evpool_Size_gt_0_and_state_LastBlockHeight_gt_evpool_pruning_f0e9bc5b.

Lemma src_update_atoms :
  types_evidence__Pool_Update__if_state_LastBlockHeight_le_evpool_state_LastBlockHeight_atoms
    = ["state.LastBlockHeight : uint64"; "evpool.state.LastBlockHeight : uint64"]%string
  /\ types_evidence__Pool_Update__if_evpool_Size_gt_0_and_state_LastBlockHeight_gt_evpool_pruning_f0e9bc5b_atoms
    = ["evpool.Size() : uint32"; "state.LastBlockHeight : uint64"; "evpool.pruningHeight : uint64"; "state.LastBlockTime.After(evpool.pruningTime) : bool"]%string.
Proof. split; reflexivity. Qed.

Lemma src_update p st evs :
  update p st evs =
  if src_update_sanity (st_height st) (st_height (p_state p)) then (p, RPanic)
  else
    let p1 := mark_committed (set_state p st) evs in
    if src_update_prune (p_size p1) (st_height st) (p_prune_h p1) (Z.ltb (p_prune_t p1) (st_time st))
    then let '(p2, h, t) := remove_expired p1 in (set_prune p2 h t, ROk)
    else (p1, ROk).
Proof.
  unfold update, src_update_sanity, src_update_prune,
    types_evidence__Pool_Update__if_state_LastBlockHeight_le_evpool_state_LastBlockHeight,
    types_evidence__Pool_Update__if_evpool_Size_gt_0_and_state_LastBlockHeight_gt_evpool_pruning_f0e9bc5b.
  rewrite !Z.gtb_ltb. reflexivity.
Qed.

(** the next pruning height: ev.Height() + uint64(MaxAgeNumBlocks) + 1 in uint64 *)
Lemma src_prune_height h mab :
  types_evidence__Pool_removeExpiredPendingEvidence__ret_ev_Height_plus_uint64_maxAgeNumBlocks_plus_1 h mab
  = wrapu64 (h + wrapu64 mab + 1).
Proof.
  unfold types_evidence__Pool_removeExpiredPendingEvidence__ret_ev_Height_plus_uint64_maxAgeNumBlocks_plus_1,
    go_add, go_conv, wrap, wrapu64, two64.
  rewrite Zplus_mod_idemp_l. reflexivity.
Qed.
Lemma src_prune_atoms :
  types_evidence__Pool_removeExpiredPendingEvidence__ret_ev_Height_plus_uint64_maxAgeNumBlocks_plus_1_atoms
    = ["ev.Height() : uint64"; "maxAgeNumBlocks : int64"]%string
  /\ types_evidence__Pool_removeExpiredPendingEvidence__if_not_evpool_isExpired_ev_Height_ev_Time_atoms
    = ["evpool.isExpired(ev.Height(), ev.Time()) : bool"]%string.
Proof. split; reflexivity. Qed.

(** one step of removeExpiredPendingEvidence on a decodable entry: stop at the first entry that is NOT
    expired and return the source's next pruning height *)
Lemma src_expire_step p e t removed :
  validate_basic e = true ->
  expire_loop p (e :: t) removed =
  if types_evidence__Pool_removeExpiredPendingEvidence__if_not_evpool_isExpired_ev_Height_ev_Time
       (is_expired (p_state p) (e_height e) (e_time e))
  then
    let p1 := match removed with [] => p | _ => remove_from_list p removed end in
    (p1, types_evidence__Pool_removeExpiredPendingEvidence__ret_ev_Height_plus_uint64_maxAgeNumBlocks_plus_1
           (e_height e) (max_age_blocks (st_params (p_state p))),
     e_time e + max_age_dur (st_params (p_state p)) + one_second)
  else expire_loop (remove_pending p e) t (e_hash e :: removed).
Proof.
  intros Hb. cbn [expire_loop]. rewrite Hb. cbn [negb].
  unfold types_evidence__Pool_removeExpiredPendingEvidence__if_not_evpool_isExpired_ev_Height_ev_Time.
  rewrite src_prune_height. reflexivity.
Qed.

(** listEvidence's byte cap: stop when a cap is given and the running size EXCEEDS it *)
Lemma src_list_cap_atoms :
  types_evidence__Pool_listEvidence__if_maxBytes_ne_minus_1_and_evSize_gt_maxBytes_atoms = ["maxBytes : int64"; "evSize : int64"]%string.
Proof. reflexivity. Qed.
Lemma src_list_step e t maxbytes acc evsize total :
  list_loop (e :: t) maxbytes acc evsize total =
  let evsize' := types_evidence__Pool_listEvidence__let_evSize (evsize + 1 + e_size e + sov (e_size e)) in
  if types_evidence__Pool_listEvidence__if_maxBytes_ne_minus_1_and_evSize_gt_maxBytes maxbytes evsize' then (rev acc, total, true)
  else if negb (validate_basic e) then ([], total, false)
  else list_loop t maxbytes (e :: acc) evsize' evsize'.
Proof.
  cbn [list_loop]. unfold types_evidence__Pool_listEvidence__let_evSize, go_conv.
  change (wrap I64 (evsize + 1 + e_size e + sov (e_size e))) with (wrap64 (evsize + 1 + e_size e + sov (e_size e))).
  unfold types_evidence__Pool_listEvidence__if_maxBytes_ne_minus_1_and_evSize_gt_maxBytes, go_neqb.
  rewrite Z.gtb_ltb. reflexivity.
Qed.

Lemma src_pending_evidence p maxbytes :
  pending_evidence p maxbytes =
  if types_evidence__Pool_PendingEvidence__if_evpool_Size_eq_0 (p_size p) then ([], 0)
  else let '(l, sz, _) := list_evidence p maxbytes in (l, sz).
Proof. reflexivity. Qed.
Lemma src_pending_atoms :
  types_evidence__Pool_PendingEvidence__if_evpool_Size_eq_0_atoms = ["evpool.Size() : uint32"]%string.
Proof. reflexivity. Qed.

(** CheckEvidence: the fast path applies to pending evidence and tests its expiry; the duplicate scan
    runs over every earlier position idx-1, ..., 0 (the model's [existsb] over the hashes seen) *)
Lemma src_check_fast ok ex :
  types_evidence__Pool_CheckEvidence__if_ok_and_evpool_isExpired_ev_Height_ev_Time ok ex = (ok && ex)%bool
  /\ types_evidence__Pool_CheckEvidence__if_not_ok ok = negb ok.
Proof. split; reflexivity. Qed.
Lemma src_check_atoms :
  types_evidence__Pool_CheckEvidence__if_ok_and_evpool_isExpired_ev_Height_ev_Time_atoms
    = ["ok : bool"; "evpool.isExpired(ev.Height(), ev.Time()) : bool"]%string
  /\ types_evidence__Pool_CheckEvidence__if_not_ok_atoms = ["ok : bool"]%string
  /\ types_evidence__Pool_CheckEvidence__for_i_ge_0_atoms = ["i : int"]%string
  /\ types_evidence__Pool_CheckEvidence__set_i_atoms = ["idx : int"]%string.
Proof. repeat split; reflexivity. Qed.
Lemma src_check_scan idx i :
  0 <= idx <= 4611686018427387904 ->
  (0 <= i < idx <->
   i <= types_evidence__Pool_CheckEvidence__set_i idx /\ types_evidence__Pool_CheckEvidence__for_i_ge_0 i = true).
Proof.
  intros H. unfold types_evidence__Pool_CheckEvidence__set_i, types_evidence__Pool_CheckEvidence__for_i_ge_0, go_sub.
  rewrite (wrap_id I64 (idx - 1)) by (unfold in_range; lia).
  rewrite Z.geb_leb, Z.leb_le. lia.
Qed.

(** the step of the model's CheckEvidence loop on a pending entry, with the source's fast-path test *)
Lemma src_check_step_pending p c seen e t :
  is_pending p e = true ->
  check_loop p c seen (e :: t) =
  if types_evidence__Pool_CheckEvidence__if_ok_and_evpool_isExpired_ev_Height_ev_Time
       (is_pending p e) (is_expired (p_state p) (e_height e) (e_time e))
  then (p, RInvalid VExpired)
  else if existsb (N.eqb (e_hash e)) seen then (p, RDuplicate)
  else check_loop p c (e_hash e :: seen) t.
Proof.
  intros Hp. cbn [check_loop]. rewrite Hp.
  unfold types_evidence__Pool_CheckEvidence__if_ok_and_evpool_isExpired_ev_Height_ev_Time. cbn [andb].
  destruct (is_expired _ _ _); reflexivity.
Qed.

(** one step of CheckEvidence in the source's shape: fastCheck; the expiry test on the fast path; only when
    not pending: committed?, verify, add to pending; then the duplicate scan *)
Definition check_step_src (p : pool) (c : chain) (e : evidence) : pool * option result :=
  let ok := types_evidence__Pool_CheckEvidence__let_ok (is_pending p e) in
  if types_evidence__Pool_CheckEvidence__if_ok_and_evpool_isExpired_ev_Height_ev_Time
       ok (is_expired (p_state p) (e_height e) (e_time e))
  then (p, Some (RInvalid VExpired))
  else if types_evidence__Pool_CheckEvidence__if_not_ok ok then
         if types_evidence__Pool_CheckEvidence__if_evpool_isCommitted_ev (is_committed p e) then (p, Some RCommitted)
         else match verify p c e with
              | VOk => (add_pending p e, None)
              | err => (p, Some (RInvalid err))
              end
       else (p, None).

Lemma src_check_step p c seen e t :
  check_loop p c seen (e :: t) =
  match check_step_src p c e with
  | (p1, Some r) => (p1, r)
  | (p1, None) =>
    if existsb (types_evidence__Pool_CheckEvidence__if_hashes_at_i__Equal_hashes_at_idx) (map (N.eqb (e_hash e)) seen)
    then (p1, RDuplicate)
    else check_loop p1 c (e_hash e :: seen) t
  end.
Proof.
  cbn [check_loop]. unfold check_step_src, types_evidence__Pool_CheckEvidence__let_ok,
    types_evidence__Pool_CheckEvidence__if_ok_and_evpool_isExpired_ev_Height_ev_Time,
    types_evidence__Pool_CheckEvidence__if_not_ok, types_evidence__Pool_CheckEvidence__if_evpool_isCommitted_ev.
  assert (Hex : forall l, existsb types_evidence__Pool_CheckEvidence__if_hashes_at_i__Equal_hashes_at_idx (map (N.eqb (e_hash e)) l)
                          = existsb (N.eqb (e_hash e)) l).
  { induction l as [|x l IH]; cbn [map existsb]; [reflexivity|]. rewrite IH. reflexivity. }
  rewrite Hex.
  destruct (is_pending p e); cbn [andb negb].
  - destruct (is_expired (p_state p) (e_height e) (e_time e)); reflexivity.
  - destruct (is_committed p e); [reflexivity|]. destruct (verify p c e); reflexivity.
Qed.

(** AddEvidence / AddEvidenceFromConsensus: pending? committed? verify -- in this order *)
Lemma src_add_evidence p c e :
  add_evidence p c e =
  if types_evidence__Pool_AddEvidence__if_evpool_isPending_ev (is_pending p e) then (p, ROk)
  else if types_evidence__Pool_AddEvidence__if_evpool_isCommitted_ev (is_committed p e) then (p, ROk)
  else match verify p c e with
       | VOk => (push_list (add_pending p e) e, ROk)
       | err => (p, RInvalid err)
       end.
Proof. reflexivity. Qed.
Lemma src_add_from_consensus p e :
  add_from_consensus p e =
  if types_evidence__Pool_AddEvidenceFromConsensus__if_evpool_isPending_ev (is_pending p e) then (p, ROk)
  else (push_list (add_pending p e) e, ROk).
Proof. reflexivity. Qed.

(** markEvidenceAsCommitted removes from the pending family (and the counter) only what is pending *)
Lemma src_mark_step p e t removed :
  mark_loop p (e :: t) removed =
  let '(p1, removed1) :=
    if types_evidence__Pool_markEvidenceAsCommitted__if_evpool_isPending_ev (is_pending p e)
    then (remove_pending p e, e_hash e :: removed) else (p, removed) in
  mark_loop (set_committed p1 (put_key (ekey e) (p_committed p1))) t removed1.
Proof. reflexivity. Qed.

(* ------------------------------------------------------------------ *)
(** * ValidateBasic and NewDuplicateVoteEvidence (types/evidence.go, types/vote.go) *)

(** "invalid order" is [strings.Compare(keyA, keyB) >= 0]; NewDuplicateVoteEvidence puts vote1 first
    iff the comparison is [-1] *)
Lemma src_order_basic a b :
  key_lt a b =
  negb (types__DuplicateVoteEvidence_ValidateBasic__if_strings_Compare_dve_VoteA_BlockID_Key_dve_VoteB_BlockID_Key_ge_0
          (cmp_z (key_cmp a b))).
Proof.
  unfold key_lt, types__DuplicateVoteEvidence_ValidateBasic__if_strings_Compare_dve_VoteA_BlockID_Key_dve_VoteB_BlockID_Key_ge_0.
  destruct (key_cmp a b); reflexivity.
Qed.
Lemma src_order_new a b :
  key_lt a b =
  types__NewDuplicateVoteEvidence__if_strings_Compare_vote1_BlockID_Key_vote2_BlockID_Key_eq_minus_1 (cmp_z (key_cmp a b)).
Proof.
  unfold key_lt, types__NewDuplicateVoteEvidence__if_strings_Compare_vote1_BlockID_Key_vote2_BlockID_Key_eq_minus_1.
  destruct (key_cmp a b); reflexivity.
Qed.
Lemma src_order_atoms :
  types__DuplicateVoteEvidence_ValidateBasic__if_strings_Compare_dve_VoteA_BlockID_Key_dve_VoteB_BlockID_Key_ge_0_atoms
    = ["strings.Compare(dve.VoteA.BlockID.Key(), dve.VoteB.BlockID.Key()) : int"]%string
  /\ types__NewDuplicateVoteEvidence__if_strings_Compare_vote1_BlockID_Key_vote2_BlockID_Key_eq_minus_1_atoms
    = ["strings.Compare(vote1.BlockID.Key(), vote2.BlockID.Key()) : int"]%string
  /\ types__NewDuplicateVoteEvidence__if_idx_eq_minus_1_atoms = ["idx : int"]%string
  /\ (forall i, types__NewDuplicateVoteEvidence__if_idx_eq_minus_1 i = Z.eqb i (-1)).
Proof. repeat split; reflexivity. Qed.

(** Vote.ValidateBasic: valid type, block id zero or complete, signature present *)
Definition src_type_valid (t : N) : bool :=
  (types__IsVoteTypeValid__case_t_eq_kproto_PrevoteType (Z.of_N t) || types__IsVoteTypeValid__case_t_eq_kproto_PrecommitType (Z.of_N t))%bool.
Lemma src_type_valid_eq t : src_type_valid t = (N.eqb t 1 || N.eqb t 2)%bool.
Proof.
  unfold src_type_valid, types__IsVoteTypeValid__case_t_eq_kproto_PrevoteType, types__IsVoteTypeValid__case_t_eq_kproto_PrecommitType.
  change 1 with (Z.of_N 1). change 2 with (Z.of_N 2). now rewrite !N2Z_eqb.
Qed.

Lemma src_vote_basic v :
  vote_basic v =
  (negb (types__Vote_ValidateBasic__if_not_IsVoteTypeValid_vote_Type (src_type_valid (v_type v)))
   && negb (types__Vote_ValidateBasic__if_not_vote_BlockID_IsZero_and_not_vote_BlockID_IsComplete
              (bid_is_zero (v_bid v)) (bid_is_complete (v_bid v)))
   && negb (types__Vote_ValidateBasic__if_len_vote_Signature_eq_0 (if s_empty (v_sig v) then 0 else 65)))%bool.
Proof.
  rewrite src_type_valid_eq.
  unfold vote_basic, types__Vote_ValidateBasic__if_not_IsVoteTypeValid_vote_Type,
    types__Vote_ValidateBasic__if_not_vote_BlockID_IsZero_and_not_vote_BlockID_IsComplete,
    types__Vote_ValidateBasic__if_len_vote_Signature_eq_0.
  rewrite negb_involutive, negb_andb, !negb_involutive.
  destruct (s_empty (v_sig v)); reflexivity.
Qed.
Lemma src_vote_basic_atoms :
  types__Vote_ValidateBasic__if_not_IsVoteTypeValid_vote_Type_atoms = ["IsVoteTypeValid(vote.Type) : bool"]%string
  /\ types__Vote_ValidateBasic__if_not_vote_BlockID_IsZero_and_not_vote_BlockID_IsComplete_atoms
     = ["vote.BlockID.IsZero() : bool"; "vote.BlockID.IsComplete() : bool"]%string
  /\ types__Vote_ValidateBasic__if_len_vote_Signature_eq_0_atoms = ["len(vote.Signature) : int"]%string.
Proof. repeat split; reflexivity. Qed.

Lemma src_validate_basic e :
  validate_basic e =
  (vote_basic (e_a e) && vote_basic (e_b e)
   && negb (types__DuplicateVoteEvidence_ValidateBasic__if_strings_Compare_dve_VoteA_BlockID_Key_dve_VoteB_BlockID_Key_ge_0
              (cmp_z (key_cmp (v_bid (e_a e)) (v_bid (e_b e))))))%bool.
Proof. unfold validate_basic. now rewrite src_order_basic. Qed.

(* ------------------------------------------------------------------ *)
(** * MedianTime / WeightedMedian and tryAddVote's timestamp choice *)

Lemma src_median_atoms :
  types_time__WeightedMedian__set_median_atoms = ["totalVotingPower : int64"]%string
  /\ types_time__WeightedMedian__if_median_le_weightedTime_Weight_atoms = ["median : int64"; "weightedTime.Weight : int64"]%string
  /\ types_time__WeightedMedian__set_median_op_atoms = ["median : int64"; "weightedTime.Weight : int64"]%string
  /\ types_time__WeightedMedian__ret_weightedTimes_at_i__Time_UnixNano_lt_weightedTimes_at_j__Time_UnixNano_atoms
     = ["weightedTimes[i].Time.UnixNano() : int64"; "weightedTimes[j].Time.UnixNano() : int64"]%string
  /\ kai_state_cstate__MedianTime__set_totalVotingPower_op_atoms = ["totalVotingPower : int64"; "votingPower : int64"]%string.
Proof. repeat split; reflexivity. Qed.

Lemma src_median_loop t w r m :
  median_loop ((t, w) :: r) m =
  if types_time__WeightedMedian__if_median_le_weightedTime_Weight m w then t
  else median_loop r (types_time__WeightedMedian__set_median_op m w).
Proof. reflexivity. Qed.

Lemma src_insert_wt x y t :
  insert_wt x (y :: t) =
  if types_time__WeightedMedian__ret_weightedTimes_at_i__Time_UnixNano_lt_weightedTimes_at_j__Time_UnixNano (fst x) (fst y)
  then x :: y :: t else y :: insert_wt x t.
Proof. reflexivity. Qed.

(** MedianTime: the total is the int64 sum of the powers of the validators found, the starting point
    of the scan is total / 2 (truncated) *)
Lemma src_median_time commit vs :
  median_time commit vs =
  let wts := weighted_times commit vs in
  median_loop wts (types_time__WeightedMedian__set_median
                     (fold_left (fun acc x => kai_state_cstate__MedianTime__set_totalVotingPower_op acc (snd x)) wts 0)).
Proof. reflexivity. Qed.

(** tryAddVote: the genesis time is used iff the votes' height is the initial height *)
Lemma src_try_add_vote_time cs va :
  N.eqb (v_height va) (cs_init_height cs) =
  consensus__ConsensusState_tryAddVote__if_voteErr_VoteA_Height_eq_cs_state_InitialHeight
    (Z.of_N (v_height va)) (Z.of_N (cs_init_height cs)).
Proof.
  unfold consensus__ConsensusState_tryAddVote__if_voteErr_VoteA_Height_eq_cs_state_InitialHeight.
  now rewrite N2Z_eqb.
Qed.
(** tryAddVote's evidence branch in the source's shape: own votes are not reported; genesis time for the
    initial height, else the median of the node's LastCommit over LastValidators; no evidence when
    NewDuplicateVoteEvidence returns nil *)
Lemma src_try_add_vote_gen cs hash size va vb :
  try_add_vote_gen cs hash size va vb =
  if consensus__ConsensusState_tryAddVote__if_vote_ValidatorAddress_Equal_cs_privValidator_GetAddress
       (N.eqb (v_addr vb) (cs_me cs)) then GSelf
  else
    let ts := if consensus__ConsensusState_tryAddVote__if_voteErr_VoteA_Height_eq_cs_state_InitialHeight
                   (Z.of_N (v_height va)) (Z.of_N (cs_init_height cs))
              then cs_last_block_time cs
              else median_time (cs_last_commit cs) (cs_last_vals cs) in
    match new_duplicate_vote_evidence hash size va vb ts (cs_vals cs) with
    | None => GNil
    | Some e => GEvidence e
    end.
Proof.
  unfold try_add_vote_gen, consensus__ConsensusState_tryAddVote__if_vote_ValidatorAddress_Equal_cs_privValidator_GetAddress.
  rewrite <- src_try_add_vote_time. reflexivity.
Qed.
Lemma src_try_add_vote_atoms :
  consensus__ConsensusState_tryAddVote__if_voteErr_VoteA_Height_eq_cs_state_InitialHeight_atoms
  = ["voteErr.VoteA.Height : uint64"; "cs.state.InitialHeight : uint64"]%string.
Proof. reflexivity. Qed.

(* ------------------------------------------------------------------ *)
(** * the whole tie, as one statement (quoted by Properties.v) *)

Definition C19_source_tie_statement : Prop :=
  (* constants and MaxEvidencePerBlock *)
  (types__MaxEvidenceBytes = max_evidence_bytes /\ types__MaxEvidenceBytesDenominator = max_evidence_bytes_denominator)
  /\ (forall b, in_range I64 b ->
        types__MaxEvidencePerBlock b =
        (Z.quot (Z.quot b max_evidence_bytes_denominator) max_evidence_bytes, Z.quot b max_evidence_bytes_denominator))
  /\ types__MaxEvidencePerBlock default_evidence_max_bytes = (default_proposal_evidence_count, default_proposal_pending_cap)
  (* validateBlock's evidence part *)
  /\ (forall p c mx evs,
        block_evidence p c mx evs =
        if negb (forallb validate_basic evs) then (p, RBasic)
        else if kai_state_cstate__validateBlock__if_numEvidence_gt_maxNumEvidence (Z.of_nat (List.length evs)) mx then (p, ROverflow)
        else check_evidence p c evs)
  (* Pool.verify = expiry guard + VerifyDuplicateVote, all guards from the source, in the source's order *)
  /\ (forall e chain vs, (N.of_nat (List.length vs) < 4294967296)%N ->
        verify_duplicate_vote e chain vs = verify_duplicate_vote_src e chain vs)
  /\ (forall p c e, small_sets c -> verify p c e = verify_src p c e)
  /\ (forall st h t,
        is_expired st h t =
        src_is_expired_ret (wrapu64 (st_height st - h)) (max_age_blocks (st_params st))
                           (sat_sub (st_time st) t) (max_age_dur (st_params st)))
  (* Update, pruning, listing *)
  /\ (forall p st evs,
        update p st evs =
        if src_update_sanity (st_height st) (st_height (p_state p)) then (p, RPanic)
        else
          let p1 := mark_committed (set_state p st) evs in
          if src_update_prune (p_size p1) (st_height st) (p_prune_h p1) (Z.ltb (p_prune_t p1) (st_time st))
          then let '(p2, h, t) := remove_expired p1 in (set_prune p2 h t, ROk)
          else (p1, ROk))
  /\ (forall p e t removed, validate_basic e = true ->
        expire_loop p (e :: t) removed =
        if types_evidence__Pool_removeExpiredPendingEvidence__if_not_evpool_isExpired_ev_Height_ev_Time
             (is_expired (p_state p) (e_height e) (e_time e))
        then
          let p1 := match removed with [] => p | _ => remove_from_list p removed end in
          (p1, types_evidence__Pool_removeExpiredPendingEvidence__ret_ev_Height_plus_uint64_maxAgeNumBlocks_plus_1
                 (e_height e) (max_age_blocks (st_params (p_state p))),
           e_time e + max_age_dur (st_params (p_state p)) + one_second)
        else expire_loop (remove_pending p e) t (e_hash e :: removed))
  /\ (forall e t maxbytes acc evsize total,
        list_loop (e :: t) maxbytes acc evsize total =
        let evsize' := types_evidence__Pool_listEvidence__let_evSize (evsize + 1 + e_size e + sov (e_size e)) in
        if types_evidence__Pool_listEvidence__if_maxBytes_ne_minus_1_and_evSize_gt_maxBytes maxbytes evsize' then (rev acc, total, true)
        else if negb (validate_basic e) then ([], total, false)
        else list_loop t maxbytes (e :: acc) evsize' evsize')
  /\ (forall p maxbytes,
        pending_evidence p maxbytes =
        if types_evidence__Pool_PendingEvidence__if_evpool_Size_eq_0 (p_size p) then ([], 0)
        else let '(l, sz, _) := list_evidence p maxbytes in (l, sz))
  (* CheckEvidence *)
  /\ (forall p c seen e t, is_pending p e = true ->
        check_loop p c seen (e :: t) =
        if types_evidence__Pool_CheckEvidence__if_ok_and_evpool_isExpired_ev_Height_ev_Time
             (is_pending p e) (is_expired (p_state p) (e_height e) (e_time e))
        then (p, RInvalid VExpired)
        else if existsb (N.eqb (e_hash e)) seen then (p, RDuplicate)
        else check_loop p c (e_hash e :: seen) t)
  /\ (forall idx i, 0 <= idx <= 4611686018427387904 ->
        (0 <= i < idx <->
         i <= types_evidence__Pool_CheckEvidence__set_i idx /\ types_evidence__Pool_CheckEvidence__for_i_ge_0 i = true))
  /\ (forall p c seen e t,
        check_loop p c seen (e :: t) =
        match check_step_src p c e with
        | (p1, Some r) => (p1, r)
        | (p1, None) =>
          if existsb (types_evidence__Pool_CheckEvidence__if_hashes_at_i__Equal_hashes_at_idx) (map (N.eqb (e_hash e)) seen)
          then (p1, RDuplicate)
          else check_loop p1 c (e_hash e :: seen) t
        end)
  /\ (forall i, types_evidence__Pool_CheckEvidence__set_i_op i = wrap64 (i - 1))
  (* AddEvidence, AddEvidenceFromConsensus, markEvidenceAsCommitted *)
  /\ (forall p c e,
        add_evidence p c e =
        if types_evidence__Pool_AddEvidence__if_evpool_isPending_ev (is_pending p e) then (p, ROk)
        else if types_evidence__Pool_AddEvidence__if_evpool_isCommitted_ev (is_committed p e) then (p, ROk)
        else match verify p c e with
             | VOk => (push_list (add_pending p e) e, ROk)
             | err => (p, RInvalid err)
             end)
  /\ (forall p e,
        add_from_consensus p e =
        if types_evidence__Pool_AddEvidenceFromConsensus__if_evpool_isPending_ev (is_pending p e) then (p, ROk)
        else (push_list (add_pending p e) e, ROk))
  /\ (forall p e t removed,
        mark_loop p (e :: t) removed =
        let '(p1, removed1) :=
          if types_evidence__Pool_markEvidenceAsCommitted__if_evpool_isPending_ev (is_pending p e)
          then (remove_pending p e, e_hash e :: removed) else (p, removed) in
        mark_loop (set_committed p1 (put_key (ekey e) (p_committed p1))) t removed1)
  (* ValidateBasic, NewDuplicateVoteEvidence *)
  /\ (forall e,
        validate_basic e =
        (vote_basic (e_a e) && vote_basic (e_b e)
         && negb (types__DuplicateVoteEvidence_ValidateBasic__if_strings_Compare_dve_VoteA_BlockID_Key_dve_VoteB_BlockID_Key_ge_0
                    (cmp_z (key_cmp (v_bid (e_a e)) (v_bid (e_b e))))))%bool)
  /\ (forall v,
        vote_basic v =
        (negb (types__Vote_ValidateBasic__if_not_IsVoteTypeValid_vote_Type (src_type_valid (v_type v)))
         && negb (types__Vote_ValidateBasic__if_not_vote_BlockID_IsZero_and_not_vote_BlockID_IsComplete
                    (bid_is_zero (v_bid v)) (bid_is_complete (v_bid v)))
         && negb (types__Vote_ValidateBasic__if_len_vote_Signature_eq_0 (if s_empty (v_sig v) then 0 else 65)))%bool)
  /\ (forall a b,
        key_lt a b =
        types__NewDuplicateVoteEvidence__if_strings_Compare_vote1_BlockID_Key_vote2_BlockID_Key_eq_minus_1 (cmp_z (key_cmp a b)))
  (* MedianTime and tryAddVote *)
  /\ (forall t w r m,
        median_loop ((t, w) :: r) m =
        if types_time__WeightedMedian__if_median_le_weightedTime_Weight m w then t
        else median_loop r (types_time__WeightedMedian__set_median_op m w))
  /\ (forall x y t,
        insert_wt x (y :: t) =
        if types_time__WeightedMedian__ret_weightedTimes_at_i__Time_UnixNano_lt_weightedTimes_at_j__Time_UnixNano (fst x) (fst y)
        then x :: y :: t else y :: insert_wt x t)
  /\ (forall commit vs,
        median_time commit vs =
        let wts := weighted_times commit vs in
        median_loop wts (types_time__WeightedMedian__set_median
                           (fold_left (fun acc x => kai_state_cstate__MedianTime__set_totalVotingPower_op acc (snd x)) wts 0)))
  /\ (forall cs va,
        N.eqb (v_height va) (cs_init_height cs) =
        consensus__ConsensusState_tryAddVote__if_voteErr_VoteA_Height_eq_cs_state_InitialHeight
          (Z.of_N (v_height va)) (Z.of_N (cs_init_height cs)))
  /\ (forall cs hash size va vb,
        try_add_vote_gen cs hash size va vb =
        if consensus__ConsensusState_tryAddVote__if_vote_ValidatorAddress_Equal_cs_privValidator_GetAddress
             (N.eqb (v_addr vb) (cs_me cs)) then GSelf
        else
          let ts := if consensus__ConsensusState_tryAddVote__if_voteErr_VoteA_Height_eq_cs_state_InitialHeight
                         (Z.of_N (v_height va)) (Z.of_N (cs_init_height cs))
                    then cs_last_block_time cs
                    else median_time (cs_last_commit cs) (cs_last_vals cs) in
          match new_duplicate_vote_evidence hash size va vb ts (cs_vals cs) with
          | None => GNil
          | Some e => GEvidence e
          end).

Lemma C19_source_tie_proof : C19_source_tie_statement.
Proof.
  unfold C19_source_tie_statement.
  split; [exact src_consts|].
  split; [exact src_max_evidence_per_block|].
  split; [exact src_default_caps|].
  split; [exact src_block_evidence|].
  split; [exact src_verify_duplicate_vote|].
  split; [exact src_verify|].
  split; [exact src_is_expired|].
  split; [exact src_update|].
  split; [exact src_expire_step|].
  split; [exact src_list_step|].
  split; [exact src_pending_evidence|].
  split; [exact src_check_step_pending|].
  split; [exact src_check_scan|].
  split; [exact src_check_step|].
  split; [reflexivity|].
  split; [exact src_add_evidence|].
  split; [exact src_add_from_consensus|].
  split; [exact src_mark_step|].
  split; [exact src_validate_basic|].
  split; [exact src_vote_basic|].
  split; [exact src_order_new|].
  split; [exact src_median_loop|].
  split; [exact src_insert_wt|].
  split; [exact src_median_time|].
  split; [exact src_try_add_vote_time|].
  exact src_try_add_vote_gen.
Qed.

(** the operands of every tied guard, as the Go source names them (all guards of the evidence pool, of
    ValidateBasic / NewDuplicateVoteEvidence, of the median and of tryAddVote, and validateBlock's limit) *)
Definition C19_source_atoms_statement : Prop :=
  types__NewDuplicateVoteEvidence__if_vote1_eq_nil_or_vote2_eq_nil_or_valSet_eq_nil_atoms
     = ["vote1 == nil : untyped bool"; "vote2 == nil : untyped bool"; "valSet == nil : untyped bool"]%string
  /\ types__NewDuplicateVoteEvidence__if_idx_eq_minus_1_atoms
     = ["idx : int"]%string
  /\ types__NewDuplicateVoteEvidence__if_strings_Compare_vote1_BlockID_Key_vote2_BlockID_Key_eq_minus_1_atoms
     = ["strings.Compare(vote1.BlockID.Key(), vote2.BlockID.Key()) : int"]%string
  /\ types__DuplicateVoteEvidence_ValidateBasic__if_dve_eq_nil_atoms
     = ["dve == nil : untyped bool"]%string
  /\ types__DuplicateVoteEvidence_ValidateBasic__if_dve_VoteA_eq_nil_or_dve_VoteB_eq_nil_atoms
     = ["dve.VoteA == nil : untyped bool"; "dve.VoteB == nil : untyped bool"]%string
  /\ types__DuplicateVoteEvidence_ValidateBasic__if_strings_Compare_dve_VoteA_BlockID_Key_dve_VoteB_BlockID_Key_ge_0_atoms
     = ["strings.Compare(dve.VoteA.BlockID.Key(), dve.VoteB.BlockID.Key()) : int"]%string
  /\ types__Vote_ValidateBasic__if_not_IsVoteTypeValid_vote_Type_atoms
     = ["IsVoteTypeValid(vote.Type) : bool"]%string
  /\ types__Vote_ValidateBasic__if_not_vote_BlockID_IsZero_and_not_vote_BlockID_IsComplete_atoms
     = ["vote.BlockID.IsZero() : bool"; "vote.BlockID.IsComplete() : bool"]%string
  /\ types__Vote_ValidateBasic__if_len_vote_Signature_eq_0_atoms
     = ["len(vote.Signature) : int"]%string
  /\ types__IsVoteTypeValid__case_t_eq_kproto_PrevoteType_atoms
     = ["t : github.com/kardiachain/go-kardia/proto/kardiachain/types.SignedMsgType"]%string
  /\ types__IsVoteTypeValid__case_t_eq_kproto_PrecommitType_atoms
     = ["t : github.com/kardiachain/go-kardia/proto/kardiachain/types.SignedMsgType"]%string
  /\ types_evidence__Pool_verify__if_blockMeta_eq_nil_atoms
     = ["blockMeta == nil : untyped bool"]%string
  /\ types_evidence__Pool_verify__if_evidence_Time_ne_evTime_atoms
     = ["evidence.Time() != evTime : untyped bool"]%string
  /\ types_evidence__Pool_verify__let_ageDuration_atoms
     = ["state.LastBlockTime.Sub(evTime) : time.Duration"]%string
  /\ types_evidence__Pool_verify__if_ageDuration_gt_evidenceParams_MaxAgeDuration_and_ageNumBlock_d6138d0b_atoms
     = ["ageDuration : time.Duration"; "evidenceParams.MaxAgeDuration : time.Duration"; "ageNumBlocks : int64"; "evidenceParams.MaxAgeNumBlocks : int64"]%string
  /\ types_evidence__Pool_verify__arg_height_minus_evidenceParams_MaxAgeNumBlocks_atoms
     = ["height : int64"; "evidenceParams.MaxAgeNumBlocks : int64"]%string
  /\ types_evidence__VerifyDuplicateVote__if_val_eq_nil_atoms
     = ["val == nil : untyped bool"]%string
  /\ types_evidence__VerifyDuplicateVote__if_e_VoteA_ValidatorIndex_ne_uint32_idx_or_e_VoteB_ValidatorInd_6979641e_atoms
     = ["e.VoteA.ValidatorIndex : uint32"; "idx : int"; "e.VoteB.ValidatorIndex : uint32"]%string
  /\ types_evidence__VerifyDuplicateVote__if_e_VoteA_Height_ne_e_VoteB_Height_or_e_VoteA_Round_ne_e_VoteB_94a279ba_atoms
     = ["e.VoteA.Height : uint64"; "e.VoteB.Height : uint64"; "e.VoteA.Round : uint32"; "e.VoteB.Round : uint32"; "e.VoteA.Type : github.com/kardiachain/go-kardia/proto/kardiachain/types.SignedMsgType"; "e.VoteB.Type : github.com/kardiachain/go-kardia/proto/kardiachain/types.SignedMsgType"]%string
  /\ types_evidence__VerifyDuplicateVote__if_not_bytes_Equal_e_VoteA_ValidatorAddress_Bytes_e_VoteB_Valid_d37704cb_atoms
     = ["bytes.Equal(e.VoteA.ValidatorAddress.Bytes(), e.VoteB.ValidatorAddress.Bytes()) : bool"]%string
  /\ types_evidence__VerifyDuplicateVote__if_e_VoteA_BlockID_Equal_e_VoteB_BlockID_atoms
     = ["e.VoteA.BlockID.Equal(e.VoteB.BlockID) : bool"]%string
  /\ types_evidence__VerifyDuplicateVote__if_val_VotingPower_ne_e_ValidatorPower_atoms
     = ["val.VotingPower : int64"; "e.ValidatorPower : int64"]%string
  /\ types_evidence__VerifyDuplicateVote__if_valSet_TotalVotingPower_ne_e_TotalVotingPower_atoms
     = ["valSet.TotalVotingPower() : int64"; "e.TotalVotingPower : int64"]%string
  /\ types_evidence__VerifyDuplicateVote__if_not_types_VerifySignature_val_Address_crypto_Keccak256_types_b38e27e6_atoms
     = ["types.VerifySignature(val.Address, crypto.Keccak256(types.VoteSignBytes(chainID, va)), e.VoteA.Signature) : bool"]%string
  /\ types_evidence__VerifyDuplicateVote__if_not_types_VerifySignature_val_Address_crypto_Keccak256_types_3ee76410_atoms
     = ["types.VerifySignature(val.Address, crypto.Keccak256(types.VoteSignBytes(chainID, vb)), e.VoteB.Signature) : bool"]%string
  /\ types_evidence__Pool_isExpired__ret_ageNumBlocks_gt_uint64_params_MaxAgeNumBlocks_and_ageDuratio_f33c0c52_atoms
     = ["ageNumBlocks : uint64"; "params.MaxAgeNumBlocks : int64"; "ageDuration : time.Duration"; "params.MaxAgeDuration : time.Duration"]%string
  /\ types_evidence__Pool_Update__if_state_LastBlockHeight_le_evpool_state_LastBlockHeight_atoms
     = ["state.LastBlockHeight : uint64"; "evpool.state.LastBlockHeight : uint64"]%string
  /\ types_evidence__Pool_Update__if_evpool_Size_gt_0_and_state_LastBlockHeight_gt_evpool_pruning_f0e9bc5b_atoms
     = ["evpool.Size() : uint32"; "state.LastBlockHeight : uint64"; "evpool.pruningHeight : uint64"; "state.LastBlockTime.After(evpool.pruningTime) : bool"]%string
  /\ types_evidence__Pool_listEvidence__for_iter_Next_atoms
     = ["iter.Next() : bool"]%string
  /\ types_evidence__Pool_listEvidence__let_evSize_atoms
     = ["evList.Size() : int"]%string
  /\ types_evidence__Pool_listEvidence__if_maxBytes_ne_minus_1_and_evSize_gt_maxBytes_atoms
     = ["maxBytes : int64"; "evSize : int64"]%string
  /\ types_evidence__Pool_removeExpiredPendingEvidence__for_iter_Next_atoms
     = ["iter.Next() : bool"]%string
  /\ types_evidence__Pool_removeExpiredPendingEvidence__if_not_evpool_isExpired_ev_Height_ev_Time_atoms
     = ["evpool.isExpired(ev.Height(), ev.Time()) : bool"]%string
  /\ types_evidence__Pool_removeExpiredPendingEvidence__if_len_blockEvidenceMap_ne_0_atoms
     = ["len(blockEvidenceMap) : int"]%string
  /\ types_evidence__Pool_removeExpiredPendingEvidence__ret_ev_Height_plus_uint64_maxAgeNumBlocks_plus_1_atoms
     = ["ev.Height() : uint64"; "maxAgeNumBlocks : int64"]%string
  /\ types_evidence__Pool_removeExpiredPendingEvidence__if_len_blockEvidenceMap_ne_0_2_atoms
     = ["len(blockEvidenceMap) : int"]%string
  /\ types_evidence__Pool_CheckEvidence__let_ok_atoms
     = ["evpool.fastCheck(ev) : bool"]%string
  /\ types_evidence__Pool_CheckEvidence__if_ok_and_evpool_isExpired_ev_Height_ev_Time_atoms
     = ["ok : bool"; "evpool.isExpired(ev.Height(), ev.Time()) : bool"]%string
  /\ types_evidence__Pool_CheckEvidence__if_not_ok_atoms
     = ["ok : bool"]%string
  /\ types_evidence__Pool_CheckEvidence__if_evpool_isCommitted_ev_atoms
     = ["evpool.isCommitted(ev) : bool"]%string
  /\ types_evidence__Pool_CheckEvidence__for_i_ge_0_atoms
     = ["i : int"]%string
  /\ types_evidence__Pool_CheckEvidence__set_i_atoms
     = ["idx : int"]%string
  /\ types_evidence__Pool_CheckEvidence__set_i_op_atoms
     = ["i : int"]%string
  /\ types_evidence__Pool_CheckEvidence__if_hashes_at_i__Equal_hashes_at_idx_atoms
     = ["hashes[i].Equal(hashes[idx]) : bool"]%string
  /\ types_evidence__Pool_PendingEvidence__if_evpool_Size_eq_0_atoms
     = ["evpool.Size() : uint32"]%string
  /\ types_evidence__Pool_markEvidenceAsCommitted__if_evpool_isPending_ev_atoms
     = ["evpool.isPending(ev) : bool"]%string
  /\ types_evidence__Pool_markEvidenceAsCommitted__if_len_blockEvidenceMap_ne_0_atoms
     = ["len(blockEvidenceMap) : int"]%string
  /\ types_evidence__Pool_AddEvidence__if_evpool_isPending_ev_atoms
     = ["evpool.isPending(ev) : bool"]%string
  /\ types_evidence__Pool_AddEvidence__if_evpool_isCommitted_ev_atoms
     = ["evpool.isCommitted(ev) : bool"]%string
  /\ types_evidence__Pool_AddEvidenceFromConsensus__if_evpool_isPending_ev_atoms
     = ["evpool.isPending(ev) : bool"]%string
  /\ kai_state_cstate__validateBlock__let_numEvidence_atoms
     = ["len(block.Evidence().Evidence) : int"]%string
  /\ kai_state_cstate__validateBlock__if_numEvidence_gt_maxNumEvidence_atoms
     = ["numEvidence : int64"; "maxNumEvidence : int64"]%string
  /\ kai_state_cstate__MedianTime__let_totalVotingPower_atoms
     = []%string
  /\ kai_state_cstate__MedianTime__if_commitSig_Absent_atoms
     = ["commitSig.Absent() : bool"]%string
  /\ kai_state_cstate__MedianTime__if_validator_ne_nil_atoms
     = ["validator != nil : untyped bool"]%string
  /\ kai_state_cstate__MedianTime__let_votingPower_atoms
     = ["validator.VotingPower : int64"]%string
  /\ kai_state_cstate__MedianTime__set_totalVotingPower_op_atoms
     = ["totalVotingPower : int64"; "votingPower : int64"]%string
  /\ types_time__WeightedMedian__set_median_atoms
     = ["totalVotingPower : int64"]%string
  /\ types_time__WeightedMedian__if_weightedTimes_at_i_eq_nil_atoms
     = ["weightedTimes[i] == nil : untyped bool"]%string
  /\ types_time__WeightedMedian__if_weightedTimes_at_j_eq_nil_atoms
     = ["weightedTimes[j] == nil : untyped bool"]%string
  /\ types_time__WeightedMedian__ret_weightedTimes_at_i__Time_UnixNano_lt_weightedTimes_at_j__Time_UnixNano_atoms
     = ["weightedTimes[i].Time.UnixNano() : int64"; "weightedTimes[j].Time.UnixNano() : int64"]%string
  /\ types_time__WeightedMedian__if_weightedTime_ne_nil_atoms
     = ["weightedTime != nil : untyped bool"]%string
  /\ types_time__WeightedMedian__if_median_le_weightedTime_Weight_atoms
     = ["median : int64"; "weightedTime.Weight : int64"]%string
  /\ types_time__WeightedMedian__set_median_op_atoms
     = ["median : int64"; "weightedTime.Weight : int64"]%string
  /\ consensus__ConsensusState_tryAddVote__if_vote_ValidatorAddress_Equal_cs_privValidator_GetAddress_atoms
     = ["vote.ValidatorAddress.Equal(cs.privValidator.GetAddress()) : bool"]%string
  /\ consensus__ConsensusState_tryAddVote__if_voteErr_VoteA_Height_eq_cs_state_InitialHeight_atoms
     = ["voteErr.VoteA.Height : uint64"; "cs.state.InitialHeight : uint64"]%string
  /\ consensus__ConsensusState_tryAddVote__if_evidence_eq_nil_atoms
     = ["evidence == nil : untyped bool"]%string.

Lemma C19_source_atoms_proof : C19_source_atoms_statement.
Proof. repeat split; reflexivity. Qed.
