(** C19 — concrete instances: the hypotheses of the theorems are satisfiable, and the places
    where the code does NOT establish them (each one reproduced on the real code by the harness,
    see TestVerifC19Repro). *)
From Coq Require Import List ZArith NArith Bool Lia.
From Kardia Require Import Base.Int64 C19.Model C19.ProofsBasic C19.ProofsVerify C19.ProofsPool
     C19.ProofsHistory C19.ProofsOnce.
From Kardia Require Import Generated.C19Facts.
Import ListNotations.
Local Open Scope Z_scope.

(** four validators of power 10, chain id 1 *)
Definition vals4 : list validator :=
  [ {| val_addr := 1; val_power := 10 |}; {| val_addr := 2; val_power := 10 |};
    {| val_addr := 3; val_power := 10 |}; {| val_addr := 4; val_power := 10 |} ].

Definition bidX : blockid := {| b_hash := 11; b_total := 1; b_phash := 12 |}.
Definition bidY : blockid := {| b_hash := 21; b_total := 1; b_phash := 22 |}.

(** a vote of [addr] with a genuine signature of [addr]'s key over its content *)
Definition mkvote (idx addr h r ty : N) (t : Z) (b : blockid) (sid : N) : vote :=
  {| v_idx := idx; v_addr := addr; v_height := h; v_round := r; v_type := ty; v_time := t; v_bid := b;
     v_sig := {| s_id := sid; s_empty := false; s_signer := addr; s_chain := 1; s_type := ty;
                 s_height := h; s_round := r; s_bid := b; s_time := t |} |}.

Definition params_small : params := {| max_age_blocks := 100000; max_age_dur := 172800000000000 |}.
Definition st_at (h t : Z) : pstate := {| st_height := h; st_time := t; st_params := params_small; st_chain := 1 |}.

(** chain: block 1 at time 100, block 2 at time 103 (the weighted median of the precommits
    {102,103,104} its proposer saw), validator set vals4 at heights 1 and 2 *)
Definition chain2 : chain :=
  {| ch_times := [(1, 100); (2, 103)]; ch_vals := [(1, vals4); (2, vals4)] |}.

(** validator 4 prevotes two blocks at height 2, round 1 *)
Definition voteX : vote := mkvote 3 4 2 1 1 110 bidX 1.
Definition voteY : vote := mkvote 3 4 2 1 1 110 bidY 2.

Lemma votes_conflict : conflicting_votes 1 voteX voteY.
Proof. unfold conflicting_votes. repeat split; vm_compute; reflexivity. Qed.

(** node A saw the precommits of validators 1,2,3 for block 1 (times 101,102,103) *)
Definition csA : csview :=
  {| cs_init_height := 1; cs_last_block_time := 100;
     cs_last_commit := [(1%N, 101); (2%N, 102); (3%N, 103)];
     cs_last_vals := vals4; cs_vals := vals4; cs_me := 9 |}.

Definition poolB : pool := empty_pool (st_at 2 103).

(** (1) the hypotheses of [generated_verifies] are satisfiable: with the block's time the
    evidence is accepted *)
Example good_generation_accepted :
  exists e, new_duplicate_vote_evidence 77 380 voteX voteY 103 vals4 = Some e /\
            validate_basic e = true /\ verify poolB chain2 e = VOk.
Proof. eexists. split; [reflexivity|]. split; vm_compute; reflexivity. Qed.

(** (2) what tryAddVote does: the timestamp is the weighted median of the node's OWN last
    commit (102 here), the header of block 2 carries the proposer's (103): node B rejects. *)
Example tryaddvote_timestamp_rejected :
  exists e, try_add_vote_gen csA 77 380 voteX voteY = GEvidence e /\
            e_time e = 102 /\ block_time chain2 (e_height e) = Some 103 /\
            validate_basic e = true /\ verify poolB chain2 e = VTime.
Proof. eexists. split; [reflexivity|]. repeat split; vm_compute; reflexivity. Qed.

(** (3) a late conflicting precommit for height 1 while the node is in NewHeight of height 2:
    the timestamp is again the median of LastCommit (= would-be time of block 2), never the
    time of block 1 *)
Definition lateX : vote := mkvote 2 3 1 1 2 103 bidX 3.
Definition lateY : vote := mkvote 2 3 1 1 2 104 bidY 4.
Definition csA2 : csview :=
  {| cs_init_height := 0; cs_last_block_time := 100;
     cs_last_commit := [(1%N, 101); (2%N, 102); (3%N, 103)];
     cs_last_vals := vals4; cs_vals := vals4; cs_me := 9 |}.
Example tryaddvote_late_rejected :
  exists e, try_add_vote_gen csA2 78 380 lateX lateY = GEvidence e /\
            e_height e = 1 /\ e_time e = 102 /\ block_time chain2 1 = Some 100 /\
            verify poolB chain2 e = VTime.
Proof. eexists. split; [reflexivity|]. repeat split; vm_compute; reflexivity. Qed.

(** (4) ... and when the equivocator has left the validator set of the current height,
    NewDuplicateVoteEvidence returns nil, which AddEvidenceFromConsensus dereferences *)
Definition csA3 : csview :=
  {| cs_init_height := 0; cs_last_block_time := 100;
     cs_last_commit := [(1%N, 101); (2%N, 102); (3%N, 103)];
     cs_last_vals := vals4;
     cs_vals := [ {| val_addr := 1; val_power := 10 |}; {| val_addr := 2; val_power := 10 |} ];
     cs_me := 9 |}.
Example tryaddvote_nil : try_add_vote_gen csA3 78 380 lateX lateY = GNil.
Proof. reflexivity. Qed.

(* ------------------------------------------------------------------ *)
(** * a history: accepted from a peer, committed, rejected afterwards *)

Definition evOK : evidence :=
  {| e_hash := 500; e_size := 380; e_a := voteX; e_b := voteY; e_total := 40; e_power := 10; e_time := 103 |}.

Definition node0 : node := {| n_chain := chain2; n_pool := empty_pool (st_at 2 103) |}.

Lemma node0_inv : Inv 1 node0.
Proof. split; [reflexivity|]. split; intros e []. Qed.

Definition history1 : list op :=
  [ OpPeer evOK; OpSaveMeta 3 106; OpSaveVals 3 vals4; OpApply 100 (st_at 3 106) [evOK];
    OpPeer evOK; OpBlock 100 [evOK] ].

Example history1_results :
  map o_res (snd (run node0 history1)) = [ROk; ROk; ROk; ROk; ROk; RCommitted] /\
  p_pending (n_pool (fst (run node0 history1))) = [] /\
  p_committed (n_pool (fst (run node0 history1))) = [(2, 500%N)] /\
  commit_log node0 history1 = [(2, 500%N)].
Proof. repeat split; vm_compute; reflexivity. Qed.

Lemma evOK_sound : sound 1 chain2 evOK.
Proof.
  split; [|reflexivity]. unfold double_sign. repeat (split; [vm_compute; reflexivity|]).
  exists vals4, {| val_addr := 4; val_power := 10 |}, 3%N.
  repeat split; try (vm_compute; reflexivity). cbn. auto.
Qed.

(** (5) the validator index is not signed, but it is part of the evidence bytes, hence of the
    hash and of the database key: the same two signed votes with another index would be "new"
    evidence after the first was committed.  Since commit be61253 VerifyDuplicateVote requires
    both indices to be the validator's index in the set of that height. *)
Definition evReplay : evidence :=
  {| e_hash := 501; e_size := 380; e_a := mkvote 7 4 2 1 1 110 bidX 1; e_b := voteY;
     e_total := 40; e_power := 10; e_time := 103 |}.

Definition history_replay : list op :=
  [ OpPeer evOK; OpSaveMeta 3 106; OpSaveVals 3 vals4; OpApply 100 (st_at 3 106) [evOK];
    OpPeer evReplay; OpBlock 100 [evReplay] ].

Example replay_with_other_index_rejected :
  v_sig (e_a evReplay) = v_sig (e_a evOK) /\ v_sig (e_b evReplay) = v_sig (e_b evOK) /\
  map o_res (snd (run node0 history_replay)) =
    [ROk; ROk; ROk; ROk; RInvalid VIndex; RInvalid VIndex] /\
  commit_log node0 history_replay = [(2, 500%N)].
Proof. repeat split; vm_compute; reflexivity. Qed.

(** (6) AddEvidenceFromConsensus does not look at the committed family: if consensus handed
    over evidence that is already committed (excluded by [op_ok]), the fast path of
    CheckEvidence would let it be committed a second time. *)
Definition history_cons : list op :=
  [ OpPeer evOK; OpSaveMeta 3 106; OpSaveVals 3 vals4; OpApply 100 (st_at 3 106) [evOK];
    OpCons evOK; OpSaveMeta 4 109; OpSaveVals 4 vals4; OpApply 100 (st_at 4 109) [evOK] ].
Example cons_of_committed_evidence_commits_twice :
  commit_log node0 history_cons = [(2, 500%N); (2, 500%N)].
Proof. vm_compute. reflexivity. Qed.

(** (7) the proposer's byte cap with the default parameters (commit e536522: the byte
    result of MaxEvidencePerBlock, 104857; before, the count 216 was passed and an evidence of
    380 bytes never fitted) *)
Example default_proposer_cap :
  default_proposal_evidence_count = 216 /\ default_proposal_pending_cap = 104857 /\
  let p := fst (peer_evidence (empty_pool (st_at 2 103)) chain2 evOK) in
  p_pending p = [evOK] /\
  fst (pending_evidence p default_proposal_evidence_count) = [] /\
  fst (pending_evidence p default_proposal_pending_cap) = [evOK].
Proof. repeat split; vm_compute; reflexivity. Qed.

(** (8) lazy pruning: evidence that has expired but is still in the pending family; since
    commit 7b4a6e2 the fast path of CheckEvidence applies the expiry rule too, so the node that
    holds it and the node that does not agree *)
Definition params_tiny : params := {| max_age_blocks := 1; max_age_dur := 5 |}.
Definition st_tiny (h t : Z) : pstate := {| st_height := h; st_time := t; st_params := params_tiny; st_chain := 1 |}.
Definition chain5 : chain :=
  {| ch_times := [(1, 100); (2, 103); (3, 120); (4, 140)];
     ch_vals := [(1, vals4); (2, vals4); (3, vals4); (4, vals4)] |}.
Example expired_but_pending_rejected :
  let holder := fst (update (fst (update (fst (peer_evidence (empty_pool (st_tiny 2 103)) chain5 evOK))
                                         (st_tiny 3 120) [])) (st_tiny 4 140) []) in
  let fresh := empty_pool (st_tiny 4 140) in
  is_pending holder evOK = true /\
  snd (check_evidence holder chain5 [evOK]) = RInvalid VExpired /\
  snd (check_evidence fresh chain5 [evOK]) = RInvalid VExpired.
Proof. repeat split; vm_compute; reflexivity. Qed.
