(** C19 — invariants over arbitrary histories of operations on one node. *)
From Coq Require Import List ZArith NArith Bool Lia.
From Kardia Require Import Base.Int64 C19.Model C19.ProofsBasic C19.ProofsVerify C19.ProofsPool.
Import ListNotations.
Local Open Scope Z_scope.

(** every pending evidence is a real double-signing carrying its block's time, and no pending
    evidence is marked committed *)
Definition Inv (cid : N) (n : node) : Prop :=
  st_chain (p_state (n_pool n)) = cid /\
  (forall e, In e (p_pending (n_pool n)) -> sound cid (n_chain n) e) /\
  (forall e, In e (p_pending (n_pool n)) -> is_committed (n_pool n) e = false).

(** what the environment of the pool guarantees for each operation:
    - stores are append-only (a height is never rewritten with another time / validator set);
    - every state handed to Update / NewPool is a state of this chain;
    - consensus hands over only evidence that is sound and not yet committed (this is the
      generator's obligation; [ProofsGen] shows that tryAddVote does NOT meet it). *)
Definition op_ok (cid : N) (n : node) (o : op) : Prop :=
  match o with
  | OpSaveMeta h t => block_time (n_chain n) h = None \/ block_time (n_chain n) h = Some t
  | OpSaveVals h vs => vals_at (n_chain n) h = None \/ vals_at (n_chain n) h = Some vs
  | OpCons e => sound cid (n_chain n) e /\ is_committed (n_pool n) e = false
  | OpGen cs hash size va vb =>
    forall e, try_add_vote_gen cs hash size va vb = GEvidence e ->
              sound cid (n_chain n) e /\ is_committed (n_pool n) e = false
  | OpUpdate st _ => st_chain st = cid
  | OpApply _ st _ => st_chain st = cid
  | OpRestart st => st_chain st = cid
  | _ => True
  end.

Fixpoint ops_ok (cid : N) (n : node) (ops : list op) : Prop :=
  match ops with
  | [] => True
  | o :: t => op_ok cid n o /\ ops_ok cid (fst (step n o)) t
  end.

Lemma not_committed_iff p e : is_committed p e = false <-> ~ In (ekey e) (p_committed p).
Proof.
  rewrite is_committed_com. split.
  - intros H Hi. apply com_key_In in Hi. congruence.
  - intros H. destruct (com_key (ekey e) (p_committed p)) eqn:E; auto. apply com_key_In in E. contradiction.
Qed.

Lemma restart_state p st p' r : restart p st = (p', r) -> p_state p' = st \/ p_state p' = p_state p.
Proof.
  unfold restart.
  destruct (remove_expired (set_list (set_state p st) [])) as [[p1 h] t] eqn:Hr.
  apply remove_expired_spec in Hr. destruct Hr as [H1 _].
  destruct (list_evidence (set_prune p1 h t) (-1)) as [[l sz] ok].
  destruct ok; intros H; inversion H; subst; cbn; auto.
Qed.

Lemma chain_le_meta c h t :
  block_time c h = None \/ block_time c h = Some t ->
  chain_le c {| ch_times := put_assoc h t (ch_times c); ch_vals := ch_vals c |}.
Proof.
  intros Hok. split; auto. intros h2 t2 H2. unfold block_time in *. cbn [ch_times].
  destruct (Z.eq_dec h2 h) as [->|Hn].
  - rewrite assoc_put_same. destruct Hok as [Hok|Hok]; congruence.
  - rewrite assoc_put_other; auto.
Qed.

Lemma chain_le_vals c h vs :
  vals_at c h = None \/ vals_at c h = Some vs ->
  chain_le c {| ch_times := ch_times c; ch_vals := put_assoc h vs (ch_vals c) |}.
Proof.
  intros Hok. split; auto. intros h2 v2 H2. unfold vals_at in *. cbn [ch_vals].
  destruct (Z.eq_dec h2 h) as [->|Hn].
  - rewrite assoc_put_same. destruct Hok as [Hok|Hok]; congruence.
  - rewrite assoc_put_other; auto.
Qed.

(** the pool-level step: pending stays sound and disjoint from committed, committed only grows *)
Definition pool_inv (cid : N) (c : chain) (p : pool) : Prop :=
  st_chain (p_state p) = cid /\
  (forall e, In e (p_pending p) -> sound cid c e) /\
  (forall e, In e (p_pending p) -> is_committed p e = false).

Lemma pool_inv_add cid c p p' :
  pool_inv cid c p ->
  p_state p' = p_state p -> p_committed p' = p_committed p ->
  (forall x, In x (p_pending p') -> In x (p_pending p) \/ (sound cid c x /\ is_committed p x = false)) ->
  pool_inv cid c p'.
Proof.
  intros [Hc [Hs Hd]] Hst Hco Hpe. split; [rewrite Hst; auto|]. split.
  - intros x Hx. destruct (Hpe x Hx) as [|[? ?]]; auto.
  - intros x Hx. unfold is_committed. rewrite Hco. destruct (Hpe x Hx) as [Hi|[_ Hn]]; [apply Hd in Hi|]; auto.
Qed.

Lemma pool_inv_block cid c p mx es p' r :
  pool_inv cid c p -> block_evidence p c mx es = (p', r) -> pool_inv cid c p'.
Proof.
  intros Hinv H. apply block_evidence_spec in H. destruct H as [Hst [Hco [Hpe _]]].
  apply (pool_inv_add cid c p p'); auto.
  intros x Hx. destruct (Hpe x Hx) as [|[_ [Hn Hv]]]; auto. right. split; auto.
  apply verify_ok in Hv. destruct Hinv as [Hc _]. rewrite Hc in Hv. tauto.
Qed.

Lemma pool_inv_update cid c p st es p' r :
  pool_inv cid c p -> st_chain st = cid -> update p st es = (p', r) ->
  pool_inv cid c p' /\ (forall k, In k (p_committed p) -> In k (p_committed p')).
Proof.
  intros Hinv Hcid H. apply update_spec in H.
  destruct H as [[_ [-> _]]|[_ [_ [Hst [Hpe [Hco _]]]]]]; [split; auto|].
  destruct Hinv as [Hc [Hs Hd]]. split.
  - split; [rewrite Hst; auto|]. split.
    + intros x Hx. apply Hs. apply Hpe; auto.
    + intros x Hx. destruct (Hpe x Hx) as [Hi Hne]. apply not_committed_iff. rewrite Hco.
      intros [Hk|Hk].
      * apply Hd in Hi. apply not_committed_iff in Hi. contradiction.
      * apply in_map_iff in Hk. destruct Hk as [e [He Hi2]]. apply (Hne e Hi2). auto.
  - intros k Hk. apply Hco. auto.
Qed.

Lemma step_inv cid n o n' ob :
  Inv cid n -> op_ok cid n o -> step n o = (n', ob) ->
  Inv cid n' /\ chain_le (n_chain n) (n_chain n') /\
  (forall k, In k (p_committed (n_pool n)) -> In k (p_committed (n_pool n'))).
Proof.
  intros Hinv Hok. destruct n as [c p]. unfold Inv in Hinv. cbn [n_chain n_pool] in *.
  assert (Hpi : pool_inv cid c p) by exact Hinv.
  destruct Hinv as [Hc [Hs Hd]].
  destruct o; cbn [step n_chain n_pool op_ok] in *.
  - (* SaveMeta *)
    intros H; inversion H; subst n' ob; clear H. cbn [n_chain n_pool].
    pose proof (chain_le_meta c h t Hok) as Hle.
    split; [|split; auto]. split; auto. split; auto.
    intros e He. eapply sound_mono; eauto.
  - (* SaveVals *)
    intros H; inversion H; subst n' ob; clear H. cbn [n_chain n_pool].
    pose proof (chain_le_vals c h vs Hok) as Hle.
    split; [|split; auto]. split; auto. split; auto.
    intros e He. eapply sound_mono; eauto.
  - (* Peer *)
    destruct (peer_evidence p c e) as [p' r] eqn:Hp. intros H; inversion H; subst n' ob; clear H.
    cbn [n_chain n_pool]. unfold peer_evidence in Hp.
    destruct (validate_basic e).
    + apply add_evidence_spec in Hp. destruct Hp as [Hst [Hco Hpe]].
      split; [|split; [apply chain_le_refl|rewrite Hco; auto]].
      apply (pool_inv_add cid c p p'); auto.
      intros x Hx. destruct Hpe as [Hpe|[_ [_ [Hnc [Hv Hpe]]]]]; rewrite Hpe in Hx; auto.
      apply In_put_pending in Hx. destruct Hx as [->|Hx]; auto.
      right. apply verify_ok in Hv. rewrite Hc in Hv. tauto.
    + inversion Hp; subst p' r. split; [|split; [apply chain_le_refl|auto]]. exact Hpi.
  - (* Cons *)
    destruct (add_from_consensus p e) as [p' r] eqn:Hp. intros H; inversion H; subst n' ob; clear H.
    cbn [n_chain n_pool]. apply add_from_consensus_spec in Hp.
    destruct Hp as [_ [Hst [Hco Hpe]]]. destruct Hok as [Hso Hnc].
    split; [|split; [apply chain_le_refl|rewrite Hco; auto]].
    apply (pool_inv_add cid c p p'); auto.
    intros x Hx. destruct Hpe as [Hpe|[_ Hpe]]; rewrite Hpe in Hx; auto.
    apply In_put_pending in Hx. destruct Hx as [->|Hx]; auto.
  - (* Block *)
    destruct (block_evidence p c maxnum es) as [p' r] eqn:Hp. intros H; inversion H; subst n' ob; clear H.
    cbn [n_chain n_pool].
    split; [eapply pool_inv_block; eauto|split; [apply chain_le_refl|]].
    apply block_evidence_spec in Hp. destruct Hp as [_ [Hco _]]. rewrite Hco; auto.
  - (* Pending *)
    destruct (pending_evidence p maxbytes) as [l sz]. intros H; inversion H; subst n' ob; clear H.
    cbn [n_chain n_pool]. split; [exact Hpi|split; [apply chain_le_refl|auto]].
  - (* Update *)
    destruct (update p st es) as [p' r] eqn:Hp. intros H; inversion H; subst n' ob; clear H.
    cbn [n_chain n_pool]. destruct (pool_inv_update cid c p st es p' r Hpi Hok Hp) as [H1 H2].
    split; [exact H1|split; [apply chain_le_refl|exact H2]].
  - (* Apply *)
    destruct (block_evidence p c maxnum es) as [p1 r1] eqn:Hb.
    pose proof (pool_inv_block cid c p maxnum es p1 r1 Hpi Hb) as Hpi1.
    pose proof (block_evidence_spec _ _ _ _ _ _ Hb) as [_ [Hco1 _]].
    destruct r1; try (intros H; inversion H; subst n' ob; clear H; cbn [n_chain n_pool];
      split; [exact Hpi1|split; [apply chain_le_refl|rewrite Hco1; auto]]).
    destruct (update p1 st es) as [p2 r2] eqn:Hu. intros H; inversion H; subst n' ob; clear H.
    cbn [n_chain n_pool]. destruct (pool_inv_update cid c p1 st es p2 r2 Hpi1 Hok Hu) as [H1 H2].
    split; [exact H1|split; [apply chain_le_refl|]]. intros k Hk. apply H2. rewrite Hco1. exact Hk.
  - (* Restart *)
    destruct (restart p st) as [p' r] eqn:Hp. intros H; inversion H; subst n' ob; clear H.
    cbn [n_chain n_pool].
    pose proof (restart_state _ _ _ _ Hp) as Hst.
    apply restart_spec in Hp. destruct Hp as [_ [Hco [Hpe _]]].
    split; [|split; [apply chain_le_refl|rewrite Hco; auto]].
    split; [cbn [n_pool]; destruct Hst as [Hst|Hst]; rewrite Hst; auto|]. cbn [n_pool n_chain]. split.
    + intros e He. apply Hs, Hpe, He.
    + intros e He. unfold is_committed. rewrite Hco. apply Hd, Hpe, He.
  - (* Gen *)
    destruct (try_add_vote_gen cs hash size va vb) as [| |e] eqn:Hg.
    + intros H; inversion H; subst n' ob; clear H. split; [exact Hpi|split; [apply chain_le_refl|auto]].
    + intros H; inversion H; subst n' ob; clear H. split; [exact Hpi|split; [apply chain_le_refl|auto]].
    + destruct (add_from_consensus p e) as [p' r] eqn:Hp. intros H; inversion H; subst n' ob; clear H.
      cbn [n_chain n_pool]. apply add_from_consensus_spec in Hp.
      destruct Hp as [_ [Hst [Hco Hpe]]]. destruct (Hok e eq_refl) as [Hso Hnc].
      split; [|split; [apply chain_le_refl|rewrite Hco; auto]].
      apply (pool_inv_add cid c p p'); auto.
      intros x Hx. destruct Hpe as [Hpe|[_ Hpe]]; rewrite Hpe in Hx; auto.
      apply In_put_pending in Hx. destruct Hx as [->|Hx]; auto.
Qed.

Lemma run_inv cid : forall ops n n' obs,
  Inv cid n -> ops_ok cid n ops -> run n ops = (n', obs) ->
  Inv cid n' /\ chain_le (n_chain n) (n_chain n').
Proof.
  induction ops as [|o t IH]; intros n n' obs Hinv Hok; cbn [run].
  - intros H; inversion H; subst. split; auto. apply chain_le_refl.
  - destruct (step n o) as [n1 ob] eqn:Hs. destruct (run n1 t) as [n2 obs2] eqn:Hr.
    intros H; inversion H; subst; clear H.
    cbn [ops_ok] in Hok. destruct Hok as [Ho Ht]. rewrite Hs in Ht. cbn [fst] in Ht.
    destruct (step_inv _ _ _ _ _ Hinv Ho Hs) as [Hi1 [Hle1 _]].
    destruct (IH _ _ _ Hi1 Ht Hr) as [Hi2 Hle2]. split; auto.
    destruct Hle1 as [A1 B1], Hle2 as [A2 B2]. split; auto.
Qed.

(* ------------------------------------------------------------------ *)
(** * acceptance is sound in every reachable state *)

Lemma accept_peer cid n e p' :
  Inv cid n -> peer_evidence (n_pool n) (n_chain n) e = (p', ROk) ->
  is_pending (n_pool n) e = false -> is_committed (n_pool n) e = false ->
  validate_basic e = true /\ sound cid (n_chain n) e /\
  ~ expired (p_state (n_pool n)) (e_height e) (e_time e) /\ is_pending p' e = true.
Proof.
  intros [Hc _] H Hnp Hnc. unfold peer_evidence in H.
  destruct (validate_basic e); [|discriminate]. split; auto.
  unfold add_evidence in H. rewrite Hnp, Hnc in H.
  destruct (verify (n_pool n) (n_chain n) e) eqn:Hv; try discriminate.
  inversion H; subst p'. apply verify_ok in Hv. rewrite Hc in Hv. destruct Hv as [Hs He].
  split; auto. split; auto.
  unfold is_pending. cbn [p_pending push_list set_list add_pending set_size set_pending].
  apply put_pending_has.
Qed.

(** Evidence accepted inside a block is either verified now, or has the key (height, hash of
    the bytes) of a pending entry that was verified (or handed over by consensus) earlier; the
    entry is the same evidence unless two different byte strings have the same Keccak hash. *)
Lemma accept_block cid n mx es p' :
  Inv cid n -> block_evidence (n_pool n) (n_chain n) mx es = (p', ROk) ->
  NoDup (map ekey es) /\
  forall e, In e es ->
    validate_basic e = true /\ is_committed (n_pool n) e = false /\
    ((sound cid (n_chain n) e /\ ~ expired (p_state (n_pool n)) (e_height e) (e_time e)) \/
     (exists x, In x (p_pending (n_pool n)) /\ ekey x = ekey e /\ sound cid (n_chain n) x /\
                is_expired (p_state (n_pool n)) (e_height e) (e_time e) = false)).
Proof.
  intros [Hc [Hs Hd]] H. apply block_evidence_spec in H. destruct H as [_ [_ [_ [_ Hok]]]].
  destruct (Hok eq_refl) as [Hb [Hnd [Hall _]]]. split.
  - clear - Hnd. induction es as [|e t IH]; cbn [map] in *; [constructor|].
    inversion Hnd; subst. constructor; auto.
    intros Hi. apply H1. apply in_map_iff in Hi. destruct Hi as [x [Hx Hi]].
    apply in_map_iff. exists x. split; auto. unfold ekey in Hx. inversion Hx; auto.
  - intros e He. rewrite forallb_forall in Hb. split; [apply Hb; auto|].
    destruct (Hall e He) as [[Hp Hne]|[Hn Hv]].
    + unfold is_pending in Hp. apply existsb_exists in Hp. destruct Hp as [x [Hx Hk]].
      apply key2_eqb_eq in Hk. split.
      * pose proof (Hd x Hx) as Hdx. unfold is_committed in *. rewrite <- Hk. exact Hdx.
      * right. exists x. auto 6.
    + apply verify_ok in Hv. rewrite Hc in Hv. destruct Hv as [Hso Hex]. auto.
Qed.
