(** C19 — the counter evidenceSize follows the pending family (mod 2^32) in every reachable state, keys
    stay unique in the pending family, and a successful restart reloads the gossip list from it.
    PendingEvidence answers "nothing" when the counter is 0: with the counter exact, pending evidence is
    never hidden from a proposer. *)
From Coq Require Import List ZArith NArith Bool Lia.
From Kardia Require Import Base.Int64 C19.Model C19.ProofsBasic C19.ProofsPool.
Import ListNotations.
Local Open Scope Z_scope.

Definition counted (p : pool) : Prop :=
  NoDup (map ekey (p_pending p)) /\ p_size p = wrapu32 (Z.of_nat (length (p_pending p))).

Lemma wrapu32_succ n : wrapu32 (wrapu32 n + 1) = wrapu32 (n + 1).
Proof. unfold wrapu32. apply Zplus_mod_idemp_l. Qed.
Lemma wrapu32_pred n : wrapu32 (wrapu32 (n + 1) - 1) = wrapu32 n.
Proof. unfold wrapu32. rewrite Zminus_mod_idemp_l. f_equal. lia. Qed.

(* ------------------------------------------------------------------ *)
(** * put / delete on a family with unique keys *)

Lemma has_key_false_notin k l : has_key k l = false -> ~ In k (map ekey l).
Proof.
  intros H Hi. apply in_map_iff in Hi. destruct Hi as [x [Hx Hi]].
  assert (has_key k l = true) by (apply has_key_In; exists x; auto). congruence.
Qed.

Lemma in_keys_put k e l : In k (map ekey (put_pending e l)) -> k = ekey e \/ In k (map ekey l).
Proof.
  intros H. apply in_map_iff in H. destruct H as [x [Hx Hi]]. apply In_put_pending in Hi.
  destruct Hi as [->|Hi]; [left; auto|right; subst; apply in_map; auto].
Qed.

Lemma put_pending_fresh e : forall l,
  has_key (ekey e) l = false -> NoDup (map ekey l) ->
  length (put_pending e l) = S (length l) /\ NoDup (map ekey (put_pending e l)).
Proof.
  induction l as [|x t IH]; intros Hk Hnd; cbn [put_pending].
  - split; [reflexivity|]. cbn. constructor; [intros []|constructor].
  - unfold has_key in Hk. cbn [existsb] in Hk. apply orb_false_iff in Hk. destruct Hk as [Hx Ht].
    rewrite Hx. inversion Hnd as [|k ks Hnin Hnd']; subst.
    destruct (key2_ltb (ekey e) (ekey x)).
    + split; [reflexivity|]. cbn [map]. constructor; [|exact Hnd].
      intros [Heq|Hi].
      * apply key2_eqb_neq in Hx. congruence.
      * apply (has_key_false_notin _ _ Ht). exact Hi.
    + destruct (IH Ht Hnd') as [Hl Hn]. split; [cbn [length]; rewrite Hl; reflexivity|].
      cbn [map]. constructor; [|exact Hn].
      intros Hi. apply in_keys_put in Hi. destruct Hi as [Heq|Hi]; [|contradiction].
      apply key2_eqb_neq in Hx. congruence.
Qed.

Lemma filter_all {A} (f : A -> bool) l : (forall x, In x l -> f x = true) -> filter f l = l.
Proof.
  induction l as [|x t IH]; intros H; cbn [filter]; [reflexivity|].
  rewrite (H x (or_introl eq_refl)). f_equal. apply IH. intros y Hy. apply H. right; exact Hy.
Qed.

Lemma NoDup_map_filter {A B} (g : A -> B) (f : A -> bool) l : NoDup (map g l) -> NoDup (map g (filter f l)).
Proof.
  induction l as [|x t IH]; intros H; cbn [filter map]; [constructor|].
  inversion H as [|k ks Hnin Hnd]; subst. destruct (f x).
  - cbn [map]. constructor; [|apply IH; exact Hnd].
    intros Hi. apply Hnin. apply in_map_iff in Hi. destruct Hi as [y [Hy Hi]].
    apply filter_In in Hi. destruct Hi as [Hi _]. apply in_map_iff. exists y. auto.
  - apply IH; exact Hnd.
Qed.

Lemma del_pending_present e : forall l,
  has_key (ekey e) l = true -> NoDup (map ekey l) ->
  S (length (del_pending e l)) = length l.
Proof.
  induction l as [|x t IH]; intros Hk Hnd; [discriminate|].
  unfold del_pending in *. cbn [filter]. inversion Hnd as [|k ks Hnin Hnd']; subst.
  destruct (key2_eqb (ekey x) (ekey e)) eqn:Hx; cbn [negb].
  - apply key2_eqb_eq in Hx. cbn [length]. f_equal.
    rewrite filter_all; [reflexivity|].
    intros y Hy. apply negb_true_iff. apply key2_eqb_neq. intros Heq.
    apply Hnin. rewrite Hx, <- Heq. apply in_map. exact Hy.
  - cbn [length]. f_equal. apply IH; [|exact Hnd'].
    unfold has_key in Hk. cbn [existsb] in Hk. rewrite Hx in Hk. exact Hk.
Qed.

(* ------------------------------------------------------------------ *)
(** * the pool's primitive steps *)

Lemma add_pending_counted p e : counted p -> is_pending p e = false -> counted (add_pending p e).
Proof.
  intros [Hnd Hs] Hp. rewrite is_pending_has in Hp.
  destruct (put_pending_fresh e (p_pending p) Hp Hnd) as [Hl Hn].
  split; cbn [p_pending p_size add_pending set_size set_pending]; [exact Hn|].
  rewrite Hl, Hs, wrapu32_succ. f_equal. lia.
Qed.

Lemma remove_pending_counted p e : counted p -> is_pending p e = true -> counted (remove_pending p e).
Proof.
  intros [Hnd Hs] Hp. rewrite is_pending_has in Hp.
  pose proof (del_pending_present e (p_pending p) Hp Hnd) as Hl.
  split; cbn [p_pending p_size remove_pending set_size set_pending].
  - unfold del_pending. apply NoDup_map_filter. exact Hnd.
  - rewrite Hs, <- Hl. replace (Z.of_nat (S (length (del_pending e (p_pending p)))))
      with (Z.of_nat (length (del_pending e (p_pending p))) + 1) by lia.
    apply wrapu32_pred.
Qed.

Lemma counted_ext p q : p_pending q = p_pending p -> p_size q = p_size p -> counted p -> counted q.
Proof. unfold counted. intros -> ->. auto. Qed.

Lemma add_evidence_counted p c e : counted p -> counted (fst (add_evidence p c e)).
Proof.
  intros H. unfold add_evidence. destruct (is_pending p e) eqn:Hp; [exact H|].
  destruct (is_committed p e); [exact H|].
  destruct (verify p c e); try exact H. cbn [fst].
  apply (counted_ext (add_pending p e)); try reflexivity. apply add_pending_counted; auto.
Qed.

Lemma add_from_consensus_counted p e : counted p -> counted (fst (add_from_consensus p e)).
Proof.
  intros H. unfold add_from_consensus. destruct (is_pending p e) eqn:Hp; [exact H|]. cbn [fst].
  apply (counted_ext (add_pending p e)); try reflexivity. apply add_pending_counted; auto.
Qed.

Lemma check_loop_counted c : forall evs p seen, counted p -> counted (fst (check_loop p c seen evs)).
Proof.
  induction evs as [|e t IH]; intros p seen H; cbn [check_loop]; [exact H|].
  destruct (is_pending p e) eqn:Hp.
  - destruct (is_expired (p_state p) (e_height e) (e_time e)); [exact H|].
    destruct (existsb (N.eqb (e_hash e)) seen); [exact H|]. apply IH; exact H.
  - destruct (is_committed p e); [exact H|].
    destruct (verify p c e); try exact H.
    pose proof (add_pending_counted p e H Hp) as H1.
    destruct (existsb (N.eqb (e_hash e)) seen); [exact H1|]. apply IH; exact H1.
Qed.

Lemma block_evidence_counted p c mx es : counted p -> counted (fst (block_evidence p c mx es)).
Proof.
  intros H. unfold block_evidence.
  destruct (negb (forallb validate_basic es)); [exact H|].
  destruct (Z.ltb mx (Z.of_nat (length es))); [exact H|].
  apply check_loop_counted; exact H.
Qed.

Lemma mark_loop_counted : forall evs p removed, counted p -> counted (fst (mark_loop p evs removed)).
Proof.
  induction evs as [|e t IH]; intros p removed H; cbn [mark_loop]; [exact H|].
  destruct (is_pending p e) eqn:Hp.
  - apply IH. apply (counted_ext (remove_pending p e)); try reflexivity.
    apply remove_pending_counted; auto.
  - apply IH. apply (counted_ext p); try reflexivity. exact H.
Qed.

Lemma mark_committed_counted p evs : counted p -> counted (mark_committed p evs).
Proof.
  intros H. unfold mark_committed. pose proof (mark_loop_counted evs p [] H) as H1.
  destruct (mark_loop p evs []) as [p1 removed]. cbn [fst] in H1.
  destruct removed; [exact H1|]. apply (counted_ext p1); try reflexivity. exact H1.
Qed.

(** the pruning loop runs over a snapshot of the family: every entry it meets is still pending *)
Lemma expire_loop_counted : forall snapshot p removed,
  counted p -> NoDup (map ekey snapshot) ->
  (forall x, In x snapshot -> has_key (ekey x) (p_pending p) = true) ->
  counted (fst (fst (expire_loop p snapshot removed))).
Proof.
  induction snapshot as [|e s IH]; intros p removed H Hnd Hin; cbn [expire_loop].
  - destruct removed; cbn [fst]; [exact H|]. apply (counted_ext p); try reflexivity. exact H.
  - inversion Hnd as [|k ks Hnin Hnd']; subst.
    assert (Hin' : forall x, In x s -> has_key (ekey x) (p_pending p) = true) by (intros x Hx; apply Hin; right; exact Hx).
    destruct (validate_basic e); cbn [negb]; [|apply IH; auto].
    destruct (is_expired (p_state p) (e_height e) (e_time e)); cbn [negb].
    + apply IH; auto.
      * apply remove_pending_counted; auto. rewrite is_pending_has. apply Hin. left; reflexivity.
      * intros x Hx. cbn [p_pending remove_pending set_size set_pending]. rewrite del_pending_has.
        rewrite (Hin' x Hx). cbn [andb]. apply negb_true_iff. apply key2_eqb_neq. intros Heq.
        apply Hnin. rewrite <- Heq. apply in_map. exact Hx.
    + destruct removed; cbn [fst]; [exact H|]. apply (counted_ext p); try reflexivity. exact H.
Qed.

Lemma remove_expired_counted p : counted p -> counted (fst (fst (remove_expired p))).
Proof.
  intros H. unfold remove_expired. apply expire_loop_counted; auto.
  - destruct H; auto.
  - intros x Hx. apply has_key_In. exists x. auto.
Qed.

Lemma update_counted p st evs : counted p -> counted (fst (update p st evs)).
Proof.
  intros H. unfold update. destruct (Z.leb (st_height st) (st_height (p_state p))); [exact H|].
  assert (H1 : counted (mark_committed (set_state p st) evs)).
  { apply mark_committed_counted. apply (counted_ext p); try reflexivity. exact H. }
  destruct (_ && _); [|exact H1].
  pose proof (remove_expired_counted _ H1) as H2.
  destruct (remove_expired (mark_committed (set_state p st) evs)) as [[p2 h] t]. cbn [fst] in *.
  apply (counted_ext p2); try reflexivity. exact H2.
Qed.

(* ------------------------------------------------------------------ *)
(** * restart *)

Lemma list_loop_uncapped : forall l acc a b l' sz,
  list_loop l (-1) acc a b = (l', sz, true) -> l' = rev acc ++ l.
Proof.
  induction l as [|e t IH]; intros acc a b l' sz; cbn [list_loop].
  - intros H; inversion H. rewrite app_nil_r. reflexivity.
  - rewrite Z.eqb_refl. cbn [negb andb].
    destruct (validate_basic e); cbn [negb]; [|discriminate].
    intros H. apply IH in H. rewrite H. cbn [rev]. rewrite <- app_assoc. reflexivity.
Qed.

(** after a successful restart the gossip list is the pending family and the counter is its size *)
Lemma restart_reloads p st p' :
  restart p st = (p', ROk) -> p_list p' = p_pending p' /\ p_size p' = wrapu32 (Z.of_nat (length (p_pending p'))).
Proof.
  unfold restart.
  destruct (remove_expired (set_list (set_state p st) [])) as [[p1 h] t].
  destruct (list_evidence (set_prune p1 h t) (-1)) as [[l sz] ok] eqn:Hl.
  destruct ok; [|discriminate]. intros H; inversion H; subst; clear H.
  unfold list_evidence in Hl. apply list_loop_uncapped in Hl. cbn [rev app] in Hl. subst l.
  cbn. split; reflexivity.
Qed.

Lemma restart_counted p st : counted p -> snd (restart p st) = ROk -> counted (fst (restart p st)).
Proof.
  intros H Hr. destruct (restart p st) as [p' r] eqn:He. cbn [fst snd] in *. subst r.
  pose proof (restart_reloads p st p' He) as [_ Hs]. split; [|exact Hs].
  unfold restart in He.
  assert (H0 : counted (set_list (set_state p st) [])) by (apply (counted_ext p); try reflexivity; exact H).
  pose proof (remove_expired_counted _ H0) as H1.
  destruct (remove_expired (set_list (set_state p st) [])) as [[p1 h] t]. cbn [fst] in H1.
  destruct (list_evidence (set_prune p1 h t) (-1)) as [[l sz] ok].
  destruct ok; [|discriminate]. inversion He; subst. cbn. destruct H1; auto.
Qed.

Lemma restart_res p st : snd (restart p st) = ROk \/ snd (restart p st) = RErr.
Proof.
  unfold restart.
  destruct (remove_expired (set_list (set_state p st) [])) as [[p1 h] t].
  destruct (list_evidence (set_prune p1 h t) (-1)) as [[l sz] ok].
  destruct ok; cbn [snd]; auto.
Qed.

(* ------------------------------------------------------------------ *)
(** * every operation, every history *)

Lemma step_counted n o :
  counted (n_pool n) -> o_res (snd (step n o)) <> RErr -> counted (n_pool (fst (step n o))).
Proof.
  destruct n as [c p]. cbn [n_pool]. intros H Hr.
  destruct o; cbn [step n_chain n_pool] in *.
  - exact H.
  - exact H.
  - pose proof (add_evidence_counted p c e H) as H1. unfold peer_evidence.
    destruct (validate_basic e); [|exact H].
    destruct (add_evidence p c e) as [p' r]. exact H1.
  - pose proof (add_from_consensus_counted p e H) as H1. destruct (add_from_consensus p e) as [p' r]. exact H1.
  - pose proof (block_evidence_counted p c maxnum es H) as H1. destruct (block_evidence p c maxnum es) as [p' r]. exact H1.
  - destruct (pending_evidence p maxbytes). exact H.
  - pose proof (update_counted p st es H) as H1. destruct (update p st es) as [p' r]. exact H1.
  - pose proof (block_evidence_counted p c maxnum es H) as H1.
    destruct (block_evidence p c maxnum es) as [p1 r1]. cbn [fst] in H1.
    destruct r1; try exact H1.
    pose proof (update_counted p1 st es H1) as H2. destruct (update p1 st es) as [p2 r2]. exact H2.
  - pose proof (restart_counted p st H) as H1. pose proof (restart_res p st) as H2.
    destruct (restart p st) as [p' r]. cbn [fst snd n_pool o_res mk_obs] in *.
    destruct H2 as [->| ->]; [apply H1; reflexivity|contradiction Hr; reflexivity].
  - destruct (try_add_vote_gen cs hash size va vb) as [| |e]; try exact H.
    pose proof (add_from_consensus_counted p e H) as H1. destruct (add_from_consensus p e) as [p' r]. exact H1.
Qed.

Lemma run_counted : forall ops n,
  counted (n_pool n) -> (forall ob, In ob (snd (run n ops)) -> o_res ob <> RErr) ->
  counted (n_pool (fst (run n ops))).
Proof.
  induction ops as [|o t IH]; intros n H Hr; cbn [run]; [exact H|].
  pose proof (step_counted n o H) as H1. cbn [run] in Hr.
  destruct (step n o) as [n1 ob]. cbn [fst snd] in *.
  pose proof (IH n1) as IH1. destruct (run n1 t) as [n2 obs]. cbn [fst snd] in *.
  apply IH1.
  - apply H1. apply Hr. left; reflexivity.
  - intros ob' Hob. apply Hr. right; exact Hob.
Qed.

Lemma empty_pool_counted st : counted (empty_pool st).
Proof. split; [constructor|reflexivity]. Qed.

(** consequences: below 2^32 entries the counter is the size, it is 0 only for an empty family, and
    PendingEvidence(-1) lists the whole family *)
Lemma counted_exact p :
  counted p -> Z.of_nat (length (p_pending p)) < 4294967296 ->
  p_size p = Z.of_nat (length (p_pending p)) /\ (p_size p = 0 <-> p_pending p = []).
Proof.
  intros [_ Hs] Hl. assert (E : p_size p = Z.of_nat (length (p_pending p))).
  { rewrite Hs. unfold wrapu32. apply Z.mod_small. lia. }
  split; [exact E|]. rewrite E. split.
  - intros H0. destruct (p_pending p); [reflexivity|cbn [length] in H0; lia].
  - intros ->. reflexivity.
Qed.

Lemma size_counter_all :
  (forall st, counted (empty_pool st)) /\
  (forall ops n, counted (n_pool n) -> (forall ob, In ob (snd (run n ops)) -> o_res ob <> RErr) ->
     counted (n_pool (fst (run n ops)))) /\
  (forall p, counted p -> Z.of_nat (length (p_pending p)) < 4294967296 ->
     p_size p = Z.of_nat (length (p_pending p)) /\ (p_size p = 0 <-> p_pending p = [])) /\
  (forall p, counted p -> Z.of_nat (length (p_pending p)) < 4294967296 ->
     forallb validate_basic (p_pending p) = true -> fst (pending_evidence p (-1)) = p_pending p) /\
  (forall p st p', restart p st = (p', ROk) ->
     p_list p' = p_pending p' /\ p_size p' = wrapu32 (Z.of_nat (length (p_pending p')))).
Proof.
  split; [exact empty_pool_counted|]. split; [exact run_counted|]. split; [exact counted_exact|].
  split; [|exact restart_reloads].
  intros p Hc Hl Hb. destruct (counted_exact p Hc Hl) as [_ Hz].
  destruct (p_pending p) as [|x t] eqn:Hp.
  - unfold pending_evidence. destruct (Z.eqb (p_size p) 0); [reflexivity|].
    unfold list_evidence. rewrite Hp. reflexivity.
  - rewrite <- Hp. apply pending_evidence_all; [rewrite Hp; exact Hb|].
    intros H0. apply Hz in H0. discriminate.
Qed.
