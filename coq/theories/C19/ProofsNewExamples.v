(** C19 — the hypotheses of the theorems of ProofsExact / ProofsOnceSign / ProofsAgree are satisfiable
    (concrete instances), and the literal forms of the two statements formerly kept in Open.v. *)
From Coq Require Import List ZArith NArith Bool Lia.
From Kardia Require Import Base.Int64 C19.Model C19.ProofsBasic C19.ProofsVerify C19.ProofsPool
     C19.ProofsHistory C19.ProofsOnce C19.ProofsExamples C19.ProofsExact C19.ProofsOnceSign C19.ProofsAgree C19.Open.
Import ListNotations.
Local Open Scope Z_scope.

(** the universe {evOK}: keys trivially identify evidence *)
Definition U1 (e : evidence) : Prop := e = evOK.
Lemma U1_inj : forall x y, U1 x -> U1 y -> ekey x = ekey y -> x = y.
Proof. unfold U1. intros x y -> ->. reflexivity. Qed.

Example once_sign_hypotheses :
  pend_in U1 node0 /\ ops_in U1 history1 /\ no_raw_update history1 /\ commit_evs node0 history1 = [evOK].
Proof.
  split; [intros e []|]. split.
  - intros o Ho. unfold history1 in Ho. cbn [In] in Ho.
    destruct Ho as [<-|[<-|[<-|[<-|[<-|[<-|[]]]]]]]; cbn [op_in]; unfold U1; auto;
      intros e [<-|[]]; reflexivity.
  - split; [|vm_compute; reflexivity].
    intros st es Hi. unfold history1 in Hi. cbn [In] in Hi.
    destruct Hi as [H|[H|[H|[H|[H|[H|[]]]]]]]; discriminate.
Qed.

(** a node that holds evOK pending and a node that does not, same state: both accept the block *)
Definition holder2 : pool := fst (peer_evidence (empty_pool (st_at 2 103)) chain2 evOK).
Example agree_hypotheses :
  pool_inv 1 chain2 holder2 /\ pool_inv 1 chain2 poolB /\ p_state holder2 = p_state poolB /\
  p_committed holder2 = p_committed poolB /\ sane (p_state holder2) /\
  (forall x, In x (p_pending holder2) -> U1 x) /\
  snd (check_evidence holder2 chain2 [evOK]) = ROk /\ snd (check_evidence poolB chain2 [evOK]) = ROk.
Proof.
  split.
  { split; [reflexivity|]. split.
    - intros e [<-|[]]. exact evOK_sound.
    - intros e [<-|[]]. reflexivity. }
  split; [split; [reflexivity|split; intros e []]|].
  split; [reflexivity|]. split; [reflexivity|].
  split; [unfold sane; vm_compute; repeat split; discriminate|].
  split; [intros x [<-|[]]; reflexivity|].
  split; vm_compute; reflexivity.
Qed.

(** the literal form of Open.v's [block_validity_agreed] (no bound on the magnitudes) does not hold: with a
    negative MaxAgeNumBlocks [isExpired] (uint64) never fires while [verify] (int64) does.  (Consensus
    parameters with MaxAgeNumBlocks <= 0 are rejected by ValidateConsensusParams; the hypothesis [sane]
    of [block_validity_agreed] says so.) *)
Definition params_neg : params := {| max_age_blocks := -1; max_age_dur := 5 |}.
Definition st_neg (h t : Z) : pstate := {| st_height := h; st_time := t; st_params := params_neg; st_chain := 1 |}.
Definition holder_neg : pool :=
  fst (update (fst (update (set_state (fst (peer_evidence (empty_pool (st_at 2 103)) chain5 evOK)) (st_neg 2 103))
                           (st_neg 3 120) [])) (st_neg 4 140) []).
Definition fresh_neg : pool := empty_pool (st_neg 4 140).

Lemma evOK_sound5 : sound 1 chain5 evOK.
Proof.
  split; [|reflexivity]. unfold double_sign. repeat (split; [vm_compute; reflexivity|]).
  exists vals4, {| val_addr := 4; val_power := 10 |}, 3%N.
  repeat split; try (vm_compute; reflexivity). cbn. auto.
Qed.

Lemma literal_block_validity_agreed_refuted : ~ Open.block_validity_agreed_literal.
Proof.
  intros H.
  assert (Hp : pool_inv 1 chain5 holder_neg).
  { split; [reflexivity|]. split.
    - intros e He. vm_compute in He. destruct He as [<-|[]]. exact evOK_sound5.
    - intros e He. vm_compute in He. destruct He as [<-|[]]. reflexivity. }
  assert (Hq : pool_inv 1 chain5 fresh_neg) by (split; [reflexivity|split; intros e []]).
  specialize (H 1%N chain5 holder_neg fresh_neg [evOK] Hp Hq eq_refl eq_refl).
  assert (Hh : forall e, In e [evOK] -> e_height e <= st_height (p_state holder_neg)).
  { intros e [<-|[]]. vm_compute. discriminate. }
  destruct (H Hh) as [H1 _].
  assert (Hok : snd (check_evidence holder_neg chain5 [evOK]) = ROk) by (vm_compute; reflexivity).
  specialize (H1 Hok). vm_compute in H1. discriminate.
Qed.

(** ... and the literal [once_per_double_sign] of Open.v was vacuous: its hypothesis [hash_functional]
    quantifies over all records and is false (two records that differ in [e_hash] only) *)
Lemma hash_functional_false : ~ Open.hash_functional.
Proof.
  intros H.
  specialize (H evOK {| e_hash := 501; e_size := 380; e_a := voteX; e_b := voteY; e_total := 40; e_power := 10; e_time := 103 |}
                eq_refl eq_refl eq_refl eq_refl eq_refl).
  discriminate.
Qed.

(** the byte cap: with the default proposer cap the single pending entry fits ([fit] = 1) *)
Example pending_cap_instance :
  fit 1000 0 [evOK] = 1%nat /\ fit 383 0 [evOK] = 1%nat /\ fit 382 0 [evOK] = 0%nat /\ cum_size 0 [evOK] = 383.
Proof. repeat split; vm_compute; reflexivity. Qed.
