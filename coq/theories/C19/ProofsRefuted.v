(** C19 — the full statements of the property where the code falls short of them, and their
    refutations on the (faithful) model.  Every counterexample here is reproduced on the real
    code by the harness (TestVerifC19Repro and the oracle classes named below). *)
From Coq Require Import List ZArith NArith Bool Lia.
From Kardia Require Import Base.Int64 C19.Model C19.ProofsBasic C19.ProofsVerify C19.ProofsPool
     C19.ProofsHistory C19.ProofsOnce C19.ProofsExamples.
From Kardia Require Import Generated.C19Facts.
Import ListNotations.
Local Open Scope Z_scope.

(** Full C19_accept_sound also asks for "same validator index" (oracle class
    accepted-unsound:index). *)
Definition accept_sound_with_index : Prop :=
  forall cid n e p',
    Inv cid n -> peer_evidence (n_pool n) (n_chain n) e = (p', ROk) ->
    is_pending (n_pool n) e = false -> is_committed (n_pool n) e = false ->
    sound cid (n_chain n) e /\ v_idx (e_a e) = v_idx (e_b e).

Lemma accept_sound_with_index_refuted : ~ accept_sound_with_index.
Proof.
  intros H. specialize (H 1%N node0 evReplay (fst (peer_evidence (n_pool node0) (n_chain node0) evReplay)) node0_inv).
  assert (E : peer_evidence (n_pool node0) (n_chain node0) evReplay =
              (fst (peer_evidence (n_pool node0) (n_chain node0) evReplay), ROk)) by (vm_compute; reflexivity).
  destruct (H E) as [_ Hi]; try (vm_compute; reflexivity).
  vm_compute in Hi. discriminate.
Qed.

(** "nobody can be held accountable by replayed evidence": two pieces of evidence made of the
    same two signed votes are never both committed (oracle class double-sign-punished-twice). *)
Definition same_votes (e1 e2 : evidence) : Prop :=
  v_sig (e_a e1) = v_sig (e_a e2) /\ v_sig (e_b e1) = v_sig (e_b e2).

Definition once_per_double_sign : Prop :=
  forall cid n ops e1 e2,
    Inv cid n -> ops_ok cid n ops -> no_raw_update ops ->
    In (ekey e1) (commit_log n ops) -> In (ekey e2) (commit_log n ops) ->
    same_votes e1 e2 -> ekey e1 = ekey e2.

Lemma history_replay_ok : ops_ok 1 node0 history_replay.
Proof. unfold history_replay. cbn [ops_ok op_ok]. repeat split; try (vm_compute; auto; fail). Qed.

Lemma once_per_double_sign_refuted : ~ once_per_double_sign.
Proof.
  intros H.
  assert (E : ekey evOK = ekey evReplay).
  { apply (H 1%N node0 history_replay evOK evReplay node0_inv history_replay_ok).
    - intros st es Hi. unfold history_replay in Hi. cbn in Hi.
      repeat (destruct Hi as [Hi|Hi]; [discriminate|]). exact Hi.
    - vm_compute. auto.
    - vm_compute. auto.
    - split; reflexivity. }
  vm_compute in E. discriminate.
Qed.

(** what C19_generated_accepted needs from consensus: the evidence tryAddVote builds from two
    conflicting votes of a member of the set of their height is accepted by a node that has
    the block of that height and for which the evidence has not expired (oracle class
    generated-rejected:inv:time) *)
Definition consensus_generates_acceptable : Prop :=
  forall cs c p hash size va vb e,
    conflicting_votes (st_chain (p_state p)) va vb ->
    vals_at c (Z.of_N (v_height va)) = Some (cs_vals cs) ->
    find_val (v_addr va) (cs_vals cs) <> None ->
    (exists ts, block_time c (Z.of_N (v_height va)) = Some ts /\
                ~ expired (p_state p) (Z.of_N (v_height va)) ts) ->
    try_add_vote_gen cs hash size va vb = GEvidence e ->
    verify p c e = VOk.

Lemma consensus_generates_acceptable_refuted : ~ consensus_generates_acceptable.
Proof.
  intros H.
  assert (E : verify poolB chain2
                (match try_add_vote_gen csA 77 380 voteX voteY with GEvidence e => e | _ => evOK end) = VOk).
  { apply (H csA chain2 poolB 77%N 380 voteX voteY).
    - exact votes_conflict.
    - reflexivity.
    - vm_compute. discriminate.
    - exists 103. split; [reflexivity|]. unfold expired. vm_compute. intros [A _]. discriminate.
    - reflexivity. }
  vm_compute in E. discriminate.
Qed.

(** "is proposed until committed" with the default parameters (oracle class
    pending-not-proposed) *)
Definition pending_is_proposed_by_default : Prop :=
  forall p, p_pending p <> [] -> p_size p <> 0 -> forallb validate_basic (p_pending p) = true ->
            fst (pending_evidence p default_proposal_pending_cap) <> [].

Lemma pending_is_proposed_by_default_refuted : ~ pending_is_proposed_by_default.
Proof.
  intros H.
  apply (H (fst (peer_evidence (empty_pool (st_at 2 103)) chain2 evOK))); vm_compute; try reflexivity; discriminate.
Qed.

(** all correct nodes agree on whether a block's evidence is acceptable (oracle classes
    block-validity-disagreement, accepted-expired-pending) *)
Definition block_validity_agreed : Prop :=
  forall cid c p q es,
    pool_inv cid c p -> pool_inv cid c q -> p_state p = p_state q -> p_committed p = p_committed q ->
    snd (check_evidence p c es) = snd (check_evidence q c es).

Lemma block_validity_agreed_refuted : ~ block_validity_agreed.
Proof.
  intros H.
  set (holder := fst (update (fst (update (fst (peer_evidence (empty_pool (st_tiny 2 103)) chain5 evOK))
                                         (st_tiny 3 120) [])) (st_tiny 4 140) [])).
  set (fresh := empty_pool (st_tiny 4 140)).
  assert (E : snd (check_evidence holder chain5 [evOK]) = snd (check_evidence fresh chain5 [evOK])).
  { apply (H 1%N).
    - split; [reflexivity|]. split.
      + intros e He. vm_compute in He. destruct He as [<-|[]].
        split; [|reflexivity]. unfold double_sign. repeat (split; [vm_compute; reflexivity|]).
        exists vals4, {| val_addr := 4; val_power := 10 |}.
        repeat split; try (vm_compute; reflexivity). cbn. auto.
      + intros e He. vm_compute in He. destruct He as [<-|[]]. reflexivity.
    - split; [reflexivity|]. split; intros e [].
    - reflexivity.
    - reflexivity. }
  vm_compute in E. discriminate.
Qed.
