(** C19 — the full statements of the property where the code falls short of them, and their
    refutations on the (faithful) model.  Every counterexample here is reproduced on the real
    code by the harness (TestVerifC19Repro and the oracle classes named below). *)
From Coq Require Import List ZArith NArith Bool Lia.
From Kardia Require Import Base.Int64 C19.Model C19.ProofsBasic C19.ProofsVerify C19.ProofsPool
     C19.ProofsHistory C19.ProofsOnce C19.ProofsExamples.
From Kardia Require Import Generated.C19Facts.
Import ListNotations.
Local Open Scope Z_scope.

(** what C19_generated_accepted needs from consensus: the evidence tryAddVote builds from two
    conflicting votes of a member of the set of their height is accepted by a node that has
    the block of that height and for which the evidence has not expired (oracle class
    generated-rejected:inv:time) *)
Definition consensus_generates_acceptable : Prop :=
  forall cs c p hash size va vb e,
    conflicting_votes (st_chain (p_state p)) va vb ->
    vals_at c (Z.of_N (v_height va)) = Some (cs_vals cs) ->
    (exists idx val, find_idx (v_addr va) (cs_vals cs) 0 = Some (idx, val) /\ v_idx va = idx /\ v_idx vb = idx) ->
    (exists ts, block_time c (Z.of_N (v_height va)) = Some ts /\
                ~ expired (p_state p) (Z.of_N (v_height va)) ts) ->
    try_add_vote_gen cs hash size va vb = GEvidence e ->
    verify p c e = VOk.

Lemma consensus_generates_acceptable_refuted : ~ consensus_generates_acceptable.
Proof.
  intros H.
  assert (E : verify poolB chain2
                (match try_add_vote_gen csA 77 380 voteX voteY with GEvidence e => e | _ => evOK end) = VOk).
  { apply (H csA chain2 poolB 77%N 380 voteX voteY).
    - exact votes_conflict.
    - reflexivity.
    - exists 3%N, {| val_addr := 4; val_power := 10 |}. repeat split; reflexivity.
    - exists 103. split; [reflexivity|]. unfold expired. vm_compute. intros [A _]. discriminate.
    - reflexivity. }
  vm_compute in E. discriminate.
Qed.

(** "is proposed": with a byte cap that has room for the first pending entry, PendingEvidence
    returns at least that entry (the default cap is now the 104857-byte budget) *)
Lemma list_loop_prefix : forall l mb acc x y,
  forallb validate_basic l = true ->
  exists l', fst (fst (list_loop l mb acc x y)) = rev acc ++ l'.
Proof.
  induction l as [|z l IH]; intros mb acc x y Hb; cbn [list_loop].
  - exists []. cbn [fst]. rewrite app_nil_r. reflexivity.
  - cbn [forallb] in Hb. apply andb_true_iff in Hb. destruct Hb as [Hz Hl].
    destruct (negb (Z.eqb mb (-1)) && Z.ltb mb (wrap64 (x + 1 + e_size z + sov (e_size z)))).
    + exists []. cbn [fst]. rewrite app_nil_r. reflexivity.
    + rewrite Hz. cbn [negb].
      destruct (IH mb (z :: acc) (wrap64 (x + 1 + e_size z + sov (e_size z)))
                   (wrap64 (x + 1 + e_size z + sov (e_size z))) Hl) as [l' H].
      exists (z :: l'). rewrite H. cbn [rev]. rewrite <- app_assoc. reflexivity.
Qed.

Lemma pending_first_proposed p e t cap :
  p_pending p = e :: t -> p_size p <> 0 -> forallb validate_basic (p_pending p) = true ->
  wrap64 (0 + 1 + e_size e + sov (e_size e)) <= cap ->
  exists l, fst (pending_evidence p cap) = e :: l.
Proof.
  intros Hp Hs Hb Hc. unfold pending_evidence. apply Z.eqb_neq in Hs. rewrite Hs.
  unfold list_evidence.
  destruct (list_loop_prefix (p_pending p) cap [] 0 0 Hb) as [l' H].
  destruct (list_loop (p_pending p) cap [] 0 0) as [[l0 s0] b0] eqn:E. cbn [fst] in *.
  rewrite Hp in E. cbn [list_loop] in E.
  assert (Hlt : Z.ltb cap (wrap64 (0 + 1 + e_size e + sov (e_size e))) = false) by (apply Z.ltb_ge; lia).
  rewrite Hlt, andb_false_r in E.
  rewrite Hp in Hb. cbn [forallb] in Hb. apply andb_true_iff in Hb. destruct Hb as [He Ht].
  rewrite He in E. cbn [negb] in E.
  destruct (list_loop_prefix t cap [e] (wrap64 (0 + 1 + e_size e + sov (e_size e)))
                             (wrap64 (0 + 1 + e_size e + sov (e_size e))) Ht) as [l2 H2].
  rewrite E in H2. cbn [fst rev app] in H2. exists l2. exact H2.
Qed.
