(** C19 — the composite statements quoted by Properties.v. *)
From Coq Require Import List ZArith NArith Bool.
From Kardia Require Import Base.Int64 C19.Model C19.ProofsBasic C19.ProofsVerify C19.ProofsPool
     C19.ProofsHistory C19.ProofsOnce C19.ProofsExamples C19.ProofsRefuted Generated.C19Facts.
Import ListNotations.
Local Open Scope Z_scope.

Lemma accept_sound_partial_all :
  forall cid n0 ops n obs,
    Inv cid n0 -> ops_ok cid n0 ops -> run n0 ops = (n, obs) ->
    Inv cid n /\
    (forall e p', peer_evidence (n_pool n) (n_chain n) e = (p', ROk) ->
       is_pending (n_pool n) e = false -> is_committed (n_pool n) e = false ->
       validate_basic e = true /\ sound cid (n_chain n) e /\
       ~ expired (p_state (n_pool n)) (e_height e) (e_time e) /\ is_pending p' e = true) /\
    (forall mx es p', block_evidence (n_pool n) (n_chain n) mx es = (p', ROk) ->
       NoDup (map ekey es) /\
       forall e, In e es ->
         validate_basic e = true /\ is_committed (n_pool n) e = false /\
         ((sound cid (n_chain n) e /\ ~ expired (p_state (n_pool n)) (e_height e) (e_time e)) \/
          (exists x, In x (p_pending (n_pool n)) /\ ekey x = ekey e /\ sound cid (n_chain n) x /\
                     is_expired (p_state (n_pool n)) (e_height e) (e_time e) = false))).
Proof.
  intros cid n0 ops n obs Hi Hok Hr.
  destruct (run_inv cid ops n0 n obs Hi Hok Hr) as [Hn _].
  split; [exact Hn|]. split.
  - intros e p'. exact (accept_peer cid n e p' Hn).
  - intros mx es p'. exact (accept_block cid n mx es p' Hn).
Qed.

Lemma once_all :
  forall cid n ops,
    Inv cid n -> ops_ok cid n ops -> no_raw_update ops ->
    NoDup (commit_log n ops) /\
    (forall k, In k (commit_log n ops) -> ~ In k (p_committed (n_pool n))) /\
    (forall es e, In e es -> is_committed (n_pool n) e = true ->
                  snd (check_evidence (n_pool n) (n_chain n) es) <> ROk) /\
    (forall es, snd (check_evidence (n_pool n) (n_chain n) es) = ROk -> NoDup (map e_hash es)).
Proof.
  intros cid n ops Hi Hok Hnr. destruct (once_gen cid ops n Hi Hok Hnr) as [H1 H2].
  split; [exact H1|]. split; [exact H2|]. split.
  - intros es e. exact (check_rejects_committed cid n es e Hi).
  - intros es. exact (check_rejects_duplicates (n_pool n) (n_chain n) es).
Qed.

Lemma source_constants_all :
  default_max_age_num_blocks = 100000 /\ default_max_age_duration = 172800000000000 /\
  default_proposal_pending_cap = default_evidence_max_bytes / max_evidence_bytes_denominator /\
  default_proposal_evidence_count = default_proposal_pending_cap / max_evidence_bytes.
Proof. repeat split. Qed.
