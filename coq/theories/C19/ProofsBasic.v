(** C19 — basic lemmas: keys, sorted key families, BlockID.Key order. *)
From Coq Require Import List ZArith NArith Bool Lia.
From Kardia Require Import Base.Int64 C19.Model.
Import ListNotations.
Local Open Scope Z_scope.

(* ------------------------------------------------------------------ *)
(** * keys *)

Lemma key2_eqb_eq a b : key2_eqb a b = true <-> a = b.
Proof.
  unfold key2_eqb. destruct a as [h1 x1], b as [h2 x2]; cbn [fst snd].
  rewrite andb_true_iff, Z.eqb_eq, N.eqb_eq. split.
  - intros [-> ->]; reflexivity.
  - intros E; inversion E; auto.
Qed.

Lemma key2_eqb_refl a : key2_eqb a a = true.
Proof. apply key2_eqb_eq; reflexivity. Qed.

Lemma key2_eqb_sym a b : key2_eqb a b = key2_eqb b a.
Proof.
  destruct (key2_eqb a b) eqn:E.
  - apply key2_eqb_eq in E; subst. symmetry; apply key2_eqb_refl.
  - destruct (key2_eqb b a) eqn:E2; auto. apply key2_eqb_eq in E2; subst.
    rewrite key2_eqb_refl in E; discriminate.
Qed.

Lemma key2_eqb_neq a b : key2_eqb a b = false <-> a <> b.
Proof.
  split.
  - intros E H; subst. rewrite key2_eqb_refl in E; discriminate.
  - intros H. destruct (key2_eqb a b) eqn:E; auto. apply key2_eqb_eq in E; contradiction.
Qed.

(** membership of a key in the pending / committed family *)
Definition has_key (k : Z * N) (l : list evidence) : bool :=
  existsb (fun x => key2_eqb (ekey x) k) l.
Definition com_key (k : Z * N) (l : list (Z * N)) : bool :=
  existsb (fun x => key2_eqb x k) l.

Lemma is_pending_has p e : is_pending p e = has_key (ekey e) (p_pending p).
Proof. reflexivity. Qed.
Lemma is_committed_com p e : is_committed p e = com_key (ekey e) (p_committed p).
Proof. reflexivity. Qed.

Lemma has_key_In k l : has_key k l = true <-> exists x, In x l /\ ekey x = k.
Proof.
  unfold has_key. rewrite existsb_exists. split; intros [x [Hi Hk]]; exists x; split; auto.
  - apply key2_eqb_eq; auto.
  - apply key2_eqb_eq; auto.
Qed.

Lemma com_key_In k l : com_key k l = true <-> In k l.
Proof.
  unfold com_key. rewrite existsb_exists. split.
  - intros [x [Hi Hk]]. apply key2_eqb_eq in Hk; subst; auto.
  - intros Hi. exists k; split; auto. apply key2_eqb_refl.
Qed.

(* ------------------------------------------------------------------ *)
(** * put / delete on the families *)

Lemma In_put_pending x e l : In x (put_pending e l) -> x = e \/ In x l.
Proof.
  induction l as [|y t IH]; cbn [put_pending]; intros H.
  - destruct H as [<-|[]]; auto.
  - destruct (key2_eqb (ekey y) (ekey e)).
    + destruct H as [<-|H]; auto. right; right; auto.
    + destruct (key2_ltb (ekey e) (ekey y)).
      * destruct H as [<-|H]; auto.
      * destruct H as [<-|H]; [right; left; auto|]. destruct (IH H); auto. right; right; auto.
Qed.

Lemma put_pending_has e l : has_key (ekey e) (put_pending e l) = true.
Proof.
  induction l as [|y t IH]; cbn [put_pending].
  - cbn. rewrite key2_eqb_refl; reflexivity.
  - destruct (key2_eqb (ekey y) (ekey e)) eqn:E.
    + cbn. rewrite key2_eqb_refl; reflexivity.
    + destruct (key2_ltb (ekey e) (ekey y)).
      * cbn. rewrite key2_eqb_refl; reflexivity.
      * cbn [has_key existsb]. rewrite E. exact IH.
Qed.

Lemma put_pending_has_other e k l : k <> ekey e -> has_key k (put_pending e l) = has_key k l.
Proof.
  intros Hn. induction l as [|y t IH]; cbn [put_pending].
  - cbn. apply key2_eqb_neq in Hn. rewrite key2_eqb_sym, Hn. reflexivity.
  - destruct (key2_eqb (ekey y) (ekey e)) eqn:E.
    + apply key2_eqb_eq in E. cbn [has_key existsb]. rewrite E.
      apply key2_eqb_neq in Hn. rewrite (key2_eqb_sym (ekey e) k), Hn. reflexivity.
    + destruct (key2_ltb (ekey e) (ekey y)).
      * cbn [has_key existsb]. apply key2_eqb_neq in Hn. rewrite (key2_eqb_sym (ekey e) k), Hn. reflexivity.
      * cbn [has_key existsb]. unfold has_key in IH. rewrite IH. reflexivity.
Qed.

Lemma In_del_pending x e l : In x (del_pending e l) -> In x l /\ ekey x <> ekey e.
Proof.
  unfold del_pending. rewrite filter_In. intros [Hi Hk]. split; auto.
  apply negb_true_iff in Hk. apply key2_eqb_neq in Hk. exact Hk.
Qed.

Lemma del_pending_has e k l :
  has_key k (del_pending e l) = has_key k l && negb (key2_eqb k (ekey e)).
Proof.
  induction l as [|y t IH]; cbn [del_pending filter has_key existsb]; auto.
  unfold del_pending, has_key in IH.
  destruct (key2_eqb (ekey y) (ekey e)) eqn:E; cbn [negb].
  - rewrite IH. apply key2_eqb_eq in E.
    destruct (key2_eqb (ekey y) k) eqn:E2; cbn [orb]; auto.
    apply key2_eqb_eq in E2. subst k. rewrite E, key2_eqb_refl. cbn.
    rewrite andb_false_r. reflexivity.
  - cbn [existsb]. rewrite IH.
    destruct (key2_eqb (ekey y) k) eqn:E2; cbn [orb]; auto.
    apply key2_eqb_eq in E2. subst k. rewrite E. reflexivity.
Qed.

Lemma In_put_key x k l : In x (put_key k l) <-> x = k \/ In x l.
Proof.
  induction l as [|y t IH]; cbn [put_key].
  - cbn. intuition.
  - destruct (key2_eqb y k) eqn:E.
    + apply key2_eqb_eq in E; subst y. cbn. intuition.
    + destruct (key2_ltb k y).
      * cbn. intuition.
      * cbn [In]. rewrite IH. intuition.
Qed.

Lemma com_key_put k k' l : com_key k (put_key k' l) = key2_eqb k' k || com_key k l.
Proof.
  destruct (com_key k (put_key k' l)) eqn:E.
  - apply com_key_In, In_put_key in E. destruct E as [->|E].
    + rewrite key2_eqb_refl; reflexivity.
    + apply com_key_In in E. rewrite E, orb_true_r; reflexivity.
  - symmetry. apply orb_false_iff. split.
    + destruct (key2_eqb k' k) eqn:E2; auto. apply key2_eqb_eq in E2; subst.
      assert (In k (put_key k l)) by (apply In_put_key; auto).
      apply com_key_In in H. congruence.
    + destruct (com_key k l) eqn:E2; auto. apply com_key_In in E2.
      assert (In k (put_key k' l)) by (apply In_put_key; auto).
      apply com_key_In in H. congruence.
Qed.

(* ------------------------------------------------------------------ *)
(** * BlockID.Key order *)

Lemma lex_cmp_antisym a : forall b, lex_cmp a b = CompOpp (lex_cmp b a).
Proof.
  induction a as [|x a IH]; destruct b as [|y b]; cbn; auto.
  rewrite (N.compare_antisym y x). destruct (N.compare y x); cbn; auto.
Qed.

Lemma lex_cmp_refl a : lex_cmp a a = Eq.
Proof. induction a; cbn; auto. rewrite N.compare_refl; auto. Qed.

Lemma key_cmp_antisym a b : key_cmp a b = CompOpp (key_cmp b a).
Proof.
  unfold key_cmp.
  rewrite (N.compare_antisym (b_hash b) (b_hash a)).
  destruct (N.compare (b_hash b) (b_hash a)); cbn; auto.
  rewrite (N.compare_antisym (b_phash b) (b_phash a)).
  destruct (N.compare (b_phash b) (b_phash a)); cbn; auto.
  apply lex_cmp_antisym.
Qed.

Lemma key_lt_irrefl_eqb a b : bid_eqb a b = true -> key_cmp a b = Eq.
Proof.
  unfold bid_eqb. rewrite !andb_true_iff, !N.eqb_eq. intros [[H1 H2] H3].
  unfold key_cmp. rewrite H1, H2, H3, !N.compare_refl. apply lex_cmp_refl.
Qed.

(** two ids with different keys are ordered one way or the other, and are different ids *)
Lemma key_lt_total a b : key_eq a b = false -> key_lt a b = false -> key_lt b a = true.
Proof.
  unfold key_eq, key_lt. rewrite (key_cmp_antisym b a). destruct (key_cmp a b); cbn; congruence.
Qed.

Lemma key_lt_neq a b : key_lt a b = true -> bid_eqb a b = false.
Proof.
  unfold key_lt. intros H. destruct (bid_eqb a b) eqn:E; auto.
  apply key_lt_irrefl_eqb in E. rewrite E in H. discriminate.
Qed.

Lemma key_lt_asym a b : key_lt a b = true -> key_lt b a = false.
Proof.
  unfold key_lt. rewrite (key_cmp_antisym b a). destruct (key_cmp a b); cbn; congruence.
Qed.

(* ------------------------------------------------------------------ *)
(** * validators *)

Lemma find_val_addr a vs v : find_val a vs = Some v -> val_addr v = a /\ In v vs.
Proof.
  induction vs as [|x t IH]; cbn; [discriminate|].
  destruct (N.eqb (val_addr x) a) eqn:E.
  - intros H; inversion H; subst. apply N.eqb_eq in E. auto.
  - intros H. destruct (IH H). auto.
Qed.

(* ------------------------------------------------------------------ *)
(** * association lists (chain view) *)

Lemma assoc_put_same {A} k (x : A) l : assoc k (put_assoc k x l) = Some x.
Proof.
  induction l as [|[k' y] t IH]; cbn.
  - rewrite Z.eqb_refl; auto.
  - destruct (Z.eqb k' k) eqn:E; cbn.
    + rewrite Z.eqb_refl; auto.
    + rewrite E; auto.
Qed.

Lemma assoc_put_other {A} k k2 (x : A) l : k2 <> k -> assoc k2 (put_assoc k x l) = assoc k2 l.
Proof.
  intros Hn. induction l as [|[k' y] t IH]; cbn.
  - destruct (Z.eqb k k2) eqn:E; auto. apply Z.eqb_eq in E; congruence.
  - destruct (Z.eqb k' k) eqn:E; cbn.
    + apply Z.eqb_eq in E; subst k'.
      destruct (Z.eqb k k2) eqn:E2; auto. apply Z.eqb_eq in E2; congruence.
    + destruct (Z.eqb k' k2); auto.
Qed.
