(** C19 — property theorems only.  Each is closed by [exact] of a lemma proved in Proofs*.v
    and followed by [Print Assumptions].

    Vocabulary (definitions in ProofsVerify.v / ProofsHistory.v / ProofsOnce.v / ProofsRefuted.v):
    - [double_sign cid c e]: two votes, same height / round / type / validator address,
      different block ids, both signatures valid for that validator (ideal signatures over
      chain id, type, height, round, block id, vote time), the validator is a member of the set
      the chain view [c] has for the evidence height, with exactly the stated power, and the
      stated total is that set's total;  [timed c e]: the evidence timestamp is the header time
      of the block of its height;  [sound] = both;
    - [expired st h t]: older than MaxAgeNumBlocks blocks AND older than MaxAgeDuration
      (verify.go's rule, int64 / saturating time.Sub semantics);
    - [Inv cid n]: every pending entry of node [n] is [sound] and none is marked committed;
      it holds for a fresh pool and is preserved by every operation ([C19_accept_sound_partial]);
    - [ops_ok cid n ops]: the environment's obligations along a history: stores are append-only,
      states given to Update / NewPool belong to this chain, and consensus hands over only
      evidence that is [sound] and not committed.  The last one is the generator's obligation:
      [C19_generated_accepted] says what discharges it, [C19_generated_accepted_refuted] that
      tryAddVote does not;
    - [commit_log n ops]: the keys (height, hash of the evidence bytes) marked committed by the
      successful ApplyBlock operations of the history, in order. *)
From Coq Require Import List ZArith NArith Bool.
From Kardia Require Import Base.Int64 C19.Model C19.ProofsBasic C19.ProofsVerify C19.ProofsPool
     C19.ProofsHistory C19.ProofsOnce C19.ProofsExamples C19.ProofsRefuted C19.ProofsMain Generated.C19Facts.
Import ListNotations.
Local Open Scope Z_scope.

(** Pool.verify = VOk means exactly what the property asks of evidence. *)
Theorem C19_verify_sound :
  forall p c e, verify p c e = VOk ->
    sound (st_chain (p_state p)) c e /\ ~ expired (p_state p) (e_height e) (e_time e).
Proof. exact verify_ok. Qed.
Print Assumptions C19_verify_sound.

(** In every state reachable by any history of store writes, peer evidence, consensus
    evidence, block validations, PendingEvidence, Update, ApplyBlock, restarts and consensus
    generation: the invariant holds; evidence newly accepted from a peer passed ValidateBasic,
    is a real double-signing with its block's time, is not expired and is now pending; every
    piece of evidence of an accepted block passed ValidateBasic, is not marked committed, does
    not occur twice in the block, and is either verified now (sound, not expired) or has the
    key of a pending entry that is sound (the same bytes unless Keccak collides).
    [double_sign] includes that both votes carry the validator's index in that set.
    PARTIAL with respect to the property text in one respect: evidence coming from consensus is
    not verified by the pool (a hypothesis in [ops_ok]); [C19_generated_accepted_refuted] shows
    tryAddVote does not discharge it. *)
Theorem C19_accept_sound_partial :
  forall cid n0 ops n obs,
    Inv cid n0 -> ops_ok cid n0 ops -> run n0 ops = (n, obs) ->
    Inv cid n /\
    (forall e p', peer_evidence (n_pool n) (n_chain n) e = (p', ROk) ->
       is_pending (n_pool n) e = false -> is_committed (n_pool n) e = false ->
       validate_basic e = true /\ sound cid (n_chain n) e /\
       ~ expired (p_state (n_pool n)) (e_height e) (e_time e) /\ is_pending p' e = true) /\
    (forall mx es p', block_evidence (n_pool n) (n_chain n) mx es = (p', ROk) ->
       NoDup (map ekey es) /\
       forall e, In e es ->
         validate_basic e = true /\ is_committed (n_pool n) e = false /\
         ((sound cid (n_chain n) e /\ ~ expired (p_state (n_pool n)) (e_height e) (e_time e)) \/
          (exists x, In x (p_pending (n_pool n)) /\ ekey x = ekey e /\ sound cid (n_chain n) x /\
                     is_expired (p_state (n_pool n)) (e_height e) (e_time e) = false))).
Proof. exact accept_sound_partial_all. Qed.
Print Assumptions C19_accept_sound_partial.

Theorem C19_accept_sound_satisfiable : Inv 1 node0 /\ sound 1 chain2 evOK /\
  map o_res (snd (run node0 history1)) = [ROk; ROk; ROk; ROk; ROk; RCommitted].
Proof. exact (conj node0_inv (conj evOK_sound (proj1 history1_results))). Qed.
Print Assumptions C19_accept_sound_satisfiable.

(** No history marks the same evidence (key = height and hash of the bytes) committed twice,
    and none that was committed before the history started; CheckEvidence rejects a list that
    contains evidence marked committed, and a list with a repeated hash. *)
Theorem C19_once :
  forall cid n ops,
    Inv cid n -> ops_ok cid n ops -> no_raw_update ops ->
    NoDup (commit_log n ops) /\
    (forall k, In k (commit_log n ops) -> ~ In k (p_committed (n_pool n))) /\
    (forall es e, In e es -> is_committed (n_pool n) e = true ->
                  snd (check_evidence (n_pool n) (n_chain n) es) <> ROk) /\
    (forall es, snd (check_evidence (n_pool n) (n_chain n) es) = ROk -> NoDup (map e_hash es)).
Proof. exact once_all. Qed.
Print Assumptions C19_once.

(** the same two signed votes with another validator index (another hash and key) are rejected
    after the original was committed (commit be61253) *)
Theorem C19_replay_with_other_index_rejected :
  v_sig (e_a evReplay) = v_sig (e_a evOK) /\ v_sig (e_b evReplay) = v_sig (e_b evOK) /\
  map o_res (snd (run node0 history_replay)) =
    [ROk; ROk; ROk; ROk; RInvalid VIndex; RInvalid VIndex] /\
  commit_log node0 history_replay = [(2, 500%N)].
Proof. exact replay_with_other_index_rejected. Qed.
Print Assumptions C19_replay_with_other_index_rejected.

(** ... and the hypothesis on consensus evidence in [ops_ok] is needed: AddEvidenceFromConsensus
    does not consult the committed family *)
Theorem C19_once_needs_fresh_consensus_evidence :
  commit_log node0 history_cons = [(2, 500%N); (2, 500%N)].
Proof. exact cons_of_committed_evidence_commits_twice. Qed.
Print Assumptions C19_once_needs_fresh_consensus_evidence.

(** PARTIAL: C19_generated_accepted holds under the hypothesis that the generator uses the
    header time of the block of the votes' height and the validator set of that height (with
    the votes carrying the validator's index in that set); [C19_generated_accepted_refuted]
    shows that tryAddVote does not.
    Evidence built by NewDuplicateVoteEvidence from two votes a vote set reports as
    conflicting, with the validator set of their height and THE HEADER TIME OF THE BLOCK OF
    THEIR HEIGHT, passes ValidateBasic and the verify of every pool over the same chain for
    which it has not expired; and no other timestamp is accepted. *)
Theorem C19_generated_accepted_partial :
  (forall p c hash size va vb ts vs,
     conflicting_votes (st_chain (p_state p)) va vb ->
     vals_at c (Z.of_N (v_height va)) = Some vs ->
     (exists idx val, find_idx (v_addr va) vs 0 = Some (idx, val) /\ v_idx va = idx /\ v_idx vb = idx) ->
     block_time c (Z.of_N (v_height va)) = Some ts ->
     ~ expired (p_state p) (Z.of_N (v_height va)) ts ->
     exists e, new_duplicate_vote_evidence hash size va vb ts vs = Some e /\
               validate_basic e = true /\ verify p c e = VOk) /\
  (forall p c hash size va vb ts vs e,
     new_duplicate_vote_evidence hash size va vb ts vs = Some e ->
     verify p c e = VOk -> e_time e = ts /\ block_time c (e_height e) = Some ts).
Proof. exact (conj generated_verifies generated_needs_block_time). Qed.
Print Assumptions C19_generated_accepted_partial.

(** tryAddVote uses the weighted median of the node's own LastCommit (and cs.Validators):
    its evidence is rejected by a node whose block of that height carries another median *)
Theorem C19_generated_accepted_refuted : ~ consensus_generates_acceptable.
Proof. exact consensus_generates_acceptable_refuted. Qed.
Print Assumptions C19_generated_accepted_refuted.

Theorem C19_tryaddvote_late_precommit_rejected :
  exists e, try_add_vote_gen csA2 78 380 lateX lateY = GEvidence e /\
            e_height e = 1 /\ e_time e = 102 /\ block_time chain2 1 = Some 100 /\
            verify poolB chain2 e = VTime.
Proof. exact tryaddvote_late_rejected. Qed.
Print Assumptions C19_tryaddvote_late_precommit_rejected.

Theorem C19_tryaddvote_nil_evidence : try_add_vote_gen csA3 78 380 lateX lateY = GNil.
Proof. exact tryaddvote_nil. Qed.
Print Assumptions C19_tryaddvote_nil_evidence.

(** A pending entry leaves the pending family only in an Update / ApplyBlock that commits its
    key, or in an Update / ApplyBlock / restart against whose state it has expired; and
    PendingEvidence(-1) returns the whole family. *)
Theorem C19_pending_until_committed :
  (forall n o n' ob k,
     step n o = (n', ob) -> has_key k (p_pending (n_pool n)) = true ->
     has_key k (p_pending (n_pool n')) = true \/
     In k (map ekey (op_commits o)) \/
     (exists st e, op_state o = Some st /\ In e (p_pending (n_pool n)) /\ ekey e = k /\
                   is_expired st (e_height e) (e_time e) = true)) /\
  (forall p, forallb validate_basic (p_pending p) = true -> p_size p <> 0 ->
             fst (pending_evidence p (-1)) = p_pending p).
Proof. exact (conj step_pending pending_evidence_all). Qed.
Print Assumptions C19_pending_until_committed.

(** the proposer's selection: with a byte cap that has room for the first pending entry (the default
    cap is the 104857-byte budget since commit e536522) at least that entry is proposed *)
Theorem C19_pending_proposed :
  forall p e t cap,
    p_pending p = e :: t -> p_size p <> 0 -> forallb validate_basic (p_pending p) = true ->
    wrap64 (0 + 1 + e_size e + sov (e_size e)) <= cap ->
    exists l, fst (pending_evidence p cap) = e :: l.
Proof. exact pending_first_proposed. Qed.
Print Assumptions C19_pending_proposed.

(** source constants (regenerated on every run) *)
Theorem C19_source_constants :
  default_max_age_num_blocks = 100000 /\ default_max_age_duration = 172800000000000 /\
  default_proposal_pending_cap = default_evidence_max_bytes / max_evidence_bytes_denominator /\
  default_proposal_evidence_count = default_proposal_pending_cap / max_evidence_bytes.
Proof. exact source_constants_all. Qed.
Print Assumptions C19_source_constants.
