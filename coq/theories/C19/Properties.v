(** C19 — property theorems only.  Each is closed by [exact] of a lemma proved in Proofs*.v
    and followed by [Print Assumptions].

    Vocabulary (definitions in ProofsVerify.v / ProofsHistory.v / ProofsOnce.v / ProofsRefuted.v):
    - [double_sign cid c e]: two votes, same height / round / type / validator address,
      different block ids, both signatures valid for that validator (ideal signatures over
      chain id, type, height, round, block id, vote time), the validator is a member of the set
      the chain view [c] has for the evidence height, with exactly the stated power, and the
      stated total is that set's total;  [timed c e]: the evidence timestamp is the header time
      of the block of its height;  [sound] = both;
    - [expired st h t]: older than MaxAgeNumBlocks blocks AND older than MaxAgeDuration
      (verify.go's rule, int64 / saturating time.Sub semantics);
    - [Inv cid n]: every pending entry of node [n] is [sound] and none is marked committed;
      it holds for a fresh pool and is preserved by every operation ([C19_accept_sound_partial]);
    - [ops_ok cid n ops]: the environment's obligations along a history: stores are append-only,
      states given to Update / NewPool belong to this chain, and consensus hands over only
      evidence that is [sound] and not committed.  The last one is the generator's obligation:
      [C19_generated_accepted] says what discharges it, [C19_generated_accepted_refuted] that
      tryAddVote does not;
    - [commit_log n ops]: the keys (height, hash of the evidence bytes) marked committed by the
      successful ApplyBlock operations of the history, in order. *)
From Coq Require Import List ZArith NArith Bool.
From Kardia Require Import Base.Int64 C19.Model C19.ProofsBasic C19.ProofsVerify C19.ProofsPool
     C19.ProofsHistory C19.ProofsOnce C19.ProofsExamples C19.ProofsRefuted C19.ProofsMain Generated.C19Facts
     C19.ProofsExact C19.ProofsOnceSign C19.ProofsAgree C19.Open C19.ProofsNewExamples C19.ProofsCounter.
Import ListNotations.
Local Open Scope Z_scope.

(** Pool.verify = VOk means exactly what the property asks of evidence. *)
Theorem C19_verify_sound :
  forall p c e, verify p c e = VOk ->
    sound (st_chain (p_state p)) c e /\ ~ expired (p_state p) (e_height e) (e_time e).
Proof. exact verify_ok. Qed.
Print Assumptions C19_verify_sound.

(** In every state reachable by any history of store writes, peer evidence, consensus
    evidence, block validations, PendingEvidence, Update, ApplyBlock, restarts and consensus
    generation: the invariant holds; evidence newly accepted from a peer passed ValidateBasic,
    is a real double-signing with its block's time, is not expired and is now pending; every
    piece of evidence of an accepted block passed ValidateBasic, is not marked committed, does
    not occur twice in the block, and is either verified now (sound, not expired) or has the
    key of a pending entry that is sound (the same bytes unless Keccak collides).
    [double_sign] includes that both votes carry the validator's index in that set.
    PARTIAL with respect to the property text in one respect: evidence coming from consensus is
    not verified by the pool (a hypothesis in [ops_ok]); [C19_generated_accepted_refuted] shows
    tryAddVote does not discharge it. *)
Theorem C19_accept_sound_partial :
  forall cid n0 ops n obs,
    Inv cid n0 -> ops_ok cid n0 ops -> run n0 ops = (n, obs) ->
    Inv cid n /\
    (forall e p', peer_evidence (n_pool n) (n_chain n) e = (p', ROk) ->
       is_pending (n_pool n) e = false -> is_committed (n_pool n) e = false ->
       validate_basic e = true /\ sound cid (n_chain n) e /\
       ~ expired (p_state (n_pool n)) (e_height e) (e_time e) /\ is_pending p' e = true) /\
    (forall mx es p', block_evidence (n_pool n) (n_chain n) mx es = (p', ROk) ->
       NoDup (map ekey es) /\
       forall e, In e es ->
         validate_basic e = true /\ is_committed (n_pool n) e = false /\
         ((sound cid (n_chain n) e /\ ~ expired (p_state (n_pool n)) (e_height e) (e_time e)) \/
          (exists x, In x (p_pending (n_pool n)) /\ ekey x = ekey e /\ sound cid (n_chain n) x /\
                     is_expired (p_state (n_pool n)) (e_height e) (e_time e) = false))).
Proof. exact accept_sound_partial_all. Qed.
Print Assumptions C19_accept_sound_partial.

Theorem C19_accept_sound_satisfiable : Inv 1 node0 /\ sound 1 chain2 evOK /\
  map o_res (snd (run node0 history1)) = [ROk; ROk; ROk; ROk; ROk; RCommitted].
Proof. exact (conj node0_inv (conj evOK_sound (proj1 history1_results))). Qed.
Print Assumptions C19_accept_sound_satisfiable.

(** No history marks the same evidence (key = height and hash of the bytes) committed twice,
    and none that was committed before the history started; CheckEvidence rejects a list that
    contains evidence marked committed, and a list with a repeated hash. *)
Theorem C19_once :
  forall cid n ops,
    Inv cid n -> ops_ok cid n ops -> no_raw_update ops ->
    NoDup (commit_log n ops) /\
    (forall k, In k (commit_log n ops) -> ~ In k (p_committed (n_pool n))) /\
    (forall es e, In e es -> is_committed (n_pool n) e = true ->
                  snd (check_evidence (n_pool n) (n_chain n) es) <> ROk) /\
    (forall es, snd (check_evidence (n_pool n) (n_chain n) es) = ROk -> NoDup (map e_hash es)).
Proof. exact once_all. Qed.
Print Assumptions C19_once.

(** the same two signed votes with another validator index (another hash and key) are rejected
    after the original was committed (commit be61253) *)
Theorem C19_replay_with_other_index_rejected :
  v_sig (e_a evReplay) = v_sig (e_a evOK) /\ v_sig (e_b evReplay) = v_sig (e_b evOK) /\
  map o_res (snd (run node0 history_replay)) =
    [ROk; ROk; ROk; ROk; RInvalid VIndex; RInvalid VIndex] /\
  commit_log node0 history_replay = [(2, 500%N)].
Proof. exact replay_with_other_index_rejected. Qed.
Print Assumptions C19_replay_with_other_index_rejected.

(** ... and the hypothesis on consensus evidence in [ops_ok] is needed: AddEvidenceFromConsensus
    does not consult the committed family *)
Theorem C19_once_needs_fresh_consensus_evidence :
  commit_log node0 history_cons = [(2, 500%N); (2, 500%N)].
Proof. exact cons_of_committed_evidence_commits_twice. Qed.
Print Assumptions C19_once_needs_fresh_consensus_evidence.

(** PARTIAL: C19_generated_accepted holds under the hypothesis that the generator uses the
    header time of the block of the votes' height and the validator set of that height (with
    the votes carrying the validator's index in that set); [C19_generated_accepted_refuted]
    shows that tryAddVote does not.
    Evidence built by NewDuplicateVoteEvidence from two votes a vote set reports as
    conflicting, with the validator set of their height and THE HEADER TIME OF THE BLOCK OF
    THEIR HEIGHT, passes ValidateBasic and the verify of every pool over the same chain for
    which it has not expired; and no other timestamp is accepted. *)
Theorem C19_generated_accepted_partial :
  (forall p c hash size va vb ts vs,
     conflicting_votes (st_chain (p_state p)) va vb ->
     vals_at c (Z.of_N (v_height va)) = Some vs ->
     (exists idx val, find_idx (v_addr va) vs 0 = Some (idx, val) /\ v_idx va = idx /\ v_idx vb = idx) ->
     block_time c (Z.of_N (v_height va)) = Some ts ->
     ~ expired (p_state p) (Z.of_N (v_height va)) ts ->
     exists e, new_duplicate_vote_evidence hash size va vb ts vs = Some e /\
               validate_basic e = true /\ verify p c e = VOk) /\
  (forall p c hash size va vb ts vs e,
     new_duplicate_vote_evidence hash size va vb ts vs = Some e ->
     verify p c e = VOk -> e_time e = ts /\ block_time c (e_height e) = Some ts).
Proof. exact (conj generated_verifies generated_needs_block_time). Qed.
Print Assumptions C19_generated_accepted_partial.

(** tryAddVote uses the weighted median of the node's own LastCommit (and cs.Validators):
    its evidence is rejected by a node whose block of that height carries another median *)
Theorem C19_generated_accepted_refuted : ~ consensus_generates_acceptable.
Proof. exact consensus_generates_acceptable_refuted. Qed.
Print Assumptions C19_generated_accepted_refuted.

Theorem C19_tryaddvote_late_precommit_rejected :
  exists e, try_add_vote_gen csA2 78 380 lateX lateY = GEvidence e /\
            e_height e = 1 /\ e_time e = 102 /\ block_time chain2 1 = Some 100 /\
            verify poolB chain2 e = VTime.
Proof. exact tryaddvote_late_rejected. Qed.
Print Assumptions C19_tryaddvote_late_precommit_rejected.

Theorem C19_tryaddvote_nil_evidence : try_add_vote_gen csA3 78 380 lateX lateY = GNil.
Proof. exact tryaddvote_nil. Qed.
Print Assumptions C19_tryaddvote_nil_evidence.

(** A pending entry leaves the pending family only in an Update / ApplyBlock that commits its
    key, or in an Update / ApplyBlock / restart against whose state it has expired; and
    PendingEvidence(-1) returns the whole family. *)
Theorem C19_pending_until_committed :
  (forall n o n' ob k,
     step n o = (n', ob) -> has_key k (p_pending (n_pool n)) = true ->
     has_key k (p_pending (n_pool n')) = true \/
     In k (map ekey (op_commits o)) \/
     (exists st e, op_state o = Some st /\ In e (p_pending (n_pool n)) /\ ekey e = k /\
                   is_expired st (e_height e) (e_time e) = true)) /\
  (forall p, forallb validate_basic (p_pending p) = true -> p_size p <> 0 ->
             fst (pending_evidence p (-1)) = p_pending p).
Proof. exact (conj step_pending pending_evidence_all). Qed.
Print Assumptions C19_pending_until_committed.

(** the proposer's selection: with a byte cap that has room for the first pending entry (the default
    cap is the 104857-byte budget since commit e536522) at least that entry is proposed *)
Theorem C19_pending_proposed :
  forall p e t cap,
    p_pending p = e :: t -> p_size p <> 0 -> forallb validate_basic (p_pending p) = true ->
    wrap64 (0 + 1 + e_size e + sov (e_size e)) <= cap ->
    exists l, fst (pending_evidence p cap) = e :: l.
Proof. exact pending_first_proposed. Qed.
Print Assumptions C19_pending_proposed.

(** source constants (regenerated on every run) *)
Theorem C19_source_constants :
  default_max_age_num_blocks = 100000 /\ default_max_age_duration = 172800000000000 /\
  default_proposal_pending_cap = default_evidence_max_bytes / max_evidence_bytes_denominator /\
  default_proposal_evidence_count = default_proposal_pending_cap / max_evidence_bytes.
Proof. exact source_constants_all. Qed.
Print Assumptions C19_source_constants.

(** EXACTNESS ("evidence is accepted exactly for real double-signing"): Pool.verify succeeds if AND ONLY IF
    the evidence is a real double-signing carrying its block's time that has not expired. *)
Theorem C19_verify_exact :
  forall p c e, verify p c e = VOk <->
    (sound (st_chain (p_state p)) c e /\ ~ expired (p_state p) (e_height e) (e_time e)).
Proof. exact verify_exact. Qed.
Print Assumptions C19_verify_exact.

(** THE CONVERSE DIRECTION of the property at the pool: every real, timely double-signing that passes
    ValidateBasic is accepted from a peer (and is pending afterwards unless already committed), and a block
    whose evidence is well-formed, within the count limit, without repetition, and each piece of which is
    [acceptable] (sound, not expired under either of the code's two rules, not committed) is accepted. *)
Theorem C19_sound_accepted :
  (forall p c e, validate_basic e = true -> sound (st_chain (p_state p)) c e ->
     ~ expired (p_state p) (e_height e) (e_time e) ->
     snd (peer_evidence p c e) = ROk /\
     (is_committed p e = false -> is_pending (fst (peer_evidence p c e)) e = true)) /\
  (forall p c mx es, forallb validate_basic es = true -> Z.of_nat (length es) <= mx -> NoDup (map e_hash es) ->
     (forall e, In e es -> acceptable p c e) -> snd (block_evidence p c mx es) = ROk).
Proof. exact (proj2 sound_accepted_all). Qed.
Print Assumptions C19_sound_accepted.

(** AGREEMENT: two correct nodes (pending entries sound and not committed) with the same latest state and
    committed family give the same verdict on the evidence of every proposed block, whatever each of them
    has pending -- given that keys identify evidence on the universe [U] (no Keccak collision) and sane
    magnitudes (heights below 2^63, 0 <= MaxAgeNumBlocks, evidence not about the future). *)
Theorem C19_block_validity_agreed :
  forall (U : evidence -> Prop), (forall x y, U x -> U y -> ekey x = ekey y -> x = y) ->
  forall cid c p q mx es,
    pool_inv cid c p -> pool_inv cid c q -> p_state p = p_state q -> p_committed p = p_committed q ->
    (forall x, In x (p_pending p) -> U x) -> (forall x, In x (p_pending q) -> U x) -> (forall e, In e es -> U e) ->
    sane (p_state p) -> (forall e, In e es -> e_height e <= st_height (p_state p)) ->
    (snd (block_evidence p c mx es) = ROk <-> snd (block_evidence q c mx es) = ROk).
Proof. exact block_evidence_agreed. Qed.
Print Assumptions C19_block_validity_agreed.

(** ... and the bound on the magnitudes is needed: the statement without it (Open.v) fails for a negative
    MaxAgeNumBlocks, where isExpired (uint64) and verify (int64) disagree *)
Theorem C19_block_validity_agreed_literal_refuted : ~ block_validity_agreed_literal.
Proof. exact literal_block_validity_agreed_refuted. Qed.
Print Assumptions C19_block_validity_agreed_literal_refuted.

(** NEVER TWICE, per double-signing: along any history (evidence reaching Update only through ApplyBlock,
    consensus handing over only sound uncommitted evidence), two committed pieces of evidence that carry the
    same two signatures have the same votes (incl. validator indices), powers and timestamp; if their hashes
    agree (the hash is a function of the content) they are one evidence; and no key is committed twice. *)
Theorem C19_once_per_double_sign :
  forall (U : evidence -> Prop), (forall x y, U x -> U y -> ekey x = ekey y -> x = y) ->
  forall cid n ops n' obs e1 e2,
    Inv cid n -> ops_ok cid n ops -> no_raw_update ops -> pend_in U n -> ops_in U ops ->
    run n ops = (n', obs) ->
    In e1 (commit_evs n ops) -> In e2 (commit_evs n ops) ->
    v_sig (e_a e1) = v_sig (e_a e2) -> v_sig (e_b e1) = v_sig (e_b e2) ->
    (e_a e1 = e_a e2 /\ e_b e1 = e_b e2 /\ e_total e1 = e_total e2 /\ e_power e1 = e_power e2 /\
     e_time e1 = e_time e2) /\
    (e_hash e1 = e_hash e2 -> e1 = e2) /\
    NoDup (map ekey (commit_evs n ops)).
Proof. exact once_per_double_sign_faithful. Qed.
Print Assumptions C19_once_per_double_sign.

Theorem C19_new_hypotheses_satisfiable :
  (pend_in U1 node0 /\ ops_in U1 history1 /\ no_raw_update history1 /\ commit_evs node0 history1 = [evOK]) /\
  (pool_inv 1 chain2 holder2 /\ pool_inv 1 chain2 poolB /\ p_state holder2 = p_state poolB /\
   p_committed holder2 = p_committed poolB /\ sane (p_state holder2) /\
   (forall x, In x (p_pending holder2) -> U1 x) /\
   snd (check_evidence holder2 chain2 [evOK]) = ROk /\ snd (check_evidence poolB chain2 [evOK]) = ROk).
Proof. exact (conj once_sign_hypotheses agree_hypotheses). Qed.
Print Assumptions C19_new_hypotheses_satisfiable.

(** Update with a state that is not newer than the pool's (the sanity check) changes nothing; with a newer
    one it succeeds and installs the state. *)
Theorem C19_stale_update_rejected :
  (forall p st evs, st_height st <= st_height (p_state p) -> update p st evs = (p, RPanic)) /\
  (forall p st evs, st_height (p_state p) < st_height st ->
     snd (update p st evs) = ROk /\ p_state (fst (update p st evs)) = st).
Proof. exact (conj update_stale update_fresh_state). Qed.
Print Assumptions C19_stale_update_rejected.

(** The proposer's selection under a byte cap: PendingEvidence returns exactly the longest prefix of the
    pending family (key order) whose protobuf size, as listEvidence accumulates it, does not exceed the cap
    -- every non-empty prefix up to it fits and the next entry does not; when everything fits, everything
    is returned. *)
Theorem C19_pending_cap_prefix :
  (forall p cap, cap <> -1 -> forallb validate_basic (p_pending p) = true -> p_size p <> 0 ->
     let k := fit cap 0 (p_pending p) in
     pending_evidence p cap = (firstn k (p_pending p), cum_size 0 (firstn k (p_pending p))) /\
     (forall j, (1 <= j <= k)%nat -> cum_size 0 (firstn j (p_pending p)) <= cap) /\
     ((k < length (p_pending p))%nat -> cap < cum_size 0 (firstn (S k) (p_pending p)))) /\
  (forall p cap, cap <> -1 -> forallb validate_basic (p_pending p) = true -> p_size p <> 0 ->
     (forall j, (1 <= j <= length (p_pending p))%nat -> cum_size 0 (firstn j (p_pending p)) <= cap) ->
     fst (pending_evidence p cap) = p_pending p).
Proof. exact (conj pending_evidence_cap pending_evidence_all_fit). Qed.
Print Assumptions C19_pending_cap_prefix.

(** THE COUNTER evidenceSize (PendingEvidence answers "nothing" when it is 0): starting from a fresh pool,
    after any history of operations none of which is a failed NewPool (a node that cannot start), the keys of
    the pending family are unique and the counter is the size of the family mod 2^32; below 2^32 entries it
    is the size, it is 0 only for an empty family, PendingEvidence(-1) lists the whole family, and a
    successful restart reloads the gossip list from the family. *)
Theorem C19_size_counter_exact :
  (forall st, counted (empty_pool st)) /\
  (forall ops n, counted (n_pool n) -> (forall ob, In ob (snd (run n ops)) -> o_res ob <> RErr) ->
     counted (n_pool (fst (run n ops)))) /\
  (forall p, counted p -> Z.of_nat (length (p_pending p)) < 4294967296 ->
     p_size p = Z.of_nat (length (p_pending p)) /\ (p_size p = 0 <-> p_pending p = [])) /\
  (forall p, counted p -> Z.of_nat (length (p_pending p)) < 4294967296 ->
     forallb validate_basic (p_pending p) = true -> fst (pending_evidence p (-1)) = p_pending p) /\
  (forall p st p', restart p st = (p', ROk) ->
     p_list p' = p_pending p' /\ p_size p' = wrapu32 (Z.of_nat (length (p_pending p')))).
Proof. exact size_counter_all. Qed.
Print Assumptions C19_size_counter_exact.

(** SOURCE TIE: the model's guards and arithmetic ARE the expressions of the Go source (regenerated by
    go2coq on every check): MaxEvidencePerBlock, validateBlock's count limit, Pool.verify's expiry test and
    every check of VerifyDuplicateVote in the source's order, isExpired, Update's sanity check and pruning
    condition, the next pruning height, listEvidence's byte cap, PendingEvidence's shortcut, every branch of
    one CheckEvidence step (fastCheck, expiry on the fast path, committed?, verify, duplicate scan),
    AddEvidence / AddEvidenceFromConsensus / markEvidenceAsCommitted's pending and committed tests,
    ValidateBasic (incl. the two valid vote types) / NewDuplicateVoteEvidence's ordering, WeightedMedian /
    MedianTime and tryAddVote's evidence branch (statement spelled out in SourceTie.v). *)
From Kardia Require Import C19.SourceTie.
Theorem C19_source_tie : C19_source_tie_statement.
Proof. exact C19_source_tie_proof. Qed.
Print Assumptions C19_source_tie.

Theorem C19_source_atoms : C19_source_atoms_statement.
Proof. exact C19_source_atoms_proof. Qed.
Print Assumptions C19_source_atoms.

(** The decision-critical functions of the anchored code have exactly the decisions the source tie knows about
    (go2coq manifests, regenerated from /repo on every check; statement in SourceManifest.v). *)
From Kardia Require Import C19.SourceManifest.
Theorem C19_source_manifest : C19_source_manifest_statement.
Proof. exact C19_source_manifest_proof. Qed.
Print Assumptions C19_source_manifest.
