(** C19 — statements believed true of the repaired code (commits be61253, 7b4a6e2) that are
    stated here but NOT proved (no proof obligations are left open in the development: these
    are Definitions of propositions, not lemmas). *)
From Coq Require Import List ZArith NArith Bool.
From Kardia Require Import Base.Int64 C19.Model C19.ProofsBasic C19.ProofsVerify C19.ProofsPool
     C19.ProofsHistory C19.ProofsOnce.
Import ListNotations.
Local Open Scope Z_scope.

(** Since VerifyDuplicateVote pins both validator indices, two committed pieces of evidence
    made of the same two signed votes should have the same key, provided the hash is a
    function of the evidence content ([hash_functional]).  [C19_once] proves "once" per key;
    the example [replay_with_other_index_rejected] covers the index replay. *)
Definition hash_functional : Prop :=
  forall e1 e2, e_a e1 = e_a e2 -> e_b e1 = e_b e2 -> e_total e1 = e_total e2 ->
                e_power e1 = e_power e2 -> e_time e1 = e_time e2 -> e_hash e1 = e_hash e2.

Definition once_per_double_sign : Prop :=
  hash_functional ->
  forall cid n ops e1 e2,
    Inv cid n -> ops_ok cid n ops -> no_raw_update ops ->
    In (ekey e1) (commit_log n ops) -> In (ekey e2) (commit_log n ops) ->
    v_sig (e_a e1) = v_sig (e_a e2) -> v_sig (e_b e1) = v_sig (e_b e2) -> ekey e1 = ekey e2.

(** Since the fast path of CheckEvidence applies the expiry rule, two pools over the same
    chain with the same state and committed family, whose pending entries are all sound,
    should give the same verdict on every list whose evidence heights do not exceed the state
    height (isExpired subtracts in uint64, verify in int64: they differ above it). *)
Definition block_validity_agreed : Prop :=
  forall cid c p q es,
    pool_inv cid c p -> pool_inv cid c q -> p_state p = p_state q -> p_committed p = p_committed q ->
    (forall e, In e es -> e_height e <= st_height (p_state p)) ->
    (snd (check_evidence p c es) = ROk <-> snd (check_evidence q c es) = ROk).
