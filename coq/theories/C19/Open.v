(** C19 — statements that are NOT proved (no proof obligations are left open in the development: these
    are Definitions of propositions, not lemmas), and the literal forms of two statements formerly listed
    here, which are now proved in corrected form:

    - "once per double-signing": proved as [C19_once_per_double_sign] (ProofsOnceSign.v), over the
      evidence records a history commits, under the explicit hypothesis that keys identify evidence.
      The literal form below was vacuous ([hash_functional] is false as stated, ProofsNewExamples.v).
    - "block validity agreed": proved as [C19_block_validity_agreed] (ProofsAgree.v) with the magnitudes
      bounded and keys identifying evidence; the literal form below is REFUTED
      ([C19_block_validity_agreed_literal_refuted]: negative MaxAgeNumBlocks). *)
From Coq Require Import List ZArith NArith Bool.
From Kardia Require Import Base.Int64 C19.Model C19.ProofsBasic C19.ProofsVerify C19.ProofsPool
     C19.ProofsHistory C19.ProofsOnce.
Import ListNotations.
Local Open Scope Z_scope.

Definition hash_functional : Prop :=
  forall e1 e2, e_a e1 = e_a e2 -> e_b e1 = e_b e2 -> e_total e1 = e_total e2 ->
                e_power e1 = e_power e2 -> e_time e1 = e_time e2 -> e_hash e1 = e_hash e2.

Definition block_validity_agreed_literal : Prop :=
  forall cid c p q es,
    pool_inv cid c p -> pool_inv cid c q -> p_state p = p_state q -> p_committed p = p_committed q ->
    (forall e, In e es -> e_height e <= st_height (p_state p)) ->
    (snd (check_evidence p c es) = ROk <-> snd (check_evidence q c es) = ROk).

(** OPEN (believed true, not proved): the pending family stays sorted by (height, hash) -- the iteration
    order of the database, on which "oldest evidence first" in PendingEvidence and the early stop of the
    pruning loop rely.  [put_pending] inserts in order and [del_pending] filters, so every operation should
    preserve it; the correspondence run compares the family (in database order) after every operation.
    (The two statements listed here before -- the counter evidenceSize is the size of the family, a
    successful restart reloads the gossip list -- are now proved: [C19_size_counter_exact].) *)
From Coq Require Import Sorting.Sorted.
Definition sorted_pending (l : list evidence) : Prop :=
  StronglySorted (fun a b => key2_ltb (ekey a) (ekey b) = true) l.
Definition pending_stays_sorted : Prop :=
  forall ops n, sorted_pending (p_pending (n_pool n)) -> sorted_pending (p_pending (n_pool (fst (run n ops)))).
