(** C19 — "never included in the chain twice", per double-signing (not only per evidence key).

    [C19_once] shows that no evidence KEY (height, hash of the bytes) is committed twice.  Here: two
    pieces of evidence committed along any history that carry the same two signatures have the same
    content (votes incl. validator indices, powers, timestamp) -- so they are the same bytes, the same
    key, and by [C19_once] the same single commit.  This is what commit be61253 (VerifyDuplicateVote pins
    both validator indices) buys; before it, the index was free and the same double-signing could be
    committed under several hashes.

    The pool identifies evidence by its key only (the fast path of CheckEvidence accepts whatever has the
    key of a pending entry), so the statement needs the standing assumption of the development made
    explicit: on the universe [U] of evidence that occurs at all (in operations, in the initial pending
    family, produced by consensus) the key determines the evidence (no Keccak collision). *)
From Coq Require Import List ZArith NArith Bool Lia.
From Kardia Require Import Base.Int64 C19.Model C19.ProofsBasic C19.ProofsVerify C19.ProofsPool
     C19.ProofsHistory C19.ProofsOnce.
Import ListNotations.
Local Open Scope Z_scope.

(** the evidence an operation marks committed *)
Definition committed_evs_by (o : op) (ob : obs) : list evidence :=
  match o, o_res ob with
  | OpApply _ _ es, ROk => es
  | OpUpdate _ es, ROk => es
  | _, _ => []
  end.

Fixpoint commit_evs (n : node) (ops : list op) : list evidence :=
  match ops with
  | [] => []
  | o :: t => let '(n', ob) := step n o in committed_evs_by o ob ++ commit_evs n' t
  end.

Lemma committed_by_evs o ob : committed_by o ob = map ekey (committed_evs_by o ob).
Proof. unfold committed_by, committed_evs_by. destruct o; try reflexivity; destruct (o_res ob); reflexivity. Qed.

Lemma commit_log_evs : forall ops n, commit_log n ops = map ekey (commit_evs n ops).
Proof.
  induction ops as [|o t IH]; intros n; cbn [commit_log commit_evs]; [reflexivity|].
  destruct (step n o) as [n1 ob]. rewrite map_app, committed_by_evs, IH. reflexivity.
Qed.

(* ------------------------------------------------------------------ *)
(** * signatures bind the whole content of sound evidence *)

Lemma bid_eqb_eq a b : bid_eqb a b = true -> a = b.
Proof.
  unfold bid_eqb. intros H. apply andb_true_iff in H. destruct H as [H H3].
  apply andb_true_iff in H. destruct H as [H1 H2].
  apply N.eqb_eq in H1, H2, H3. destruct a, b; cbn in *; subst; reflexivity.
Qed.

Lemma sig_valid_fields cid addr v :
  vote_sig_valid cid addr v = true ->
  s_signer (v_sig v) = addr /\ s_type (v_sig v) = v_type v /\ s_height (v_sig v) = v_height v /\
  s_round (v_sig v) = v_round v /\ s_bid (v_sig v) = v_bid v /\ s_time (v_sig v) = v_time v.
Proof.
  unfold vote_sig_valid, sig_valid. intros H.
  repeat (apply andb_true_iff in H; let H' := fresh "H" in destruct H as [H H']).
  apply N.eqb_eq in H6, H4, H3, H2. apply bid_eqb_eq in H1. apply Z.eqb_eq in H0.
  repeat split; auto.
Qed.

Lemma vote_eq a b :
  v_idx a = v_idx b -> v_addr a = v_addr b -> v_height a = v_height b -> v_round a = v_round b ->
  v_type a = v_type b -> v_time a = v_time b -> v_bid a = v_bid b -> v_sig a = v_sig b -> a = b.
Proof. destruct a, b; cbn; intros; subst; reflexivity. Qed.

(** two sound pieces of evidence (same chain view) with the same two signatures have the same content *)
Lemma sound_same_sigs cid c e1 e2 :
  sound cid c e1 -> sound cid c e2 ->
  v_sig (e_a e1) = v_sig (e_a e2) -> v_sig (e_b e1) = v_sig (e_b e2) ->
  e_a e1 = e_a e2 /\ e_b e1 = e_b e2 /\ e_total e1 = e_total e2 /\ e_power e1 = e_power e2 /\
  e_time e1 = e_time e2.
Proof.
  intros [D1 T1] [D2 T2] Sa Sb.
  destruct D1 as (A1 & A2 & A3 & A4 & A5 & vs1 & val1 & idx1 & Hv1 & Hin1 & Ha1 & Hf1 & I1a & I1b & Hp1 & Ht1 & S1a & S1b).
  destruct D2 as (B1 & B2 & B3 & B4 & B5 & vs2 & val2 & idx2 & Hv2 & Hin2 & Ha2 & Hf2 & I2a & I2b & Hp2 & Ht2 & S2a & S2b).
  destruct (sig_valid_fields _ _ _ S1a) as (Fa1 & Fa2 & Fa3 & Fa4 & Fa5 & Fa6).
  destruct (sig_valid_fields _ _ _ S1b) as (Fb1 & Fb2 & Fb3 & Fb4 & Fb5 & Fb6).
  destruct (sig_valid_fields _ _ _ S2a) as (Ga1 & Ga2 & Ga3 & Ga4 & Ga5 & Ga6).
  destruct (sig_valid_fields _ _ _ S2b) as (Gb1 & Gb2 & Gb3 & Gb4 & Gb5 & Gb6).
  rewrite Sa in Fa1, Fa2, Fa3, Fa4, Fa5, Fa6. rewrite Sb in Fb1, Fb2, Fb3, Fb4, Fb5, Fb6.
  assert (Haddr : v_addr (e_a e1) = v_addr (e_a e2)) by congruence.
  assert (Hh : v_height (e_a e1) = v_height (e_a e2)) by congruence.
  assert (Heh : e_height e1 = e_height e2) by (unfold e_height; rewrite Hh; reflexivity).
  rewrite Heh in Hv1. rewrite Hv2 in Hv1. inversion Hv1; subst vs1. clear Hv1.
  rewrite Haddr in Hf1. rewrite Hf2 in Hf1. inversion Hf1; subst idx1 val1. clear Hf1.
  unfold timed in T1, T2. rewrite Heh in T1. rewrite T2 in T1. inversion T1 as [Ht].
  split; [|split; [|split; [|split]]].
  - apply vote_eq; congruence.
  - apply vote_eq; congruence.
  - congruence.
  - congruence.
  - congruence.
Qed.

(* ------------------------------------------------------------------ *)
(** * every committed evidence is sound, given that keys identify evidence *)

Section Faithful.
Variable U : evidence -> Prop.
Hypothesis U_inj : forall x y, U x -> U y -> ekey x = ekey y -> x = y.

(** the evidence an operation mentions (or that consensus builds in it) belongs to the universe *)
Definition op_in (o : op) : Prop :=
  match o with
  | OpPeer e => U e
  | OpCons e => U e
  | OpBlock _ es => forall e, In e es -> U e
  | OpUpdate _ es => forall e, In e es -> U e
  | OpApply _ _ es => forall e, In e es -> U e
  | OpGen cs hash size va vb => forall e, try_add_vote_gen cs hash size va vb = GEvidence e -> U e
  | _ => True
  end.
Definition ops_in (ops : list op) : Prop := forall o, In o ops -> op_in o.
Definition pend_in (n : node) : Prop := forall e, In e (p_pending (n_pool n)) -> U e.

Lemma step_pend_in n o n' ob : pend_in n -> op_in o -> step n o = (n', ob) -> pend_in n'.
Proof.
  destruct n as [c p]. unfold pend_in. cbn [n_pool]. intros Hp Ho.
  destruct o; cbn [step n_chain n_pool op_in] in *.
  - intros H; inversion H; subst; cbn [n_pool]; auto.
  - intros H; inversion H; subst; cbn [n_pool]; auto.
  - destruct (peer_evidence p c e) as [p' r] eqn:He. intros H; inversion H; subst; clear H. cbn [n_pool].
    unfold peer_evidence in He. destruct (validate_basic e); [|inversion He; subst; auto].
    apply add_evidence_spec in He. destruct He as [_ [_ [Hpe|[_ [_ [_ [_ Hpe]]]]]]]; rewrite Hpe; auto.
    intros x Hx. apply In_put_pending in Hx. destruct Hx as [->|Hx]; auto.
  - destruct (add_from_consensus p e) as [p' r] eqn:He. intros H; inversion H; subst; clear H. cbn [n_pool].
    apply add_from_consensus_spec in He. destruct He as [_ [_ [_ [Hpe|[_ Hpe]]]]]; rewrite Hpe; auto.
    intros x Hx. apply In_put_pending in Hx. destruct Hx as [->|Hx]; auto.
  - destruct (block_evidence p c maxnum es) as [p' r] eqn:He. intros H; inversion H; subst; clear H. cbn [n_pool].
    apply block_evidence_spec in He. destruct He as [_ [_ [Hsub _]]].
    intros x Hx. destruct (Hsub x Hx) as [|[Hi _]]; auto.
  - destruct (pending_evidence p maxbytes). intros H; inversion H; subst; auto.
  - destruct (update p st es) as [p' r] eqn:He. intros H; inversion H; subst; clear H. cbn [n_pool].
    apply update_spec in He. destruct He as [[_ [-> _]]|[_ [_ [_ [Hsub _]]]]]; auto.
    intros x Hx. apply Hp. apply Hsub. exact Hx.
  - destruct (block_evidence p c maxnum es) as [p1 r1] eqn:Hb.
    assert (Hp1 : forall x, In x (p_pending p1) -> U x).
    { apply block_evidence_spec in Hb. destruct Hb as [_ [_ [Hsub _]]].
      intros x Hx. destruct (Hsub x Hx) as [|[Hi _]]; auto. }
    destruct r1; try solve [intros H; inversion H; subst; cbn [n_pool]; exact Hp1].
    destruct (update p1 st es) as [p2 r2] eqn:Hu. intros H; inversion H; subst; clear H. cbn [n_pool].
    apply update_spec in Hu. destruct Hu as [[_ [-> _]]|[_ [_ [_ [Hsub _]]]]]; auto.
    intros x Hx. apply Hp1. apply Hsub. exact Hx.
  - destruct (restart p st) as [p' r] eqn:He. intros H; inversion H; subst; clear H. cbn [n_pool].
    apply restart_spec in He. destruct He as [_ [_ [Hsub _]]]. intros x Hx. apply Hp, Hsub, Hx.
  - destruct (try_add_vote_gen cs hash size va vb) as [| |e] eqn:Hg; try solve [intros H; inversion H; subst; auto].
    destruct (add_from_consensus p e) as [p' r] eqn:He. intros H; inversion H; subst; clear H. cbn [n_pool].
    apply add_from_consensus_spec in He. destruct He as [_ [_ [_ [Hpe|[_ Hpe]]]]]; rewrite Hpe; auto.
    intros x Hx. apply In_put_pending in Hx. destruct Hx as [->|Hx]; auto.
Qed.

(** what a successful ApplyBlock commits was verified by this node: now, or when it became pending *)
Lemma apply_commits_sound cid n mx st es n' ob :
  Inv cid n -> pend_in n -> (forall e, In e es -> U e) ->
  step n (OpApply mx st es) = (n', ob) -> o_res ob = ROk ->
  forall e, In e es -> sound cid (n_chain n) e.
Proof.
  intros Hinv Hp Hu. cbn [step].
  destruct (block_evidence (n_pool n) (n_chain n) mx es) as [p1 r1] eqn:Hb.
  destruct r1; try (intros H; inversion H; subst; cbn; discriminate).
  intros _ _ e He.
  destruct (accept_block _ _ _ _ _ Hinv Hb) as [_ Hall].
  destruct (Hall e He) as [_ [_ [[Hs _]|[x [Hx [Hk [Hs _]]]]]]]; [exact Hs|].
  assert (x = e) by (apply U_inj; auto). subst x. exact Hs.
Qed.

Lemma commit_evs_sound cid : forall ops n n' obs,
  Inv cid n -> ops_ok cid n ops -> no_raw_update ops -> pend_in n -> ops_in ops ->
  run n ops = (n', obs) ->
  forall e, In e (commit_evs n ops) -> sound cid (n_chain n') e /\ U e.
Proof.
  induction ops as [|o t IH]; intros n n' obs Hinv Hok Hnr Hp Hin; cbn [run commit_evs].
  - intros _ e [].
  - destruct (step n o) as [n1 ob] eqn:Hs. destruct (run n1 t) as [n2 obs2] eqn:Hr.
    intros H; inversion H; subst; clear H.
    cbn [ops_ok] in Hok. destruct Hok as [Ho Ht]. rewrite Hs in Ht. cbn [fst] in Ht.
    destruct (step_inv _ _ _ _ _ Hinv Ho Hs) as [Hi1 [Hle1 _]].
    assert (Hnr1 : no_raw_update t) by (intros st es Hi; apply (Hnr st es); right; auto).
    assert (Hin1 : ops_in t) by (intros x Hx; apply Hin; right; auto).
    assert (Hoin : op_in o) by (apply Hin; left; auto).
    pose proof (step_pend_in _ _ _ _ Hp Hoin Hs) as Hp1.
    destruct (run_inv cid t n1 n' obs2 Hi1 Ht Hr) as [_ Hle2].
    intros e He. apply in_app_or in He. destruct He as [He|He].
    + unfold committed_evs_by in He. destruct o; try contradiction.
      * exfalso. apply (Hnr st es). left; reflexivity.
      * destruct (o_res ob) eqn:Hres; try contradiction.
        cbn [op_in] in Hoin. split; [|apply Hoin; exact He].
        eapply sound_mono; [exact Hle2|]. eapply sound_mono; [exact Hle1|].
        exact (apply_commits_sound cid n maxnum st es n1 ob Hinv Hp Hoin Hs Hres e He).
    + eapply IH; eauto.
Qed.

(** the same pair of signed votes is committed under one content only; with the key determined by the
    content (the hash is the Keccak of the bytes) it is one evidence, committed once *)
Lemma once_per_double_sign_faithful cid n ops n' obs e1 e2 :
  Inv cid n -> ops_ok cid n ops -> no_raw_update ops -> pend_in n -> ops_in ops ->
  run n ops = (n', obs) ->
  In e1 (commit_evs n ops) -> In e2 (commit_evs n ops) ->
  v_sig (e_a e1) = v_sig (e_a e2) -> v_sig (e_b e1) = v_sig (e_b e2) ->
  (e_a e1 = e_a e2 /\ e_b e1 = e_b e2 /\ e_total e1 = e_total e2 /\ e_power e1 = e_power e2 /\
   e_time e1 = e_time e2) /\
  (e_hash e1 = e_hash e2 -> e1 = e2) /\
  NoDup (map ekey (commit_evs n ops)).
Proof.
  intros Hinv Hok Hnr Hp Hin Hr H1 H2 Sa Sb.
  destruct (commit_evs_sound cid ops n n' obs Hinv Hok Hnr Hp Hin Hr e1 H1) as [S1 U1].
  destruct (commit_evs_sound cid ops n n' obs Hinv Hok Hnr Hp Hin Hr e2 H2) as [S2 U2].
  pose proof (sound_same_sigs cid _ e1 e2 S1 S2 Sa Sb) as Hc.
  split; [exact Hc|]. split.
  - intros Hh. apply U_inj; auto. unfold ekey, e_height. destruct Hc as [Ha _]. rewrite Ha, Hh. reflexivity.
  - rewrite <- commit_log_evs. apply (once_gen cid ops n Hinv Hok Hnr).
Qed.

End Faithful.
