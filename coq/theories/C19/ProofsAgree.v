(** C19 — correct nodes agree on the validity of a block's evidence.

    Since the fast path of CheckEvidence applies the expiry rule (commit 7b4a6e2), whether a list of
    evidence passes CheckEvidence at a node whose pending entries are all sound (the invariant [pool_inv],
    which every history of verified evidence preserves) does not depend on what that node happens to have
    pending: it is decided by the chain, the latest state and the committed family alone.  Hence two
    correct nodes at the same height give the same verdict on every proposed block.

    Hypotheses made explicit: the key identifies the evidence on the universe [U] of evidence that occurs
    (no Keccak collision); heights are below 2^63 and the evidence is not about the future
    ([isExpired] subtracts in uint64, [verify] in int64: they differ above the state height and for a
    negative MaxAgeNumBlocks). *)
From Coq Require Import List ZArith NArith Bool Lia.
From Kardia Require Import Base.Int64 C19.Model C19.ProofsBasic C19.ProofsVerify C19.ProofsPool
     C19.ProofsHistory C19.ProofsExact.
Import ListNotations.
Local Open Scope Z_scope.

(** on sane magnitudes the two expiry rules of the code coincide *)
Definition sane (st : pstate) : Prop :=
  0 <= st_height st < two63 /\ 0 <= max_age_blocks (st_params st) < two63.

Lemma is_expired_iff st h t :
  sane st -> 0 <= h <= st_height st -> (is_expired st h t = true <-> expired st h t).
Proof.
  intros [[H0 H1] [M0 M1]] [Hh0 Hh1]. unfold is_expired, expired.
  assert (E1 : wrap64 (st_height st) = st_height st) by (apply wrap64_id; unfold in_int64, min_int64, max_int64, two63 in *; lia).
  assert (E2 : wrap64 h = h) by (apply wrap64_id; unfold in_int64, min_int64, max_int64, two63 in *; lia).
  assert (E3 : wrap64 (st_height st - h) = st_height st - h) by (apply wrap64_id; unfold in_int64, min_int64, max_int64, two63 in *; lia).
  assert (E4 : wrapu64 (max_age_blocks (st_params st)) = max_age_blocks (st_params st)) by (apply wrapu64_id; unfold two64, two63 in *; lia).
  assert (E5 : wrapu64 (st_height st - h) = st_height st - h) by (apply wrapu64_id; unfold two64, two63 in *; lia).
  rewrite E1, E2, E3, E4, E5. rewrite andb_true_iff, !Z.ltb_lt. tauto.
Qed.

Lemma is_expired_false_iff st h t :
  sane st -> 0 <= h <= st_height st -> (is_expired st h t = false <-> ~ expired st h t).
Proof.
  intros Hs Hh. pose proof (is_expired_iff st h t Hs Hh) as H.
  destruct (is_expired st h t); split.
  - discriminate.
  - intros Hn. exfalso. apply Hn. apply H. reflexivity.
  - intros _ Hx. apply H in Hx. discriminate.
  - reflexivity.
Qed.

Lemma e_height_nonneg e : 0 <= e_height e.
Proof. unfold e_height. lia. Qed.

Section Agree.
Variable U : evidence -> Prop.
Hypothesis U_inj : forall x y, U x -> U y -> ekey x = ekey y -> x = y.

(** what decides the fate of one piece of evidence: chain, state, committed family *)
Definition good (cid : N) (c : chain) (p : pool) (e : evidence) : Prop :=
  sound cid c e /\ ~ expired (p_state p) (e_height e) (e_time e) /\ is_committed p e = false.

Lemma check_ok_good cid c p es :
  pool_inv cid c p -> (forall x, In x (p_pending p) -> U x) -> (forall e, In e es -> U e) ->
  sane (p_state p) -> (forall e, In e es -> e_height e <= st_height (p_state p)) ->
  snd (check_evidence p c es) = ROk ->
  NoDup (map e_hash es) /\ forall e, In e es -> good cid c p e.
Proof.
  intros [Hc [Hs Hd]] Hpu Heu Hsane Hh Hr.
  destruct (check_evidence p c es) as [p' r] eqn:H. cbn [snd] in Hr. subst r.
  unfold check_evidence in H. apply check_loop_spec in H. destruct H as [_ [_ [_ [_ Hok]]]].
  destruct (Hok eq_refl) as [Hnd [_ [Hall _]]]. split; [exact Hnd|].
  intros e He. destruct (Hall e He) as [[Hp Hx]|[Hn Hv]].
  - unfold is_pending in Hp. apply existsb_exists in Hp. destruct Hp as [x [Hx1 Hk]].
    apply key2_eqb_eq in Hk. assert (x = e) by (apply U_inj; auto). subst x.
    split; [apply Hs; exact Hx1|]. split; [|apply Hd; exact Hx1].
    apply (is_expired_false_iff (p_state p) (e_height e) (e_time e) Hsane); [|exact Hx].
    split; [apply e_height_nonneg|apply Hh; exact He].
  - apply verify_ok in Hv. rewrite Hc in Hv. destruct Hv as [Hso Hex]. split; [exact Hso|]. split; assumption.
Qed.

Lemma good_check_ok cid c p es :
  st_chain (p_state p) = cid ->
  sane (p_state p) -> (forall e, In e es -> e_height e <= st_height (p_state p)) ->
  NoDup (map e_hash es) -> (forall e, In e es -> good cid c p e) ->
  snd (check_evidence p c es) = ROk.
Proof.
  intros Hc Hsane Hh Hnd Hg. unfold check_evidence. apply check_loop_accepts; auto.
  intros e He. destruct (Hg e He) as [Hs [Hx Hcm]]. unfold acceptable. rewrite Hc.
  split; [exact Hs|]. split; [exact Hx|]. split; [exact Hcm|].
  intros _. apply (is_expired_false_iff (p_state p) (e_height e) (e_time e) Hsane); [|exact Hx].
  split; [apply e_height_nonneg|apply Hh; exact He].
Qed.

(** the verdict of CheckEvidence at a correct node is a function of chain, state and committed family *)
Lemma check_verdict cid c p es :
  pool_inv cid c p -> (forall x, In x (p_pending p) -> U x) -> (forall e, In e es -> U e) ->
  sane (p_state p) -> (forall e, In e es -> e_height e <= st_height (p_state p)) ->
  (snd (check_evidence p c es) = ROk <->
   (NoDup (map e_hash es) /\ forall e, In e es -> good cid c p e)).
Proof.
  intros Hinv Hpu Heu Hsane Hh. split.
  - apply check_ok_good; auto.
  - intros [Hnd Hg]. destruct Hinv as [Hc _]. eapply good_check_ok; eauto.
Qed.

Lemma block_validity_agreed cid c p q es :
  pool_inv cid c p -> pool_inv cid c q -> p_state p = p_state q -> p_committed p = p_committed q ->
  (forall x, In x (p_pending p) -> U x) -> (forall x, In x (p_pending q) -> U x) -> (forall e, In e es -> U e) ->
  sane (p_state p) -> (forall e, In e es -> e_height e <= st_height (p_state p)) ->
  (snd (check_evidence p c es) = ROk <-> snd (check_evidence q c es) = ROk).
Proof.
  intros Hp Hq Hst Hco Hpu Hqu Heu Hsane Hh.
  rewrite (check_verdict cid c p es Hp Hpu Heu Hsane Hh).
  assert (Hsane' : sane (p_state q)) by (rewrite <- Hst; exact Hsane).
  assert (Hh' : forall e, In e es -> e_height e <= st_height (p_state q)) by (rewrite <- Hst; exact Hh).
  rewrite (check_verdict cid c q es Hq Hqu Heu Hsane' Hh').
  assert (Hg : forall e, good cid c p e <-> good cid c q e).
  { intros e. unfold good, is_committed. rewrite Hst, Hco. tauto. }
  split; intros [Hnd H]; (split; [exact Hnd|]); intros e He; apply Hg; apply H; exact He.
Qed.

(** the same for a whole block (ValidateBasic and the count limit do not look at the pool) *)
Lemma block_evidence_agreed cid c p q mx es :
  pool_inv cid c p -> pool_inv cid c q -> p_state p = p_state q -> p_committed p = p_committed q ->
  (forall x, In x (p_pending p) -> U x) -> (forall x, In x (p_pending q) -> U x) -> (forall e, In e es -> U e) ->
  sane (p_state p) -> (forall e, In e es -> e_height e <= st_height (p_state p)) ->
  (snd (block_evidence p c mx es) = ROk <-> snd (block_evidence q c mx es) = ROk).
Proof.
  intros Hp Hq Hst Hco Hpu Hqu Heu Hsane Hh. unfold block_evidence.
  destruct (negb (forallb validate_basic es)); [cbn [snd]; tauto|].
  destruct (Z.ltb mx (Z.of_nat (length es))); [cbn [snd]; tauto|].
  eapply block_validity_agreed; eauto.
Qed.

End Agree.
