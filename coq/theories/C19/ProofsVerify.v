(** C19 — what a successful verification means; what a generator must supply. *)
From Coq Require Import List ZArith NArith Bool Lia.
From Kardia Require Import Base.Int64 C19.Model C19.ProofsBasic.
Import ListNotations.
Local Open Scope Z_scope.

(** [double_sign cid c e]: the evidence consists of two votes of one validator (same address,
    both carrying that validator's index in the set) for the same
    height, round and type and different block ids, both validly signed by that validator
    (ideal signatures over chain id, type, height, round, block id, vote time), the validator
    belongs to the set the chain has for that height, and the two powers the evidence states
    are that validator's power and the total power of that set. *)
Definition double_sign (cid : N) (c : chain) (e : evidence) : Prop :=
  let a := e_a e in let b := e_b e in
  v_height a = v_height b /\ v_round a = v_round b /\ v_type a = v_type b /\
  v_addr a = v_addr b /\ bid_eqb (v_bid a) (v_bid b) = false /\
  exists vs val idx,
    vals_at c (e_height e) = Some vs /\ In val vs /\ val_addr val = v_addr a /\
    find_idx (v_addr a) vs 0 = Some (idx, val) /\ v_idx a = idx /\ v_idx b = idx /\
    val_power val = e_power e /\ total_power vs = e_total e /\
    vote_sig_valid cid (v_addr a) a = true /\ vote_sig_valid cid (v_addr a) b = true.

(** the evidence carries the time of the block of its height *)
Definition timed (c : chain) (e : evidence) : Prop := block_time c (e_height e) = Some (e_time e).

(** expiry as verify.go computes it: older than MaxAgeNumBlocks blocks AND older than
    MaxAgeDuration (both strictly) *)
Definition expired (st : pstate) (evh evt : Z) : Prop :=
  max_age_dur (st_params st) < sat_sub (st_time st) evt /\
  max_age_blocks (st_params st) < wrap64 (wrap64 (st_height st) - wrap64 evh).

Definition sound (cid : N) (c : chain) (e : evidence) : Prop := double_sign cid c e /\ timed c e.

Lemma find_idx_addr a : forall vs i j v, find_idx a vs i = Some (j, v) -> val_addr v = a /\ In v vs.
Proof.
  induction vs as [|x t IH]; cbn; [discriminate|]. intros i j v.
  destruct (N.eqb (val_addr x) a) eqn:E.
  - intros H; inversion H; subst. apply N.eqb_eq in E. auto.
  - intros H. destruct (IH _ _ _ H). auto.
Qed.

Lemma find_idx_find_val a : forall vs i j v, find_idx a vs i = Some (j, v) -> find_val a vs = Some v.
Proof.
  induction vs as [|x t IH]; cbn; [discriminate|]. intros i j v.
  destruct (N.eqb (val_addr x) a); [intros H; inversion H; auto|]. apply IH.
Qed.

Lemma find_val_find_idx a : forall vs i v, find_val a vs = Some v -> exists j, find_idx a vs i = Some (j, v).
Proof.
  induction vs as [|x t IH]; cbn; [discriminate|]. intros i v.
  destruct (N.eqb (val_addr x) a); [intros H; inversion H; eauto|]. apply IH.
Qed.

Lemma verify_duplicate_vote_ok e cid vs :
  verify_duplicate_vote e cid vs = VOk ->
  exists val idx,
    find_idx (v_addr (e_a e)) vs 0 = Some (idx, val) /\ v_idx (e_a e) = idx /\ v_idx (e_b e) = idx /\
    v_height (e_a e) = v_height (e_b e) /\ v_round (e_a e) = v_round (e_b e) /\
    v_type (e_a e) = v_type (e_b e) /\ v_addr (e_a e) = v_addr (e_b e) /\
    bid_eqb (v_bid (e_a e)) (v_bid (e_b e)) = false /\
    val_power val = e_power e /\ total_power vs = e_total e /\
    vote_sig_valid cid (val_addr val) (e_a e) = true /\
    vote_sig_valid cid (val_addr val) (e_b e) = true.
Proof.
  unfold verify_duplicate_vote.
  destruct (find_idx (v_addr (e_a e)) vs 0) as [[idx val]|] eqn:Hf; [|discriminate].
  destruct (N.eqb (v_idx (e_a e)) idx) eqn:I1; cbn [andb negb]; [|discriminate].
  destruct (N.eqb (v_idx (e_b e)) idx) eqn:I2; cbn [andb negb]; [|discriminate].
  destruct (N.eqb (v_height (e_a e)) (v_height (e_b e))) eqn:E1; cbn [andb negb]; [|discriminate].
  destruct (N.eqb (v_round (e_a e)) (v_round (e_b e))) eqn:E2; cbn [andb negb]; [|discriminate].
  destruct (N.eqb (v_type (e_a e)) (v_type (e_b e))) eqn:E3; cbn [andb negb]; [|discriminate].
  destruct (N.eqb (v_addr (e_a e)) (v_addr (e_b e))) eqn:E4; cbn [negb]; [|discriminate].
  destruct (bid_eqb (v_bid (e_a e)) (v_bid (e_b e))) eqn:E5; [discriminate|].
  destruct (Z.eqb (val_power val) (e_power e)) eqn:E6; cbn [negb]; [|discriminate].
  destruct (Z.eqb (total_power vs) (e_total e)) eqn:E7; cbn [negb]; [|discriminate].
  destruct (vote_sig_valid cid (val_addr val) (e_a e)) eqn:E8; cbn [negb]; [|discriminate].
  destruct (vote_sig_valid cid (val_addr val) (e_b e)) eqn:E9; cbn [negb]; [|discriminate].
  intros _. exists val, idx.
  apply N.eqb_eq in E1, E2, E3, E4, I1, I2. apply Z.eqb_eq in E6, E7. auto 14.
Qed.

Lemma verify_ok p c e :
  verify p c e = VOk ->
  sound (st_chain (p_state p)) c e /\ ~ expired (p_state p) (e_height e) (e_time e).
Proof.
  unfold verify.
  destruct (block_time c (e_height e)) as [evt|] eqn:Hb; [|discriminate].
  destruct (Z.eqb (e_time e) evt) eqn:Et; cbn [negb]; [|discriminate].
  apply Z.eqb_eq in Et. subst evt.
  destruct (Z.ltb (max_age_dur (st_params (p_state p))) (sat_sub (st_time (p_state p)) (e_time e)) &&
            Z.ltb (max_age_blocks (st_params (p_state p)))
                  (wrap64 (wrap64 (st_height (p_state p)) - wrap64 (e_height e)))) eqn:Ex; [discriminate|].
  destruct (vals_at c (e_height e)) as [vs|] eqn:Hv; [|discriminate].
  intros Hd. apply verify_duplicate_vote_ok in Hd.
  destruct Hd as [val [idx [Hf [I1 [I2 [H1 [H2 [H3 [H4 [H5 [H6 [H7 [H8 H9]]]]]]]]]]]]].
  destruct (find_idx_addr _ _ _ _ _ Hf) as [Ha Hin].
  split; [split|].
  - unfold double_sign. repeat (split; [assumption|]).
    rewrite Ha in H8, H9. exists vs, val, idx. auto 12.
  - exact Hb.
  - unfold expired. intros [Hd Hbk].
    apply andb_false_iff in Ex. destruct Ex as [Ex|Ex]; apply Z.ltb_ge in Ex; lia.
Qed.

(** verify reads only the pool's state, never its pending or committed families *)
Lemma verify_state_only p q c e : p_state p = p_state q -> verify p c e = verify q c e.
Proof. unfold verify. intros ->. reflexivity. Qed.

(* ------------------------------------------------------------------ *)
(** * chain extension keeps soundness *)

Definition chain_le (c c' : chain) : Prop :=
  (forall h t, block_time c h = Some t -> block_time c' h = Some t) /\
  (forall h vs, vals_at c h = Some vs -> vals_at c' h = Some vs).

Lemma chain_le_refl c : chain_le c c.
Proof. split; auto. Qed.

Lemma sound_mono cid c c' e : chain_le c c' -> sound cid c e -> sound cid c' e.
Proof.
  intros [Ht Hv] [Hd Htm]. split.
  - unfold double_sign in *.
    destruct Hd as [H1 [H2 [H3 [H4 [H5 [vs [val [idx [Hvs Hrest]]]]]]]]].
    repeat (split; [assumption|]). exists vs, val, idx. split; auto.
  - unfold timed in *. auto.
Qed.

(* ------------------------------------------------------------------ *)
(** * the generator's side *)

(** two votes that a vote set of (height, round, type) reports as conflicting: same
    validator, both signatures verified against that validator's key, different keys *)
Definition conflicting_votes (cid : N) (va vb : vote) : Prop :=
  v_height va = v_height vb /\ v_round va = v_round vb /\ v_type va = v_type vb /\
  v_addr va = v_addr vb /\ key_eq (v_bid va) (v_bid vb) = false /\
  vote_basic va = true /\ vote_basic vb = true /\
  vote_sig_valid cid (v_addr va) va = true /\ vote_sig_valid cid (v_addr va) vb = true.

Lemma key_eq_false_bid a b : key_eq a b = false -> bid_eqb a b = false.
Proof.
  unfold key_eq. intros H. destruct (bid_eqb a b) eqn:E; auto.
  apply key_lt_irrefl_eqb in E. rewrite E in H. discriminate.
Qed.

Lemma key_eq_sym_false a b : key_eq a b = false -> key_eq b a = false.
Proof. unfold key_eq. rewrite (key_cmp_antisym b a). destruct (key_cmp a b); cbn; congruence. Qed.

Lemma bid_eqb_sym a b : bid_eqb a b = bid_eqb b a.
Proof. unfold bid_eqb. rewrite (N.eqb_sym (b_hash a)), (N.eqb_sym (b_total a)), (N.eqb_sym (b_phash a)). reflexivity. Qed.

(** Evidence built by NewDuplicateVoteEvidence from two conflicting votes of a member of the
    set of their height, with that set and THE TIME OF THE BLOCK OF THAT HEIGHT, passes
    ValidateBasic and every pool's verify over the same chain, as long as it has not expired
    there. *)
Lemma generated_verifies p c hash size va vb ts vs :
  conflicting_votes (st_chain (p_state p)) va vb ->
  vals_at c (Z.of_N (v_height va)) = Some vs ->
  (exists idx val, find_idx (v_addr va) vs 0 = Some (idx, val) /\ v_idx va = idx /\ v_idx vb = idx) ->
  block_time c (Z.of_N (v_height va)) = Some ts ->
  ~ expired (p_state p) (Z.of_N (v_height va)) ts ->
  exists e, new_duplicate_vote_evidence hash size va vb ts vs = Some e /\
            validate_basic e = true /\ verify p c e = VOk.
Proof.
  intros [Hh [Hr [Ht [Ha [Hk [Hba [Hbb [Hsa Hsb]]]]]]]] Hvs [idx [val [Hfi [Hia Hib]]]] Hbt Hexp.
  unfold new_duplicate_vote_evidence.
  pose proof (find_idx_find_val _ _ _ _ _ Hfi) as Hf. rewrite Hf.
  destruct (find_val_addr _ _ _ Hf) as [Hva _].
  assert (Hnexp : (Z.ltb (max_age_dur (st_params (p_state p))) (sat_sub (st_time (p_state p)) ts) &&
            Z.ltb (max_age_blocks (st_params (p_state p)))
                  (wrap64 (wrap64 (st_height (p_state p)) - wrap64 (Z.of_N (v_height va))))) = false).
  { destruct (Z.ltb (max_age_dur (st_params (p_state p))) (sat_sub (st_time (p_state p)) ts)) eqn:E1;
      cbn [andb]; auto.
    destruct (Z.ltb (max_age_blocks (st_params (p_state p)))
                    (wrap64 (wrap64 (st_height (p_state p)) - wrap64 (Z.of_N (v_height va))))) eqn:E2; auto.
    exfalso. apply Hexp. apply Z.ltb_lt in E1, E2. split; assumption. }
  destruct (key_lt (v_bid va) (v_bid vb)) eqn:Hlt.
  - eexists. split; [reflexivity|]. split.
    + unfold validate_basic. cbn [e_a e_b]. rewrite Hba, Hbb, Hlt. reflexivity.
    + unfold verify, e_height. cbn [e_a e_b e_time]. rewrite Hbt, Z.eqb_refl. cbn [negb].
      rewrite Hnexp, Hvs.
      unfold verify_duplicate_vote. cbn [e_a e_b e_power e_total]. rewrite Hfi.
      rewrite Hia, Hib, !N.eqb_refl. cbn [andb negb].
      rewrite Hh, Hr, Ht, !N.eqb_refl. cbn [andb negb].
      rewrite Ha, N.eqb_refl. cbn [negb].
      rewrite (key_eq_false_bid _ _ Hk), !Z.eqb_refl. cbn [negb].
      rewrite Hva, Hsa, Hsb. reflexivity.
  - pose proof (key_lt_total _ _ Hk Hlt) as Hlt2.
    eexists. split; [reflexivity|]. split.
    + unfold validate_basic. cbn [e_a e_b]. rewrite Hba, Hbb, Hlt2. reflexivity.
    + unfold verify, e_height. cbn [e_a e_b e_time]. rewrite <- Hh, Hbt, Z.eqb_refl. cbn [negb].
      rewrite Hnexp, Hvs.
      unfold verify_duplicate_vote. cbn [e_a e_b e_power e_total]. rewrite <- Ha, Hfi.
      rewrite Hia, Hib, !N.eqb_refl. cbn [andb negb].
      rewrite <- Hh, <- Hr, <- Ht, !N.eqb_refl. cbn [andb negb].
      rewrite bid_eqb_sym, (key_eq_false_bid _ _ Hk), !Z.eqb_refl. cbn [negb].
      rewrite Hva. rewrite Ha in Hsb at 1. rewrite <- Ha in Hsb.
      rewrite Hsb, Hsa. reflexivity.
Qed.

(** ... and the time of that block is the only timestamp that works *)
Lemma generated_needs_block_time p c hash size va vb ts vs e :
  new_duplicate_vote_evidence hash size va vb ts vs = Some e ->
  verify p c e = VOk ->
  e_time e = ts /\ block_time c (e_height e) = Some ts.
Proof.
  unfold new_duplicate_vote_evidence.
  destruct (find_val (v_addr va) vs); [|discriminate].
  destruct (key_lt (v_bid va) (v_bid vb)); intros H; inversion H; subst e; clear H;
    intros Hv; apply verify_ok in Hv; destruct Hv as [[_ Ht] _]; unfold timed in Ht;
    cbn [e_time] in *; auto.
Qed.
