(** C14 — lemmas about the store model: key-value families, chains of states produced by
    updateState, the invariant kept by Save, what Load / LoadValidators / LoadConsensusParams
    return on such a database. *)
From Coq Require Import List ZArith NArith Bool Lia.
From Kardia Require Import C14.Model.
Import ListNotations.
Local Open Scope N_scope.

(* ------------------------------------------------------------------ *)
(** * Key-value families *)

Lemma get_put_eq {V} k (v : V) l : get k (put k v l) = Some v.
Proof. unfold put; cbn [get]. now rewrite N.eqb_refl. Qed.

Lemma get_put_neq {V} k k' (v : V) l : k' <> k -> get k (put k' v l) = get k l.
Proof. intros Hn; unfold put; cbn [get]. destruct (N.eqb_spec k' k); congruence. Qed.

Lemma get_del_eq {V} k (l : list (N * V)) : get k (del k l) = None.
Proof.
  induction l as [|[k' v] t IH]; cbn [del get]; auto.
  destruct (N.eqb_spec k' k) as [E|E]; auto. cbn [get]. destruct (N.eqb_spec k' k); congruence.
Qed.

Lemma get_del_neq {V} k k' (l : list (N * V)) : k' <> k -> get k (del k' l) = get k l.
Proof.
  intros Hn. induction l as [|[k2 v] t IH]; cbn [del get]; auto.
  destruct (N.eqb_spec k2 k') as [E|E].
  - subst. destruct (N.eqb_spec k' k); congruence.
  - cbn [get]. destruct (N.eqb_spec k2 k); auto.
Qed.

(* ------------------------------------------------------------------ *)
(** * Chains of states *)

Record cstep := { c_blk : block; c_changed : bool; c_next : valset }.

Definition upd (s : cstate) (x : cstep) : cstate :=
  update_state s (c_blk x) (c_changed x) (c_next x).

(** the states of a chain, genesis first *)
Fixpoint states (s : cstate) (xs : list cstep) : list cstate :=
  match xs with
  | [] => [s]
  | x :: t => s :: states (upd s x) t
  end.

Definition final_state (g : cstate) (xs : list cstep) : cstate := fold_left upd xs g.

(** a validator set that ValidatorSetFromProto accepts: non-empty, no negative power *)
Definition wfset (vs : valset) : Prop := from_proto vs = Some vs.

(** blocks are applied at consecutive heights; every new next-set is well formed *)
Fixpoint chain_wf (s : cstate) (xs : list cstep) : Prop :=
  match xs with
  | [] => True
  | x :: t => k_height (c_blk x) = last_height s + 1 /\ wfset (c_next x) /\ chain_wf (upd s x) t
  end.

(** MakeGenesisState + the genesis block [gb] written by Genesis.Commit *)
Definition genesis_ok (g : cstate) (gb : block) : Prop :=
  last_height g = 0 /\ k_height gb = 0 /\ last_vals g = None /\ last_bid g = bid_zero /\
  initial_height g <> 0 /\ k_time gb = last_time g /\ app_hash g = 0 /\
  wfset (vals g) /\ wfset (next_vals g).

Section Chain.
Variable H : list (N * Z) -> N.
Variable PK : N -> N -> N.

Notation valset_key := (valset_key H).
Notation okey := (okey H).
Notation save := (save H PK).

(** write every block, then save the state it produces — the order ApplyBlock uses *)
Fixpoint save_chain (d : db) (s : cstate) (xs : list cstep) : option (db * cstate) :=
  match xs with
  | [] => Some (d, s)
  | x :: t => match save (write_block d (c_blk x)) (upd s x) with
              | Some d' => save_chain d' (upd s x) t
              | None => None
              end
  end.

Definition boot_chain (g : cstate) (gb : block) (xs : list cstep) : option (db * cstate) :=
  match save (write_block empty_db gb) g with
  | Some d => save_chain d g xs
  | None => None
  end.

(** an explicit collision of the hash behind ValidatorSet.Hash() *)
Definition collision : Prop := exists a b : list (N * Z), a <> b /\ H a = H b.

Lemma keylist_dec (a b : list (N * Z)) : {a = b} + {a <> b}.
Proof. decide equality. decide equality; [apply Z.eq_dec | apply N.eq_dec]. Qed.

Lemma wfset_nonempty vs : wfset vs -> vs_vals vs <> [].
Proof. unfold wfset, from_proto. destruct (vs_vals vs); congruence. Qed.

Lemma key_eq_keylist a b :
  wfset a -> wfset b -> valset_key a = valset_key b -> keylist a = keylist b \/ collision.
Proof.
  intros Wa Wb E. apply wfset_nonempty in Wa. apply wfset_nonempty in Wb.
  unfold Model.valset_key in E.
  destruct (vs_vals a) eqn:Ea; [congruence|]. destruct (vs_vals b) eqn:Eb; [congruence|].
  destruct (keylist_dec (keylist a) (keylist b)) as [K|K]; [now left|].
  right. exists (keylist a), (keylist b). split; auto.
Qed.

(** the record under the key of [X] holds a well-formed set with the same key *)
Definition has (vi : list (N * vinfo)) (X : valset) : Prop :=
  exists vs' l, get (valset_key X) vi = Some {| vi_set := Some vs'; vi_lhc := l |} /\
                valset_key vs' = valset_key X /\ wfset vs'.

Lemma has_put vi X Y l : has vi X -> wfset Y ->
  has (put (valset_key Y) {| vi_set := Some Y; vi_lhc := l |} vi) X.
Proof.
  intros (vs' & l' & G & K & W) WY.
  destruct (N.eq_dec (valset_key Y) (valset_key X)) as [E|E].
  - exists Y, l. rewrite E, get_put_eq. auto.
  - exists vs', l'. rewrite get_put_neq by auto. auto.
Qed.

Lemma has_put_self vi Y l : wfset Y -> has (put (valset_key Y) {| vi_set := Some Y; vi_lhc := l |} vi) Y.
Proof. intros W. exists Y, l. rewrite get_put_eq. auto. Qed.

(** the state record Save writes for [s] *)
Definition rec_of (s : cstate) : srec :=
  {| r_chain := chain_id s; r_ih := initial_height s; r_last := okey (last_vals s);
     r_vals := valset_key (vals s); r_next := valset_key (next_vals s);
     r_params := PK (params s) (lhcpc s) |}.

(** what holds for a state [si] that was saved at some point *)
Definition saved_ok (p0 : N) (d : db) (si : cstate) : Prop :=
  get (last_height si) (d_cs d) = Some (rec_of si) /\
  has (d_vi d) (vals si) /\ has (d_vi d) (next_vals si) /\
  (0 < last_height si -> exists X, last_vals si = Some X /\ wfset X /\ has (d_vi d) X) /\
  (exists p, get (PK (params si) (lhcpc si)) (d_pi d) = Some p /\ pi_params p = p0) /\
  params si = p0.

(** the invariant after saving [s] as the head; [ss] = all states saved so far *)
Record inv (p0 : N) (d : db) (s : cstate) (ss : list cstate) : Prop := {
  i_head : d_head d = Some (last_height s);
  i_meta : exists m, get (last_height s) (d_bm d) = Some m /\ m_height m = last_height s /\
                     (0 < last_height s -> m_bid m = last_bid s) /\ m_time m = last_time s;
  i_app : 0 < last_height s -> get (last_height s) (d_ah d) = Some (app_hash s);
  i_next : get (valset_key (next_vals s)) (d_vi d) =
           Some {| vi_set := Some (next_vals s); vi_lhc := lhvc s |};
  i_par : get (PK (params s) (lhcpc s)) (d_pi d) = Some {| pi_params := params s; pi_lhc := lhcpc s |};
  i_wf : wfset (vals s) /\ wfset (next_vals s) /\ initial_height s <> 0 /\
         (last_height s = 0 -> last_bid s = bid_zero /\ last_vals s = None /\ app_hash s = 0);
  i_in : In s ss;
  i_le : forall si, In si ss -> last_height si <= last_height s;
  i_all : forall si, In si ss -> saved_ok p0 d si;
  i_pall : forall k p, get k (d_pi d) = Some p -> pi_params p = p0 }.

Lemma save_genesis g gb : genesis_ok g gb ->
  exists d, save (write_block empty_db gb) g = Some d /\ inv (params g) d g [g].
Proof.
  intros (Hh & Hb & Hl & Hbid & Hih & Ht & Ha & Wv & Wn).
  unfold Model.save. rewrite Hh. cbn [N.eqb negb andb].
  rewrite Hl. cbn [save_vinfo Model.okey].
  eexists. split; [reflexivity|].
  assert (Hv : has (put (valset_key (next_vals g)) {| vi_set := Some (next_vals g); vi_lhc := lhvc g |}
                     (put (valset_key (vals g)) {| vi_set := Some (vals g); vi_lhc := lhvc g |}
                        (put 0 {| vi_set := None; vi_lhc := lhvc g |} []))) (vals g)).
  { apply has_put; auto. apply has_put_self; auto. }
  constructor; cbn [d_head d_bm d_ah d_vi d_pi d_cs write_block empty_db].
  - now rewrite Hb, Hh.
  - rewrite Hh, Hb. eexists. rewrite get_put_eq. split; [reflexivity|]. cbn. repeat split; auto. lia.
  - rewrite Hh. lia.
  - now rewrite get_put_eq.
  - now rewrite get_put_eq.
  - repeat split; auto.
  - now left.
  - intros si [<-|[]]. lia.
  - intros si [<-|[]]. unfold saved_ok; cbn [d_cs d_vi d_pi].
    split. { rewrite Hh, get_put_eq. unfold rec_of. now rewrite Hl. }
    split; [exact Hv|]. split; [apply has_put_self; auto|].
    split; [rewrite Hh; lia|]. split; [|reflexivity].
    eexists. rewrite get_put_eq. split; reflexivity.
  - intros k p. unfold put; cbn [get]. destruct (N.eqb _ k); [|discriminate]. now intros [= <-].
Qed.

Lemma save_step p0 d s ss x :
  inv p0 d s ss -> params s = p0 ->
  k_height (c_blk x) = last_height s + 1 -> wfset (c_next x) ->
  exists d', save (write_block d (c_blk x)) (upd s x) = Some d' /\ inv p0 d' (upd s x) (upd s x :: ss).
Proof.
  intros I Hp Hk Wn. destruct I as [Ihead Imeta Iapp Inext Ipar (Wv & Wnx & Hih & Hz) Iin Ile Iall Ipall].
  set (s' := upd s x).
  assert (Hh : last_height s' = last_height s + 1) by (unfold s', upd, update_state; cbn; exact Hk).
  assert (Hne : N.eqb (last_height s') 0 = false) by (apply N.eqb_neq; lia).
  unfold Model.save. rewrite Hne.
  replace (last_vals s') with (Some (vals s)) by reflexivity.
  cbn [negb andb is_none save_vinfo Model.okey].
  eexists. split; [reflexivity|].
  assert (Hnew : forall si, In si ss -> last_height si <> last_height s').
  { intros si Hi. specialize (Ile si Hi). lia. }
  constructor; cbn [d_head d_bm d_ah d_vi d_pi d_cs write_block].
  - now rewrite Hh, Hk.
  - rewrite Hh, <- Hk. eexists. rewrite get_put_eq. split; [reflexivity|]. cbn. repeat split; auto.
  - intros _. rewrite Hh, <- Hk, get_put_eq. reflexivity.
  - replace (next_vals s') with (c_next x) by reflexivity. now rewrite get_put_eq.
  - now rewrite get_put_eq.
  - split; [exact Wnx|]. split; [exact Wn|]. split; [exact Hih|]. intros Hc. lia.
  - now left.
  - intros si [<-|Hi]; [lia|]. specialize (Ile si Hi). lia.
  - assert (Hvs : has (d_vi d) (next_vals s)).
    { exists (next_vals s), (lhvc s). auto. }
    intros si [<-|Hi].
    + unfold saved_ok; cbn [d_cs d_vi d_pi].
      split. { rewrite get_put_eq. reflexivity. }
      split. { apply has_put; auto. }
      split. { apply has_put_self; auto. }
      split. { intros _. exists (vals s). split; [reflexivity|]. split; [exact Wv|].
               apply has_put; auto. destruct (Iall s Iin) as (_ & Hv & _). exact Hv. }
      split; [|exact Hp].
      eexists. rewrite get_put_eq. split; [reflexivity|]. exact Hp.
    + destruct (Iall si Hi) as (Hc & Hv & Hn & Hl & (p & Hg & Hpp) & Hpe).
      unfold saved_ok; cbn [d_cs d_vi d_pi].
      split. { rewrite get_put_neq; auto. intros E. apply (Hnew si Hi). congruence. }
      split. { apply has_put; auto. }
      split. { apply has_put; auto. }
      split. { intros Hpos. destruct (Hl Hpos) as (X & HX & WX & HhX). exists X. split; auto. split; auto. apply has_put; auto. }
      split; [|exact Hpe].
      destruct (N.eq_dec (PK (params s') (lhcpc s')) (PK (params si) (lhcpc si))) as [E|E].
      * eexists. rewrite E, get_put_eq. split; [reflexivity|]. exact Hp.
      * exists p. rewrite get_put_neq; auto.
  - intros k p. unfold put; cbn [get]. destruct (N.eqb _ k).
    + intros [= <-]. exact Hp.
    + apply Ipall.
Qed.

Lemma upd_params s x : params (upd s x) = params s.
Proof. reflexivity. Qed.

Lemma save_chain_inv p0 xs : forall d s ss,
  inv p0 d s ss -> params s = p0 -> chain_wf s xs ->
  exists d' ss', save_chain d s xs = Some (d', final_state s xs) /\ inv p0 d' (final_state s xs) ss' /\
                 (forall si, In si ss -> In si ss') /\
                 (forall si, In si (states s xs) -> In si ss').
Proof.
  induction xs as [|x t IH]; intros d s ss I Hp Hw.
  - exists d, ss. cbn [save_chain final_state fold_left states].
    split; [reflexivity|]. split; [exact I|]. split; [auto|].
    intros si [<-|[]]. apply (i_in _ _ _ _ I).
  - destruct Hw as (Hk & Wn & Hw).
    destruct (save_step p0 d s ss x I Hp Hk Wn) as (d1 & Hs & I1).
    destruct (IH d1 (upd s x) (upd s x :: ss) I1 Hp Hw) as (d' & ss' & Hc & I' & Hmono & Hin).
    exists d', ss'. cbn [save_chain final_state fold_left states]. rewrite Hs. split; [exact Hc|].
    split; [exact I'|]. split.
    + intros si Hi. apply Hmono. now right.
    + intros si [<-|Hi]; [|auto]. apply Hmono. right. apply (i_in _ _ _ _ I).
Qed.


(* ------------------------------------------------------------------ *)
(** * What the loads return on such a database *)

Lemma read_has d X : has (d_vi d) X ->
  exists vs' l, read_set d (valset_key X) = inr (vs', l) /\ valset_key vs' = valset_key X /\ wfset vs'.
Proof.
  intros (vs' & l & G & K & W). exists vs', l. unfold read_set. rewrite G. cbn [vi_set vi_lhc].
  unfold wfset in W. rewrite W. auto.
Qed.

Definition restored (s l : cstate) : Prop :=
  chain_id l = chain_id s /\ initial_height l = initial_height s /\ last_height l = last_height s /\
  last_bid l = last_bid s /\ last_time l = last_time s /\ app_hash l = app_hash s /\
  params l = params s /\ lhvc l = lhvc s /\ lhcpc l = lhcpc s /\
  next_vals l = next_vals s /\
  (keylist (vals l) = keylist (vals s) \/ collision) /\
  match last_vals s, last_vals l with
  | None, None => True
  | Some a, Some b => keylist b = keylist a \/ collision
  | _, _ => False
  end.

Lemma load_of_inv p0 d s ss : inv p0 d s ss -> exists l, load d = LOk l /\ restored s l.
Proof.
  intros [Ihead (m & Gm & Hmh & Hmb & Hmt) Iapp Inext Ipar (Wv & Wn & Hih & Hz) Iin Ile Iall Ipall].
  destruct (Iall s Iin) as (Hc & Hv & Hn & Hl & _ & _).
  unfold load. rewrite Ihead. unfold load_at. rewrite Hc, Gm.
  cbn [rec_of r_ih r_last r_vals r_next r_params r_chain].
  destruct (read_has d _ Hv) as (cv & lc & Rv & Kv & Wcv). rewrite Rv.
  assert (Rn : read_set d (valset_key (next_vals s)) = inr (next_vals s, lhvc s)).
  { unfold read_set. rewrite Inext. cbn [vi_set vi_lhc]. unfold wfset in Wn. now rewrite Wn. }
  rewrite Rn, Ipar. cbn [pi_params pi_lhc].
  assert (Eih : (if N.eqb (initial_height s) 0 then 1 else initial_height s) = initial_height s).
  { destruct (N.eqb_spec (initial_height s) 0); congruence. }
  rewrite Eih, Hmh.
  destruct (N.ltb_spec 0 (last_height s)) as [Hpos|Hzero].
  - destruct (Hl Hpos) as (X & HX & WX & HhX).
    rewrite (Iapp Hpos). rewrite HX. cbn [Model.okey].
    destruct (read_has d _ HhX) as (lv & ll & Rl & Kl & Wlv). rewrite Rl.
    eexists. split; [reflexivity|]. unfold restored. cbn.
    repeat split; auto.
    + apply key_eq_keylist; auto.
    + rewrite HX. apply key_eq_keylist; auto.
  - assert (E0 : last_height s = 0) by lia. destruct (Hz E0) as (Hb0 & Hl0 & Ha0).
    eexists. split; [reflexivity|]. unfold restored. cbn.
    repeat split; auto.
    + apply key_eq_keylist; auto.
    + now rewrite Hl0.
Qed.

Lemma load_validators_of_inv p0 d s ss si : inv p0 d s ss -> In si ss -> 0 < last_height si ->
  exists X vs, last_vals si = Some X /\ load_validators d (last_height si) = VOk vs /\
               (keylist vs = keylist X \/ collision).
Proof.
  intros I Hi Hpos. destruct (i_all _ _ _ _ I si Hi) as (Hc & _ & _ & Hl & _ & _).
  destruct (Hl Hpos) as (X & HX & WX & (vs' & l & G & K & W)).
  exists X, vs'. split; [exact HX|]. unfold load_validators. rewrite Hc.
  cbn [rec_of r_last]. rewrite HX. cbn [Model.okey]. rewrite G. cbn [vi_set].
  unfold wfset in W. rewrite W. split; [reflexivity|]. apply key_eq_keylist; auto.
Qed.

Lemma load_params_of_inv p0 d s ss si : inv p0 d s ss -> In si ss ->
  load_params d (last_height si) = POk (params si).
Proof.
  intros I Hi. destruct (i_all _ _ _ _ I si Hi) as (Hc & _ & _ & _ & (p & G & Hp) & Hpe).
  unfold load_params. rewrite Hc. cbn [rec_of r_params]. rewrite G. congruence.
Qed.

(** the database and the list of saved states of a whole chain *)
Lemma boot_chain_inv g gb xs : genesis_ok g gb -> chain_wf g xs ->
  exists d ss, boot_chain g gb xs = Some (d, final_state g xs) /\
               inv (params g) d (final_state g xs) ss /\
               (forall si, In si (states g xs) -> In si ss).
Proof.
  intros Hg Hw. destruct (save_genesis g gb Hg) as (d0 & Hs & I0).
  destruct (save_chain_inv (params g) xs d0 g [g] I0 eq_refl Hw) as (d & ss & Hc & I & _ & Hin).
  exists d, ss. unfold boot_chain. rewrite Hs. auto.
Qed.

Theorem roundtrip_partial g gb xs : genesis_ok g gb -> chain_wf g xs ->
  exists d l, boot_chain g gb xs = Some (d, final_state g xs) /\ load d = LOk l /\
              restored (final_state g xs) l.
Proof.
  intros Hg Hw. destruct (boot_chain_inv g gb xs Hg Hw) as (d & ss & Hb & I & _).
  destruct (load_of_inv _ _ _ _ I) as (l & Hl & Hr). exists d, l. auto.
Qed.

Theorem load_validators_chain g gb xs : genesis_ok g gb -> chain_wf g xs ->
  exists d, boot_chain g gb xs = Some (d, final_state g xs) /\
    forall sh, In sh (states g xs) -> 0 < last_height sh ->
      exists X vs, last_vals sh = Some X /\ load_validators d (last_height sh) = VOk vs /\
                   (keylist vs = keylist X \/ collision).
Proof.
  intros Hg Hw. destruct (boot_chain_inv g gb xs Hg Hw) as (d & ss & Hb & I & Hin).
  exists d. split; [exact Hb|]. intros sh Hi Hpos.
  apply (load_validators_of_inv _ _ _ _ sh I (Hin sh Hi) Hpos).
Qed.

Theorem load_params_chain g gb xs : genesis_ok g gb -> chain_wf g xs ->
  exists d, boot_chain g gb xs = Some (d, final_state g xs) /\
    forall sh, In sh (states g xs) -> load_params d (last_height sh) = POk (params g).
Proof.
  intros Hg Hw. destruct (boot_chain_inv g gb xs Hg Hw) as (d & ss & Hb & I & Hin).
  exists d. split; [exact Hb|]. intros sh Hi.
  rewrite (load_params_of_inv _ _ _ _ sh I (Hin sh Hi)).
  destruct (i_all _ _ _ _ I sh (Hin sh Hi)) as (_ & _ & _ & _ & _ & Hp). now rewrite Hp.
Qed.

(** the set entitled to sign height h (LastValidators of state h) is the Validators of state
    h-1, and Validators of state h is NextValidators of state h-1 *)
Lemma upd_sets s x : last_vals (upd s x) = Some (vals s) /\ vals (upd s x) = next_vals s /\
                     next_vals (upd s x) = c_next x.
Proof. repeat split. Qed.

End Chain.
