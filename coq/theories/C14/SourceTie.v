(** C14 — tie of the store model to the Go SOURCE.
    [Generated/C14Source.v] is produced on every check by /verif/go2coq from /repo's working tree:
    every guard, stored constant and stored integer operand of saveState, saveValidatorsInfo,
    dbStore.PruneState / Load / LoadValidators / LoadConsensusParams / LoadStateFromDBOrGenesisDoc,
    loadStateAtHeight, LatestBlockState.ToProto, StateFromProto, MakeGenesisState, updateState
    (kai/state/cstate) and ValidatorSet.Hash / ToProto / ValidateBasic / IsNilOrEmpty,
    ValidatorSetFromProto, Validator.ValidateBasic, ValidatorFromProto (types).

    For each function of C14/Model.v a twin [..._src] is written here whose every decision and
    every stored integer IS the generated expression applied to the model's own operands, and the
    model function is proved equal to its twin; the [_atoms] lemmas pin WHAT each expression reads
    (field, getter, nil test).  A Go edit that flips a comparison, changes a constant (the 1 that
    replaces a zero InitialHeight / a zero [from]), swaps an operand (e.g. which getter feeds
    totalVotingPower) or renames/removes a guard re-opens these obligations.

    Not in the translated subset (so not tied here; the correspondence run covers them): which
    32-byte hash goes into which field of the state record and is read back from which field,
    the struct literals of updateState / Validator.ToProto, the byte-slice key constructors of
    rawdb/schema.go (the height suffix is compared byte for byte in the run, Model.be64). *)
From Coq Require Import List ZArith NArith Bool Lia String.
From Kardia Require Import Base.Int64 Base.GoSem.
From Kardia Require Import Generated.C14Source.
From Kardia Require Import C14.Model C14.Proofs C14.ProofsPrune.
Import ListNotations.
Local Open Scope N_scope.

(* ------------------------------------------------------------------ *)
(** * uint64 operands of the model are [N]; the source expressions are over [Z] *)

Lemma N_eqb0 a : (Z.of_N a =? 0)%Z = (a =? 0).
Proof. destruct a; reflexivity. Qed.
Lemma N_gtb0 a : (Z.of_N a >? 0)%Z = (0 <? a).
Proof. destruct a; reflexivity. Qed.
Lemma N_ltbZ a b : (Z.of_N a <? Z.of_N b)%Z = (a <? b).
Proof. destruct (N.ltb_spec a b); [apply Z.ltb_lt|apply Z.ltb_ge]; lia. Qed.

Definition is_some {A} (o : option A) : bool := negb (is_none o).
Definition is_inl {A B} (x : A + B) : bool := match x with inl _ => true | inr _ => false end.
Definition u64 (z : Z) : Prop := (0 <= z < 18446744073709551616)%Z.

(* ------------------------------------------------------------------ *)
(** * ValidatorSet.Hash, IsNilOrEmpty, ValidateBasic, ValidatorSetFromProto *)

Section Tie.
Variable H : list (N * Z) -> N.
Variable PK : N -> N -> N.

Definition len (vs : valset) : Z := Z.of_nat (List.length (vs_vals vs)).

(** Hash(): [len(vs.Validators) == 0] -> zero hash *)
Definition valset_key_src (vs : valset) : N :=
  if types__ValidatorSet_Hash__if_len_vs_Validators_eq_0 (len vs) then 0 else H (keylist vs).
Lemma tie_valset_key vs : valset_key H vs = valset_key_src vs.
Proof.
  unfold valset_key, valset_key_src, types__ValidatorSet_Hash__if_len_vs_Validators_eq_0, len.
  destruct (vs_vals vs); reflexivity.
Qed.

(** IsNilOrEmpty() of a non-nil set *)
Definition is_nil_or_empty_src (vs : valset) : bool :=
  types__ValidatorSet_IsNilOrEmpty__ret_vs_eq_nil_or_len_vs_Validators_eq_0 false (len vs).
(** Validator.ValidateBasic() returns an error: nil / negative power / address not hex (the
    Address type is 20 bytes, its Hex() is always a hex address: the atom is [true]) *)
Definition validator_bad_src (v : validator) : bool :=
  types__Validator_ValidateBasic__if_v_eq_nil false
  || types__Validator_ValidateBasic__if_v_VotingPower_lt_0 (v_power v)
  || types__Validator_ValidateBasic__if_not_common_IsHexAddress_v_Address_Hex true.
(** ValidatorSet.ValidateBasic() as called at the end of ValidatorSetFromProto *)
Definition from_proto_src (vs : valset) : option valset :=
  if types__ValidatorSet_ValidateBasic__if_vs_IsNilOrEmpty (is_nil_or_empty_src vs) then None
  else if existsb validator_bad_src (vs_vals vs) then None
  else if validator_bad_src (vs_prop vs) then None
  else Some vs.

Lemma validator_bad_spec v : validator_bad_src v = negb (0 <=? v_power v)%Z.
Proof.
  unfold validator_bad_src, types__Validator_ValidateBasic__if_v_eq_nil,
    types__Validator_ValidateBasic__if_v_VotingPower_lt_0,
    types__Validator_ValidateBasic__if_not_common_IsHexAddress_v_Address_Hex.
  cbn [negb orb]. rewrite orb_false_r. now rewrite Z.leb_antisym, negb_involutive.
Qed.

Lemma forallb_not_bad l :
  forallb (fun v => (0 <=? v_power v)%Z) l = negb (existsb validator_bad_src l).
Proof.
  induction l as [|v t IH]; [reflexivity|]. cbn [forallb existsb].
  rewrite IH, validator_bad_spec, negb_orb, negb_involutive. reflexivity.
Qed.

Lemma tie_from_proto vs : from_proto vs = from_proto_src vs.
Proof.
  unfold from_proto, from_proto_src, types__ValidatorSet_ValidateBasic__if_vs_IsNilOrEmpty,
    is_nil_or_empty_src, types__ValidatorSet_IsNilOrEmpty__ret_vs_eq_nil_or_len_vs_Validators_eq_0, len.
  destruct (vs_vals vs) as [|v t] eqn:E; [reflexivity|].
  cbn [List.length orb]. change (Z.of_nat (S (List.length t)) =? 0)%Z with false. cbn iota.
  rewrite forallb_not_bad, validator_bad_spec.
  destruct (existsb validator_bad_src (v :: t)); cbn [negb andb]; [reflexivity|].
  destruct (0 <=? v_power (vs_prop vs))%Z; reflexivity.
Qed.

(** the proto round trip of the integer fields: ToProto stores [vs.totalVotingPower],
    ValidatorSetFromProto stores [vp.GetTotalVotingPower()], ValidatorFromProto stores
    [vp.GetVotingPower()] and [vp.GetProposerPriority()] — each unchanged, which is why the model
    keeps the set as it is in the record *)
Lemma tie_proto_fields (vs : valset) (v : validator) :
  types__ValidatorSetFromProto__put_vals_totalVotingPower
    (types__ValidatorSet_ToProto__put_vp_TotalVotingPower (vs_total vs)) = vs_total vs /\
  types__ValidatorFromProto__put_v_VotingPower (v_power v) = v_power v /\
  types__ValidatorFromProto__put_v_ProposerPriority (v_prio v) = v_prio v.
Proof. repeat split. Qed.

(** both conversion loops visit every index 0 .. len-1 once *)
Fixpoint loop_src (guard : Z -> Z -> bool) (next : Z -> Z) (fuel : nat) (i t : Z) : list Z :=
  match fuel with
  | O => []
  | S f => if guard i t then i :: loop_src guard next f (next i) t else []
  end.

Lemma loop_enum guard next (n : nat) : forall i t,
  (forall j, guard j t = (j <? t)%Z) ->
  (forall j, (i <= j < t)%Z -> next j = (j + 1)%Z) ->
  (i + Z.of_nat n = t)%Z ->
  loop_src guard next (S n) i t = map (fun k => (i + Z.of_nat k)%Z) (seq 0 n).
Proof.
  induction n as [|n IH]; intros i t Hg Hn Hs.
  - cbn [loop_src seq map]. rewrite Hg. rewrite (proj2 (Z.ltb_ge i t)) by lia. reflexivity.
  - change (loop_src guard next (S (S n)) i t)
      with (if guard i t then i :: loop_src guard next (S n) (next i) t else []).
    rewrite Hg. rewrite (proj2 (Z.ltb_lt i t)) by lia.
    rewrite Hn by lia. rewrite (IH (i + 1)%Z t Hg) by (try (intros j Hj; apply Hn); lia).
    cbn [seq map]. rewrite <- seq_shift, map_map. f_equal; [lia|].
    apply map_ext. intros k. lia.
Qed.

Lemma tie_to_proto_loop (vs : valset) : (len vs < 9223372036854775807)%Z ->
  loop_src types__ValidatorSet_ToProto__for_i_lt_len_vs_Validators types__ValidatorSet_ToProto__set_i_op
           (S (List.length (vs_vals vs))) types__ValidatorSet_ToProto__forinit_i (len vs)
  = map Z.of_nat (seq 0 (List.length (vs_vals vs))).
Proof.
  intros Hb. unfold len in *. rewrite (loop_enum _ _ (List.length (vs_vals vs))
    types__ValidatorSet_ToProto__forinit_i (Z.of_nat (List.length (vs_vals vs)))).
  - apply map_ext. intros k. reflexivity.
  - reflexivity.
  - intros j Hj. unfold types__ValidatorSet_ToProto__set_i_op, go_add. apply wrap_id.
    unfold in_range, types__ValidatorSet_ToProto__forinit_i in *. lia.
  - reflexivity.
Qed.

Lemma tie_from_proto_loop (vs : valset) : (len vs < 9223372036854775807)%Z ->
  loop_src types__ValidatorSetFromProto__for_i_lt_len_vp_Validators types__ValidatorSetFromProto__set_i_op
           (S (List.length (vs_vals vs))) types__ValidatorSetFromProto__forinit_i (len vs)
  = map Z.of_nat (seq 0 (List.length (vs_vals vs))).
Proof.
  intros Hb. unfold len in *. rewrite (loop_enum _ _ (List.length (vs_vals vs))
    types__ValidatorSetFromProto__forinit_i (Z.of_nat (List.length (vs_vals vs)))).
  - apply map_ext. intros k. reflexivity.
  - reflexivity.
  - intros j Hj. unfold types__ValidatorSetFromProto__set_i_op, go_add. apply wrap_id.
    unfold in_range, types__ValidatorSetFromProto__forinit_i in *. lia.
  - reflexivity.
Qed.

(* ------------------------------------------------------------------ *)
(** * saveValidatorsInfo, LatestBlockState.ToProto, saveState *)

(** saveValidatorsInfo: [valSet != nil] -> the set's hash and the set in the record, else the
    zero hash and a record without a set *)
Definition okey_src (o : option valset) : N :=
  if kai_state_cstate__saveValidatorsInfo__if_valSet_ne_nil (is_some o)
  then match o with Some vs => valset_key_src vs | None => 0 end else 0.
Lemma tie_okey o : okey H o = okey_src o.
Proof. destruct o as [vs|]; cbn; [apply tie_valset_key|reflexivity]. Qed.

(** ToProto: [state.LastBlockHeight == 0] -> zero hash, else LastValidators.Hash() (a nil
    dereference without LastValidators); saveState: [state.LastBlockHeight == 0] -> the three
    sets are written *)
Definition save_src (d : db) (s : cstate) : option db :=
  let h := Z.of_N (last_height s) in
  if negb (kai_state_cstate__LatestBlockState_ToProto__if_state_LastBlockHeight_eq_0 h)
     && is_none (last_vals s) then None else
  let '(k_last, k_vals, vi1) :=
    if kai_state_cstate__saveState__if_state_LastBlockHeight_eq_0 h then
      let '(kl, vi') := save_vinfo H (d_vi d) (lhvc s) (last_vals s) in
      let '(kv, vi'') := save_vinfo H vi' (lhvc s) (Some (vals s)) in
      (kl, kv, vi'')
    else (okey_src (last_vals s), valset_key_src (vals s), d_vi d) in
  let '(k_next, vi2) := save_vinfo H vi1 (lhvc s) (Some (next_vals s)) in
  let k_par := PK (params s) (lhcpc s) in
  Some {| d_cs := put (last_height s)
                      {| r_chain := chain_id s;
                         r_ih := Z.to_N (kai_state_cstate__LatestBlockState_ToProto__put_sm_InitialHeight
                                           (Z.of_N (initial_height s)));
                         r_last := k_last; r_vals := k_vals; r_next := k_next; r_params := k_par |} (d_cs d);
          d_vi := vi2;
          d_pi := put k_par {| pi_params := params s; pi_lhc := lhcpc s |} (d_pi d);
          d_bm := d_bm d; d_ah := d_ah d; d_head := d_head d |}.

Lemma tie_save d s : save H PK d s = save_src d s.
Proof.
  unfold save, save_src, kai_state_cstate__LatestBlockState_ToProto__if_state_LastBlockHeight_eq_0,
    kai_state_cstate__saveState__if_state_LastBlockHeight_eq_0,
    kai_state_cstate__LatestBlockState_ToProto__put_sm_InitialHeight.
  rewrite N_eqb0, N2Z.id, <- tie_okey, <- tie_valset_key. reflexivity.
Qed.

(* ------------------------------------------------------------------ *)
(** * loadStateAtHeight, Load, LoadValidators, LoadConsensusParams *)

(** ReadConsensusValidatorsInfo + ValidatorSetFromProto: a missing record is dereferenced,
    [vp == nil] and a set ValidateBasic refuses are errors (panic(err)) *)
Definition read_set_src (d : db) (k : N) : pclass + (valset * N) :=
  match get k (d_vi d) with
  | None => inl PNil
  | Some r =>
    if types__ValidatorSetFromProto__if_vp_eq_nil (is_none (vi_set r)) then inl PBadSet else
    match vi_set r with
    | None => inl PBadSet
    | Some vs => match from_proto_src vs with
                 | None => inl PBadSet
                 | Some x => inr (x, vi_lhc r)
                 end
    end
  end.
Lemma tie_read_set d k : read_set d k = read_set_src d k.
Proof.
  unfold read_set, read_set_src, types__ValidatorSetFromProto__if_vp_eq_nil.
  destruct (get k (d_vi d)) as [r|]; [|reflexivity].
  destruct (vi_set r) as [vs|]; cbn [is_none]; [|reflexivity]. now rewrite tie_from_proto.
Qed.

Definition load_at_src (d : db) (h : N) : lres :=
  let sp := get h (d_cs d) in
  if kai_state_cstate__loadStateAtHeight__if_sp_eq_nil (is_none sp) then LEmpty else
  match sp with
  | None => LEmpty
  | Some r =>
    (* StateFromProto stores pb.InitialHeight; a zero is replaced by the constant 1 *)
    let ih0 := kai_state_cstate__StateFromProto__put_state_InitialHeight (Z.of_N (r_ih r)) in
    let ih := if kai_state_cstate__loadStateAtHeight__if_state_InitialHeight_eq_0 ih0
              then kai_state_cstate__loadStateAtHeight__put_state_InitialHeight else ih0 in
    let bm := get h (d_bm d) in
    if kai_state_cstate__loadStateAtHeight__if_blockMeta_eq_nil (is_none bm) then LPanic PNoMeta else
    match bm with
    | None => LPanic PNoMeta
    | Some m =>
      let lbh := kai_state_cstate__loadStateAtHeight__put_state_LastBlockHeight (Z.of_N (m_height m)) in
      let ntx := kai_state_cstate__loadStateAtHeight__put_state_LastBlockTotalTx (Z.of_N (m_ntx m)) in
      let bid := if kai_state_cstate__loadStateAtHeight__if_height_gt_0 (Z.of_N h) then m_bid m else bid_zero in
      let app := if kai_state_cstate__loadStateAtHeight__if_height_gt_0_2 (Z.of_N h)
                 then match get h (d_ah d) with Some a => a | None => 0 end else 0 in
      let lastv : pclass + option valset :=
        if kai_state_cstate__loadStateAtHeight__if_state_LastBlockHeight_gt_0 lbh then
          match read_set_src d (r_last r) with inl c => inl c | inr (x, _) => inr (Some x) end
        else inr None in
      match lastv with
      | inl c => LPanic c
      | inr lv =>
        match read_set_src d (r_vals r) with
        | inl c => LPanic c
        | inr (cv, _) =>
          match read_set_src d (r_next r) with
          | inl c => LPanic c
          | inr (nv, nlhc) =>
            let cp := get (r_params r) (d_pi d) in
            if kai_state_cstate__loadStateAtHeight__if_cparams_eq_nil (is_none cp) then LPanic PNoParams else
            match cp with
            | None => LPanic PNoParams
            | Some p =>
              LOk {| chain_id := r_chain r; initial_height := Z.to_N ih;
                     last_height := Z.to_N lbh; last_total_tx := Z.to_N ntx;
                     last_bid := bid; last_time := m_time m;
                     next_vals := nv; vals := cv; last_vals := lv;
                     lhvc := Z.to_N (kai_state_cstate__loadStateAtHeight__put_state_LastHeightValidatorsChanged
                                       (Z.of_N nlhc));
                     lhcpc := Z.to_N (kai_state_cstate__loadStateAtHeight__put_state_LastHeightConsensusParamsChanged
                                        (Z.of_N (pi_lhc p)));
                     app_hash := app; params := pi_params p |}
            end
          end
        end
      end
    end
  end.

Lemma tie_load_at d h : load_at d h = load_at_src d h.
Proof.
  unfold load_at, load_at_src,
    kai_state_cstate__loadStateAtHeight__if_sp_eq_nil,
    kai_state_cstate__StateFromProto__put_state_InitialHeight,
    kai_state_cstate__loadStateAtHeight__if_state_InitialHeight_eq_0,
    kai_state_cstate__loadStateAtHeight__put_state_InitialHeight,
    kai_state_cstate__loadStateAtHeight__if_blockMeta_eq_nil,
    kai_state_cstate__loadStateAtHeight__put_state_LastBlockHeight,
    kai_state_cstate__loadStateAtHeight__put_state_LastBlockTotalTx,
    kai_state_cstate__loadStateAtHeight__if_height_gt_0,
    kai_state_cstate__loadStateAtHeight__if_height_gt_0_2,
    kai_state_cstate__loadStateAtHeight__if_state_LastBlockHeight_gt_0,
    kai_state_cstate__loadStateAtHeight__if_cparams_eq_nil,
    kai_state_cstate__loadStateAtHeight__put_state_LastHeightValidatorsChanged,
    kai_state_cstate__loadStateAtHeight__put_state_LastHeightConsensusParamsChanged.
  destruct (get h (d_cs d)) as [r|]; cbn [is_none]; [|reflexivity].
  destruct (get h (d_bm d)) as [m|]; cbn [is_none]; [|reflexivity].
  rewrite !N_gtb0, N_eqb0, <- !tie_read_set.
  destruct (0 <? m_height m).
  - destruct (read_set d (r_last r)) as [c|[x l]]; [reflexivity|].
    destruct (read_set d (r_vals r)) as [c|[cv l2]]; [reflexivity|].
    destruct (read_set d (r_next r)) as [c|[nv nl]]; [reflexivity|].
    destruct (get (r_params r) (d_pi d)) as [p|]; cbn [is_none]; [|reflexivity].
    rewrite !N2Z.id. destruct (r_ih r =? 0); rewrite ?N2Z.id; reflexivity.
  - destruct (read_set d (r_vals r)) as [c|[cv l2]]; [reflexivity|].
    destruct (read_set d (r_next r)) as [c|[nv nl]]; [reflexivity|].
    destruct (get (r_params r) (d_pi d)) as [p|]; cbn [is_none]; [|reflexivity].
    rewrite !N2Z.id. destruct (r_ih r =? 0); rewrite ?N2Z.id; reflexivity.
Qed.

(** Load(): [state != nil] -> the state, else the empty state *)
Definition is_lempty (r : lres) : bool := match r with LEmpty => true | _ => false end.
Definition load_src (d : db) : lres :=
  match d_head d with
  | None => LPanic PNil
  | Some h => let r := load_at_src d h in
              if kai_state_cstate__dbStore_Load__if_state_ne_nil (negb (is_lempty r)) then r else LEmpty
  end.
Lemma tie_load d : load d = load_src d.
Proof.
  unfold load, load_src, kai_state_cstate__dbStore_Load__if_state_ne_nil.
  destruct (d_head d) as [h|]; [|reflexivity]. rewrite tie_load_at.
  destruct (load_at_src d h); reflexivity.
Qed.

(** LoadStateFromDBOrGenesisDoc: [state.IsEmpty()] -> MakeGenesisState + Save *)
Definition boot_src (m : machine) (g : cstate) : machine * obs :=
  match load_src (m_db m) with
  | LPanic c => (m, ObBoot (LPanic c))
  | r =>
    if kai_state_cstate__dbStore_LoadStateFromDBOrGenesisDoc__if_state_IsEmpty (is_lempty r) then
      match save_src (m_db m) g with
      | Some d' => ({| m_db := d'; m_cur := Some g |}, ObBoot (LOk g))
      | None => (m, ObBoot (LPanic PNil))
      end
    else match r with
         | LOk s => ({| m_db := m_db m; m_cur := Some s |}, ObBoot (LOk s))
         | _ => (m, ObBoot r)
         end
  end.
Lemma tie_boot m g : step H PK m (OBoot g) = boot_src m g.
Proof.
  unfold step, boot_src, kai_state_cstate__dbStore_LoadStateFromDBOrGenesisDoc__if_state_IsEmpty.
  rewrite <- tie_load, <- tie_save. destruct (load (m_db m)); reflexivity.
Qed.

(** LoadValidators: [cstate == nil] -> ErrNoConsensusStateForHeight, [valInfo == nil] ->
    ErrNoValSetForHeight, otherwise ValidatorSetFromProto of the record named by
    LastValidatorsInfoHash *)
Definition load_validators_src (d : db) (h : N) : vres :=
  let cs := get h (d_cs d) in
  if kai_state_cstate__dbStore_LoadValidators__if_cstate_eq_nil (is_none cs) then VNoState else
  match cs with
  | None => VNoState
  | Some r =>
    let vi := get (r_last r) (d_vi d) in
    if kai_state_cstate__dbStore_LoadValidators__if_valInfo_eq_nil (is_none vi) then VNoSet else
    match vi with
    | None => VNoSet
    | Some vi => match read_set_src d (r_last r) with
                 | inl _ => VInvalid
                 | inr (x, _) => VOk x
                 end
    end
  end.
Lemma tie_load_validators d h : load_validators d h = load_validators_src d h.
Proof.
  unfold load_validators, load_validators_src, kai_state_cstate__dbStore_LoadValidators__if_cstate_eq_nil,
    kai_state_cstate__dbStore_LoadValidators__if_valInfo_eq_nil.
  destruct (get h (d_cs d)) as [r|]; cbn [is_none]; [|reflexivity].
  rewrite <- tie_read_set. unfold read_set.
  destruct (get (r_last r) (d_vi d)) as [vi|]; cbn [is_none]; [|reflexivity].
  destruct (vi_set vi) as [vs|]; [|reflexivity]. destruct (from_proto vs); reflexivity.
Qed.

(** LoadConsensusParams: [params == nil] -> error *)
Definition load_params_src (d : db) (h : N) : pres :=
  match get h (d_cs d) with
  | None => PPanic
  | Some r =>
    let p := get (r_params r) (d_pi d) in
    if kai_state_cstate__dbStore_LoadConsensusParams__if_params_eq_nil (is_none p) then PErr else
    match p with None => PErr | Some p => POk (pi_params p) end
  end.
Lemma tie_load_params d h : load_params d h = load_params_src d h.
Proof.
  unfold load_params, load_params_src, kai_state_cstate__dbStore_LoadConsensusParams__if_params_eq_nil.
  destruct (get h (d_cs d)) as [r|]; [|reflexivity].
  destruct (get (r_params r) (d_pi d)); reflexivity.
Qed.

(* ------------------------------------------------------------------ *)
(** * PruneState *)

(** [from == 0] -> from = 1 *)
Definition from1_src (from : N) : N :=
  if kai_state_cstate__dbStore_PruneState__if_from_eq_0 (Z.of_N from)
  then Z.to_N kai_state_cstate__dbStore_PruneState__let_from else from.
Lemma tie_from1 from : from1 from = from1_src from.
Proof.
  unfold from1, from1_src, kai_state_cstate__dbStore_PruneState__if_from_eq_0,
    kai_state_cstate__dbStore_PruneState__let_from. now rewrite N_eqb0.
Qed.

(** [for i := from; i < to; i++]: exactly the heights the model walks *)
Lemma tie_heights from to : u64 (Z.of_N to) ->
  map Z.of_N (heights from to) =
  loop_src kai_state_cstate__dbStore_PruneState__for_i_lt_to kai_state_cstate__dbStore_PruneState__set_i_op
           (S (N.to_nat (to - from))) (kai_state_cstate__dbStore_PruneState__forinit_i (Z.of_N from)) (Z.of_N to).
Proof.
  intros Hto. unfold heights, kai_state_cstate__dbStore_PruneState__forinit_i. rewrite map_map.
  destruct (N.le_gt_cases from to) as [Hle|Hgt].
  - rewrite (loop_enum _ _ (N.to_nat (to - from)) (Z.of_N from) (Z.of_N to)).
    + apply map_ext. intros k. lia.
    + reflexivity.
    + intros j Hj. unfold kai_state_cstate__dbStore_PruneState__set_i_op, go_add. apply wrap_id.
      unfold in_range, u64 in *. lia.
    + lia.
  - replace (to - from) with 0 by lia. cbn [N.to_nat seq map loop_src].
    unfold kai_state_cstate__dbStore_PruneState__for_i_lt_to.
    rewrite (proj2 (Z.ltb_ge (Z.of_N from) (Z.of_N to))) by lia. reflexivity.
Qed.

(** first loop body: [state != nil] -> remember LastValidatorsInfoHash, delete (memorydb / a
    batch-less Delete never fails: [err != nil] is false), prunedStates++ *)
Definition prune_step_src (acc : list (N * srec) * list N * N) (i : N) : list (N * srec) * list N * N :=
  let '(cs, cache, n) := acc in
  let st := get i cs in
  if kai_state_cstate__dbStore_PruneState__if_state_ne_nil (is_some st) then
    match st with
    | None => acc
    | Some r =>
      if kai_state_cstate__dbStore_PruneState__if_err_ne_nil false then (del i cs, r_last r :: cache, n)
      else (del i cs, r_last r :: cache,
            Z.to_N (kai_state_cstate__dbStore_PruneState__set_prunedStates_op (Z.of_N n)))
    end
  else acc.
Lemma tie_prune_step acc i : u64 (Z.of_N (snd acc) + 1) -> prune_step acc i = prune_step_src acc i.
Proof.
  destruct acc as [[cs cache] n]. cbn [snd]. intros Hn.
  unfold prune_step, prune_step_src, kai_state_cstate__dbStore_PruneState__if_state_ne_nil,
    kai_state_cstate__dbStore_PruneState__if_err_ne_nil, kai_state_cstate__dbStore_PruneState__set_prunedStates_op.
  destruct (get i cs) as [r|]; cbn [is_some is_none negb]; [|reflexivity].
  unfold go_add. rewrite wrap_id by (unfold in_range, u64 in *; lia).
  f_equal. lia.
Qed.

(** [genesisState != nil] / [nextState != nil]: the three hashes of that record leave the cache *)
Definition unprotect_src (guard : bool -> bool) (cache : list N) (o : option srec) : list N :=
  if guard (is_some o) then
    match o with
    | None => cache
    | Some r => filter (fun k => negb (existsb (N.eqb k) (rec_keys r))) cache
    end
  else cache.
Lemma tie_unprotect cache o :
  unprotect cache o = unprotect_src kai_state_cstate__dbStore_PruneState__if_genesisState_ne_nil cache o /\
  unprotect cache o = unprotect_src kai_state_cstate__dbStore_PruneState__if_nextState_ne_nil cache o.
Proof. destruct o; split; reflexivity. Qed.

(** last loop body: [valInfo != nil] -> delete, prunedValInfos++ *)
Definition del_step_src (acc : list (N * vinfo) * N) (k : N) : list (N * vinfo) * N :=
  let '(vi, n) := acc in
  let r := get k vi in
  if kai_state_cstate__dbStore_PruneState__if_valInfo_ne_nil (is_some r) then
    match r with
    | None => acc
    | Some _ => (del k vi, Z.to_N (kai_state_cstate__dbStore_PruneState__set_prunedValInfos_op (Z.of_N n)))
    end
  else acc.
Lemma tie_del_step acc k : u64 (Z.of_N (snd acc) + 1) -> del_step acc k = del_step_src acc k.
Proof.
  destruct acc as [vi n]. cbn [snd]. intros Hn.
  unfold del_step, del_step_src, kai_state_cstate__dbStore_PruneState__if_valInfo_ne_nil,
    kai_state_cstate__dbStore_PruneState__set_prunedValInfos_op.
  destruct (get k vi) as [r|]; cbn [is_some is_none negb]; [|reflexivity].
  unfold go_add. rewrite wrap_id by (unfold in_range, u64 in *; lia).
  f_equal. lia.
Qed.

(* ------------------------------------------------------------------ *)
(** * updateState, MakeGenesisState *)

(** [len(validatorUpdates) > 0] -> lastHeightValsChanged = header.Height + 2 (uint64) *)
Lemma tie_update_lhvc s b nvs (nupd : Z) : u64 (Z.of_N (k_height b) + 2) ->
  lhvc (update_state s b (kai_state_cstate__updateState__if_len_validatorUpdates_gt_0 nupd) nvs) =
  if (0 <? nupd)%Z then Z.to_N (kai_state_cstate__updateState__set_lastHeightValsChanged (Z.of_N (k_height b)))
  else lhvc s.
Proof.
  intros Hb. unfold update_state, kai_state_cstate__updateState__if_len_validatorUpdates_gt_0,
    kai_state_cstate__updateState__set_lastHeightValsChanged. cbn [lhvc].
  rewrite Z.gtb_ltb. destruct (0 <? nupd)%Z; [|reflexivity].
  unfold go_add. rewrite wrap_id by (unfold in_range, u64 in *; lia). lia.
Qed.

(** MakeGenesisState: [genDoc.InitialHeight == 0] -> 1, so a genesis state never has a zero
    initial height (genesis_ok) *)
Lemma tie_genesis_ih (ih : N) :
  Z.to_N (if kai_state_cstate__MakeGenesisState__if_genDoc_InitialHeight_eq_0 (Z.of_N ih)
          then kai_state_cstate__MakeGenesisState__put_genDoc_InitialHeight else Z.of_N ih) <> 0.
Proof.
  unfold kai_state_cstate__MakeGenesisState__if_genDoc_InitialHeight_eq_0,
    kai_state_cstate__MakeGenesisState__put_genDoc_InitialHeight.
  rewrite N_eqb0. destruct (N.eqb_spec ih 0); [discriminate|]. now rewrite N2Z.id.
Qed.

End Tie.

(* ------------------------------------------------------------------ *)
(** * What the expressions read *)

Lemma tie_atoms :
  (types__ValidatorSet_Hash__if_len_vs_Validators_eq_0_atoms = ["len(vs.Validators) : int"]
   /\ types__ValidatorSet_IsNilOrEmpty__ret_vs_eq_nil_or_len_vs_Validators_eq_0_atoms
        = ["vs == nil : bool"; "len(vs.Validators) : int"]
   /\ types__ValidatorSet_ValidateBasic__if_vs_IsNilOrEmpty_atoms = ["vs.IsNilOrEmpty() : bool"]
   /\ types__Validator_ValidateBasic__if_v_eq_nil_atoms = ["v == nil : untyped bool"]
   /\ types__Validator_ValidateBasic__if_v_VotingPower_lt_0_atoms = ["v.VotingPower : int64"]
   /\ types__Validator_ValidateBasic__if_not_common_IsHexAddress_v_Address_Hex_atoms
        = ["common.IsHexAddress(v.Address.Hex()) : bool"]
   /\ types__ValidatorSetFromProto__if_vp_eq_nil_atoms = ["vp == nil : untyped bool"]
   /\ types__ValidatorSet_ToProto__put_vp_TotalVotingPower_atoms = ["vs.totalVotingPower : int64"]
   /\ types__ValidatorSetFromProto__put_vals_totalVotingPower_atoms = ["vp.GetTotalVotingPower() : int64"]
   /\ types__ValidatorFromProto__put_v_VotingPower_atoms = ["vp.GetVotingPower() : int64"]
   /\ types__ValidatorFromProto__put_v_ProposerPriority_atoms = ["vp.GetProposerPriority() : int64"]
   /\ types__ValidatorSet_ToProto__for_i_lt_len_vs_Validators_atoms = ["i : int"; "len(vs.Validators) : int"]
   /\ types__ValidatorSetFromProto__for_i_lt_len_vp_Validators_atoms = ["i : int"; "len(vp.Validators) : int"])%string
  /\
  (kai_state_cstate__saveValidatorsInfo__if_valSet_ne_nil_atoms = ["valSet != nil : untyped bool"]
   /\ kai_state_cstate__saveState__if_state_LastBlockHeight_eq_0_atoms = ["state.LastBlockHeight : uint64"]
   /\ kai_state_cstate__LatestBlockState_ToProto__if_state_LastBlockHeight_eq_0_atoms = ["state.LastBlockHeight : uint64"]
   /\ kai_state_cstate__LatestBlockState_ToProto__put_sm_InitialHeight_atoms = ["state.InitialHeight : uint64"]
   /\ kai_state_cstate__StateFromProto__put_state_InitialHeight_atoms = ["pb.InitialHeight : uint64"])%string
  /\
  (kai_state_cstate__loadStateAtHeight__if_sp_eq_nil_atoms = ["sp == nil : untyped bool"]
   /\ kai_state_cstate__loadStateAtHeight__if_state_InitialHeight_eq_0_atoms = ["state.InitialHeight : uint64"]
   /\ kai_state_cstate__loadStateAtHeight__put_state_InitialHeight_atoms = []
   /\ kai_state_cstate__loadStateAtHeight__if_blockMeta_eq_nil_atoms = ["blockMeta == nil : untyped bool"]
   /\ kai_state_cstate__loadStateAtHeight__put_state_LastBlockHeight_atoms = ["blockMeta.Header.Height : uint64"]
   /\ kai_state_cstate__loadStateAtHeight__put_state_LastBlockTotalTx_atoms = ["blockMeta.Header.NumTxs : uint64"]
   /\ kai_state_cstate__loadStateAtHeight__if_height_gt_0_atoms = ["height : uint64"]
   /\ kai_state_cstate__loadStateAtHeight__if_height_gt_0_2_atoms = ["height : uint64"]
   /\ kai_state_cstate__loadStateAtHeight__if_state_LastBlockHeight_gt_0_atoms = ["state.LastBlockHeight : uint64"]
   /\ kai_state_cstate__loadStateAtHeight__put_state_LastHeightValidatorsChanged_atoms
        = ["nValsInfo.LastHeightChanged : uint64"]
   /\ kai_state_cstate__loadStateAtHeight__if_cparams_eq_nil_atoms = ["cparams == nil : untyped bool"]
   /\ kai_state_cstate__loadStateAtHeight__put_state_LastHeightConsensusParamsChanged_atoms
        = ["cparams.LastHeightChanged : uint64"]
   /\ kai_state_cstate__dbStore_Load__if_state_ne_nil_atoms = ["state != nil : untyped bool"]
   /\ kai_state_cstate__dbStore_LoadStateFromDBOrGenesisDoc__if_state_IsEmpty_atoms = ["state.IsEmpty() : bool"]
   /\ kai_state_cstate__dbStore_LoadValidators__if_cstate_eq_nil_atoms = ["cstate == nil : untyped bool"]
   /\ kai_state_cstate__dbStore_LoadValidators__if_valInfo_eq_nil_atoms = ["valInfo == nil : untyped bool"]
   /\ kai_state_cstate__dbStore_LoadConsensusParams__if_params_eq_nil_atoms = ["params == nil : untyped bool"])%string
  /\
  (kai_state_cstate__dbStore_PruneState__if_from_eq_0_atoms = ["from : uint64"]
   /\ kai_state_cstate__dbStore_PruneState__let_from_atoms = []
   /\ kai_state_cstate__dbStore_PruneState__forinit_i_atoms = ["from : uint64"]
   /\ kai_state_cstate__dbStore_PruneState__for_i_lt_to_atoms = ["i : uint64"; "to : uint64"]
   /\ kai_state_cstate__dbStore_PruneState__set_i_op_atoms = ["i : uint64"]
   /\ kai_state_cstate__dbStore_PruneState__if_state_ne_nil_atoms = ["state != nil : untyped bool"]
   /\ kai_state_cstate__dbStore_PruneState__set_prunedStates_op_atoms = ["prunedStates : uint64"]
   /\ kai_state_cstate__dbStore_PruneState__if_genesisState_ne_nil_atoms = ["genesisState != nil : untyped bool"]
   /\ kai_state_cstate__dbStore_PruneState__if_nextState_ne_nil_atoms = ["nextState != nil : untyped bool"]
   /\ kai_state_cstate__dbStore_PruneState__if_valInfo_ne_nil_atoms = ["valInfo != nil : untyped bool"]
   /\ kai_state_cstate__dbStore_PruneState__set_prunedValInfos_op_atoms = ["prunedValInfos : uint64"]
   /\ kai_state_cstate__updateState__if_len_validatorUpdates_gt_0_atoms = ["len(validatorUpdates) : int"]
   /\ kai_state_cstate__updateState__set_lastHeightValsChanged_atoms = ["header.Height : uint64"]
   /\ kai_state_cstate__MakeGenesisState__if_genDoc_InitialHeight_eq_0_atoms = ["genDoc.InitialHeight : uint64"]
   /\ kai_state_cstate__MakeGenesisState__put_genDoc_InitialHeight_atoms = [])%string.
Proof. repeat split. Qed.

(* ------------------------------------------------------------------ *)
(** * The tie *)

Definition C14_source_tie_statement : Prop :=
  (forall H vs, valset_key H vs = valset_key_src H vs) /\
  (forall vs, from_proto vs = from_proto_src vs) /\
  (forall (vs : valset) (v : validator),
     types__ValidatorSetFromProto__put_vals_totalVotingPower
       (types__ValidatorSet_ToProto__put_vp_TotalVotingPower (vs_total vs)) = vs_total vs /\
     types__ValidatorFromProto__put_v_VotingPower (v_power v) = v_power v /\
     types__ValidatorFromProto__put_v_ProposerPriority (v_prio v) = v_prio v) /\
  (forall vs, (len vs < 9223372036854775807)%Z ->
     loop_src types__ValidatorSet_ToProto__for_i_lt_len_vs_Validators types__ValidatorSet_ToProto__set_i_op
              (S (List.length (vs_vals vs))) types__ValidatorSet_ToProto__forinit_i (len vs)
     = map Z.of_nat (seq 0 (List.length (vs_vals vs))) /\
     loop_src types__ValidatorSetFromProto__for_i_lt_len_vp_Validators types__ValidatorSetFromProto__set_i_op
              (S (List.length (vs_vals vs))) types__ValidatorSetFromProto__forinit_i (len vs)
     = map Z.of_nat (seq 0 (List.length (vs_vals vs)))) /\
  (forall H o, okey H o = okey_src H o) /\
  (forall H PK d s, save H PK d s = save_src H PK d s) /\
  (forall d k, read_set d k = read_set_src d k) /\
  (forall d h, load_at d h = load_at_src d h) /\
  (forall d, load d = load_src d) /\
  (forall H PK m g, step H PK m (OBoot g) = boot_src H PK m g) /\
  (forall d h, load_validators d h = load_validators_src d h) /\
  (forall d h, load_params d h = load_params_src d h) /\
  (forall from, from1 from = from1_src from) /\
  (forall from to, u64 (Z.of_N to) ->
     map Z.of_N (heights from to) =
     loop_src kai_state_cstate__dbStore_PruneState__for_i_lt_to kai_state_cstate__dbStore_PruneState__set_i_op
              (S (N.to_nat (to - from))) (kai_state_cstate__dbStore_PruneState__forinit_i (Z.of_N from)) (Z.of_N to)) /\
  (forall acc i, u64 (Z.of_N (snd acc) + 1) -> prune_step acc i = prune_step_src acc i) /\
  (forall cache o,
     unprotect cache o = unprotect_src kai_state_cstate__dbStore_PruneState__if_genesisState_ne_nil cache o /\
     unprotect cache o = unprotect_src kai_state_cstate__dbStore_PruneState__if_nextState_ne_nil cache o) /\
  (forall acc k, u64 (Z.of_N (snd acc) + 1) -> del_step acc k = del_step_src acc k) /\
  (forall s b nvs nupd, u64 (Z.of_N (k_height b) + 2) ->
     lhvc (update_state s b (kai_state_cstate__updateState__if_len_validatorUpdates_gt_0 nupd) nvs) =
     if (0 <? nupd)%Z then Z.to_N (kai_state_cstate__updateState__set_lastHeightValsChanged (Z.of_N (k_height b)))
     else lhvc s) /\
  (forall ih : N,
     Z.to_N (if kai_state_cstate__MakeGenesisState__if_genDoc_InitialHeight_eq_0 (Z.of_N ih)
             then kai_state_cstate__MakeGenesisState__put_genDoc_InitialHeight else Z.of_N ih) <> 0) /\
  (types__ValidatorSet_Hash__if_len_vs_Validators_eq_0_atoms = ["len(vs.Validators) : int"]%string
   /\ types__Validator_ValidateBasic__if_v_VotingPower_lt_0_atoms = ["v.VotingPower : int64"]%string
   /\ types__ValidatorSetFromProto__put_vals_totalVotingPower_atoms = ["vp.GetTotalVotingPower() : int64"]%string
   /\ types__ValidatorSet_ToProto__put_vp_TotalVotingPower_atoms = ["vs.totalVotingPower : int64"]%string
   /\ types__ValidatorFromProto__put_v_VotingPower_atoms = ["vp.GetVotingPower() : int64"]%string
   /\ types__ValidatorFromProto__put_v_ProposerPriority_atoms = ["vp.GetProposerPriority() : int64"]%string
   /\ kai_state_cstate__saveState__if_state_LastBlockHeight_eq_0_atoms = ["state.LastBlockHeight : uint64"]%string
   /\ kai_state_cstate__LatestBlockState_ToProto__if_state_LastBlockHeight_eq_0_atoms = ["state.LastBlockHeight : uint64"]%string
   /\ kai_state_cstate__loadStateAtHeight__if_state_InitialHeight_eq_0_atoms = ["state.InitialHeight : uint64"]%string
   /\ kai_state_cstate__loadStateAtHeight__put_state_LastBlockHeight_atoms = ["blockMeta.Header.Height : uint64"]%string
   /\ kai_state_cstate__loadStateAtHeight__if_height_gt_0_atoms = ["height : uint64"]%string
   /\ kai_state_cstate__loadStateAtHeight__if_height_gt_0_2_atoms = ["height : uint64"]%string
   /\ kai_state_cstate__loadStateAtHeight__if_state_LastBlockHeight_gt_0_atoms = ["state.LastBlockHeight : uint64"]%string
   /\ kai_state_cstate__loadStateAtHeight__put_state_LastHeightValidatorsChanged_atoms
        = ["nValsInfo.LastHeightChanged : uint64"]%string
   /\ kai_state_cstate__loadStateAtHeight__put_state_LastHeightConsensusParamsChanged_atoms
        = ["cparams.LastHeightChanged : uint64"]%string
   /\ kai_state_cstate__dbStore_PruneState__if_from_eq_0_atoms = ["from : uint64"]%string
   /\ kai_state_cstate__dbStore_PruneState__forinit_i_atoms = ["from : uint64"]%string
   /\ kai_state_cstate__dbStore_PruneState__for_i_lt_to_atoms = ["i : uint64"; "to : uint64"]%string
   /\ kai_state_cstate__updateState__set_lastHeightValsChanged_atoms = ["header.Height : uint64"]%string).

Lemma C14_source_tie_proof : C14_source_tie_statement.
Proof.
  unfold C14_source_tie_statement.
  split; [exact tie_valset_key|]. split; [exact tie_from_proto|]. split; [exact tie_proto_fields|].
  split; [intros vs Hb; split; [apply tie_to_proto_loop|apply tie_from_proto_loop]; exact Hb|].
  split; [exact tie_okey|]. split; [exact tie_save|]. split; [exact tie_read_set|].
  split; [exact tie_load_at|]. split; [exact tie_load|]. split; [exact tie_boot|].
  split; [exact tie_load_validators|]. split; [exact tie_load_params|]. split; [exact tie_from1|].
  split; [exact tie_heights|]. split; [exact tie_prune_step|]. split; [exact tie_unprotect|].
  split; [exact tie_del_step|]. split; [exact tie_update_lhvc|]. split; [exact tie_genesis_ih|].
  repeat split.
Qed.
