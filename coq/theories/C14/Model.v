(** C14 — executable model of the consensus-state store:
    kai/state/cstate/store.go (saveState, saveValidatorsInfo, saveConsensusParamsInfo, Load,
    loadStateAtHeight, LoadValidators, LoadConsensusParams, PruneState,
    LoadStateFromDBOrGenesisDoc), cstate/state.go (ToProto / StateFromProto: only ChainID,
    InitialHeight and the four record hashes are persisted), kai/rawdb/accessors_cstate.go +
    schema.go (three key families: "ConsensusState"+height, "ConsensusValidatorsInfo"+hash,
    "ConsensusParamsInfo"+hash; block meta, app hash and head pointer come from the block
    store), types/validator_set.go (Hash / ToProto / ValidatorSetFromProto) and
    cstate/execution.go updateState.

    The database is one association list per key family (the families have disjoint
    prefixes; a batch is replayed in order, so a later put shadows an earlier one).

    Keys of validator records: [ValidatorSet.Hash()] is the merkle root over
    [Validator.Bytes()] = proto(SimpleValidator{address, voting power}) — NO priority and NO
    proposer.  The hash is the Section variable [H] applied to the list of (address, power)
    pairs, which is exactly the information the hashed bytes carry; no property of [H] is
    assumed (theorems conclude "... or an explicit collision").  When the model is run, [H]
    is the table of the real [Hash()] values printed by the harness.
    Keys of params records: [common.BytesToHash(marshal(ConsensusParamsInfo))] = the last 32
    bytes of the marshalled (params, lastHeightChanged); consensus params are opaque to the
    store, so they are an identifier and the key is the Section variable [PK params lhc]
    (again instantiated with the real values).

    Heights are uint64 in the code; the only arithmetic is [height + 2] and the prune loop
    counter, far from 2^64 for any real chain: N, unbounded. *)
From Coq Require Import List ZArith NArith Bool Lia.
Import ListNotations.
Local Open Scope N_scope.

(* ------------------------------------------------------------------ *)
(** * Data *)

Record validator := { v_addr : N; v_power : Z; v_prio : Z }.
(** ValidatorSet: the validators (sorted by the code; order is data here), the Proposer,
    which ToProto serialises as a separate Validator message (address, power, priority), and
    the cached total voting power (the private field totalVotingPower: ToProto writes it as it
    is, 0 = "not computed yet", ValidatorSetFromProto restores it without looking at it; what
    TotalVotingPower() makes of it is C12's model). *)
Record valset := { vs_vals : list validator; vs_prop : validator; vs_total : Z }.

Record blockid := { b_hash : N; b_total : N; b_phash : N }.
Definition bid_zero : blockid := {| b_hash := 0; b_total := 0; b_phash := 0 |}.

(** cstate.LatestBlockState *)
Record cstate := {
  chain_id : N; initial_height : N;
  last_height : N; last_total_tx : N; last_bid : blockid; last_time : N;
  next_vals : valset; vals : valset; last_vals : option valset;
  lhvc : N;            (* LastHeightValidatorsChanged *)
  lhcpc : N;           (* LastHeightConsensusParamsChanged *)
  app_hash : N;
  params : N }.        (* ConsensusParams, opaque *)

(** kstate.State as written by saveState *)
Record srec := { r_chain : N; r_ih : N; r_last : N; r_vals : N; r_next : N; r_params : N }.
(** kstate.ValidatorsInfo / ConsensusParamsInfo *)
Record vinfo := { vi_set : option valset; vi_lhc : N }.
Record pinfo := { pi_params : N; pi_lhc : N }.
(** what loadStateAtHeight takes from types.BlockMeta *)
Record meta := { m_height : N; m_bid : blockid; m_time : N; m_ntx : N }.

Record db := {
  d_cs : list (N * srec);      (* "ConsensusState" + height *)
  d_vi : list (N * vinfo);     (* "ConsensusValidatorsInfo" + hash *)
  d_pi : list (N * pinfo);     (* "ConsensusParamsInfo" + hash *)
  d_bm : list (N * meta);      (* block meta by height *)
  d_ah : list (N * N);         (* app hash by height *)
  d_head : option N }.         (* height of the head block (ReadHeadBlock) *)

Definition empty_db : db :=
  {| d_cs := []; d_vi := []; d_pi := []; d_bm := []; d_ah := []; d_head := None |}.

(* ------------------------------------------------------------------ *)
(** * Key-value families *)

Fixpoint get {V} (k : N) (l : list (N * V)) : option V :=
  match l with
  | [] => None
  | (k', v) :: t => if N.eqb k' k then Some v else get k t
  end.
Definition put {V} (k : N) (v : V) (l : list (N * V)) : list (N * V) := (k, v) :: l.
Fixpoint del {V} (k : N) (l : list (N * V)) : list (N * V) :=
  match l with
  | [] => []
  | (k', v) :: t => if N.eqb k' k then del k t else (k', v) :: del k t
  end.

(** calcConsensusStateKey(height) = "ConsensusState" ++ encodeBlockHeight(height): the suffix is
    binary.BigEndian.PutUint64, i.e. the eight bytes of the height, most significant first (the
    low 64 bits: the parameter is a uint64).  The model's [d_cs] is keyed by the height itself;
    [be64] is what the real key carries of it (printed after every Save and compared with the
    bytes the database was actually handed), injective below 2^64 (ProofsChain.be64_injective). *)
Fixpoint bytes_be (n : nat) (h : N) : list N :=
  match n with
  | O => []
  | S n' => bytes_be n' (h / 256) ++ [h mod 256]
  end.
Definition be64 (h : N) : list N := bytes_be 8 h.

(* ------------------------------------------------------------------ *)
(** * The store *)

Section Store.
Variable H : list (N * Z) -> N.
Variable PK : N -> N -> N.

Definition keylist (vs : valset) : list (N * Z) :=
  map (fun v => (v_addr v, v_power v)) (vs_vals vs).

(** ValidatorSet.Hash(): zero hash for an empty set *)
Definition valset_key (vs : valset) : N :=
  match vs_vals vs with [] => 0 | _ => H (keylist vs) end.

(** saveValidatorsInfo: nil set -> zero hash and a record without a set *)
Definition okey (o : option valset) : N :=
  match o with None => 0 | Some vs => valset_key vs end.
Definition save_vinfo (vi : list (N * vinfo)) (lhc : N) (o : option valset)
  : N * list (N * vinfo) :=
  let k := okey o in (k, put k {| vi_set := o; vi_lhc := lhc |} vi).

Definition is_none {A} (o : option A) : bool := match o with None => true | Some _ => false end.

(** saveState.  None = panic (ToProto calls LastValidators.Hash() on a nil set when the
    height is not 0).  Genesis writes the three sets (last, current, next — in this order,
    so a later one shadows an earlier one with the same key), every other height only the
    next set; all validator records carry the state's LastHeightValidatorsChanged. *)
Definition save (d : db) (s : cstate) : option db :=
  let genesis := N.eqb (last_height s) 0 in
  if negb genesis && is_none (last_vals s) then None else
  let '(k_last, k_vals, vi1) :=
    if genesis then
      let '(kl, vi') := save_vinfo (d_vi d) (lhvc s) (last_vals s) in
      let '(kv, vi'') := save_vinfo vi' (lhvc s) (Some (vals s)) in
      (kl, kv, vi'')
    else (okey (last_vals s), valset_key (vals s), d_vi d) in
  let '(k_next, vi2) := save_vinfo vi1 (lhvc s) (Some (next_vals s)) in
  let k_par := PK (params s) (lhcpc s) in
  Some {| d_cs := put (last_height s)
                      {| r_chain := chain_id s; r_ih := initial_height s; r_last := k_last;
                         r_vals := k_vals; r_next := k_next; r_params := k_par |} (d_cs d);
          d_vi := vi2;
          d_pi := put k_par {| pi_params := params s; pi_lhc := lhcpc s |} (d_pi d);
          d_bm := d_bm d; d_ah := d_ah d; d_head := d_head d |}.

(** ValidatorSetFromProto + ValidateBasic: empty set, negative power (validator or proposer) *)
Definition from_proto (vs : valset) : option valset :=
  match vs_vals vs with
  | [] => None
  | _ => if forallb (fun v => Z.leb 0 (v_power v)) (vs_vals vs) && Z.leb 0 (v_power (vs_prop vs))
         then Some vs else None
  end.

Inductive pclass := PNil | PNoMeta | PBadSet | PNoParams.
Inductive lres := LPanic (c : pclass) | LEmpty | LOk (s : cstate).

(** loadStateAtHeight.  The block id (fix 12b60d8) and the app hash (fix 1aee27d) are taken from
    the block store only above height 0: the genesis state keeps the zero id and the zero
    app hash that MakeGenesisState gave it.
    The three reads of validator records: a missing record is dereferenced (nil pointer),
    a record without / with an invalid set makes ValidatorSetFromProto fail (panic(err)) *)
Definition read_set (d : db) (k : N) : pclass + (valset * N) :=
  match get k (d_vi d) with
  | None => inl PNil
  | Some r => match vi_set r with
              | None => inl PBadSet
              | Some vs => match from_proto vs with
                           | None => inl PBadSet
                           | Some x => inr (x, vi_lhc r)
                           end
              end
  end.

Definition load_at (d : db) (h : N) : lres :=
  match get h (d_cs d) with
  | None => LEmpty
  | Some r =>
    let ih := if N.eqb (r_ih r) 0 then 1 else r_ih r in
    match get h (d_bm d) with
    | None => LPanic PNoMeta
    | Some m =>
      (* fix 1aee27d: the app hash is read only above height 0 (the genesis state keeps the
         zero AppHash MakeGenesisState gave it) *)
      let app := if N.ltb 0 h then match get h (d_ah d) with Some a => a | None => 0 end else 0 in
      let lastv : pclass + option valset :=
        if N.ltb 0 (m_height m) then
          match read_set d (r_last r) with inl c => inl c | inr (x, _) => inr (Some x) end
        else inr None in
      match lastv with
      | inl c => LPanic c
      | inr lv =>
        match read_set d (r_vals r) with
        | inl c => LPanic c
        | inr (cv, _) =>
          match read_set d (r_next r) with
          | inl c => LPanic c
          | inr (nv, nlhc) =>
            match get (r_params r) (d_pi d) with
            | None => LPanic PNoParams
            | Some p =>
              LOk {| chain_id := r_chain r; initial_height := ih;
                     last_height := m_height m; last_total_tx := m_ntx m;
                     last_bid := if N.ltb 0 h then m_bid m else bid_zero;
                     last_time := m_time m;
                     next_vals := nv; vals := cv; last_vals := lv;
                     lhvc := nlhc; lhcpc := pi_lhc p; app_hash := app;
                     params := pi_params p |}
            end
          end
        end
      end
    end
  end.

(** Load(): ReadHeadBlock(db).Height() — nil dereference without a head block *)
Definition load (d : db) : lres :=
  match d_head d with
  | None => LPanic PNil
  | Some h => load_at d h
  end.

Inductive vres := VNoState | VNoSet | VInvalid | VOk (vs : valset).

(** LoadValidators(height): the record named by LastValidatorsInfoHash of that height *)
Definition load_validators (d : db) (h : N) : vres :=
  match get h (d_cs d) with
  | None => VNoState
  | Some r =>
    match get (r_last r) (d_vi d) with
    | None => VNoSet
    | Some vi => match vi_set vi with
                 | None => VInvalid
                 | Some vs => match from_proto vs with None => VInvalid | Some x => VOk x end
                 end
    end
  end.

Inductive pres := PPanic | PErr | POk (p : N).

(** LoadConsensusParams(height): dereferences the state record without a nil check *)
Definition load_params (d : db) (h : N) : pres :=
  match get h (d_cs d) with
  | None => PPanic
  | Some r => match get (r_params r) (d_pi d) with
              | None => PErr
              | Some p => POk (pi_params p)
              end
  end.

(** ** PruneState(from, to) *)

Definition heights (from to : N) : list N :=
  map (fun j => from + N.of_nat j) (seq 0 (N.to_nat (to - from))).

Definition rec_keys (r : srec) : list N := [r_last r; r_vals r; r_next r].

(** first loop: delete the state records of [from, to), remember their LastValidatorsInfoHash *)
Definition prune_step (acc : list (N * srec) * list N * N) (i : N) : list (N * srec) * list N * N :=
  let '(cs, cache, n) := acc in
  match get i cs with
  | None => acc
  | Some r => (del i cs, r_last r :: cache, n + 1)
  end.

(** "discards pruning validator infos which are used by" a state *)
Definition unprotect (cache : list N) (o : option srec) : list N :=
  match o with
  | None => cache
  | Some r => filter (fun k => negb (existsb (N.eqb k) (rec_keys r))) cache
  end.

(** last loop: delete the records still in the cache (a map in the code: each key once) *)
Definition del_step (acc : list (N * vinfo) * N) (k : N) : list (N * vinfo) * N :=
  let '(vi, n) := acc in
  match get k vi with
  | None => acc
  | Some _ => (del k vi, n + 1)
  end.

Definition doomed (d : db) (from to : N) : list N :=
  let from' := if N.eqb from 0 then 1 else from in
  let '(cs1, cache, _) := fold_left prune_step (heights from' to) (d_cs d, [], 0) in
  unprotect (unprotect cache (get 0 cs1)) (get to cs1).

Definition prune (d : db) (from to : N) : db * N * N :=
  let from' := if N.eqb from 0 then 1 else from in
  let '(cs1, cache, n_states) := fold_left prune_step (heights from' to) (d_cs d, [], 0) in
  let cache2 := unprotect (unprotect cache (get 0 cs1)) (get to cs1) in
  let '(vi1, n_infos) := fold_left del_step cache2 (d_vi d, 0) in
  ({| d_cs := cs1; d_vi := vi1; d_pi := d_pi d; d_bm := d_bm d; d_ah := d_ah d;
      d_head := d_head d |}, n_states, n_infos).

(* ------------------------------------------------------------------ *)
(** * Block store writes and updateState *)

Record block := { k_height : N; k_bid : blockid; k_time : N; k_ntx : N; k_app : N }.

(** rawdb.WriteBlock + WriteHeadBlockHash + WriteAppHash *)
Definition write_block (d : db) (b : block) : db :=
  {| d_cs := d_cs d; d_vi := d_vi d; d_pi := d_pi d;
     d_bm := put (k_height b) {| m_height := k_height b; m_bid := k_bid b; m_time := k_time b;
                                 m_ntx := k_ntx b |} (d_bm d);
     d_ah := put (k_height b) (k_app b) (d_ah d);
     d_head := Some (k_height b) |}.

(** updateState followed by [state.AppHash = appHash] (ApplyBlock).  [nvs] is the result of
    NextValidators.Copy() + UpdateWithChangeSet(changes) + IncrementProposerPriority(1)
    (C12 models that computation; here it is an input: the store never looks inside).
    LastBlockTotalTx and LastHeightConsensusParamsChanged are not carried over (zero). *)
Definition update_state (s : cstate) (b : block) (changed : bool) (nvs : valset) : cstate :=
  {| chain_id := chain_id s; initial_height := initial_height s;
     last_height := k_height b; last_total_tx := 0; last_bid := k_bid b; last_time := k_time b;
     next_vals := nvs; vals := next_vals s; last_vals := Some (vals s);
     lhvc := if changed then k_height b + 2 else lhvc s;
     lhcpc := 0; app_hash := k_app b; params := params s |}.

(* ------------------------------------------------------------------ *)
(** * Operation histories (what the harness drives on the real store) *)

Inductive op :=
| ONode (s : cstate)                 (* the node's in-memory state becomes [s] (hand-built states:
                                        records of older versions, states Save must refuse) *)
| OBoot (g : cstate)                 (* LoadStateFromDBOrGenesisDoc; g = MakeGenesisState(doc) *)
| OBlock (b : block)
| OUpdate (b : block) (changed : bool) (nvs : valset)
| OSave
| OLoad
| OVals (h : N)
| OParams (h : N)
| OPrune (from to : N).

Inductive obs :=
| ObNode
| ObBoot (r : lres)
| ObOk
| ObState (s : option cstate)
| ObSave (key : option (list N))     (* None = panic; Some = the height suffix of the record's key *)
| ObLoad (r : lres)
| ObVals (r : vres)
| ObParams (r : pres)
| ObPrune (n_states n_infos : N).

Record machine := { m_db : db; m_cur : option cstate }.
Definition init : machine := {| m_db := empty_db; m_cur := None |}.

Definition step (m : machine) (o : op) : machine * obs :=
  match o with
  | ONode s => ({| m_db := m_db m; m_cur := Some s |}, ObNode)
  | OBoot g =>
    match load (m_db m) with
    | LPanic c => (m, ObBoot (LPanic c))
    | LOk s => ({| m_db := m_db m; m_cur := Some s |}, ObBoot (LOk s))
    | LEmpty =>
      match save (m_db m) g with
      | Some d' => ({| m_db := d'; m_cur := Some g |}, ObBoot (LOk g))
      | None => (m, ObBoot (LPanic PNil))
      end
    end
  | OBlock b => ({| m_db := write_block (m_db m) b; m_cur := m_cur m |}, ObOk)
  | OUpdate b changed nvs =>
    let s' := match m_cur m with Some s => Some (update_state s b changed nvs) | None => None end in
    ({| m_db := m_db m; m_cur := s' |}, ObState s')
  | OSave =>
    match m_cur m with
    | None => (m, ObSave None)
    | Some s => match save (m_db m) s with
                | Some d' => ({| m_db := d'; m_cur := m_cur m |}, ObSave (Some (be64 (last_height s))))
                | None => (m, ObSave None)
                end
    end
  | OLoad => (m, ObLoad (load (m_db m)))
  | OVals h => (m, ObVals (load_validators (m_db m) h))
  | OParams h => (m, ObParams (load_params (m_db m) h))
  | OPrune from to =>
    let '(d', a, b) := prune (m_db m) from to in
    ({| m_db := d'; m_cur := m_cur m |}, ObPrune a b)
  end.

Fixpoint run (m : machine) (ops : list op) : machine * list obs :=
  match ops with
  | [] => (m, [])
  | o :: t => let '(m1, ob) := step m o in
              let '(m2, obs) := run m1 t in (m2, ob :: obs)
  end.

End Store.
