(** C14 — PruneState: what it deletes (frame lemmas), which records it protects, and the
    two refutations (round trip of priorities; pruning with a recurring membership). *)
From Coq Require Import List ZArith NArith Bool Lia.
From Kardia Require Import C14.Model C14.Proofs.
Import ListNotations.
Local Open Scope N_scope.

Lemma get_del_some {V} k k' (l : list (N * V)) v : get k (del k' l) = Some v -> get k l = Some v.
Proof.
  destruct (N.eq_dec k' k) as [->|E].
  - now rewrite get_del_eq.
  - now rewrite get_del_neq.
Qed.

Lemma heights_In from to h : In h (heights from to) <-> from <= h < to.
Proof.
  unfold heights. rewrite in_map_iff. split.
  - intros (j & <- & Hj). apply in_seq in Hj. lia.
  - intros Hh. exists (N.to_nat (h - from)). split; [lia|]. apply in_seq. lia.
Qed.

(** first loop *)
Lemma prune_fold_spec cs0 hs : forall acc,
  (forall h v, get h (fst (fst acc)) = Some v -> get h cs0 = Some v) ->
  (forall h, ~ In h hs -> get h (fst (fst (fold_left prune_step hs acc))) = get h (fst (fst acc))) /\
  (forall h v, get h (fst (fst (fold_left prune_step hs acc))) = Some v -> get h cs0 = Some v) /\
  (forall k, In k (snd (fst (fold_left prune_step hs acc))) ->
             In k (snd (fst acc)) \/ exists i r, In i hs /\ get i cs0 = Some r /\ r_last r = k).
Proof.
  induction hs as [|i t IH]; intros [[cs cache] n] Hsub; cbn [fold_left fst snd] in *.
  - repeat split; auto.
  - unfold prune_step at 2 4 6. destruct (get i cs) as [r|] eqn:G.
    + destruct (IH (del i cs, r_last r :: cache, n + 1)) as (A & B & C).
      { cbn [fst snd]. intros h v Hd. apply Hsub. eapply get_del_some; eauto. }
      cbn [fst snd] in *. split; [|split].
      * intros h Hn. rewrite A by (intros X; apply Hn; now right).
        apply get_del_neq. intros ->. apply Hn. now left.
      * exact B.
      * intros k Hk. destruct (C k Hk) as [[<-|Hc]|(j & r' & Hj & Gj & Ej)].
        -- right. exists i, r. repeat split; auto. now left.
        -- now left.
        -- right. exists j, r'. repeat split; auto. now right.
    + destruct (IH (cs, cache, n) Hsub) as (A & B & C). cbn [fst snd] in *. split; [|split].
      * intros h Hn. apply A. intros X; apply Hn; now right.
      * exact B.
      * intros k Hk. destruct (C k Hk) as [Hc|(j & r' & Hj & Gj & Ej)]; [now left|].
        right. exists j, r'. repeat split; auto. now right.
Qed.

Lemma unprotect_In cache o k : In k (unprotect cache o) ->
  In k cache /\ forall r, o = Some r -> ~ In k (rec_keys r).
Proof.
  unfold unprotect. destruct o as [r|].
  - intros Hi. apply filter_In in Hi. destruct Hi as (Hc & Hf). split; auto.
    intros r' [= <-] Hk. apply negb_true_iff in Hf.
    assert (existsb (N.eqb k) (rec_keys r) = true).
    { apply existsb_exists. exists k. split; auto. apply N.eqb_refl. }
    congruence.
  - intros Hi. split; auto. discriminate.
Qed.

(** last loop *)
Lemma del_fold_spec ks : forall acc k, ~ In k ks ->
  get k (fst (fold_left del_step ks acc)) = get k (fst acc).
Proof.
  induction ks as [|j t IH]; intros [vi n] k Hn; cbn [fold_left fst]; auto.
  unfold del_step at 2. destruct (get j vi) eqn:G.
  - rewrite IH by (intros X; apply Hn; now right). cbn [fst].
    apply get_del_neq. intros ->. apply Hn. now left.
  - rewrite IH by (intros X; apply Hn; now right). reflexivity.
Qed.

Definition from1 (from : N) : N := if N.eqb from 0 then 1 else from.
(** heights whose state record PruneState(from, to) does not touch *)
Definition kept (from to h : N) : Prop := h < from1 from \/ to <= h.

Lemma from1_pos from : 1 <= from1 from.
Proof. unfold from1. destruct (N.eqb_spec from 0); lia. Qed.

Theorem prune_frame d from to d' a b : prune d from to = (d', a, b) ->
  d_pi d' = d_pi d /\ d_bm d' = d_bm d /\ d_ah d' = d_ah d /\ d_head d' = d_head d /\
  (forall h, kept from to h -> get h (d_cs d') = get h (d_cs d)) /\
  (forall k, ~ In k (doomed d from to) -> get k (d_vi d') = get k (d_vi d)).
Proof.
  unfold prune, doomed. fold (from1 from).
  destruct (prune_fold_spec (d_cs d) (heights (from1 from) to) (d_cs d, [], 0)) as (A & _ & _).
  { cbn [fst]. auto. }
  destruct (fold_left prune_step (heights (from1 from) to) (d_cs d, [], 0)) as [[cs1 cache] n] eqn:F.
  cbn [fst snd] in A.
  pose proof (del_fold_spec (unprotect (unprotect cache (get 0 cs1)) (get to cs1)) (d_vi d, 0)) as D.
  destruct (fold_left del_step _ (d_vi d, 0)) as [vi1 m] eqn:F2. cbn [fst] in D.
  intros [= <- <- <-]. cbn [d_pi d_bm d_ah d_head d_cs d_vi].
  repeat split; auto.
  intros h Hk. apply A. rewrite heights_In. unfold kept in Hk. lia.
Qed.

(** only LastValidatorsInfoHash values of pruned heights can be deleted, and never a key that
    the genesis record or the record of height [to] names *)
Theorem doomed_spec d from to k : In k (doomed d from to) ->
  (exists i r, from1 from <= i < to /\ get i (d_cs d) = Some r /\ r_last r = k) /\
  (forall r, get 0 (d_cs d) = Some r -> ~ In k (rec_keys r)) /\
  (forall r, get to (d_cs d) = Some r -> ~ In k (rec_keys r)).
Proof.
  unfold doomed. fold (from1 from).
  destruct (prune_fold_spec (d_cs d) (heights (from1 from) to) (d_cs d, [], 0)) as (A & _ & C).
  { cbn [fst]. auto. }
  destruct (fold_left prune_step (heights (from1 from) to) (d_cs d, [], 0)) as [[cs1 cache] n] eqn:F.
  cbn [fst snd] in A, C.
  intros Hk. apply unprotect_In in Hk. destruct Hk as (Hk & Pto).
  apply unprotect_In in Hk. destruct Hk as (Hk & P0).
  pose proof (from1_pos from) as Hf.
  split; [|split].
  - destruct (C k Hk) as [[]|(i & r & Hi & G & E)]. exists i, r. rewrite heights_In in Hi. auto.
  - intros r G. apply P0. rewrite A; auto. rewrite heights_In. lia.
  - intros r G. apply Pto. rewrite A; auto. rewrite heights_In. lia.
Qed.

Section Loads.
Variable H : list (N * Z) -> N.
Variable PK : N -> N -> N.

(** a kept height whose three keys are not deleted loads exactly as before *)
Theorem prune_safe_cond d from to d' a b h r : prune d from to = (d', a, b) ->
  kept from to h -> get h (d_cs d) = Some r ->
  (forall k, In k (rec_keys r) -> ~ In k (doomed d from to)) ->
  load_at d' h = load_at d h /\ load_validators d' h = load_validators d h /\
  load_params d' h = load_params d h.
Proof.
  intros Hp Hk G Hnd. destruct (prune_frame _ _ _ _ _ _ Hp) as (Epi & Ebm & Eah & Ehd & Ecs & Evi).
  assert (E1 : get (r_last r) (d_vi d') = get (r_last r) (d_vi d)) by (apply Evi, Hnd; cbn; auto).
  assert (E2 : get (r_vals r) (d_vi d') = get (r_vals r) (d_vi d)) by (apply Evi, Hnd; cbn; auto).
  assert (E3 : get (r_next r) (d_vi d') = get (r_next r) (d_vi d)) by (apply Evi, Hnd; cbn; auto).
  unfold load_at, load_validators, load_params, read_set.
  rewrite (Ecs h Hk), G, Ebm, Eah, Epi, E1, E2, E3. auto.
Qed.

(** the genesis state and the state at [to] are always safe *)
Theorem prune_safe_protected d from to d' a b h r : prune d from to = (d', a, b) ->
  h = 0 \/ h = to -> get h (d_cs d) = Some r ->
  load_at d' h = load_at d h /\ load_validators d' h = load_validators d h /\
  load_params d' h = load_params d h.
Proof.
  intros Hp Hh G. apply (prune_safe_cond d from to d' a b h r Hp); auto.
  - unfold kept. pose proof (from1_pos from). destruct Hh as [->| ->]; lia.
  - intros k Hk Hd. destruct (doomed_spec d from to k Hd) as (_ & P0 & Pto).
    destruct Hh as [->| ->]; [apply (P0 r G Hk) | apply (Pto r G Hk)].
Qed.

(** pruning everything below the head of a database whose head state is [to]: Load is unchanged *)
Corollary prune_below_head_safe d from d' a b n r : d_head d = Some n ->
  prune d from n = (d', a, b) -> get n (d_cs d) = Some r -> load d' = load d.
Proof.
  intros Hh Hp G. unfold load.
  destruct (prune_frame _ _ _ _ _ _ Hp) as (_ & _ & _ & Ehd & _). rewrite Ehd, Hh.
  apply (prune_safe_protected d from n d' a b n r Hp); auto.
Qed.

(** ** The statements that do NOT hold *)

(** every field except LastBlockTotalTx (never set by updateState, filled from the header by Load) *)
Definition state_eq (l s : cstate) : Prop :=
  chain_id l = chain_id s /\ initial_height l = initial_height s /\ last_height l = last_height s /\
  last_bid l = last_bid s /\ last_time l = last_time s /\ app_hash l = app_hash s /\
  params l = params s /\ lhvc l = lhvc s /\ lhcpc l = lhcpc s /\
  next_vals l = next_vals s /\ vals l = vals s /\ last_vals l = last_vals s.

Definition roundtrip_full_statement : Prop :=
  forall g gb xs, genesis_ok g gb -> chain_wf g xs ->
    exists d l, boot_chain H PK g gb xs = Some (d, final_state g xs) /\ load d = LOk l /\
                state_eq l (final_state g xs).

Definition prune_safe_full_statement : Prop :=
  forall g gb xs d from to d' a b h, genesis_ok g gb -> chain_wf g xs ->
    boot_chain H PK g gb xs = Some (d, final_state g xs) ->
    prune d from to = (d', a, b) -> kept from to h ->
    load_at d' h = load_at d h /\ load_validators d' h = load_validators d h.

End Loads.

(* ------------------------------------------------------------------ *)
(** * Witnesses *)

Definition mkv (a : N) (p q : Z) : validator := {| v_addr := a; v_power := p; v_prio := q |}.

(** static set {1:10, 2:20, 3:30}: NewValidatorSet(...) and its CopyIncrementProposerPriority(1),
    the values MakeGenesisState produces (printed by the real code) *)
Definition w_vals : valset :=
  {| vs_vals := [mkv 3 30 (-30); mkv 2 20 20; mkv 1 10 10]; vs_prop := mkv 3 30 (-30); vs_total := 60 |}.
Definition w_next : valset :=
  {| vs_vals := [mkv 3 30 0; mkv 2 20 (-20); mkv 1 10 20]; vs_prop := mkv 2 20 (-20); vs_total := 60 |}.
Definition w_bid (n : N) : blockid := {| b_hash := 1000 + n; b_total := 1; b_phash := 2000 + n |}.
Definition w_gb : block := {| k_height := 0; k_bid := w_bid 0; k_time := 1600000000; k_ntx := 0; k_app := 0 |}.
Definition w_g : cstate :=
  {| chain_id := 1; initial_height := 1; last_height := 0; last_total_tx := 0; last_bid := bid_zero;
     last_time := 1600000000; next_vals := w_next; vals := w_vals; last_vals := None;
     lhvc := 1; lhcpc := 1; app_hash := 0; params := 1 |}.

Lemma w_genesis_ok : genesis_ok w_g w_gb.
Proof. unfold genesis_ok, wfset. cbn. repeat split; auto. discriminate. Qed.

(** Save then Load of the genesis state alone already loses the priorities and the proposer of
    Validators: they come back as NextValidators', for EVERY hash function *)
Theorem roundtrip_refuted : forall H PK, ~ roundtrip_full_statement H PK.
Proof.
  intros H PK F. destruct (F w_g w_gb [] w_genesis_ok I) as (d & l & Hb & Hl & Hs).
  unfold boot_chain, save_chain, save in Hb. cbn in Hb. injection Hb as <-.
  unfold load, load_at, read_set in Hl. cbn in Hl.
  rewrite !N.eqb_refl in Hl. cbn in Hl. injection Hl as <-.
  destruct Hs as (_ & _ & _ & _ & _ & _ & _ & _ & _ & _ & Hv & _). cbn in Hv. discriminate.
Qed.

(** an explicit hash for the prune witness: positional encoding of the (address, power) list;
    the three memberships of the witness get three different keys *)
Fixpoint H0 (l : list (N * Z)) : N :=
  match l with
  | [] => 1
  | (a, p) :: t => (H0 t * 1000 + a) * 1000 + Z.to_N p
  end.
Definition PK0 (p lhc : N) : N := p * 1000 + lhc.

Definition sA : valset := {| vs_vals := [mkv 3 30 0; mkv 2 20 0; mkv 1 10 0]; vs_prop := mkv 3 30 0; vs_total := 60 |}.
Definition sB : valset :=
  {| vs_vals := [mkv 3 30 0; mkv 2 20 0; mkv 1 10 0; mkv 4 5 0]; vs_prop := mkv 3 30 0; vs_total := 65 |}.
Definition sC : valset :=
  {| vs_vals := [mkv 3 30 0; mkv 2 20 0; mkv 1 10 0; mkv 5 7 0; mkv 4 5 0]; vs_prop := mkv 3 30 0; vs_total := 72 |}.
Definition w_blk (n : N) : block :=
  {| k_height := n; k_bid := w_bid n; k_time := 1600000000 + n; k_ntx := 0; k_app := 7000 + n |}.
Definition w_step (n : N) (ch : bool) (vs : valset) : cstep := {| c_blk := w_blk n; c_changed := ch; c_next := vs |}.
(** +val4 at block 1, +val5 at block 3, -val5 at block 6 *)
Definition w_chain : list cstep :=
  [w_step 1 true sB; w_step 2 false sB; w_step 3 true sC; w_step 4 false sC; w_step 5 false sC;
   w_step 6 true sB; w_step 7 false sB; w_step 8 false sB].
Definition w_g2 : cstate :=
  {| chain_id := 1; initial_height := 1; last_height := 0; last_total_tx := 0; last_bid := bid_zero;
     last_time := 1600000000; next_vals := sA; vals := sA; last_vals := None;
     lhvc := 1; lhcpc := 1; app_hash := 0; params := 1 |}.

Lemma w_genesis2_ok : genesis_ok w_g2 w_gb.
Proof. unfold genesis_ok, wfset. cbn. repeat split; auto. discriminate. Qed.
Lemma w_chain_wf : chain_wf w_g2 w_chain.
Proof. unfold wfset. cbn. repeat split; auto. Qed.

Lemma w_keys_distinct : H0 (keylist sA) <> H0 (keylist sB) /\ H0 (keylist sB) <> H0 (keylist sC) /\
                        H0 (keylist sA) <> H0 (keylist sC).
Proof. vm_compute. repeat split; discriminate. Qed.

(** save heights 0..8, PruneState(1,5): Load at the head (kept, above [to]) panics and
    LoadValidators(8) fails, although both worked before *)
Theorem prune_safe_refuted : ~ prune_safe_full_statement H0 PK0.
Proof.
  intros F.
  destruct (boot_chain H0 PK0 w_g2 w_gb w_chain) as [[d s]|] eqn:Hb; [|vm_compute in Hb; discriminate].
  assert (Hs : s = final_state w_g2 w_chain).
  { vm_compute in Hb. injection Hb as _ <-. vm_compute. reflexivity. }
  subst s.
  destruct (prune d 1 5) as [[d' a] b] eqn:Hp.
  destruct (F w_g2 w_gb w_chain d 1 5 d' a b 8 w_genesis2_ok w_chain_wf Hb Hp) as (_ & Hv).
  { right. lia. }
  assert (E : (d', load_validators d' 8) = (fst (fst (prune d 1 5)), load_validators (fst (fst (prune d 1 5))) 8))
    by now rewrite Hp.
  assert (Hd : Some (d, final_state w_g2 w_chain) = boot_chain H0 PK0 w_g2 w_gb w_chain) by auto.
  revert Hv.
  replace d' with (fst (fst (prune d 1 5))) by now rewrite Hp.
  replace d with (match boot_chain H0 PK0 w_g2 w_gb w_chain with Some (x, _) => x | None => d end)
    by now rewrite Hb.
  vm_compute. discriminate.
Qed.
