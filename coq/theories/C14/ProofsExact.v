(** C14 — when the round trip IS exact.
    The known finding (validator records keyed by address+power only) loses the priorities and the
    proposer of Validators / LastValidators exactly when a LATER record is written under the same
    key.  Here: for every chain, if the key of the final state's current set differs from the key
    of its next set, and the key of its last set differs from both, then Load returns the saved
    state in full — every priority, the proposer and the cached total of all three sets
    ([state_eq], the property as stated).  So the full statement fails only through key reuse
    between the sets of one state (a static membership, or a membership that returns within two
    blocks), and C14_roundtrip_refuted's witness is of that kind. *)
From Coq Require Import List ZArith NArith Bool Lia.
From Kardia Require Import C14.Model C14.Proofs C14.ProofsPrune C14.ProofsChain.
Import ListNotations.
Local Open Scope N_scope.

Section Exact.
Variable H : list (N * Z) -> N.
Variable PK : N -> N -> N.

Notation valset_key := (valset_key H).
Notation save := (save H PK).

(** the record under the key of [X] holds [X] itself *)
Definition exact (vi : list (N * vinfo)) (X : valset) : Prop :=
  exists l, get (valset_key X) vi = Some {| vi_set := Some X; vi_lhc := l |}.

Record inv2 (d : db) (s : cstate) : Prop := {
  j_vals : valset_key (vals s) <> valset_key (next_vals s) -> exact (d_vi d) (vals s);
  j_last : forall X, last_vals s = Some X -> valset_key X <> valset_key (vals s) ->
           valset_key X <> valset_key (next_vals s) -> exact (d_vi d) X }.

Lemma inv2_genesis g gb d : genesis_ok g gb -> save (write_block empty_db gb) g = Some d -> inv2 d g.
Proof.
  intros (Hh & _ & Hl & _) S. apply save_shape in S. subst d.
  constructor; cbn [d_vi write_block empty_db]; unfold vi_after; rewrite Hh; cbn [N.eqb].
  - intros Hne. exists (lhvc g). rewrite get_put_neq by auto. apply get_put_eq.
  - intros X HX. congruence.
Qed.

Lemma inv2_step p0 d s ss x d' : inv H PK p0 d s ss -> inv2 d s ->
  k_height (c_blk x) = last_height s + 1 ->
  save (write_block d (c_blk x)) (upd s x) = Some d' -> inv2 d' (upd s x).
Proof.
  intros I [Jv Jl] Hk S. apply save_shape in S. subst d'.
  assert (Hne : N.eqb (last_height (upd s x)) 0 = false).
  { apply N.eqb_neq. unfold upd, update_state. cbn [last_height]. lia. }
  constructor; cbn [d_vi write_block]; unfold vi_after; rewrite Hne;
    replace (next_vals (upd s x)) with (c_next x) by reflexivity;
    replace (vals (upd s x)) with (next_vals s) by reflexivity;
    replace (last_vals (upd s x)) with (Some (vals s)) by reflexivity.
  - intros Hd. exists (lhvc s). rewrite get_put_neq by auto. apply (i_next _ _ _ _ _ _ I).
  - intros X [= <-] H1 H2. destruct (Jv H1) as (l & G). exists l. rewrite get_put_neq by auto. exact G.
Qed.

Lemma save_chain_inv2 p0 xs : forall d s ss,
  inv H PK p0 d s ss -> inv2 d s -> params s = p0 -> chain_wf s xs ->
  exists d' ss', save_chain H PK d s xs = Some (d', final_state s xs) /\
                 inv H PK p0 d' (final_state s xs) ss' /\ inv2 d' (final_state s xs).
Proof.
  induction xs as [|x t IH]; intros d s ss I J Hp Hw.
  - exists d, ss. cbn [save_chain final_state fold_left]. auto.
  - destruct Hw as (Hk & Wn & Hw).
    destruct (save_step H PK p0 d s ss x I Hp Hk Wn) as (d1 & Hs & I1).
    pose proof (inv2_step p0 d s ss x d1 I J Hk Hs) as J1.
    destruct (IH d1 (upd s x) (upd s x :: ss) I1 J1 Hp Hw) as (d' & ss' & Hc & I' & J').
    exists d', ss'. cbn [save_chain final_state fold_left]. rewrite Hs. auto.
Qed.

(** Load with exact records for the current and the last set *)
Lemma load_exact p0 d s ss : inv H PK p0 d s ss -> exact (d_vi d) (vals s) ->
  (forall X, last_vals s = Some X -> exact (d_vi d) X) ->
  exists l, load d = LOk l /\ state_eq l s.
Proof.
  intros [Ihead (m & Gm & Hmh & Hmb & Hmt) Iapp Inext Ipar (Wv & Wn & Hih & Hz) Iin Ile Iall Ipall] (lv & Gv) El.
  destruct (Iall s Iin) as (Hc & _ & _ & Hl & _ & _).
  unfold load. rewrite Ihead. unfold load_at. rewrite Hc, Gm.
  cbn [rec_of r_ih r_last r_vals r_next r_params r_chain].
  assert (Rv : read_set d (valset_key (vals s)) = inr (vals s, lv)).
  { unfold read_set. rewrite Gv. cbn [vi_set vi_lhc]. unfold wfset in Wv. now rewrite Wv. }
  assert (Rn : read_set d (valset_key (next_vals s)) = inr (next_vals s, lhvc s)).
  { unfold read_set. rewrite Inext. cbn [vi_set vi_lhc]. unfold wfset in Wn. now rewrite Wn. }
  rewrite Rv, Rn, Ipar. cbn [pi_params pi_lhc].
  assert (Eih : (if N.eqb (initial_height s) 0 then 1 else initial_height s) = initial_height s).
  { destruct (N.eqb_spec (initial_height s) 0); congruence. }
  rewrite Eih, Hmh.
  destruct (N.ltb_spec 0 (last_height s)) as [Hpos|Hzero].
  - destruct (Hl Hpos) as (X & HX & WX & _).
    rewrite (Iapp Hpos). rewrite HX. cbn [Model.okey].
    destruct (El X HX) as (ll & Gl).
    assert (Rl : read_set d (valset_key X) = inr (X, ll)).
    { unfold read_set. rewrite Gl. cbn [vi_set vi_lhc]. unfold wfset in WX. now rewrite WX. }
    rewrite Rl. eexists. split; [reflexivity|]. unfold state_eq. cbn.
    repeat split; auto.
  - assert (E0 : last_height s = 0) by lia. destruct (Hz E0) as (Hb0 & Hl0 & Ha0).
    eexists. split; [reflexivity|]. unfold state_eq. cbn.
    repeat split; auto.
Qed.

Theorem roundtrip_full_fresh g gb xs : genesis_ok g gb -> chain_wf g xs ->
  valset_key (vals (final_state g xs)) <> valset_key (next_vals (final_state g xs)) ->
  (forall X, last_vals (final_state g xs) = Some X ->
     valset_key X <> valset_key (vals (final_state g xs)) /\
     valset_key X <> valset_key (next_vals (final_state g xs))) ->
  exists d l, boot_chain H PK g gb xs = Some (d, final_state g xs) /\ load d = LOk l /\
              state_eq l (final_state g xs).
Proof.
  intros Hg Hw Kv Kl.
  destruct (save_genesis H PK g gb Hg) as (d0 & Hs & I0).
  pose proof (inv2_genesis g gb d0 Hg Hs) as J0.
  destruct (save_chain_inv2 (params g) xs d0 g [g] I0 J0 eq_refl Hw) as (d & ss & Hc & I & [Jv Jl]).
  destruct (load_exact _ d _ ss I (Jv Kv)) as (l & Hl & He).
  { intros X HX. destruct (Kl X HX). apply Jl; auto. }
  exists d, l. unfold boot_chain. rewrite Hs. auto.
Qed.

(** ... and the converse for the current set: when its key equals the key of the next set, Load
    returns the NEXT set in its place (the record was overwritten by Save itself) *)
Lemma load_vals_overwritten p0 d s ss : inv H PK p0 d s ss ->
  valset_key (vals s) = valset_key (next_vals s) ->
  exists l, load d = LOk l /\ vals l = next_vals s.
Proof.
  intros [Ihead (m & Gm & Hmh & Hmb & Hmt) Iapp Inext Ipar (Wv & Wn & Hih & Hz) Iin Ile Iall Ipall] Ek.
  destruct (Iall s Iin) as (Hc & _ & _ & Hl & _ & _).
  unfold load. rewrite Ihead. unfold load_at. rewrite Hc, Gm.
  cbn [rec_of r_ih r_last r_vals r_next r_params r_chain].
  assert (Rn : read_set d (valset_key (next_vals s)) = inr (next_vals s, lhvc s)).
  { unfold read_set. rewrite Inext. cbn [vi_set vi_lhc]. unfold wfset in Wn. now rewrite Wn. }
  rewrite Ek, Rn, Ipar. cbn [pi_params pi_lhc]. rewrite Hmh.
  destruct (N.ltb_spec 0 (last_height s)) as [Hpos|Hzero].
  - destruct (Hl Hpos) as (X & HX & WX & HhX). rewrite HX. cbn [Model.okey].
    destruct (read_has H d _ HhX) as (lv & ll & Rl & _). rewrite Rl.
    eexists. split; reflexivity.
  - eexists. split; reflexivity.
Qed.

Theorem roundtrip_vals_overwritten g gb xs : genesis_ok g gb -> chain_wf g xs ->
  valset_key (vals (final_state g xs)) = valset_key (next_vals (final_state g xs)) ->
  exists d l, boot_chain H PK g gb xs = Some (d, final_state g xs) /\ load d = LOk l /\
              vals l = next_vals (final_state g xs).
Proof.
  intros Hg Hw Ek. destruct (boot_chain_inv H PK g gb xs Hg Hw) as (d & ss & Hb & I & _).
  destruct (load_vals_overwritten _ d _ ss I Ek) as (l & Hl & Hv). exists d, l. auto.
Qed.

(** ** What Load returns, exactly

    [loaded_as s] is the state Load returns after the chain ending in [s] was saved: everything
    as saved except that a set whose record key is shared with a set written later comes back as
    that later set — the next set in place of the current one when their keys agree; the next
    set, else the current set, in place of the last one. *)
Definition loaded_as (s : cstate) : cstate :=
  let kn := valset_key (next_vals s) in
  let kv := valset_key (vals s) in
  {| chain_id := chain_id s; initial_height := initial_height s; last_height := last_height s;
     last_total_tx := last_total_tx s; last_bid := last_bid s; last_time := last_time s;
     next_vals := next_vals s;
     vals := if N.eqb kv kn then next_vals s else vals s;
     last_vals := match last_vals s with
                  | None => None
                  | Some X => Some (if N.eqb (valset_key X) kn then next_vals s
                                    else if N.eqb (valset_key X) kv then vals s else X)
                  end;
     lhvc := lhvc s; lhcpc := lhcpc s; app_hash := app_hash s; params := params s |}.

Lemma load_characterised p0 d s ss : inv H PK p0 d s ss -> inv2 d s ->
  exists l, load d = LOk l /\ state_eq l (loaded_as s).
Proof.
  intros [Ihead (m & Gm & Hmh & Hmb & Hmt) Iapp Inext Ipar (Wv & Wn & Hih & Hz) Iin Ile Iall Ipall] [Jv Jl].
  destruct (Iall s Iin) as (Hc & _ & _ & Hl & _ & _).
  assert (Rn : read_set d (valset_key (next_vals s)) = inr (next_vals s, lhvc s)).
  { unfold read_set. rewrite Inext. cbn [vi_set vi_lhc]. unfold wfset in Wn. now rewrite Wn. }
  assert (Rv0 : valset_key (vals s) <> valset_key (next_vals s) ->
                exists lv, read_set d (valset_key (vals s)) = inr (vals s, lv)).
  { intros Hne. destruct (Jv Hne) as (lv & Gv). exists lv.
    unfold read_set. rewrite Gv. cbn [vi_set vi_lhc]. unfold wfset in Wv. now rewrite Wv. }
  assert (Rv : exists lv, read_set d (valset_key (vals s)) =
                 inr (if N.eqb (valset_key (vals s)) (valset_key (next_vals s)) then next_vals s else vals s, lv)).
  { destruct (N.eqb_spec (valset_key (vals s)) (valset_key (next_vals s))) as [E|E].
    - rewrite E. eauto.
    - apply Rv0; auto. }
  assert (Rl : forall X, last_vals s = Some X -> wfset X -> exists ll, read_set d (valset_key X) =
                 inr (if N.eqb (valset_key X) (valset_key (next_vals s)) then next_vals s
                      else if N.eqb (valset_key X) (valset_key (vals s)) then vals s else X, ll)).
  { intros X HX WX.
    destruct (N.eqb_spec (valset_key X) (valset_key (next_vals s))) as [E|E]; [rewrite E; eauto|].
    destruct (N.eqb_spec (valset_key X) (valset_key (vals s))) as [E2|E2].
    - rewrite E2. apply Rv0. congruence.
    - destruct (Jl X HX E2 E) as (ll & Gl). exists ll.
      unfold read_set. rewrite Gl. cbn [vi_set vi_lhc]. unfold wfset in WX. now rewrite WX. }
  destruct Rv as (lv & Rv).
  unfold load. rewrite Ihead. unfold load_at. rewrite Hc, Gm.
  cbn [rec_of r_ih r_last r_vals r_next r_params r_chain].
  rewrite Rv, Rn, Ipar. cbn [pi_params pi_lhc].
  assert (Eih : (if N.eqb (initial_height s) 0 then 1 else initial_height s) = initial_height s).
  { destruct (N.eqb_spec (initial_height s) 0); congruence. }
  rewrite Eih, Hmh.
  destruct (N.ltb_spec 0 (last_height s)) as [Hpos|Hzero].
  - destruct (Hl Hpos) as (X & HX & WX & _).
    rewrite (Iapp Hpos). rewrite HX. cbn [Model.okey].
    destruct (Rl X HX WX) as (ll & Rl'). rewrite Rl'.
    eexists. split; [reflexivity|]. unfold state_eq, loaded_as. rewrite HX. cbn.
    repeat split; auto.
  - assert (E0 : last_height s = 0) by lia. destruct (Hz E0) as (Hb0 & Hl0 & Ha0).
    eexists. split; [reflexivity|]. unfold state_eq, loaded_as. rewrite Hl0. cbn.
    repeat split; auto.
Qed.

Theorem roundtrip_characterised g gb xs : genesis_ok g gb -> chain_wf g xs ->
  exists d l, boot_chain H PK g gb xs = Some (d, final_state g xs) /\ load d = LOk l /\
              state_eq l (loaded_as (final_state g xs)).
Proof.
  intros Hg Hw.
  destruct (save_genesis H PK g gb Hg) as (d0 & Hs & I0).
  pose proof (inv2_genesis g gb d0 Hg Hs) as J0.
  destruct (save_chain_inv2 (params g) xs d0 g [g] I0 J0 eq_refl Hw) as (d & ss & Hc & I & J).
  destruct (load_characterised _ d _ ss I J) as (l & Hl & He).
  exists d, l. unfold boot_chain. rewrite Hs. auto.
Qed.

End Exact.

(** the hypotheses are satisfiable: genesis sA, +val4 at block 1, +val5 at block 2 — the final
    state has LastValidators sA, Validators sB, NextValidators sC: three different keys *)
Definition w_fresh_chain : list cstep := [w_step 1 true sB; w_step 2 true sC].
Lemma w_fresh_ok : genesis_ok w_g2 w_gb /\ chain_wf w_g2 w_fresh_chain /\
  valset_key H0 (vals (final_state w_g2 w_fresh_chain)) <> valset_key H0 (next_vals (final_state w_g2 w_fresh_chain)) /\
  (forall X, last_vals (final_state w_g2 w_fresh_chain) = Some X ->
     valset_key H0 X <> valset_key H0 (vals (final_state w_g2 w_fresh_chain)) /\
     valset_key H0 X <> valset_key H0 (next_vals (final_state w_g2 w_fresh_chain))).
Proof.
  split; [exact w_genesis2_ok|]. split; [unfold wfset; cbn; repeat split; auto|].
  split; [vm_compute; discriminate|].
  intros X. vm_compute. intros [= <-]. split; discriminate.
Qed.
