(** C14 — property theorems only.  Each is closed by [exact] of a lemma proved in Proofs*.v
    and followed by [Print Assumptions].

    Reading guide.  [H] is the hash behind ValidatorSet.Hash() (a function of the (address,
    power) list only — that is the code), [PK] the key of a params record; nothing is assumed
    about either.  A chain is a genesis state [g] (as MakeGenesisState builds it), its block
    [gb], and a list [xs] of (block, changed?, next validator set) steps applied by
    updateState; [boot_chain] writes every block and saves every state in order;
    [final_state g xs] is the state saved last.  [collision H] is an explicit pair of
    different (address, power) lists with the same hash. *)
From Coq Require Import List ZArith NArith Bool.
From Kardia Require Import C14.Model C14.Proofs C14.ProofsPrune.
Import ListNotations.
Local Open Scope N_scope.

(** The property as stated (round trip): every field of the loaded state, including the
    priorities and the proposer of all three validator sets, equals the saved one. *)
Definition C14_roundtrip_full_statement (H : list (N * Z) -> N) (PK : N -> N -> N) : Prop :=
  forall g gb xs, genesis_ok g gb -> chain_wf g xs ->
    exists d l, boot_chain H PK g gb xs = Some (d, final_state g xs) /\ load d = LOk l /\
                state_eq l (final_state g xs).

(** The property as stated (pruning): every kept height loads as before, for every range. *)
Definition C14_prune_safe_full_statement (H : list (N * Z) -> N) (PK : N -> N -> N) : Prop :=
  forall g gb xs d from to d' a b h, genesis_ok g gb -> chain_wf g xs ->
    boot_chain H PK g gb xs = Some (d, final_state g xs) ->
    prune d from to = (d', a, b) -> kept from to h ->
    load_at d' h = load_at d h /\ load_validators d' h = load_validators d h.

(** REFUTED (known finding): saving and loading the genesis state of the static set
    {1:10, 2:20, 3:30} returns Validators with NextValidators' priorities and proposer —
    whatever the hash function is. *)
Theorem C14_roundtrip_refuted : forall H PK, ~ C14_roundtrip_full_statement H PK.
Proof. exact roundtrip_refuted. Qed.
Print Assumptions C14_roundtrip_refuted.

(** PARTIAL (what IS restored, for every chain): chain id, initial height, last block height,
    id and time, app hash, params, LastHeightValidatorsChanged,
    LastHeightConsensusParamsChanged, NextValidators completely (priorities and proposer),
    and the membership and powers of Validators and LastValidators (or a hash collision is
    exhibited).  Missing w.r.t. the full statement: priorities/proposer of Validators and
    LastValidators. *)
Theorem C14_roundtrip_partial : forall H PK g gb xs, genesis_ok g gb -> chain_wf g xs ->
  exists d l, boot_chain H PK g gb xs = Some (d, final_state g xs) /\ load d = LOk l /\
    chain_id l = chain_id (final_state g xs) /\
    initial_height l = initial_height (final_state g xs) /\
    last_height l = last_height (final_state g xs) /\
    last_bid l = last_bid (final_state g xs) /\
    last_time l = last_time (final_state g xs) /\
    app_hash l = app_hash (final_state g xs) /\
    params l = params (final_state g xs) /\
    lhvc l = lhvc (final_state g xs) /\
    lhcpc l = lhcpc (final_state g xs) /\
    next_vals l = next_vals (final_state g xs) /\
    (keylist (vals l) = keylist (vals (final_state g xs)) \/ collision H) /\
    match last_vals (final_state g xs), last_vals l with
    | None, None => True
    | Some a, Some b => keylist b = keylist a \/ collision H
    | _, _ => False
    end.
Proof. exact roundtrip_partial. Qed.
Print Assumptions C14_roundtrip_partial.

(** LoadValidators(h), for every height h >= 1 of the chain, returns a set with the membership
    and powers of LastValidators of state h (or a collision is exhibited) ... *)
Theorem C14_load_validators : forall H PK g gb xs, genesis_ok g gb -> chain_wf g xs ->
  exists d, boot_chain H PK g gb xs = Some (d, final_state g xs) /\
    forall sh, In sh (states g xs) -> 0 < last_height sh ->
      exists X vs, last_vals sh = Some X /\ load_validators d (last_height sh) = VOk vs /\
                   (keylist vs = keylist X \/ collision H).
Proof. exact load_validators_chain. Qed.
Print Assumptions C14_load_validators.

(** ... and that set is the Validators of the previous state, i.e. the set entitled to sign h *)
Theorem C14_entitled_set : forall s x,
  last_vals (upd s x) = Some (vals s) /\ vals (upd s x) = next_vals s /\ next_vals (upd s x) = c_next x.
Proof. exact upd_sets. Qed.
Print Assumptions C14_entitled_set.

(** LoadConsensusParams(h) returns the chain's params at every saved height, whatever PK is *)
Theorem C14_load_params : forall H PK g gb xs, genesis_ok g gb -> chain_wf g xs ->
  exists d, boot_chain H PK g gb xs = Some (d, final_state g xs) /\
    forall sh, In sh (states g xs) -> load_params d (last_height sh) = POk (params g).
Proof. exact load_params_chain. Qed.
Print Assumptions C14_load_params.

(** REFUTED (known finding): genesis {1:10,2:20,3:30}; +val4 at block 1; +val5 at block 3;
    -val5 at block 6; heights 0..8 saved; PruneState(1,5): height 8 (kept) no longer loads. *)
Theorem C14_prune_safe_refuted : ~ C14_prune_safe_full_statement H0 PK0.
Proof. exact prune_safe_refuted. Qed.
Print Assumptions C14_prune_safe_refuted.

(** PARTIAL, for EVERY database (not only chains) and every range: PruneState changes nothing
    but state records inside [max from 1, to) and validator records in [doomed]; a kept height
    none of whose three record keys is doomed loads exactly as before (Load, LoadValidators,
    LoadConsensusParams) ... *)
Theorem C14_prune_safe_partial : forall d from to d' a b h r,
  prune d from to = (d', a, b) -> kept from to h -> get h (d_cs d) = Some r ->
  (forall k, In k (rec_keys r) -> ~ In k (doomed d from to)) ->
  load_at d' h = load_at d h /\ load_validators d' h = load_validators d h /\
  load_params d' h = load_params d h.
Proof. exact prune_safe_cond. Qed.
Print Assumptions C14_prune_safe_partial.

(** ... the doomed keys are LastValidatorsInfoHash values of pruned heights that neither the
    genesis record nor the record of height [to] names ... *)
Theorem C14_prune_doomed : forall d from to k, In k (doomed d from to) ->
  (exists i r, from1 from <= i < to /\ get i (d_cs d) = Some r /\ r_last r = k) /\
  (forall r, get 0 (d_cs d) = Some r -> ~ In k (rec_keys r)) /\
  (forall r, get to (d_cs d) = Some r -> ~ In k (rec_keys r)).
Proof. exact doomed_spec. Qed.
Print Assumptions C14_prune_doomed.

(** ... so heights 0 and [to] are always safe, and pruning everything below the head never
    changes what Load returns. *)
Theorem C14_prune_safe_genesis_and_to : forall d from to d' a b h r,
  prune d from to = (d', a, b) -> h = 0 \/ h = to -> get h (d_cs d) = Some r ->
  load_at d' h = load_at d h /\ load_validators d' h = load_validators d h /\
  load_params d' h = load_params d h.
Proof. exact prune_safe_protected. Qed.
Print Assumptions C14_prune_safe_genesis_and_to.

Theorem C14_prune_below_head_safe : forall d from d' a b n r, d_head d = Some n ->
  prune d from n = (d', a, b) -> get n (d_cs d) = Some r -> load d' = load d.
Proof. exact prune_below_head_safe. Qed.
Print Assumptions C14_prune_below_head_safe.

(** The hypotheses are satisfiable: the 9-state witness chain is a well-formed chain. *)
Example C14_hypotheses_satisfiable : genesis_ok w_g2 w_gb /\ chain_wf w_g2 w_chain.
Proof. exact (conj w_genesis2_ok w_chain_wf). Qed.
