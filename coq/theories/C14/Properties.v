(** C14 — property theorems only.  Each is closed by [exact] of a lemma proved in Proofs*.v
    and followed by [Print Assumptions].

    Reading guide.  [H] is the hash behind ValidatorSet.Hash() (a function of the (address,
    power) list only — that is the code), [PK] the key of a params record; nothing is assumed
    about either.  A chain is a genesis state [g] (as MakeGenesisState builds it), its block
    [gb], and a list [xs] of (block, changed?, next validator set) steps applied by
    updateState; [boot_chain] writes every block and saves every state in order;
    [final_state g xs] is the state saved last.  [collision H] is an explicit pair of
    different (address, power) lists with the same hash. *)
From Coq Require Import List ZArith NArith Bool.
From Kardia Require Import C14.Model C14.Proofs C14.ProofsPrune C14.ProofsChain C14.ProofsExact C14.SourceTie.
Import ListNotations.
Local Open Scope N_scope.

(** The property as stated (round trip): every field of the loaded state, including the
    priorities and the proposer of all three validator sets, equals the saved one. *)
Definition C14_roundtrip_full_statement (H : list (N * Z) -> N) (PK : N -> N -> N) : Prop :=
  forall g gb xs, genesis_ok g gb -> chain_wf g xs ->
    exists d l, boot_chain H PK g gb xs = Some (d, final_state g xs) /\ load d = LOk l /\
                state_eq l (final_state g xs).

(** The property as stated (pruning): every kept height loads as before, for every range. *)
Definition C14_prune_safe_full_statement (H : list (N * Z) -> N) (PK : N -> N -> N) : Prop :=
  forall g gb xs d from to d' a b h, genesis_ok g gb -> chain_wf g xs ->
    boot_chain H PK g gb xs = Some (d, final_state g xs) ->
    prune d from to = (d', a, b) -> kept from to h ->
    load_at d' h = load_at d h /\ load_validators d' h = load_validators d h.

(** REFUTED (known finding): saving and loading the genesis state of the static set
    {1:10, 2:20, 3:30} returns Validators with NextValidators' priorities and proposer —
    whatever the hash function is. *)
Theorem C14_roundtrip_refuted : forall H PK, ~ C14_roundtrip_full_statement H PK.
Proof. exact roundtrip_refuted. Qed.
Print Assumptions C14_roundtrip_refuted.

(** PARTIAL (what IS restored, for every chain): chain id, initial height, last block height,
    id and time, app hash, params, LastHeightValidatorsChanged,
    LastHeightConsensusParamsChanged, NextValidators completely (priorities and proposer),
    and the membership and powers of Validators and LastValidators (or a hash collision is
    exhibited).  Missing w.r.t. the full statement: priorities/proposer of Validators and
    LastValidators. *)
Theorem C14_roundtrip_partial : forall H PK g gb xs, genesis_ok g gb -> chain_wf g xs ->
  exists d l, boot_chain H PK g gb xs = Some (d, final_state g xs) /\ load d = LOk l /\
    chain_id l = chain_id (final_state g xs) /\
    initial_height l = initial_height (final_state g xs) /\
    last_height l = last_height (final_state g xs) /\
    last_bid l = last_bid (final_state g xs) /\
    last_time l = last_time (final_state g xs) /\
    app_hash l = app_hash (final_state g xs) /\
    params l = params (final_state g xs) /\
    lhvc l = lhvc (final_state g xs) /\
    lhcpc l = lhcpc (final_state g xs) /\
    next_vals l = next_vals (final_state g xs) /\
    (keylist (vals l) = keylist (vals (final_state g xs)) \/ collision H) /\
    match last_vals (final_state g xs), last_vals l with
    | None, None => True
    | Some a, Some b => keylist b = keylist a \/ collision H
    | _, _ => False
    end.
Proof. exact roundtrip_partial. Qed.
Print Assumptions C14_roundtrip_partial.

(** LoadValidators(h), for every height h >= 1 of the chain, returns a set with the membership
    and powers of LastValidators of state h (or a collision is exhibited) ... *)
Theorem C14_load_validators : forall H PK g gb xs, genesis_ok g gb -> chain_wf g xs ->
  exists d, boot_chain H PK g gb xs = Some (d, final_state g xs) /\
    forall sh, In sh (states g xs) -> 0 < last_height sh ->
      exists X vs, last_vals sh = Some X /\ load_validators d (last_height sh) = VOk vs /\
                   (keylist vs = keylist X \/ collision H).
Proof. exact load_validators_chain. Qed.
Print Assumptions C14_load_validators.

(** ... and that set is the Validators of the previous state, i.e. the set entitled to sign h *)
Theorem C14_entitled_set : forall s x,
  last_vals (upd s x) = Some (vals s) /\ vals (upd s x) = next_vals s /\ next_vals (upd s x) = c_next x.
Proof. exact upd_sets. Qed.
Print Assumptions C14_entitled_set.

(** LoadConsensusParams(h) returns the chain's params at every saved height, whatever PK is *)
Theorem C14_load_params : forall H PK g gb xs, genesis_ok g gb -> chain_wf g xs ->
  exists d, boot_chain H PK g gb xs = Some (d, final_state g xs) /\
    forall sh, In sh (states g xs) -> load_params d (last_height sh) = POk (params g).
Proof. exact load_params_chain. Qed.
Print Assumptions C14_load_params.

(** REFUTED (known finding): genesis {1:10,2:20,3:30}; +val4 at block 1; +val5 at block 3;
    -val5 at block 6; heights 0..8 saved; PruneState(1,5): height 8 (kept) no longer loads. *)
Theorem C14_prune_safe_refuted : ~ C14_prune_safe_full_statement H0 PK0.
Proof. exact prune_safe_refuted. Qed.
Print Assumptions C14_prune_safe_refuted.

(** PARTIAL, for EVERY database (not only chains) and every range: PruneState changes nothing
    but state records inside [max from 1, to) and validator records in [doomed]; a kept height
    none of whose three record keys is doomed loads exactly as before (Load, LoadValidators,
    LoadConsensusParams) ... *)
Theorem C14_prune_safe_partial : forall d from to d' a b h r,
  prune d from to = (d', a, b) -> kept from to h -> get h (d_cs d) = Some r ->
  (forall k, In k (rec_keys r) -> ~ In k (doomed d from to)) ->
  load_at d' h = load_at d h /\ load_validators d' h = load_validators d h /\
  load_params d' h = load_params d h.
Proof. exact prune_safe_cond. Qed.
Print Assumptions C14_prune_safe_partial.

(** ... the doomed keys are LastValidatorsInfoHash values of pruned heights that neither the
    genesis record nor the record of height [to] names ... *)
Theorem C14_prune_doomed : forall d from to k, In k (doomed d from to) ->
  (exists i r, from1 from <= i < to /\ get i (d_cs d) = Some r /\ r_last r = k) /\
  (forall r, get 0 (d_cs d) = Some r -> ~ In k (rec_keys r)) /\
  (forall r, get to (d_cs d) = Some r -> ~ In k (rec_keys r)).
Proof. exact doomed_spec. Qed.
Print Assumptions C14_prune_doomed.

(** ... so heights 0 and [to] are always safe, and pruning everything below the head never
    changes what Load returns. *)
Theorem C14_prune_safe_genesis_and_to : forall d from to d' a b h r,
  prune d from to = (d', a, b) -> h = 0 \/ h = to -> get h (d_cs d) = Some r ->
  load_at d' h = load_at d h /\ load_validators d' h = load_validators d h /\
  load_params d' h = load_params d h.
Proof. exact prune_safe_protected. Qed.
Print Assumptions C14_prune_safe_genesis_and_to.

Theorem C14_prune_below_head_safe : forall d from d' a b n r, d_head d = Some n ->
  prune d from n = (d', a, b) -> get n (d_cs d) = Some r -> load d' = load d.
Proof. exact prune_below_head_safe. Qed.
Print Assumptions C14_prune_below_head_safe.

(** WHEN the round trip is exact (round 4): for every chain whose final state has a current set
    with another record key than its next set, and a last set with another key than both, Load
    returns the saved state in full — every priority, the proposer and the cached total of all
    three sets (state_eq: the property as stated).  So the full statement fails only through key
    reuse between the sets of one state: a membership that stays, or returns within two blocks. *)
Theorem C14_roundtrip_full_when_keys_differ : forall H PK g gb xs, genesis_ok g gb -> chain_wf g xs ->
  valset_key H (vals (final_state g xs)) <> valset_key H (next_vals (final_state g xs)) ->
  (forall X, last_vals (final_state g xs) = Some X ->
     valset_key H X <> valset_key H (vals (final_state g xs)) /\
     valset_key H X <> valset_key H (next_vals (final_state g xs))) ->
  exists d l, boot_chain H PK g gb xs = Some (d, final_state g xs) /\ load d = LOk l /\
              state_eq l (final_state g xs).
Proof. exact roundtrip_full_fresh. Qed.
Print Assumptions C14_roundtrip_full_when_keys_differ.

(** ... and conversely, whenever the current set has the key of the next set (always, for a
    static membership), Load returns the NEXT set — its priorities, its proposer — as Validators:
    the known finding, for every such chain and every hash function. *)
Theorem C14_roundtrip_validators_overwritten : forall H PK g gb xs, genesis_ok g gb -> chain_wf g xs ->
  valset_key H (vals (final_state g xs)) = valset_key H (next_vals (final_state g xs)) ->
  exists d l, boot_chain H PK g gb xs = Some (d, final_state g xs) /\ load d = LOk l /\
              vals l = next_vals (final_state g xs).
Proof. exact roundtrip_vals_overwritten. Qed.
Print Assumptions C14_roundtrip_validators_overwritten.

(** What Load returns after a chain was saved, EXACTLY, for every chain and every hash function
    (round 4): the saved state with
      Validators     := NextValidators                 if their record keys agree, else as saved;
      LastValidators := NextValidators                 if its key agrees with NextValidators',
                        else Validators (as saved)     if its key agrees with Validators',
                        else as saved
    (ProofsExact.loaded_as) and every other field as saved.  The two theorems above are its
    corollaries; the known finding is precisely the difference between [loaded_as s] and [s]. *)
Theorem C14_roundtrip_characterised : forall H PK g gb xs, genesis_ok g gb -> chain_wf g xs ->
  exists d l, boot_chain H PK g gb xs = Some (d, final_state g xs) /\ load d = LOk l /\
              state_eq l (loaded_as H (final_state g xs)).
Proof. exact roundtrip_characterised. Qed.
Print Assumptions C14_roundtrip_characterised.

(** What PruneState deletes, exactly (round 4; the converse of C14_prune_doomed): the record under
    [k] is deleted iff [k] is the LastValidatorsInfoHash of a pruned height and neither the
    genesis record nor the record of height [to] names it; and a deleted record is really gone. *)
Theorem C14_prune_doomed_iff : forall d from to k, In k (doomed d from to) <->
  ((exists i r, from1 from <= i < to /\ get i (d_cs d) = Some r /\ r_last r = k) /\
   (forall r, get 0 (d_cs d) = Some r -> ~ In k (rec_keys r)) /\
   (forall r, get to (d_cs d) = Some r -> ~ In k (rec_keys r))).
Proof. exact doomed_iff. Qed.
Print Assumptions C14_prune_doomed_iff.

Theorem C14_prune_doomed_deleted : forall d from to d' a b k, prune d from to = (d', a, b) ->
  In k (doomed d from to) -> get k (d_vi d') = None.
Proof. exact doomed_deleted. Qed.
Print Assumptions C14_prune_doomed_deleted.

(** Chain level, every range (round 4; closes the statement that was in Open.v): for every chain
    produced by updateState, every PruneState(from, to) and every kept height h other than 0 and
    [to] (which PruneState protects itself, see above): if no set that was LastValidators at a
    pruned height has the record key of one of the three sets of state h — i.e. the membership
    does not recur at h — then Load, LoadValidators and LoadConsensusParams at h return exactly
    what they returned before.  Together with C14_prune_safe_refuted (a recurring membership
    breaks it) this is the exact frame of the known finding at chain level. *)
Theorem C14_prune_safe_chain : forall H PK g gb xs d from to d' a b,
  genesis_ok g gb -> chain_wf g xs -> boot_chain H PK g gb xs = Some (d, final_state g xs) ->
  prune d from to = (d', a, b) ->
  forall sh, In sh (states g xs) -> kept from to (last_height sh) ->
    (last_height sh <> 0 -> last_height sh <> to ->
     forall sp X, In sp (states g xs) -> from1 from <= last_height sp < to -> last_vals sp = Some X ->
       valset_key H X <> okey H (last_vals sh) /\ valset_key H X <> valset_key H (vals sh) /\
       valset_key H X <> valset_key H (next_vals sh)) ->
    load_at d' (last_height sh) = load_at d (last_height sh) /\
    load_validators d' (last_height sh) = load_validators d (last_height sh) /\
    load_params d' (last_height sh) = load_params d (last_height sh).
Proof. exact prune_safe_chain. Qed.
Print Assumptions C14_prune_safe_chain.

(** ... in the form it was stated in Open.v: ranges that start at the bottom (from <= 1), no
    membership of a pruned height recurring above [to] *)
Theorem C14_prune_safe_without_recurrence : forall H PK g gb xs d from to d' a b,
  genesis_ok g gb -> chain_wf g xs ->
  boot_chain H PK g gb xs = Some (d, final_state g xs) ->
  prune d from to = (d', a, b) -> from <= 1 ->
  (forall sp sh X, In sp (states g xs) -> In sh (states g xs) ->
      1 <= last_height sp < to -> to < last_height sh -> last_vals sp = Some X ->
      valset_key H X <> okey H (last_vals sh) /\ valset_key H X <> valset_key H (vals sh) /\
      valset_key H X <> valset_key H (next_vals sh)) ->
  forall sh, In sh (states g xs) -> kept from to (last_height sh) ->
    load_at d' (last_height sh) = load_at d (last_height sh) /\
    load_validators d' (last_height sh) = load_validators d (last_height sh).
Proof. exact prune_safe_without_recurrence_proof. Qed.
Print Assumptions C14_prune_safe_without_recurrence.

(** Save then Load of ANY state at ANY height over ANY database (hand-built states, records of
    an older version, heights beyond 2^32, sets with extreme priorities / a foreign proposer / a
    stale cached total): if Save accepts the state, the block meta of its height is stored, its
    current and next set are well formed and — above height 0 — the records of its last and
    current set are present, then Load at that height returns chain id, height, the NEXT set
    exactly (every priority, the proposer, the cached total voting power), both "last height
    changed" markers and the params as saved, the initial height (1 for a record without one, as
    MakeGenesisState does), the membership and powers of the current and last set (or a
    collision), and block id / time / tx count / app hash from the block store (zero id and
    zero app hash at height 0).  PARTIAL w.r.t. the property text in the same way as
    C14_roundtrip_partial: priorities/proposer of Validators and LastValidators. *)
Theorem C14_save_load_any_state_partial : forall H PK d s d' m, save H PK d s = Some d' ->
  get (last_height s) (d_bm d) = Some m -> m_height m = last_height s ->
  wfset (vals s) -> wfset (next_vals s) ->
  (0 < last_height s -> exists X, last_vals s = Some X /\ wfset X /\ has H (d_vi d) X /\
                                  has H (d_vi d) (vals s)) ->
  exists l, load_at d' (last_height s) = LOk l /\
    chain_id l = chain_id s /\
    initial_height l = (if N.eqb (initial_height s) 0 then 1 else initial_height s) /\
    last_height l = last_height s /\ last_total_tx l = m_ntx m /\
    last_bid l = (if N.ltb 0 (last_height s) then m_bid m else bid_zero) /\
    last_time l = m_time m /\
    app_hash l = (if N.ltb 0 (last_height s)
                  then match get (last_height s) (d_ah d) with Some a => a | None => 0 end else 0) /\
    params l = params s /\ lhvc l = lhvc s /\ lhcpc l = lhcpc s /\
    next_vals l = next_vals s /\
    (keylist (vals l) = keylist (vals s) \/ collision H) /\
    match last_vals l with
    | None => last_height s = 0
    | Some Y => exists X, last_vals s = Some X /\ (keylist Y = keylist X \/ collision H)
    end.
Proof. exact save_load_any. Qed.
Print Assumptions C14_save_load_any_state_partial.

(** Save refuses (panics before anything is written) exactly the states above height 0 without
    LastValidators; a refused Save is no operation: database and node state are unchanged. *)
Theorem C14_save_refused_iff : forall H PK d s,
  save H PK d s = None <-> (last_height s <> 0 /\ last_vals s = None).
Proof. exact save_refused_iff. Qed.
Print Assumptions C14_save_refused_iff.

Theorem C14_refused_save_is_noop : forall H PK m s,
  m_cur m = Some s -> last_height s <> 0 -> last_vals s = None -> step H PK m OSave = (m, ObSave None).
Proof. exact refused_save_step. Qed.
Print Assumptions C14_refused_save_is_noop.

(** Saving the same state a second time (ApplyBlock replayed after a crash) changes nothing any
    load returns, at any height, whatever the database held. *)
Theorem C14_resave_same_loads : forall H PK d s d1 d2, save H PK d s = Some d1 -> save H PK d1 s = Some d2 ->
  (forall h, load_at d2 h = load_at d1 h) /\ (forall h, load_validators d2 h = load_validators d1 h) /\
  (forall h, load_params d2 h = load_params d1 h) /\ load d2 = load d1.
Proof. exact resave_same_loads. Qed.
Print Assumptions C14_resave_same_loads.

(** The height suffix of the state-record key (big-endian uint64, what the run compares with the
    key bytes the database was handed) separates all heights below 2^64: two states are never
    saved under one key. *)
Theorem C14_state_key_injective : forall h1 h2, h1 < 2 ^ 64 -> h2 < 2 ^ 64 -> be64 h1 = be64 h2 -> h1 = h2.
Proof. exact be64_injective. Qed.
Print Assumptions C14_state_key_injective.

(** Source tie: the guards, stored constants and stored operands of saveState, PruneState,
    loadStateAtHeight, Load, LoadValidators, LoadConsensusParams, LoadStateFromDBOrGenesisDoc,
    saveValidatorsInfo, LatestBlockState.ToProto / StateFromProto, MakeGenesisState, updateState,
    ValidatorSet.Hash / ToProto / ValidatorSetFromProto / ValidateBasic / IsNilOrEmpty,
    Validator.ValidateBasic / ValidatorFromProto, as go2coq regenerates them from the Go source on
    every check, are the expressions of the model (statement in C14/SourceTie.v). *)
Theorem C14_source_tie : C14_source_tie_statement.
Proof. exact C14_source_tie_proof. Qed.
Print Assumptions C14_source_tie.

(** The hypotheses of C14_roundtrip_full_when_keys_differ are satisfiable (genesis {1,2,3}, +val4 at
    block 1, +val5 at block 2, positional hash H0). *)
Example C14_keys_differ_satisfiable : genesis_ok w_g2 w_gb /\ chain_wf w_g2 w_fresh_chain /\
  valset_key H0 (vals (final_state w_g2 w_fresh_chain)) <> valset_key H0 (next_vals (final_state w_g2 w_fresh_chain)) /\
  (forall X, last_vals (final_state w_g2 w_fresh_chain) = Some X ->
     valset_key H0 X <> valset_key H0 (vals (final_state w_g2 w_fresh_chain)) /\
     valset_key H0 X <> valset_key H0 (next_vals (final_state w_g2 w_fresh_chain))).
Proof. exact w_fresh_ok. Qed.

(** The hypotheses are satisfiable: the 9-state witness chain is a well-formed chain. *)
Example C14_hypotheses_satisfiable : genesis_ok w_g2 w_gb /\ chain_wf w_g2 w_chain.
Proof. exact (conj w_genesis2_ok w_chain_wf). Qed.

(** The decision-critical functions of the anchored code have exactly the decisions the source tie knows about
    (go2coq manifests, regenerated from /repo on every check; statement in SourceManifest.v). *)
From Kardia Require Import C14.SourceManifest.
Theorem C14_source_manifest : C14_source_manifest_statement.
Proof. exact C14_source_manifest_proof. Qed.
Print Assumptions C14_source_manifest.
