(** C14 — statements not proved yet: none.

    Proved in round 4 and moved to Properties.v: [prune_safe_without_recurrence]
    (C14_prune_safe_without_recurrence; for every range C14_prune_safe_chain), the exact
    characterisation of what PruneState deletes (C14_prune_doomed_iff, C14_prune_doomed_deleted)
    and the exact characterisation of what Load returns after a chain was saved
    (C14_roundtrip_characterised, which settles the three sets one by one).

    The two statements of the property text that do not hold — the full round trip and the full
    prune safety — stay refuted in Properties.v (C14_roundtrip_refuted, C14_prune_safe_refuted:
    known findings), now with their exact frames next to them. *)
From Kardia Require Import C14.Model.
