(** C14 — statements not proved yet (no proof attempts are left here; nothing below is used by
    Properties.v).

    [prune_safe_without_recurrence]: the chain-level sufficient condition for PruneState to be
    harmless that complements C14_prune_safe_partial: if the range starts at the bottom
    (from <= 1, so that the only kept height below the range is the genesis state) and no
    validator-set key used as LastValidators at a pruned height is used again by a state above
    [to], then every kept height of the chain loads as before.  It follows from
    C14_prune_safe_partial + C14_prune_doomed once the invariant "the record of height h names
    the keys of state h" (Proofs.saved_ok) is carried through [prune]; the missing part is the
    bookkeeping that relates [In sh (states g xs)] to the height ranges. *)
From Coq Require Import List ZArith NArith Bool.
From Kardia Require Import C14.Model C14.Proofs C14.ProofsPrune.
Import ListNotations.
Local Open Scope N_scope.

Definition prune_safe_without_recurrence (H : list (N * Z) -> N) (PK : N -> N -> N) : Prop :=
  forall g gb xs d from to d' a b, genesis_ok g gb -> chain_wf g xs ->
    boot_chain H PK g gb xs = Some (d, final_state g xs) ->
    prune d from to = (d', a, b) -> from <= 1 ->
    (forall sp sh X, In sp (states g xs) -> In sh (states g xs) ->
        1 <= last_height sp < to -> to < last_height sh -> last_vals sp = Some X ->
        valset_key H X <> okey H (last_vals sh) /\ valset_key H X <> valset_key H (vals sh) /\
        valset_key H X <> valset_key H (next_vals sh)) ->
    forall sh, In sh (states g xs) -> kept from to (last_height sh) ->
      load_at d' (last_height sh) = load_at d (last_height sh) /\
      load_validators d' (last_height sh) = load_validators d (last_height sh).
