(** C14 — round 4 lemmas:
    - every state record of a chain's database is the record of one of the chain's states
      (the bookkeeping that was missing for [prune_safe_without_recurrence], Open.v), and the
      chain-level prune-safety theorem in its general form (any range);
    - Save followed by Load for ANY state (hand-built ones included: records without an
      initial height, arbitrary "last height changed" markers, any well-formed sets, any
      height), the exact condition under which Save refuses a state, and that a refused or a
      repeated Save leaves every load as it was;
    - the big-endian height suffix of the state-record key is injective below 2^64. *)
From Coq Require Import List ZArith NArith Bool Lia FinFun.
From Kardia Require Import C14.Model C14.Proofs C14.ProofsPrune.
Import ListNotations.
Local Open Scope N_scope.

(* ------------------------------------------------------------------ *)
(** * What Save writes *)

Section Saves.
Variable H : list (N * Z) -> N.
Variable PK : N -> N -> N.

Notation valset_key := (valset_key H).
Notation okey := (okey H).
Notation save := (save H PK).
Notation rec_of := (rec_of H PK).

(** Save refuses exactly the states above height 0 that have no LastValidators *)
Lemma save_refused_iff d s : save d s = None <-> (last_height s <> 0 /\ last_vals s = None).
Proof.
  unfold Model.save.
  destruct (N.eqb_spec (last_height s) 0) as [E|E]; cbn [negb andb].
  - split; [|intros (C & _); contradiction].
    destruct (save_vinfo H (d_vi d) (lhvc s) (last_vals s)) as [kl vi'].
    destruct (save_vinfo H vi' (lhvc s) (Some (vals s))) as [kv vi''].
    destruct (save_vinfo H vi'' (lhvc s) (Some (next_vals s))) as [kn vi2]. discriminate.
  - destruct (last_vals s) as [X|]; cbn [is_none].
    + split; [|intros (_ & C); discriminate].
      destruct (save_vinfo H (d_vi d) (lhvc s) (Some (next_vals s))) as [kn vi2]. discriminate.
    + split; auto.
Qed.

(** the validator records after Save: genesis writes last, current, next; any other height
    only next *)
Definition vi_after (vi : list (N * vinfo)) (s : cstate) : list (N * vinfo) :=
  let vi1 := if N.eqb (last_height s) 0
             then put (valset_key (vals s)) {| vi_set := Some (vals s); vi_lhc := lhvc s |}
                      (put (okey (last_vals s)) {| vi_set := last_vals s; vi_lhc := lhvc s |} vi)
             else vi in
  put (valset_key (next_vals s)) {| vi_set := Some (next_vals s); vi_lhc := lhvc s |} vi1.

Lemma save_shape d s d' : save d s = Some d' ->
  d' = {| d_cs := put (last_height s) (rec_of s) (d_cs d);
          d_vi := vi_after (d_vi d) s;
          d_pi := put (PK (params s) (lhcpc s)) {| pi_params := params s; pi_lhc := lhcpc s |} (d_pi d);
          d_bm := d_bm d; d_ah := d_ah d; d_head := d_head d |}.
Proof.
  unfold Model.save, vi_after, Proofs.rec_of.
  destruct (N.eqb (last_height s) 0); cbn [negb andb].
  - unfold save_vinfo. cbn [Model.okey]. intros [= <-]. reflexivity.
  - destruct (is_none (last_vals s)); [discriminate|].
    unfold save_vinfo. cbn [Model.okey]. intros [= <-]. reflexivity.
Qed.

(** saving the same state a second time changes no lookup *)
Lemma get_put_put {V} k k' (v : V) l : get k (put k' v (put k' v l)) = get k (put k' v l).
Proof.
  destruct (N.eq_dec k' k) as [->|E].
  - now rewrite !get_put_eq.
  - now rewrite !get_put_neq by auto.
Qed.

Lemma vi_after_idem vi s k : get k (vi_after (vi_after vi s) s) = get k (vi_after vi s).
Proof.
  unfold vi_after. destruct (N.eqb (last_height s) 0).
  - set (kn := valset_key (next_vals s)). set (kv := valset_key (vals s)). set (kl := okey (last_vals s)).
    set (rn := {| vi_set := Some (next_vals s); vi_lhc := lhvc s |}).
    set (rv := {| vi_set := Some (vals s); vi_lhc := lhvc s |}).
    set (rl := {| vi_set := last_vals s; vi_lhc := lhvc s |}).
    destruct (N.eq_dec kn k) as [->|En]; [now rewrite !get_put_eq|].
    rewrite (get_put_neq k kn) by auto. rewrite (get_put_neq k kn rn (put kv rv (put kl rl vi))) by auto.
    destruct (N.eq_dec kv k) as [->|Ev]; [now rewrite !get_put_eq|].
    rewrite (get_put_neq k kv) by auto. rewrite (get_put_neq k kv rv (put kl rl vi)) by auto.
    destruct (N.eq_dec kl k) as [->|El]; [now rewrite !get_put_eq|].
    rewrite (get_put_neq k kl) by auto. rewrite (get_put_neq k kn) by auto.
    rewrite (get_put_neq k kv) by auto. reflexivity.
  - apply get_put_put.
Qed.

Theorem resave_same_loads d s d1 d2 : save d s = Some d1 -> save d1 s = Some d2 ->
  (forall h, load_at d2 h = load_at d1 h) /\ (forall h, load_validators d2 h = load_validators d1 h) /\
  (forall h, load_params d2 h = load_params d1 h) /\ load d2 = load d1.
Proof.
  intros S1 S2. apply save_shape in S1. apply save_shape in S2. subst d1. subst d2.
  cbn [d_cs d_vi d_pi d_bm d_ah d_head].
  assert (A : forall h, load_at
     {| d_cs := put (last_height s) (rec_of s) (put (last_height s) (rec_of s) (d_cs d));
        d_vi := vi_after (vi_after (d_vi d) s) s;
        d_pi := put (PK (params s) (lhcpc s)) {| pi_params := params s; pi_lhc := lhcpc s |}
                    (put (PK (params s) (lhcpc s)) {| pi_params := params s; pi_lhc := lhcpc s |} (d_pi d));
        d_bm := d_bm d; d_ah := d_ah d; d_head := d_head d |} h =
     load_at
     {| d_cs := put (last_height s) (rec_of s) (d_cs d);
        d_vi := vi_after (d_vi d) s;
        d_pi := put (PK (params s) (lhcpc s)) {| pi_params := params s; pi_lhc := lhcpc s |} (d_pi d);
        d_bm := d_bm d; d_ah := d_ah d; d_head := d_head d |} h).
  { intros h. unfold load_at, read_set. cbn [d_cs d_vi d_pi d_bm d_ah].
    rewrite get_put_put. destruct (get h (put (last_height s) (rec_of s) (d_cs d))) as [r|]; [|reflexivity].
    rewrite !vi_after_idem, get_put_put. reflexivity. }
  split; [exact A|]. split; [|split].
  - intros h. unfold load_validators. cbn [d_cs d_vi]. rewrite get_put_put.
    destruct (get h (put (last_height s) (rec_of s) (d_cs d))) as [r|]; [|reflexivity].
    now rewrite vi_after_idem.
  - intros h. unfold load_params. cbn [d_cs d_pi]. rewrite get_put_put.
    destruct (get h (put (last_height s) (rec_of s) (d_cs d))) as [r|]; [|reflexivity].
    now rewrite get_put_put.
  - unfold load. cbn [d_head]. destruct (d_head d); [apply A|reflexivity].
Qed.

(** ** Save then Load of an arbitrary state *)

(** Whatever the state is (hand-built ones included) and whatever the database holds: if Save
    accepts it, the block meta of its height is in the block store, its current and next sets are
    well formed and — above height 0 — the records of its last and current set are there (they
    were written when those sets were the next set), then Load at that height returns the chain
    id, the initial height (1 for a record without one), the height, the next set exactly
    (priorities, proposer, cached total), both "last height changed" markers and the params as
    saved, the membership of the current and last set, and block id / time / tx count / app hash
    from the block store. *)
Theorem save_load_any d s d' m : save d s = Some d' ->
  get (last_height s) (d_bm d) = Some m -> m_height m = last_height s ->
  wfset (vals s) -> wfset (next_vals s) ->
  (0 < last_height s -> exists X, last_vals s = Some X /\ wfset X /\ has H (d_vi d) X /\
                                  has H (d_vi d) (vals s)) ->
  exists l, load_at d' (last_height s) = LOk l /\
    chain_id l = chain_id s /\
    initial_height l = (if N.eqb (initial_height s) 0 then 1 else initial_height s) /\
    last_height l = last_height s /\ last_total_tx l = m_ntx m /\
    last_bid l = (if N.ltb 0 (last_height s) then m_bid m else bid_zero) /\
    last_time l = m_time m /\
    app_hash l = (if N.ltb 0 (last_height s)
                  then match get (last_height s) (d_ah d) with Some a => a | None => 0 end else 0) /\
    params l = params s /\ lhvc l = lhvc s /\ lhcpc l = lhcpc s /\
    next_vals l = next_vals s /\
    (keylist (vals l) = keylist (vals s) \/ collision H) /\
    match last_vals l with
    | None => last_height s = 0
    | Some Y => exists X, last_vals s = Some X /\ (keylist Y = keylist X \/ collision H)
    end.
Proof.
  intros S Gm Hm Wv Wn Hpos. apply save_shape in S. subst d'.
  unfold load_at. cbn [d_cs d_vi d_pi d_bm d_ah]. rewrite get_put_eq, Gm, get_put_eq.
  cbn [Proofs.rec_of r_ih r_last r_vals r_next r_params r_chain pi_params pi_lhc].
  assert (Rn : read_set {| d_cs := put (last_height s) (rec_of s) (d_cs d); d_vi := vi_after (d_vi d) s;
                           d_pi := put (PK (params s) (lhcpc s)) {| pi_params := params s; pi_lhc := lhcpc s |} (d_pi d);
                           d_bm := d_bm d; d_ah := d_ah d; d_head := d_head d |}
                        (valset_key (next_vals s)) = inr (next_vals s, lhvc s)).
  { unfold read_set, vi_after. cbn [d_vi]. rewrite get_put_eq. cbn [vi_set vi_lhc].
    unfold wfset in Wn. now rewrite Wn. }
  rewrite Hm.
  destruct (N.ltb_spec 0 (last_height s)) as [Hp|Hz].
  - destruct (Hpos Hp) as (X & EX & WX & HX & HV).
    assert (Hne : N.eqb (last_height s) 0 = false) by (apply N.eqb_neq; lia).
    assert (HX' : has H (vi_after (d_vi d) s) X).
    { unfold vi_after. rewrite Hne. apply has_put; auto. }
    assert (HV' : has H (vi_after (d_vi d) s) (vals s)).
    { unfold vi_after. rewrite Hne. apply has_put; auto. }
    rewrite EX. cbn [Model.okey].
    destruct HX' as (lv & ll & Gl & Kl & Wl). destruct HV' as (cv & lc & Gc & Kc & Wc).
    unfold read_set at 1. cbn [d_vi]. rewrite Gl. cbn [vi_set vi_lhc].
    unfold wfset in Wl. rewrite Wl.
    unfold read_set at 1. cbn [d_vi]. rewrite Gc. cbn [vi_set vi_lhc].
    unfold wfset in Wc. rewrite Wc.
    rewrite Rn. eexists. split; [reflexivity|]. cbn.
    repeat split; auto.
    + apply key_eq_keylist; auto.
    + exists X. split; auto. apply key_eq_keylist; auto.
  - assert (E0 : last_height s = 0) by lia.
    assert (He : N.eqb (last_height s) 0 = true) by (apply N.eqb_eq; exact E0).
    assert (HV' : has H (vi_after (d_vi d) s) (vals s)).
    { unfold vi_after. rewrite He. apply has_put; auto. apply has_put_self; auto. }
    destruct HV' as (cv & lc & Gc & Kc & Wc).
    unfold read_set at 1. cbn [d_vi]. rewrite Gc. cbn [vi_set vi_lhc].
    unfold wfset in Wc. rewrite Wc.
    rewrite Rn. eexists. split; [reflexivity|]. cbn.
    repeat split; auto.
    apply key_eq_keylist; auto.
Qed.

(** a refused Save is no operation of the machine: the database and the node's state stay *)
Theorem refused_save_step m s : m_cur m = Some s -> last_height s <> 0 -> last_vals s = None ->
  step H PK m OSave = (m, ObSave None).
Proof.
  intros Hc Hh Hl. unfold step. rewrite Hc.
  assert (E : save (m_db m) s = None) by (apply save_refused_iff; auto).
  now rewrite E.
Qed.

(* ------------------------------------------------------------------ *)
(** * Every state record of a chain's database is the record of one of its states *)

Definition cs_named (P : cstate -> Prop) (d : db) : Prop :=
  forall h r, get h (d_cs d) = Some r -> exists si, P si /\ last_height si = h /\ r = rec_of si.

Lemma cs_named_weaken (P Q : cstate -> Prop) d : (forall si, P si -> Q si) -> cs_named P d -> cs_named Q d.
Proof. intros HPQ C h r G. destruct (C h r G) as (si & Hp & E1 & E2). exists si. auto. Qed.

Lemma cs_named_save P d b s d' : cs_named P d -> save (write_block d b) s = Some d' ->
  cs_named (fun si => P si \/ si = s) d'.
Proof.
  intros C S h r. apply save_shape in S. subst d'. cbn [d_cs write_block].
  destruct (N.eq_dec (last_height s) h) as [E|E].
  - subst h. rewrite get_put_eq. intros [= <-]. exists s. auto.
  - rewrite get_put_neq by auto. intros G. destruct (C h r G) as (si & Hp & E1 & E2). exists si. auto.
Qed.

Lemma states_head s xs : In s (states s xs).
Proof. destruct xs; cbn [states]; now left. Qed.

Lemma cs_named_chain xs : forall P d s d' f, cs_named P d -> save_chain H PK d s xs = Some (d', f) ->
  cs_named (fun si => P si \/ In si (states s xs)) d'.
Proof.
  induction xs as [|x t IH]; intros P d s d' f C S; cbn [save_chain states] in *.
  - injection S as <- <-. eapply cs_named_weaken; [|exact C]. auto.
  - destruct (save (write_block d (c_blk x)) (upd s x)) as [d1|] eqn:S1; [|discriminate].
    pose proof (cs_named_save P d (c_blk x) (upd s x) d1 C S1) as C1.
    specialize (IH _ d1 (upd s x) d' f C1 S).
    eapply cs_named_weaken; [|exact IH]. cbn beta. intros si [[Hp|E]|Hi].
    + now left.
    + subst si. right. right. apply states_head.
    + right. right. exact Hi.
Qed.

Lemma cs_named_boot g gb xs d f : boot_chain H PK g gb xs = Some (d, f) ->
  cs_named (fun si => In si (states g xs)) d.
Proof.
  unfold boot_chain. destruct (save (write_block empty_db gb) g) as [d0|] eqn:S0; [|discriminate].
  intros S.
  assert (C0 : cs_named (fun _ => False) empty_db) by (intros h r; cbn; discriminate).
  pose proof (cs_named_save _ _ gb g d0 C0 S0) as C1.
  pose proof (cs_named_chain xs _ d0 g d f C1 S) as C.
  eapply cs_named_weaken; [|exact C]. cbn beta. intros si [[[]|E]|Hi]; [|exact Hi].
  subst si. apply states_head.
Qed.

(* ------------------------------------------------------------------ *)
(** * Chain-level prune safety *)

(** For every chain, every range and every kept height h: if no set that was LastValidators at a
    pruned height has the key of one of the three sets of state h (h other than 0 and [to], which
    PruneState protects itself), then Load / LoadValidators / LoadConsensusParams at h return
    what they returned before.  (With recurring memberships the hypothesis fails and so does the
    conclusion: C14_prune_safe_refuted.) *)
Theorem prune_safe_chain g gb xs d from to d' a b :
  genesis_ok g gb -> chain_wf g xs -> boot_chain H PK g gb xs = Some (d, final_state g xs) ->
  prune d from to = (d', a, b) ->
  forall sh, In sh (states g xs) -> kept from to (last_height sh) ->
    (last_height sh <> 0 -> last_height sh <> to ->
     forall sp X, In sp (states g xs) -> from1 from <= last_height sp < to -> last_vals sp = Some X ->
       valset_key X <> okey (last_vals sh) /\ valset_key X <> valset_key (vals sh) /\
       valset_key X <> valset_key (next_vals sh)) ->
    load_at d' (last_height sh) = load_at d (last_height sh) /\
    load_validators d' (last_height sh) = load_validators d (last_height sh) /\
    load_params d' (last_height sh) = load_params d (last_height sh).
Proof.
  intros Hg Hw Hb Hp sh Hsh Hk Hnr.
  destruct (boot_chain_inv H PK g gb xs Hg Hw) as (d0 & ss & Hb0 & I & Hin).
  rewrite Hb in Hb0. injection Hb0 as <-.
  pose proof (cs_named_boot g gb xs d _ Hb) as C.
  destruct (i_all _ _ _ _ _ _ I sh (Hin sh Hsh)) as (Gsh & _).
  destruct (N.eq_dec (last_height sh) 0) as [E0|N0].
  { apply (prune_safe_protected d from to d' a b _ (rec_of sh) Hp); auto. }
  destruct (N.eq_dec (last_height sh) to) as [Et|Nt].
  { apply (prune_safe_protected d from to d' a b _ (rec_of sh) Hp); auto. }
  apply (prune_safe_cond d from to d' a b _ (rec_of sh) Hp Hk Gsh).
  intros k Hkin Hd.
  destruct (doomed_spec d from to k Hd) as ((i & r & Hi & Gi & Er) & _ & _).
  destruct (C i r Gi) as (sp & Hsp & Ehi & Erec).
  pose proof (from1_pos from) as Hf.
  destruct (i_all _ _ _ _ _ _ I sp (Hin sp Hsp)) as (_ & _ & _ & Hl & _).
  destruct Hl as (X & EX & _); [lia|].
  assert (Ek : k = valset_key X).
  { rewrite <- Er, Erec. unfold Proofs.rec_of. cbn [r_last]. rewrite EX. reflexivity. }
  destruct (Hnr N0 Nt sp X Hsp) as (A1 & A2 & A3); [lia|exact EX|].
  unfold rec_keys, Proofs.rec_of in Hkin. cbn [r_last r_vals r_next In] in Hkin.
  destruct Hkin as [E|[E|[E|[]]]]; congruence.
Qed.

(** the statement that was open (Open.v, round 3): ranges that start at the bottom *)
Theorem prune_safe_without_recurrence_proof :
  forall g gb xs d from to d' a b, genesis_ok g gb -> chain_wf g xs ->
    boot_chain H PK g gb xs = Some (d, final_state g xs) ->
    prune d from to = (d', a, b) -> from <= 1 ->
    (forall sp sh X, In sp (states g xs) -> In sh (states g xs) ->
        1 <= last_height sp < to -> to < last_height sh -> last_vals sp = Some X ->
        valset_key X <> okey (last_vals sh) /\ valset_key X <> valset_key (vals sh) /\
        valset_key X <> valset_key (next_vals sh)) ->
    forall sh, In sh (states g xs) -> kept from to (last_height sh) ->
      load_at d' (last_height sh) = load_at d (last_height sh) /\
      load_validators d' (last_height sh) = load_validators d (last_height sh).
Proof.
  intros g gb xs d from to d' a b Hg Hw Hb Hp Hfrom Hnr sh Hsh Hk.
  assert (F1 : from1 from = 1).
  { unfold from1. destruct (N.eqb_spec from 0); lia. }
  destruct (prune_safe_chain g gb xs d from to d' a b Hg Hw Hb Hp sh Hsh Hk) as (A & B & _); auto.
  intros N0 Nt sp X Hsp Hr EX. apply (Hnr sp sh X); auto; try lia.
  unfold kept in Hk. rewrite F1 in *. lia.
Qed.

End Saves.

(* ------------------------------------------------------------------ *)
(** * The height suffix of the state-record key *)

Definition decode_be (l : list N) : N := fold_left (fun acc b => acc * 256 + b) l 0.

Lemma decode_be_app l x : decode_be (l ++ [x]) = decode_be l * 256 + x.
Proof. unfold decode_be. now rewrite fold_left_app. Qed.

Lemma decode_bytes_be n : forall h, decode_be (bytes_be n h) = h mod 256 ^ N.of_nat n.
Proof.
  induction n as [|n IH]; intros h.
  - cbn. now rewrite N.mod_1_r.
  - cbn [bytes_be]. rewrite decode_be_app, IH.
    rewrite Nat2N.inj_succ, N.pow_succ_r'.
    rewrite N.mod_mul_r by (try apply N.pow_nonzero; lia). lia.
Qed.

Theorem be64_injective h1 h2 : h1 < 2 ^ 64 -> h2 < 2 ^ 64 -> be64 h1 = be64 h2 -> h1 = h2.
Proof.
  intros B1 B2 E. apply (f_equal decode_be) in E. unfold be64 in E.
  rewrite !decode_bytes_be in E. change (256 ^ N.of_nat 8) with (2 ^ 64) in E.
  now rewrite !N.mod_small in E.
Qed.

(** ... and beyond 2^64 it is not (the parameter of the Go function is a uint64, so this cannot
    happen there; a key built from fewer bytes would make it happen below 2^64) *)
Example be64_wraps : be64 (2 ^ 64) = be64 0.
Proof. vm_compute. reflexivity. Qed.

Lemma be64_length h : length (be64 h) = 8%nat.
Proof.
  unfold be64. generalize 8%nat. intros n. revert h.
  induction n as [|n IH]; intros h; cbn [bytes_be]; auto.
  rewrite app_length, IH. cbn. lia.
Qed.

(* ------------------------------------------------------------------ *)
(** * PruneState deletes exactly the doomed records (converse of ProofsPrune.doomed_spec) *)

Lemma heights_NoDup from to : NoDup (heights from to).
Proof.
  unfold heights. apply FinFun.Injective_map_NoDup; [|apply seq_NoDup].
  intros x y E. lia.
Qed.

Lemma prune_step_cache_mono hs : forall acc k,
  In k (snd (fst acc)) -> In k (snd (fst (fold_left prune_step hs acc))).
Proof.
  induction hs as [|i t IH]; intros [[cs cache] n] k Hk; cbn [fold_left]; auto.
  apply IH. unfold prune_step. destruct (get i cs); cbn [fst snd] in *; auto. now right.
Qed.

Lemma prune_fold_cache cs0 hs : forall acc, NoDup hs ->
  (forall i, In i hs -> get i (fst (fst acc)) = get i cs0) ->
  forall i r, In i hs -> get i cs0 = Some r ->
    In (r_last r) (snd (fst (fold_left prune_step hs acc))).
Proof.
  induction hs as [|i0 t IH]; intros [[cs cache] n] Hnd Hsame i r Hi G; [destruct Hi|].
  cbn [fst snd] in Hsame. inversion Hnd as [|? ? Hnotin Hnd']; subst.
  cbn [fold_left]. destruct Hi as [<-|Hi].
  - apply prune_step_cache_mono. unfold prune_step. rewrite (Hsame i0 (or_introl eq_refl)). rewrite G.
    cbn [fst snd]. now left.
  - apply (IH (prune_step (cs, cache, n) i0) Hnd') with (i := i); auto.
    intros j Hj. unfold prune_step. destruct (get i0 cs) eqn:G0; cbn [fst].
    + rewrite get_del_neq by (intros ->; contradiction). apply Hsame. now right.
    + apply Hsame. now right.
Qed.

Lemma unprotect_intro cache o k : In k cache -> (forall r, o = Some r -> ~ In k (rec_keys r)) ->
  In k (unprotect cache o).
Proof.
  intros Hk Hn. unfold unprotect. destruct o as [r|]; auto.
  apply filter_In. split; auto. apply negb_true_iff.
  destruct (existsb (N.eqb k) (rec_keys r)) eqn:E; auto.
  apply existsb_exists in E. destruct E as (x & Hx & Ex). apply N.eqb_eq in Ex. subst x.
  exfalso. apply (Hn r eq_refl Hx).
Qed.

Theorem doomed_complete d from to k :
  (exists i r, from1 from <= i < to /\ get i (d_cs d) = Some r /\ r_last r = k) ->
  (forall r, get 0 (d_cs d) = Some r -> ~ In k (rec_keys r)) ->
  (forall r, get to (d_cs d) = Some r -> ~ In k (rec_keys r)) ->
  In k (doomed d from to).
Proof.
  intros (i & r & Hi & G & <-) P0 Pto. unfold doomed. fold (from1 from).
  pose proof (from1_pos from) as Hf.
  destruct (prune_fold_spec (d_cs d) (heights (from1 from) to) (d_cs d, [], 0)) as (A & _ & _).
  { cbn [fst]. auto. }
  pose proof (prune_fold_cache (d_cs d) (heights (from1 from) to) (d_cs d, [], 0)
                (heights_NoDup _ _) (fun _ _ => eq_refl) i r) as C.
  destruct (fold_left prune_step (heights (from1 from) to) (d_cs d, [], 0)) as [[cs1 cache] n] eqn:F.
  cbn [fst snd] in A, C.
  apply unprotect_intro; [apply unprotect_intro|].
  - apply C; auto. now apply heights_In.
  - intros r0 G0. apply P0. rewrite <- G0. symmetry. apply A. rewrite heights_In. lia.
  - intros r0 G0. apply Pto. rewrite <- G0. symmetry. apply A. rewrite heights_In. lia.
Qed.

(** PruneState deletes the record under [k] iff [k] is the LastValidatorsInfoHash of a pruned
    height and neither the genesis record nor the record of height [to] names it *)
Theorem doomed_iff d from to k : In k (doomed d from to) <->
  ((exists i r, from1 from <= i < to /\ get i (d_cs d) = Some r /\ r_last r = k) /\
   (forall r, get 0 (d_cs d) = Some r -> ~ In k (rec_keys r)) /\
   (forall r, get to (d_cs d) = Some r -> ~ In k (rec_keys r))).
Proof.
  split; [apply doomed_spec|]. intros (A & B & C). now apply doomed_complete.
Qed.

(** ... and a doomed record really is gone afterwards *)
Lemma del_fold_gone ks : forall acc k, In k ks -> get k (fst (fold_left del_step ks acc)) = None.
Proof.
  induction ks as [|j t IH]; intros [vi n] k Hk; [destruct Hk|]. cbn [fold_left].
  destruct (in_dec N.eq_dec k t) as [Hin|Hnot]; [now apply IH|].
  destruct Hk as [->|Hk]; [|contradiction].
  rewrite del_fold_spec by exact Hnot. unfold del_step.
  destruct (get k vi) eqn:G; cbn [fst]; [apply get_del_eq|exact G].
Qed.

Theorem doomed_deleted d from to d' a b k : prune d from to = (d', a, b) ->
  In k (doomed d from to) -> get k (d_vi d') = None.
Proof.
  unfold prune, doomed.
  destruct (fold_left prune_step _ (d_cs d, [], 0)) as [[cs1 cache] n].
  pose proof (del_fold_gone (unprotect (unprotect cache (get 0 cs1)) (get to cs1)) (d_vi d, 0) k) as D.
  destruct (fold_left del_step _ (d_vi d, 0)) as [vi1 m]. cbn [fst] in D.
  intros [= <- <- <-] Hk. cbn [d_vi]. auto.
Qed.
