#!/usr/bin/env python3
"""Prints the brief for an independent 'seeded breakage' sub-agent for property <id>, worktree tag <tag>.
The brief contains only the property text and the scratch worktree path - nothing from /verif."""
import json, sys, subprocess, os
pid, tag = sys.argv[1], sys.argv[2]
p = next(json.loads(l) for l in open('/verif/properties.jsonl') if json.loads(l)['id'] == pid)
wt = "/tmp/mut/%s_%s" % (pid, tag)
out = wt + ".out"
if not os.path.exists(wt):
    subprocess.run(["git", "-C", "/repo", "worktree", "add", "-q", "--detach", wt, "HEAD"], check=True)
os.makedirs(out, exist_ok=True)
print(f"""You are testing how well a verification effort can detect regressions in a Go code base. You have your own scratch git worktree of the repository kardiachain/go-kardia at {wt} (a Tendermint-style blockchain node: BFT consensus with WAL, validator sets, EVM-derived KVM, tx pool, Merkle trie, RLP codec, p2p). Work ONLY inside {wt} and write your results to {out}/. Do NOT read or touch /verif or /repo (your work must be independent of the existing checks).

PROPERTY that the code is supposed to satisfy:
  Title: {p['title']}
  Statement: {p['statement']}
  Quantified over: {p['quantifier']['text']}
  Code the property is anchored in: {', '.join(p['anchors']['files'])}

YOUR TASK: produce up to THREE independent changes ("seeded defects") to the repository, each of which BREAKS this property while (a) the repository still compiles (`go build ./...`), and (b) the existing test suite still passes: run `/tmp/mut/suite.sh {wt}` with your change applied — it runs the whole pinned suite (about 3–6 minutes) and must report `missing 0` (a couple of p2p timing tests can flake under machine load: re-run just that package to confirm before blaming your change). Each change must be REALISTIC (the kind of slip a maintainer could make in a refactoring or optimisation: a wrong comparison, a dropped or reordered check, an off-by-one, a stale cache, a missing restore on an error path, two sites that each look fine alone) and SUBTLE: it must need something specific to manifest — a particular interleaving or order of operations, a fault at a particular point, a multi-step sequence, an unusual/boundary input, or two cooperating edits — not something that ordinary use or the existing tests would expose at once. Prefer changes in different functions/files for the three seeds, and touching different clauses of the property.

For each seed k = 1..3 deliver in {out}/seed<k>/:
  - patch.diff  : `git diff` of exactly that one change against the worktree's HEAD (apply-able with `git apply`);
  - a demonstration: Go test file(s) or a small `main` program stored under seed<k>/demo/ MIRRORING the repository path where each file must be placed (e.g. seed<k>/demo/types/zz_seed_test.go is copied to <worktree>/types/zz_seed_test.go), plus seed<k>/run.sh: a script taking the worktree path as $1 that runs the demonstration there (`cd "$1" && go test -vet=off -count=1 -run 'TestZzSeed…' ./types/`) and exits non-zero when it fails. The demonstration must FAIL with the change applied and PASS on the unchanged HEAD — run it both ways yourself and paste the two outputs into notes.md;
  - notes.md    : which clause of the property breaks, why the existing tests do not notice, what exactly is needed for it to manifest (inputs / sequence / timing), and the commands you ran.
Keep the worktree clean between seeds (`git -C {wt} checkout -- . && git -C {wt} clean -fdq`) so that each patch is independent. Shell environment for every go command: `export GOFLAGS=-mod=mod GOPROXY=off GOSUMDB=off GOTOOLCHAIN=local` (no network; default go is 1.23). Do not commit anything. When done, reply with a short summary of the seeds (one paragraph each).""")
