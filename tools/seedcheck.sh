#!/bin/bash
# usage: tools/seedcheck.sh <property id> <seed dir (patch.diff, demo/, run.sh)> <name> [full]
# Confirms a seeded change in a scratch worktree of /repo HEAD: patch applies, builds, demonstration
# passes without and fails with the change, (optionally, "full") the pinned suite still passes, and
# then runs the property's quick check against the changed tree. Prints a JSON summary line.
export GOFLAGS=-mod=mod GOPROXY=off GOSUMDB=off GOTOOLCHAIN=local
P=$1; S=$(cd "$2" && pwd); N=$3; FULL=$4
W=/tmp/scratch/seed_$N
git -C /repo worktree remove --force $W 2>/dev/null
git -C /repo worktree add -q --detach $W HEAD || exit 2
res() { echo "SEEDCHECK $N $1"; }
if [ -d $S/demo ]; then cp -r $S/demo/. $W/; fi
# demo on unchanged tree
DEMO_CLEAN=skip; DEMO_MUT=skip
if [ -f $S/run.sh ]; then bash $S/run.sh $W > $W/.demo_clean.log 2>&1 && DEMO_CLEAN=pass || DEMO_CLEAN=fail; fi
( cd $W && git apply --whitespace=nowarn $S/patch.diff ) || { res "patch-does-not-apply"; git -C /repo worktree remove --force $W; exit 1; }
( cd $W && go build ./... ) > $W/.build.log 2>&1
# (three cmd packages fail to LINK on the unchanged tree too: fjl/memsize vs go1.23; ignore exactly those)
if grep -v "memsize\|function main is undeclared" $W/.build.log | grep -v "^# github.com/kardiachain/go-kardia/\(cmd\|cmd/kaigo\|dualnode/eth/eth_client\)$" | grep -q .; then res "does-not-build"; tail -5 $W/.build.log; git -C /repo worktree remove --force $W; exit 1; fi
if [ -f $S/run.sh ]; then bash $S/run.sh $W > $W/.demo_mut.log 2>&1 && DEMO_MUT=pass || DEMO_MUT=fail; fi
SUITE=skipped
if [ "$FULL" = full ]; then
  # the suite must be judged without the demonstration files
  if [ -d $S/demo ]; then (cd $S/demo && find . -type f) | while read f; do rm -f "$W/$f"; done; fi
  /tmp/mut/suite.sh $W > $W/.suite.log 2>&1 && SUITE=pass || SUITE="fail: $(grep MISSING $W/.suite.log | head -3 | tr '\n' ' ')"
fi
cd /verif && VERIF_REPO=$W ./check $P > $W/.check.log 2>&1; RC=$?
DET=$(grep -c '^VIOLATION' $W/.check.log)
echo "SEEDCHECK $N property=$P demo_clean=$DEMO_CLEAN demo_mutated=$DEMO_MUT suite=$SUITE check_rc=$RC violations=$DET"
grep -E '^(VIOLATION|KNOWN|OK)' $W/.check.log | cut -c1-400
mkdir -p /verif/.work/seedlogs && cp $W/.check.log /verif/.work/seedlogs/$N.check.log 2>/dev/null
git -C /repo worktree remove --force $W
