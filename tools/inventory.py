#!/usr/bin/env python3
"""Prints the theorem inventory table for DESIGN.md (from coq/theories/Cxx/Properties.v and Open.v)."""
import re, glob, os
print('| id | theorems in Properties.v | of which `_partial` | `_refuted` (computed witnesses) | source tie | open statements (Open.v, not claimed) | Coq lines |')
print('|---|---|---|---|---|---|---|')
for d in sorted(glob.glob('/verif/coq/theories/C[0-9][0-9]')):
    pid = os.path.basename(d)
    p = open(os.path.join(d, 'Properties.v')).read()
    th = re.findall(r'^\s*(?:Theorem|Lemma|Corollary)\s+([A-Za-z0-9_\']+)', p, re.M)
    part = [t for t in th if t.endswith('_partial') or '_partial_' in t]
    ref = [t for t in th if 'refuted' in t]
    tie = 'yes' if any(t.endswith('_source_tie') for t in th) else '-'
    op = []
    of = os.path.join(d, 'Open.v')
    if os.path.exists(of):
        txt = open(of).read()
        txt = re.sub(r'\(\*.*?\*\)', '', txt, flags=re.S)
        op = [n for n in re.findall(r'^Definition\s+([A-Za-z0-9_\']+)[^:=]*:\s*Prop', txt, re.M)]
    lines = sum(len(open(f).read().split('\n')) for f in glob.glob(os.path.join(d, '*.v')))
    print('| %s | %d | %s | %s | %s | %s | %d |' % (pid, len(th), ', '.join('`%s`' % t for t in part) or '-', ', '.join('`%s`' % t for t in ref) or '-', tie,
          ', '.join('`%s`' % t for t in op) or '-', lines))
