#!/bin/bash
# Runs the repository's pinned test suite (guard OFF) and compares with BASELINE.json's stable_pass list.
export GOFLAGS=-mod=mod GOPROXY=off GOSUMDB=off GOTOOLCHAIN=local
OUT=${1:-/tmp/baseline.$$.json}
(cd /repo && go test -mod=mod -json -vet=off -count=1 -timeout 25m ./... > "$OUT" 2>/dev/null)
python3 - "$OUT" <<'PY'
import json,sys
base=set(json.load(open('/root/.vp/BASELINE.json'))['stable_pass'])
passed=set()
for l in open(sys.argv[1]):
    try: e=json.loads(l)
    except: continue
    if e.get('Action')=='pass' and e.get('Test'):
        passed.add(e['Package']+'::'+e['Test'])
missing=sorted(base-passed)
print('baseline',len(base),'passed_now',len(passed),'missing',len(missing))
for m in missing[:40]: print('MISSING',m)
sys.exit(1 if missing else 0)
PY
rc=$?
rm -f "$OUT"
exit $rc
