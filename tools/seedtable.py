#!/usr/bin/env python3
"""Prints the markdown table of seeded changes (from /verif/seeded/*/*/meta.json) for DESIGN.md §6c."""
import glob, json, os, re
rows = []
for m in sorted(glob.glob('/verif/seeded/*/*/meta.json')):
    d = json.load(open(m))
    notes = ''
    np_ = os.path.join(os.path.dirname(m), 'notes.md')
    what = d.get('breaks') or ''
    if not what and os.path.exists(np_):
        txt = open(np_).read()
        # first non-heading paragraph line
        for l in txt.split('\n'):
            l = l.strip()
            if l and not l.startswith('#') and len(l) > 40:
                what = l[:230]; break
    files = ', '.join(d.get('files_changed') or ([d.get('file')] if d.get('file') else []))
    det = d.get('detected_by_check')
    if det is None: det = bool(d.get('detected_by'))
    v = d.get('violations') or []
    classes = sorted({(re.search(r'class=(\S+)', x).group(1) if re.search(r'class=(\S+)', x) else ('correspondence' if 'correspondence' in x else 'obligation')) for x in v})
    how = ', '.join(classes) if classes else (d.get('detected_by', '') or '')[:120]
    status = 'caught' if det else 'MISSED at first' + (' → ' + d['followup'] if d.get('followup') else '')
    rows.append('| %s/%s | %s | %s | %s | %s |' % (d['property'], d['seed'], files, what.replace('|', '/'), status, how.replace('|', '/')))
print('| seed | file(s) | what breaks / what it needs | result of `./check` | oracle classes / how |')
print('|---|---|---|---|---|')
print('\n'.join(rows))
