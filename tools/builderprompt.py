#!/usr/bin/env python3
"""Prints the brief for a 'property builder' sub-agent (round 3: strengthen detection, extend model + theorems).
usage: tools/builderprompt.py <id> [missed seed dirs...] [-- extra text]"""
import json, sys
pid = sys.argv[1]
rest = sys.argv[2:]
extra = ""
if "--" in rest:
    k = rest.index("--")
    extra = " ".join(rest[k + 1:])
    rest = rest[:k]
p = next(json.loads(l) for l in open('/verif/properties.jsonl') if json.loads(l)['id'] == pid)
seeds = rest
seedtxt = ""
if seeds:
    seedtxt = f"""
GOAL 1 (first): seeded regressions that `./check {pid}` currently MISSES.  Independent engineers were given only the property
text and produced realistic, subtle changes to the repository that break the property while compiling and passing the
existing tests.  These ones were not detected: {', '.join(seeds)} (each directory has patch.diff, notes.md = what breaks and
what it needs to manifest, demo/ + run.sh = a demonstration that fails with the change).  Make `./check {pid}` detect each of
them — preferably with a concrete failing input from a DIRECT oracle on the implementation (a `FAIL` line), otherwise through
the model/implementation correspondence — WITHOUT special-casing the seed: add the *family* of inputs / operation sequences /
configurations that the seed shows is not exercised (and the neighbouring families it suggests), extend the Coq model to the
code path if it is not modelled yet (the model must then agree with the unchanged implementation on the new family), and add
the direct oracle.  Test with `tools/seedcheck.sh {pid} seeded/{pid}/aN {pid}_aN` (applies the patch in a scratch worktree under
/tmp/scratch, runs the demo both ways and then `VERIF_REPO=<worktree> ./check {pid}`; log copied to .work/seedlogs/).  The check must
still print `OK` and exit 0 on the unchanged tree (`./check {pid}`), several seeds (`--seed 2`, `--seed 3`) included.
"""
print(f"""You are a property builder in a Coq-based verification framework for the Go repository kardiachain/go-kardia (in /repo; a
Tendermint-style blockchain node).  The framework lives in /verif and is already built for all 20 properties; you own property
{pid} in this round.  READ FIRST, fully: /verif/BUILDING.md (how a check is built, the rules, Coq hygiene, what you may touch),
then /verif/DESIGN.md §5 "{pid}" and the {pid} rows of §6a/§6b, `/verif/props/{pid}.json`, `coq/theories/{pid}/*.v`
(Model, Proofs*, Properties, Open), `ocaml/{pid}/driver.ml`, and the harness named in props/{pid}.json.

PROPERTY {pid} — {p['title']}
  Statement: {p['statement']}
  Quantified over: {p['quantifier']['text']}
  Anchored in: {', '.join(p['anchors']['files'])}
{seedtxt}
GOAL 2: widen detection beyond those seeds.  Go through the anchored code (every check, comparison, boundary, error path,
restore-on-error, cache, ordering decision that the property depends on) and ask for each: "if a maintainer slipped here — flipped
comparison, dropped/reordered check, off-by-one, stale value on a re-entry path, missing restore on an error path, unchecked
overflow, wrong lookup key — is there a generated case family AND an observable/oracle in `./check {pid}` that would flag it?"
Where not, add the family/oracle (and model it).  Boundary values the code names (maximum sizes, index 127/128 style encoding
boundaries, exact multiples, empty/zero/nil, first/last element, re-entry after restart/rotation, already-existing destination,
wrap-around sums of near-maximal values) deserve explicit generator families.  Validate with 3–6 mutants of your own in a scratch
worktree (see BUILDING.md "Never edit /repo"), one at a time, and list them with outcomes in your report.  Never loosen a correct
oracle, never raise an alarm on the unchanged tree.

GOAL 3: grow the proof.  Every code path you newly exercise should be in the Gallina model and covered by a theorem in
`coq/theories/{pid}/Properties.v` (unbounded statement, `exact lemma.`, `Print Assumptions`); statements in `Open.v` that you can
prove should move to Properties.v; keep weaker results labelled `_partial`, refuted ones `_refuted` with a computed witness.  No
Axiom/Parameter/Admitted/admit; stdlib + lia style as in BUILDING.md.  Proof effort should go where the property's statement is
not yet carried in full.

GOAL 4: source tie.  Read the LAST section of /verif/BUILDING.md ("Source tie with go2coq") and add the tie for {pid}:
`go2coq/specs/{pid}.json` listing the pure functions and the guard-bearing methods of the anchored code, the generated
`coq/theories/Generated/{pid}Source.v`, `coq/theories/{pid}/SourceTie.v` proving that the model's arithmetic and guards ARE those
expressions (atoms pinned), `Theorem {pid}_source_tie` in Properties.v, and the `"go2coq"` entry / `coq_extra_files` / a
trusted_base line in props/{pid}.json.  `go2coq/main.go` and `Base/GoSem.v` are shared: report what is missing instead of editing them.
Validate with 2-3 guard mutants (flipped comparison, changed constant, changed operand) and one harmless edit in a scratch worktree.

CONSTRAINTS: the quick check (`./check {pid}`) must stay under about 90 s wall on a warm build and print `OK`; other builders are
working on other properties at the same time (16 cores shared: do not start more than one heavy job at once; run every
coqc/make/go under `timeout`).  Do NOT edit /repo, MANIFEST.json, known_findings.json or other properties' files; shared files
(lib/verif.py, check, ocaml/common/*, harness/internal/*, coq/theories/Base/*) only additively and say so in the report.  Do NOT
git commit (the lead commits).  If you find what looks like a genuine defect of the UNCHANGED repository (property fails on
/repo as it is), do not paper over it: report the exact failing input and a tiny Go reproduction to the lead.  Scratch files
only under /verif/.work or /tmp/scratch, removed at the end (git worktrees removed with `git -C /repo worktree remove --force`).
{extra}
FINISH by running `./check {pid}` (OK, exit 0), `./check {pid} --seed 2`, each missed seed through tools/seedcheck.sh, and
`./check {pid} --tier thorough` once (it must also be OK; it rewrites evidence/{pid}.json — then run the quick check last so the
committed evidence is the quick tier's), validate evidence/{pid}.json against /root/.vp/EVIDENCE.schema.json as BUILDING.md
shows, and reply with the final report described in BUILDING.md (files changed; theorems added with one-line meaning; seeds
now caught and by which oracle class; own mutants tried and outcomes; run times; suspected genuine defects with repro).""")
