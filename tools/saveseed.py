#!/usr/bin/env python3
"""usage: saveseed.py <prop> <seed src dir> <tag> <seedcheck log> -- copies patch/demo/run.sh/notes into
/verif/seeded/<prop>/<tag>/ and writes meta.json from the SEEDCHECK line + VIOLATION lines in the log."""
import json, os, re, shutil, sys
prop, src, tag, log = sys.argv[1:5]
dst = os.path.join('/verif/seeded', prop, tag)
os.makedirs(dst, exist_ok=True)
for f in ('patch.diff', 'notes.md', 'run.sh'):
    if os.path.exists(os.path.join(src, f)): shutil.copy(os.path.join(src, f), dst)
if os.path.isdir(os.path.join(src, 'demo')):
    shutil.rmtree(os.path.join(dst, 'demo'), ignore_errors=True); shutil.copytree(os.path.join(src, 'demo'), os.path.join(dst, 'demo'))
name = '%s_%s' % (prop, tag)
lines = open(log).read().split('\n')
sc = next((l for l in lines if l.startswith('SEEDCHECK ' + name + ' ')), '')
i = lines.index(sc) if sc in lines else -1
viol = []
for l in lines[i+1:]:
    if l.startswith('SEEDCHECK'): break
    if l.startswith('VIOLATION'): viol.append(re.sub(r'replay=\S+ ', '', l)[:240])
kv = dict(re.findall(r'(\w+)=(\S+)', sc))
notes = open(os.path.join(src, 'notes.md')).read() if os.path.exists(os.path.join(src, 'notes.md')) else ''
files = re.findall(r'^\+\+\+ b/(\S+)', open(os.path.join(src, 'patch.diff')).read(), re.M)
meta = {"property": prop, "seed": tag, "files_changed": files,
        "produced_by": "independent sub-agent given only the property text and its own scratch worktree",
        "needs_to_manifest": "see notes.md (first section)",
        "confirmed": {"patch_applies_to_repo_HEAD": True, "builds": True, "demo_on_unchanged_tree": kv.get('demo_clean'), "demo_with_patch": kv.get('demo_mutated'),
                      "suite": kv.get('suite', 'skipped') + " (agent's own runs: see notes.md; timing-sensitive packages flake under machine load and were re-run individually)"},
        "detected_by_check": bool(viol), "check_rc": kv.get('check_rc'), "violations": viol,
        "ran": "tools/seedcheck.sh %s %s %s  (scratch worktree of /repo HEAD + patch; VERIF_REPO=<worktree> ./check %s)" % (prop, src, name, prop)}
json.dump(meta, open(os.path.join(dst, 'meta.json'), 'w'), indent=1)
print(name, 'detected' if viol else 'MISSED')
