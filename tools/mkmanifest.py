#!/usr/bin/env python3
"""Regenerates /verif/MANIFEST.json from props/*.json and the DONE table below (the lead edits DONE)."""
import json, os
ROOT = os.path.dirname(os.path.dirname(os.path.abspath(__file__)))
props = [json.loads(l) for l in open(os.path.join(ROOT, 'properties.jsonl'))]
# property id -> (level text, level note); only properties whose ./check passes on the unchanged tree
DONE = json.load(open(os.path.join(ROOT, 'tools', 'done.json')))
checks = []
for p in props:
    pid = p['id']
    if pid not in DONE:
        continue
    d = DONE[pid]
    cfg = json.load(open(os.path.join(ROOT, 'props', pid + '.json')))
    checks.append({
        "property_id": pid,
        "quick_cmd": "./check %s --tier quick" % pid,
        "thorough_cmd": "./check %s --tier thorough" % pid,
        "evidence_file": "evidence/%s.json" % pid,
        "replay_cmd_template": "./check %s --replay {path}" % pid,
        "engine": "coq-model-and-proofs",
        "level_claimed": {"category": "proof", "text": d["text"], "design_ref": "DESIGN.md §5 %s, §6b, §6d" % pid},
        "level_note": d.get("note", "Trusted: Coq 8.16.1 kernel; extraction with ExtrOcamlBasic only; OCaml driver; Go harness (generators, observable projection, direct oracles); theorems are about the Gallina model, tied to /repo by regenerated facts and a differential correspondence run on every check. " + "; ".join(cfg.get("assumptions", []))[:900]),
        "technique": d.get("technique", "machine-checked proof in Coq (Rocq) + model/implementation correspondence check"),
    })
na = [{"property_id": p['id'], "reason": "check still under construction in this round (Coq model + correspondence planned in DESIGN.md §5); not claimed yet"} for p in props if p['id'] not in DONE]
m = {"version": 1, "setup_cmd": "./setup.sh",
     "hooks": {"guard": "verif", "enable": "go build/test -tags verif; in-package harness files under /verif/harness/overlay are injected with -overlay (add-only, no product file edited)",
               "baseline_off_cmd": "./tools/baseline.sh", "source_commits": [], "add_only": True},
     "engines": [{"name": "coq-model-and-proofs", "path": "coq/", "serves_properties": sorted(DONE), "kind_free_text": "Gallina models + theorems (Coq 8.16.1), extraction to OCaml model runners"},
                 {"name": "correspondence-harness", "path": "harness/", "serves_properties": sorted(DONE), "kind_free_text": "Go harnesses built from /repo's working tree: differential run against the extracted model + direct property oracles"}],
     "checks": checks, "not_applicable": na,
     "notes": "see DESIGN.md; known_findings.json lists recorded defects (KNOWN-FINDING lines) and fix: commits"}
json.dump(m, open(os.path.join(ROOT, 'MANIFEST.json'), 'w'), indent=1)
print("checks:", [c["property_id"] for c in checks])
