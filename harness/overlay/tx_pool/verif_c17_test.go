//go:build verif

// C17 harness (in-package overlay): the real TxPool over a fake chain (as tx_pool_test.go does),
// driven synchronously.  Writes in.txt / impl.txt / oracle.txt / stats.json like every other harness.
//
// Line protocol (in.txt), one case = one pool history:
//
//	CASE n plimit bump aslots gslots aqueue gqueue nolocals journal locals|-
//	TX id from nonce price gas value size nz zb create          (declaration, no observable)
//	INIT gaslimit height n1 b1 n2 b2 n3 b3 n4 b4 | H.. | <observed>
//	ADD local k id.. | H stales id.. | <observed>
//	RESET gaslimit height n1 b1 .. n4 b4 R k id.. | H.. | <observed>
//	PRICE z | H.. | <observed>
//	EXPIRE k addr.. | H.. | <observed>
//	RELOAD k id.. | H.. | <observed>
//
// "H stales id.." is the price heap (entries incl. stale/duplicate ones) and the stale counter of the
// real pool BEFORE the operation (internal bookkeeping state the model is re-synchronised with);
// <observed> is the implementation's observable line after the operation; its last field
// "h=live ids" is the price heap AFTER the operation restricted to the entries of indexed remote txs
// (duplicates included), which the model predicts from the re-synchronised state.  The stale counter
// and the number of stale entries are NOT observables: they depend on the map iteration order in
// which runReorg visits the accounts (a Reheap happens earlier or later).
// "R k id.." of RESET: the transactions reset() has to reinject at a reorg (old branch minus new branch).  The model driver uses
// it only to pick the tie-break choices (heap ties / prque ties / heartbeat order) that explain the
// outcome; it prints the model's own line, which ./check compares with impl.txt.
package tx_pool

import (
	"bufio"
	"crypto/ecdsa"
	"encoding/json"
	"flag"
	"fmt"
	"io"
	"math/big"
	"os"
	"path/filepath"
	"sort"
	"strings"
	"sync/atomic"
	"testing"
	"time"

	"github.com/kardiachain/go-kardia/configs"
	"github.com/kardiachain/go-kardia/kai/events"
	"github.com/kardiachain/go-kardia/kai/kaidb/memorydb"
	"github.com/kardiachain/go-kardia/kai/state"
	"github.com/kardiachain/go-kardia/lib/common"
	"github.com/kardiachain/go-kardia/lib/crypto"
	"github.com/kardiachain/go-kardia/lib/event"
	"github.com/kardiachain/go-kardia/lib/log"
	"github.com/kardiachain/go-kardia/lib/rlp"
	"github.com/kardiachain/go-kardia/trie"
	"github.com/kardiachain/go-kardia/types"
)

// ---------------------------------------------------------------- flags, PRNG, output (copies of harness/internal/{gen,out})

var (
	vSeed  = flag.Uint64("seed", 1, "PRNG seed")
	vN     = flag.Int("n", 100, "number of generated cases")
	vDir   = flag.String("out", "", "output directory")
	vOnly  = flag.Int("only", -1, "generate and run only this case index")
	vTier  = flag.String("tier", "quick", "quick|thorough")
	vFacts = flag.String("facts", "", "write Generated/C17Facts.v to this path and exit")
)

type vRand struct{ s uint64 }

func vNew(seed uint64) *vRand { return &vRand{s: seed*0x9E3779B97F4A7C15 + 0x1234567} }
func (r *vRand) Fork(i uint64) *vRand {
	return &vRand{s: r.s ^ (i+1)*0xBF58476D1CE4E5B9}
}
func (r *vRand) U64() uint64 {
	r.s += 0x9E3779B97F4A7C15
	z := r.s
	z = (z ^ (z >> 30)) * 0xBF58476D1CE4E5B9
	z = (z ^ (z >> 27)) * 0x94D049BB133111EB
	return z ^ (z >> 31)
}
func (r *vRand) Intn(n int) int {
	if n <= 0 {
		return 0
	}
	return int(r.U64() % uint64(n))
}
func (r *vRand) Chance(num, den int) bool { return r.Intn(den) < num }
func (r *vRand) Pick(weights ...int) int {
	t := 0
	for _, w := range weights {
		t += w
	}
	x := r.Intn(t)
	for i, w := range weights {
		if x < w {
			return i
		}
		x -= w
	}
	return len(weights) - 1
}

type vOut struct {
	dir              string
	fin, fimpl, forc *os.File
	In, Impl, Orc    *bufio.Writer
	Dist             map[string]int
	Samples          []string
	Cases, Ops       int
	Nontrivial       map[string]bool
	Rule             string
	Fails            int
	curCase          int
	curSample        []string
}

func vOpen() *vOut {
	os.MkdirAll(*vDir, 0o755)
	o := &vOut{dir: *vDir, Dist: map[string]int{}, Nontrivial: map[string]bool{}}
	o.fin, _ = os.Create(filepath.Join(*vDir, "in.txt"))
	o.fimpl, _ = os.Create(filepath.Join(*vDir, "impl.txt"))
	o.forc, _ = os.Create(filepath.Join(*vDir, "oracle.txt"))
	o.In, o.Impl, o.Orc = bufio.NewWriterSize(o.fin, 1<<20), bufio.NewWriterSize(o.fimpl, 1<<20), bufio.NewWriterSize(o.forc, 1<<16)
	return o
}
func (o *vOut) Case(n int, header string) {
	o.flushSample()
	o.curCase = n
	o.Cases++
	fmt.Fprintln(o.In, header)
	fmt.Fprintf(o.Impl, "CASE %d\n", n)
	o.curSample = []string{header}
}
func (o *vOut) Op(input, observed string) {
	o.Ops++
	fmt.Fprintln(o.In, input)
	fmt.Fprintln(o.Impl, observed)
	if len(o.curSample) < 40 {
		o.curSample = append(o.curSample, input)
	}
}
func (o *vOut) InOnly(line string) {
	fmt.Fprintln(o.In, line)
	if len(o.curSample) < 40 {
		o.curSample = append(o.curSample, line)
	}
}
func (o *vOut) flushSample() {
	if o.curSample != nil && len(o.Samples) < 3 {
		o.Samples = append(o.Samples, strings.Join(o.curSample, "\n")+"\n")
	}
	o.curSample = nil
}
func (o *vOut) Fail(step int, class, detail string) {
	o.Fails++
	fmt.Fprintf(o.Orc, "FAIL case=%d step=%d class=%s %s\n", o.curCase, step, class, detail)
}
func (o *vOut) Count(k string) { o.Dist[k]++ }
func (o *vOut) Mark(k string)  { o.Nontrivial[k] = true }
func (o *vOut) Close() {
	o.flushSample()
	o.In.Flush()
	o.Impl.Flush()
	o.Orc.Flush()
	o.fin.Close()
	o.fimpl.Close()
	o.forc.Close()
	st := map[string]interface{}{
		"cases": o.Cases, "ops": o.Ops, "distinct_nontrivial": len(o.Nontrivial),
		"rule": o.Rule, "dist": o.Dist, "samples": o.Samples, "oracle_failures": o.Fails, "seed": *vSeed,
	}
	b, _ := json.MarshalIndent(st, "", " ")
	os.WriteFile(filepath.Join(o.dir, "stats.json"), b, 0o644)
}

// ---------------------------------------------------------------- fake chain

type vChain struct {
	statedb  *state.StateDB
	gasLimit uint64
	height   uint64
	feed     *event.Feed
	blocks   map[common.Hash]*types.Block // blocks of the reorg families, by hash
}

func (bc *vChain) CurrentBlock() *types.Block {
	return types.NewBlock(&types.Header{GasLimit: bc.gasLimit, Height: bc.height}, nil, nil, nil, trie.NewStackTrie(nil))
}
func (bc *vChain) GetBlock(hash common.Hash, number uint64) *types.Block {
	if b, ok := bc.blocks[hash]; ok {
		return b
	}
	return bc.CurrentBlock()
}

// newBlock makes a block (registered by hash) on top of parent with a salt that keeps hashes distinct.
func (bc *vChain) newBlock(parent common.Hash, height uint64, salt uint64, txs []*types.Transaction) *types.Block {
	h := &types.Header{GasLimit: bc.gasLimit, Height: height, LastBlockID: types.BlockID{Hash: parent}}
	h.AppHash = common.BigToHash(new(big.Int).SetUint64(salt))
	b := types.NewBlock(h, txs, nil, nil, trie.NewStackTrie(nil))
	if bc.blocks == nil {
		bc.blocks = map[common.Hash]*types.Block{}
	}
	bc.blocks[b.Hash()] = b
	return b
}
func (bc *vChain) StateAt(height uint64) (*state.StateDB, error) { return bc.statedb, nil }
func (bc *vChain) SubscribeChainHeadEvent(ch chan<- events.ChainHeadEvent) event.Subscription {
	return bc.feed.Subscribe(ch)
}

// ---------------------------------------------------------------- case state

const vAccts = 4

var (
	vKeys  []*ecdsa.PrivateKey
	vAddrs []common.Address
	vAddrI = map[common.Address]int{}
)

type vTx struct {
	id   int
	tx   *types.Transaction
	from int // 0 = no valid sender
}

type vCase struct {
	o        *vOut
	r        *vRand
	cfg      TxPoolConfig
	chain    *vChain
	pool     *TxPool
	txs      []*vTx // by id-1
	byHash   map[common.Hash]*vTx
	step     int
	jpath    string
	kinds    []string
	outs     []string
	mined    map[int]map[uint64]*vTx // per account: nonce -> tx that left the pool as "mined" at a reset
	head     *types.Block            // head block of the header-carrying reset families
	salt     uint64
	reinjGap map[int]bool // accounts whose pending list got an internal gap at a partial reinjection
}

func errClass(err error) string {
	switch err {
	case nil:
		return "ok"
	case ErrAlreadyKnown:
		return "known"
	case ErrInvalidSender:
		return "sender"
	case ErrOversizedData:
		return "oversized"
	case ErrNegativeValue:
		return "negative"
	case ErrGasLimit:
		return "gaslimit"
	case ErrUnderpriced:
		return "underpriced"
	case ErrNonceTooLow:
		return "noncelow"
	case ErrInsufficientFunds:
		return "funds"
	case ErrIntrinsicGas:
		return "intrinsic"
	case ErrTxPoolOverflow:
		return "full"
	case ErrReplaceUnderpriced:
		return "replace"
	}
	if err.Error() == "gas uint64 overflow" {
		return "gasoverflow"
	}
	return "other"
}

// register declares a transaction to the model (once per hash) and returns its record.
func (c *vCase) register(tx *types.Transaction) *vTx {
	if v, ok := c.byHash[tx.Hash()]; ok {
		return v
	}
	from := 0
	if a, err := types.Sender(c.pool.signer, tx); err == nil {
		from = vAddrI[a]
		if from == 0 {
			from = 9 // a valid signature of an unknown key (not generated)
		}
	}
	nz, zb := 0, 0
	for _, b := range tx.Data() {
		if b != 0 {
			nz++
		} else {
			zb++
		}
	}
	cr := 0
	if tx.To() == nil {
		cr = 1
	}
	v := &vTx{id: len(c.txs) + 1, tx: tx, from: from}
	c.txs = append(c.txs, v)
	c.byHash[tx.Hash()] = v
	c.o.InOnly(fmt.Sprintf("TX %d %d %d %s %d %s %d %d %d %d", v.id, from, tx.Nonce(), tx.GasPrice(), tx.Gas(), tx.Value(),
		uint64(tx.Size()), nz, zb, cr))
	return v
}

// ---------------------------------------------------------------- snapshot of the real pool

type vEntry struct {
	nonce uint64
	id    int
	tx    *types.Transaction
}

type vSnap struct {
	pending, queue map[int][]vEntry // by account id, nonce-sorted
	nonces         [vAccts + 1]uint64
	statP, statQ   int
	locals         []int
	all            map[int]bool // id -> local?
	allCount       int
	slots          int
	gasPrice       *big.Int
	status         []TxStatus
	journal        string
	beats          map[int]bool
	heapMissing    []int // remote txs of the index without an entry in the price heap
	heapIDs        []int // the live entries of the price heap (those of indexed remote txs), duplicates included
	heapLen        int   // all entries, stale ones included
	stales         int64
}

func (c *vCase) entries(m map[common.Address]types.Transactions) map[int][]vEntry {
	res := map[int][]vEntry{}
	for addr, txs := range m {
		a := vAddrI[addr]
		for _, tx := range txs {
			id := 0
			if v, ok := c.byHash[tx.Hash()]; ok {
				id = v.id
			}
			res[a] = append(res[a], vEntry{tx.Nonce(), id, tx})
		}
	}
	return res
}

func (c *vCase) journalIDs() ([]int, bool) {
	if c.pool.journal == nil {
		return nil, false
	}
	f, err := os.Open(c.jpath)
	if err != nil {
		return nil, true
	}
	defer f.Close()
	var ids []int
	stream := rlp.NewStream(f, 0)
	for {
		tx := new(types.Transaction)
		if err := stream.Decode(tx); err != nil {
			break
		}
		if v, ok := c.byHash[tx.Hash()]; ok {
			ids = append(ids, v.id)
		} else {
			ids = append(ids, 0)
		}
	}
	return ids, true
}

func (c *vCase) snapshot() *vSnap {
	p := c.pool
	s := &vSnap{all: map[int]bool{}, beats: map[int]bool{}}
	pend, _ := p.Pending()
	_, queued := p.Content()
	s.pending, s.queue = c.entries(pend), c.entries(queued)
	s.statP, s.statQ = p.Stats()
	for i := 1; i <= vAccts; i++ {
		s.nonces[i] = p.Nonce(vAddrs[i-1])
	}
	for _, a := range p.Locals() {
		s.locals = append(s.locals, vAddrI[a])
	}
	sort.Ints(s.locals)
	s.gasPrice = p.GasPrice()
	hashes := make([]common.Hash, len(c.txs))
	for i, v := range c.txs {
		hashes[i] = v.tx.Hash()
	}
	s.status = p.Status(hashes)
	p.mu.RLock()
	p.all.Range(func(h common.Hash, tx *types.Transaction, local bool) bool {
		id := 0
		if v, ok := c.byHash[h]; ok {
			id = v.id
		}
		s.all[id] = local
		s.allCount++
		return true
	}, true, true)
	s.slots = p.all.Slots()
	for a := range p.beats {
		s.beats[vAddrI[a]] = true
	}
	inHeap := map[common.Hash]bool{}
	for _, tx := range []*types.Transaction(*p.priced.remotes) {
		inHeap[tx.Hash()] = true
		id := 0
		if v, ok := c.byHash[tx.Hash()]; ok {
			id = v.id
		}
		if p.all.GetRemote(tx.Hash()) != nil {
			s.heapIDs = append(s.heapIDs, id)
		}
		s.heapLen++
	}
	sort.Ints(s.heapIDs)
	s.stales = atomic.LoadInt64(&p.priced.stales)
	p.all.Range(func(h common.Hash, tx *types.Transaction, local bool) bool {
		if !inHeap[h] {
			id := 0
			if v, ok := c.byHash[h]; ok {
				id = v.id
			}
			s.heapMissing = append(s.heapMissing, id)
		}
		return true
	}, false, true)
	p.mu.RUnlock()
	if ids, on := c.journalIDs(); on {
		sort.Ints(ids)
		if len(ids) == 0 {
			s.journal = "-"
		} else {
			s.journal = strings.Trim(strings.Replace(fmt.Sprint(ids), " ", ",", -1), "[]")
		}
	} else {
		s.journal = "x"
	}
	return s
}

func renderLists(m map[int][]vEntry) string {
	var keys []int
	for k, v := range m {
		if len(v) > 0 {
			keys = append(keys, k)
		}
	}
	if len(keys) == 0 {
		return "-"
	}
	sort.Ints(keys)
	var parts []string
	for _, k := range keys {
		var es []string
		for _, e := range m[k] {
			es = append(es, fmt.Sprintf("%d/%d", e.nonce, e.id))
		}
		parts = append(parts, fmt.Sprintf("%d:%s", k, strings.Join(es, ",")))
	}
	return strings.Join(parts, ";")
}

func csvInts(l []int) string {
	if len(l) == 0 {
		return "-"
	}
	var s []string
	for _, x := range l {
		s = append(s, fmt.Sprint(x))
	}
	return strings.Join(s, ",")
}

// content is the part of the observable line that "pool unchanged" is about.
func (s *vSnap) content() string {
	var ids []int
	for id := range s.all {
		ids = append(ids, id)
	}
	sort.Ints(ids)
	var as []string
	for _, id := range ids {
		f := "R"
		if s.all[id] {
			f = "L"
		}
		as = append(as, fmt.Sprintf("%d%s", id, f))
	}
	al := "-"
	if len(as) > 0 {
		al = strings.Join(as, ",")
	}
	return fmt.Sprintf("p=%s q=%s n=%d,%d,%d,%d s=%d/%d l=%s a=%s g=%s",
		renderLists(s.pending), renderLists(s.queue), s.nonces[1], s.nonces[2], s.nonces[3], s.nonces[4],
		s.statP, s.statQ, csvInts(s.locals), al, s.gasPrice)
}

func (s *vSnap) line(errs []string) string {
	e := "-"
	if len(errs) > 0 {
		e = strings.Join(errs, ",")
	}
	st := "-"
	if len(s.status) > 0 {
		var b strings.Builder
		for _, x := range s.status {
			b.WriteByte(byte('0' + x))
		}
		st = b.String()
	}
	return fmt.Sprintf("e=%s %s t=%s j=%s sl=%d h=%s", e, s.content(), st, s.journal, s.slots, csvInts(s.heapIDs))
}

func (c *vCase) heapLine() string {
	p := c.pool
	p.mu.RLock()
	defer p.mu.RUnlock()
	var b strings.Builder
	fmt.Fprintf(&b, "H %d", atomic.LoadInt64(&p.priced.stales))
	for _, tx := range []*types.Transaction(*p.priced.remotes) {
		id := 0
		if v, ok := c.byHash[tx.Hash()]; ok {
			id = v.id
		}
		fmt.Fprintf(&b, " %d", id)
	}
	return b.String()
}

// ---------------------------------------------------------------- direct oracles (independent of the model)

// specSlots: a transaction occupies ceil(size / 32 KiB) slots (integer arithmetic, independent of numSlots).
func specSlots(tx *types.Transaction) int {
	return int((uint64(tx.Size()) + 32*1024 - 1) / (32 * 1024))
}

// specInvalid re-implements the validity conditions of the property text (not their order) with
// math/big against the fake chain: which rejection reasons apply to tx when submitted as local/remote.
func (c *vCase) specInvalid(v *vTx, isLocal bool, floor *big.Int) map[string]bool {
	tx := v.tx
	bad := map[string]bool{}
	if uint64(tx.Size()) > 4*32*1024 {
		bad["oversized"] = true
	}
	if tx.Value().Sign() < 0 {
		bad["negative"] = true
	}
	if tx.Gas() > c.chain.gasLimit {
		bad["gaslimit"] = true
	}
	if v.from == 0 {
		bad["sender"] = true
		return bad
	}
	if !isLocal && tx.GasPrice().Cmp(floor) < 0 {
		bad["underpriced"] = true
	}
	if v.from >= 1 && v.from <= vAccts {
		if tx.Nonce() < c.stateNonce(v.from) {
			bad["noncelow"] = true
		}
		cost := new(big.Int).Mul(tx.GasPrice(), new(big.Int).SetUint64(tx.Gas()))
		cost.Add(cost, tx.Value())
		if c.stateBalance(v.from).Cmp(cost) < 0 {
			bad["funds"] = true
		}
	} else if tx.Value().Sign() > 0 || tx.GasPrice().Sign() > 0 && tx.Gas() > 0 {
		bad["funds"] = true // an unknown key has no balance
	}
	// intrinsic gas: base + 4 per zero byte + 68 per non-zero byte (constants of configs/)
	next := c.chain.height + 1
	galaxias := configs.TestChainConfig.GalaxiasBlock != nil && *configs.TestChainConfig.GalaxiasBlock <= next
	base := configs.TxGas
	if tx.To() == nil {
		base = configs.TxGasContractCreation
	} else if !galaxias {
		base = configs.TxGasLegacy
	}
	nzb, zb := int64(0), int64(0)
	for _, b := range tx.Data() {
		if b != 0 {
			nzb++
		} else {
			zb++
		}
	}
	intr := new(big.Int).SetUint64(base)
	intr.Add(intr, new(big.Int).Mul(big.NewInt(nzb), new(big.Int).SetUint64(configs.TxDataNonZeroGas)))
	intr.Add(intr, new(big.Int).Mul(big.NewInt(zb), new(big.Int).SetUint64(configs.TxDataZeroGas)))
	if new(big.Int).SetUint64(tx.Gas()).Cmp(intr) < 0 {
		bad["intrinsic"] = true
	}
	return bad
}

func (c *vCase) stateNonce(a int) uint64     { return c.chain.statedb.GetNonce(vAddrs[a-1]) }
func (c *vCase) stateBalance(a int) *big.Int { return c.chain.statedb.GetBalance(vAddrs[a-1]) }

func isLocal(s *vSnap, a int) bool {
	for _, l := range s.locals {
		if l == a {
			return true
		}
	}
	return false
}

// invariant evaluates the C17 invariant on the real pool content against the fake chain's state.
func (c *vCase) invariant(s *vSnap, afterReorg bool, capped map[int]bool) {
	c.invariantX(s, afterReorg, capped, "", "")
}

// invariantX: limClass/limDetail distinguish limit checks made after an operation that does not run the reorg.
func (c *vCase) invariantX(s *vSnap, afterReorg bool, capped map[int]bool, limClass, limDetail string) {
	o := c.o
	seenHash := map[int]string{}
	total := 0
	for a, l := range s.pending {
		sn := c.stateNonce(a)
		bal := c.stateBalance(a)
		gap := false
		for i, e := range l {
			if e.nonce != sn+uint64(i) {
				gap = true
				if c.reinjGap[a] && l[0].nonce == sn {
					o.Fail(c.step, "pending-gap-reinject", fmt.Sprintf("after_partial_reinjection acct=%d pos=%d nonce=%d state_nonce=%d", a, i, e.nonce, sn))
				} else {
					o.Fail(c.step, "pending-gap", fmt.Sprintf("acct=%d pos=%d nonce=%d state_nonce=%d", a, i, e.nonce, sn))
				}
				break
			}
		}
		nonceOK := len(l) == 0 || s.nonces[a] == l[len(l)-1].nonce+1
		if !gap && nonceOK {
			delete(c.reinjGap, a) // the account's pending run is whole again
		}
		for _, e := range l {
			if e.tx.Cost().Cmp(bal) > 0 {
				o.Fail(c.step, "pending-unaffordable", fmt.Sprintf("acct=%d nonce=%d cost=%s balance=%s", a, e.nonce, e.tx.Cost(), bal))
			}
			if e.tx.Gas() > c.chain.gasLimit {
				o.Fail(c.step, "pending-gas", fmt.Sprintf("acct=%d nonce=%d gas=%d limit=%d", a, e.nonce, e.tx.Gas(), c.chain.gasLimit))
			}
			if from, err := types.Sender(c.pool.signer, e.tx); err != nil || vAddrI[from] != a {
				o.Fail(c.step, "pending-sender", fmt.Sprintf("acct=%d nonce=%d", a, e.nonce))
			}
			if w, dup := seenHash[e.id]; dup {
				o.Fail(c.step, "listed-twice", fmt.Sprintf("id=%d %s and pending", e.id, w))
			}
			seenHash[e.id] = "pending"
			total++
		}
		if len(l) > 0 && s.nonces[a] != l[len(l)-1].nonce+1 {
			if c.reinjGap[a] {
				// follow-on of the gapped run: a later promotion run of the account ends below its last pending
				// nonce, or a removal inside the gapped run leaves Nonce() above what is left of it
				o.Fail(c.step, "pending-gap-reinject", fmt.Sprintf("after_partial_reinjection follow_on=pending-nonce acct=%d Nonce()=%d last_pending=%d", a, s.nonces[a], l[len(l)-1].nonce))
			} else {
				o.Fail(c.step, "pending-nonce", fmt.Sprintf("acct=%d Nonce()=%d last_pending=%d", a, s.nonces[a], l[len(l)-1].nonce))
			}
		}
	}
	for a := 1; a <= vAccts; a++ {
		if len(s.pending[a]) == 0 {
			if s.nonces[a] == c.stateNonce(a) {
				delete(c.reinjGap, a)
			} else if c.reinjGap[a] {
				o.Fail(c.step, "pending-gap-reinject", fmt.Sprintf("after_partial_reinjection follow_on=pending-nonce acct=%d Nonce()=%d state_nonce=%d no pending", a, s.nonces[a], c.stateNonce(a)))
			} else {
				o.Fail(c.step, "pending-nonce", fmt.Sprintf("acct=%d Nonce()=%d state_nonce=%d no pending", a, s.nonces[a], c.stateNonce(a)))
			}
		}
	}
	qtotal := 0
	for a, l := range s.queue {
		sn := c.stateNonce(a)
		pn := map[uint64]bool{}
		for _, e := range s.pending[a] {
			pn[e.nonce] = true
		}
		for i, e := range l {
			if e.nonce < sn {
				o.Fail(c.step, "stale-nonce", fmt.Sprintf("queued acct=%d nonce=%d state_nonce=%d", a, e.nonce, sn))
			}
			if i > 0 && l[i-1].nonce >= e.nonce {
				o.Fail(c.step, "queue-order", fmt.Sprintf("acct=%d", a))
			}
			if pn[e.nonce] {
				o.Fail(c.step, "pending-and-queued", fmt.Sprintf("acct=%d nonce=%d", a, e.nonce))
			}
			if w, dup := seenHash[e.id]; dup {
				o.Fail(c.step, "listed-twice", fmt.Sprintf("id=%d %s and queue", e.id, w))
			}
			seenHash[e.id] = "queue"
			qtotal++
		}
		if len(l) > 0 && !s.beats[a] {
			o.Fail(c.step, "beats-missing", fmt.Sprintf("acct=%d has queued txs but no heartbeat", a))
		}
	}
	// index = disjoint union of the two lists
	if s.allCount != total+qtotal {
		o.Fail(c.step, "index-count", fmt.Sprintf("all=%d pending=%d queued=%d", s.allCount, total, qtotal))
	}
	for id := range s.all {
		if _, ok := seenHash[id]; !ok {
			o.Fail(c.step, "index-orphan", fmt.Sprintf("id=%d indexed but in no list", id))
		}
	}
	for id, w := range seenHash {
		if _, ok := s.all[id]; !ok {
			o.Fail(c.step, "index-missing", fmt.Sprintf("id=%d in %s but not indexed", id, w))
		}
	}
	if s.statP != total || s.statQ != qtotal {
		o.Fail(c.step, "stats", fmt.Sprintf("Stats()=%d/%d content=%d/%d", s.statP, s.statQ, total, qtotal))
	}
	sl := 0
	for _, l := range s.pending {
		for _, e := range l {
			sl += specSlots(e.tx)
		}
	}
	for _, l := range s.queue {
		for _, e := range l {
			sl += specSlots(e.tx)
		}
	}
	if sl != s.slots {
		o.Fail(c.step, "slots", fmt.Sprintf("all.Slots()=%d sum of ceil(size/32KiB)=%d", s.slots, sl))
	}
	// every remote tx must be visible to price eviction (SetGasPrice / pool-full): it has a heap entry
	if len(s.heapMissing) > 0 {
		sort.Ints(s.heapMissing)
		o.Fail(c.step, "heap-missing", fmt.Sprintf("remote ids %v are indexed but have no entry in the price heap", s.heapMissing))
	}
	// every tx of a local account is flagged local in the index (so price eviction cannot see it)
	for _, m := range []map[int][]vEntry{s.pending, s.queue} {
		for a, l := range m {
			if isLocal(s, a) {
				for _, e := range l {
					if !s.all[e.id] {
						o.Fail(c.step, "local-flag", fmt.Sprintf("acct=%d id=%d of a local account is tracked as remote", a, e.id))
					}
				}
			}
		}
	}
	// limits (the truncation post-conditions) hold whenever the operation ended with a reorg run
	cfg := c.pool.config
	if afterReorg {
		if uint64(total) > cfg.GlobalSlots {
			for a, l := range s.pending {
				if !isLocal(s, a) && uint64(len(l)) > cfg.AccountSlots {
					o.Fail(c.step, "limit-pending"+limClass, fmt.Sprintf("%spending=%d > GlobalSlots=%d and acct=%d holds %d > AccountSlots=%d", limDetail, total, cfg.GlobalSlots, a, len(l), cfg.AccountSlots))
				}
			}
		}
		if uint64(qtotal) > cfg.GlobalQueue {
			for a, l := range s.queue {
				if !isLocal(s, a) && len(l) > 0 {
					o.Fail(c.step, "limit-queue"+limClass, fmt.Sprintf("%squeued=%d > GlobalQueue=%d and non-local acct=%d still queued %d", limDetail, qtotal, cfg.GlobalQueue, a, len(l)))
					break
				}
			}
		}
	}
	for a, l := range s.queue {
		if !isLocal(s, a) && uint64(len(l)) > cfg.AccountQueue {
			if capped[a] {
				o.Fail(c.step, "limit-account-queue", fmt.Sprintf("acct=%d queued %d > AccountQueue=%d right after its promotion run", a, len(l), cfg.AccountQueue))
			} else {
				o.Count("note:account-queue-over-limit-until-next-promotion")
			}
		}
	}
}

// ---------------------------------------------------------------- operations

func (c *vCase) emit(op string, heap string, errs []string, s *vSnap) {
	line := s.line(errs)
	c.o.Op(op+" | "+heap+" | "+line, line)
	c.step++
}

func (c *vCase) newPool() {
	c.pool = NewTxPool(c.cfg, configs.TestChainConfig, c.chain)
}

func (c *vCase) chainSpec() string {
	var b strings.Builder
	fmt.Fprintf(&b, "%d %d", c.chain.gasLimit, c.chain.height)
	for a := 1; a <= vAccts; a++ {
		fmt.Fprintf(&b, " %d %s", c.stateNonce(a), c.stateBalance(a))
	}
	return b.String()
}

func (c *vCase) opAdd(local bool, txs []*types.Transaction) {
	o := c.o
	var ids []string
	vts := make([]*vTx, len(txs))
	for i, tx := range txs {
		vts[i] = c.register(tx)
		ids = append(ids, fmt.Sprint(vts[i].id))
	}
	pre := c.snapshot()
	heap := c.heapLine()
	var errs []error
	if local {
		errs = c.pool.AddLocals(txs)
	} else {
		errs = c.pool.AddRemotesSync(txs)
	}
	post := c.snapshot()
	ecs := make([]string, len(errs))
	allFail, anyNew := true, false
	for i, e := range errs {
		ecs[i] = errClass(e)
		o.Count("add:" + ecs[i])
		if e == nil {
			allFail = false
		}
		if ecs[i] != "known" && ecs[i] != "sender" {
			anyNew = true
		}
		if ecs[i] == "other" {
			o.Fail(c.step, "unknown-error", e.Error())
		}
	}
	l := 0
	if local {
		l = 1
	}
	c.emit(fmt.Sprintf("ADD %d %d %s", l, len(txs), strings.Join(ids, " ")), heap, ecs, post)
	c.kinds = append(c.kinds, map[bool]string{true: "L", false: "A"}[local])
	c.outs = append(c.outs, strings.Join(ecs, "+"))

	// validity (spec re-implementation): nothing invalid is accepted, and a validation error names a
	// condition that really holds; "known" exactly for what the pool already holds
	asLocal := local && !c.pool.config.NoLocals
	capSlots := c.pool.config.GlobalSlots + c.pool.config.GlobalQueue
	for i, v := range vts {
		isLoc := asLocal || isLocal(pre, v.from)
		bad := c.specInvalid(v, isLoc, pre.gasPrice)
		var reasons []string
		for k := range bad {
			reasons = append(reasons, k)
		}
		sort.Strings(reasons)
		_, held := pre.all[v.id]
		earlier := false
		for j := 0; j < i; j++ {
			if vts[j].id == v.id {
				earlier = true
			}
		}
		desc := fmt.Sprintf("id=%d from=%d nonce=%d price=%s gas=%d value=%s size=%d local=%v err=%s spec_reasons=%v", v.id, v.from, v.tx.Nonce(), v.tx.GasPrice(), v.tx.Gas(), v.tx.Value(), uint64(v.tx.Size()), isLoc, ecs[i], reasons)
		switch ecs[i] {
		case "ok":
			if len(bad) > 0 {
				o.Fail(c.step, "accepted-invalid", desc)
			}
			if held {
				o.Fail(c.step, "accepted-known", desc)
			}
		case "known":
			if !held && !earlier {
				o.Fail(c.step, "reject-wrong-reason", "not held by the pool "+desc)
			}
		case "oversized", "negative", "gaslimit", "sender", "noncelow", "funds", "intrinsic":
			if !bad[ecs[i]] {
				o.Fail(c.step, "reject-wrong-reason", desc)
			}
		case "underpriced", "full":
			// also produced by the pool-full branch: only judged for a single submission
			if len(vts) == 1 && !bad[ecs[i]] && uint64(pre.slots+specSlots(v.tx)) <= capSlots {
				o.Fail(c.step, "reject-wrong-reason", "pool_not_full "+desc)
			}
		}
		if held && ecs[i] != "known" {
			o.Fail(c.step, "reject-wrong-reason", "held by the pool but not reported as known "+desc)
		}
	}

	// replacement rule / rejected => unchanged / locals exempt
	find := func(s *vSnap, a int, nonce uint64) *vEntry {
		for _, m := range []map[int][]vEntry{s.pending, s.queue} {
			for i := range m[a] {
				if m[a][i].nonce == nonce {
					return &m[a][i]
				}
			}
		}
		return nil
	}
	replacedBy := map[int]bool{} // ids legitimately replaced in this op
	capped := map[int]bool{}
	bump := new(big.Int).SetUint64(c.pool.config.PriceBump)
	cur := pre
	if len(txs) == 1 {
		v, e := vts[0], errs[0]
		if v.from >= 1 && v.from <= vAccts {
			old := find(cur, v.from, v.tx.Nonce())
			if e == nil && old != nil && old.id != v.id {
				// threshold = old*(100+bump)/100, and strictly more than the old price
				th := new(big.Int).Add(big.NewInt(100), bump)
				th.Mul(th, old.tx.GasPrice()).Div(th, big.NewInt(100))
				if v.tx.GasPrice().Cmp(th) < 0 || v.tx.GasPrice().Cmp(old.tx.GasPrice()) <= 0 {
					detail := fmt.Sprintf("acct=%d nonce=%d old_price=%s new_price=%s bump=%s accepted", v.from, v.tx.Nonce(), old.tx.GasPrice(), v.tx.GasPrice(), bump)
					full := uint64(pre.slots+specSlots(v.tx)) > c.pool.config.GlobalSlots+c.pool.config.GlobalQueue
					// the old tx is certainly among the victims of priced.Discard (cheapest first, higher nonce
					// first among equal prices) when the remotes at or below its rank do not free enough slots
					// (a many-slot tx evicts several remotes, whatever their price)
					needed := pre.slots + specSlots(v.tx) - int(c.pool.config.GlobalSlots+c.pool.config.GlobalQueue)
					before := 0
					for id, loc := range pre.all {
						if t := c.txs[id-1].tx; !loc && id != old.id {
							if k := t.GasPrice().Cmp(old.tx.GasPrice()); k < 0 || (k == 0 && t.Nonce() >= old.tx.Nonce()) {
								before += specSlots(t)
							}
						}
					}
					sureVictim := before < needed
					// (a local add forces the eviction whatever its price: Discard(..., force=true))
					if full && !pre.all[old.id] && (sureVictim || v.tx.GasPrice().Cmp(old.tx.GasPrice()) > 0 || (local && !c.pool.config.NoLocals)) {
						// the old tx was evicted as (one of) the cheapest remote(s) by the pool-full branch
						o.Fail(c.step, "replace-bypass-eviction", "old_remote_cheapest pool_full "+detail)
					} else {
						o.Fail(c.step, "replace-rule", detail)
					}
				}
				if now := find(post, v.from, v.tx.Nonce()); now != nil && now.id == old.id {
					o.Fail(c.step, "replace-rule", "accepted replacement but the old tx is still listed")
				}
				replacedBy[old.id] = true
				o.Count("replace:accepted")
			}
			if e == ErrReplaceUnderpriced && old != nil {
				// spec re-implementation: the bump was met, so the replacement had to be accepted
				th := new(big.Int).Add(big.NewInt(100), bump)
				th.Mul(th, old.tx.GasPrice()).Div(th, big.NewInt(100))
				if v.tx.GasPrice().Cmp(th) >= 0 && v.tx.GasPrice().Cmp(old.tx.GasPrice()) > 0 {
					o.Fail(c.step, "replace-rule", fmt.Sprintf("acct=%d nonce=%d old_price=%s new_price=%s bump=%s rejected although the required bump is met", v.from, v.tx.Nonce(), old.tx.GasPrice(), v.tx.GasPrice(), bump))
				}
			}
			if e == nil && v.tx.Nonce() == c.stateNonce(v.from) {
				// an accepted tx at the sender's state nonce is executable: it must be offered right away
				if now := find(post, v.from, v.tx.Nonce()); now == nil || now.id != v.id || post.status[v.id-1] != TxStatusPending {
					o.Fail(c.step, "accepted-executable-not-pending", fmt.Sprintf("acct=%d nonce=%d id=%d accepted at the state nonce but not pending afterwards", v.from, v.tx.Nonce(), v.id))
				}
			}
			if e == ErrReplaceUnderpriced {
				if old == nil {
					// the old one may have been evicted by the pool-full branch of this very add
					o.Count("replace:rejected-old-gone")
				} else if now := find(post, v.from, v.tx.Nonce()); now == nil || now.id != old.id {
					if _, still := post.all[old.id]; still {
						o.Fail(c.step, "replace-rule", "replacement rejected but the slot changed")
					}
				}
				o.Count("replace:rejected")
			}
			if e == nil && old == nil {
				capped[v.from] = true
			}
		}
	} else {
		for i, v := range vts {
			if errs[i] == nil {
				if old := find(pre, v.from, v.tx.Nonce()); old != nil {
					replacedBy[old.id] = true
				}
				for j := 0; j < i; j++ { // replaced an earlier tx of the same batch
					if vts[j].from == v.from && vts[j].tx.Nonce() == v.tx.Nonce() {
						replacedBy[vts[j].id] = true
					}
				}
			}
		}
	}
	if allFail && pre.content() != post.content() {
		hasReplace, onlyRemovals := false, true
		for _, e := range ecs {
			if e == "replace" {
				hasReplace = true
			}
		}
		evicted := 0
		for id := range pre.all {
			if _, ok := post.all[id]; !ok {
				evicted++
			}
		}
		for id := range post.all {
			if _, ok := pre.all[id]; !ok {
				onlyRemovals = false
			}
		}
		if !hasReplace && onlyRemovals && evicted > 0 && c.overLimit(pre) {
			o.Fail(c.step, "reject-deferred-truncation", fmt.Sprintf("pre_over_limit dropped=%d errs=%s before=[%s] after=[%s]", evicted, strings.Join(ecs, ","), pre.content(), post.content()))
		} else if hasReplace && onlyRemovals && evicted > 0 {
			o.Fail(c.step, "reject-evicts", fmt.Sprintf("err=replace_underpriced evicted=%d errs=%s before=[%s] after=[%s]", evicted, strings.Join(ecs, ","), pre.content(), post.content()))
		} else {
			o.Fail(c.step, "reject-changed", fmt.Sprintf("errs=%s before=[%s] after=[%s]", strings.Join(ecs, ","), pre.content(), post.content()))
		}
	}
	// pool-full eviction takes the cheapest remotes: judged when exactly the needed number of
	// one-slot transactions disappeared (then they are the victims of priced.Discard)
	if len(txs) == 1 && errs[0] == nil && !asLocal && !isLocal(pre, vts[0].from) && pre.slots == pre.allCount && specSlots(txs[0]) == 1 &&
		uint64(pre.slots+1) > capSlots {
		needed := pre.slots + 1 - int(capSlots)
		var gone []int
		for id := range pre.all {
			if _, ok := post.all[id]; !ok && !replacedBy[id] {
				gone = append(gone, id)
			}
		}
		if len(gone) == needed {
			o.Count("evict:judged")
			for _, g := range gone {
				for id, loc := range pre.all {
					if _, ok := post.all[id]; !ok || loc || id == g {
						continue
					}
					st, gt := c.txs[id-1].tx, c.txs[g-1].tx
					if st.GasPrice().Cmp(gt.GasPrice()) < 0 {
						o.Fail(c.step, "evict-not-cheapest", fmt.Sprintf("evicted id=%d price=%s while remote id=%d price=%s stays", g, gt.GasPrice(), id, st.GasPrice()))
					} else if st.GasPrice().Cmp(gt.GasPrice()) == 0 && st.Nonce() > gt.Nonce() {
						// equal prices: the higher nonce goes first
						o.Fail(c.step, "evict-order", fmt.Sprintf("evicted id=%d nonce=%d while remote id=%d of the same price=%s and higher nonce=%d stays", g, gt.Nonce(), id, st.GasPrice(), st.Nonce()))
					}
				}
			}
		}
	}
	c.localsExempt(pre, post, replacedBy, "add")
	c.invariant(post, anyNew, capped)
}

// overLimit: the pool is above GlobalQueue/GlobalSlots in a way the next truncation will act on.
func (c *vCase) overLimit(s *vSnap) bool {
	cfg := c.pool.config
	if uint64(s.statQ) > cfg.GlobalQueue {
		for a, l := range s.queue {
			if !isLocal(s, a) && len(l) > 0 {
				return true
			}
		}
	}
	if uint64(s.statP) > cfg.GlobalSlots {
		for a, l := range s.pending {
			if !isLocal(s, a) && uint64(len(l)) > cfg.AccountSlots {
				return true
			}
		}
	}
	return false
}

// localsExempt: no transaction of an account that was local before the operation disappears
// (ops: add / set price / expiry), except by an accepted same-nonce replacement.
func (c *vCase) localsExempt(pre, post *vSnap, replaced map[int]bool, what string) {
	for _, m := range []map[int][]vEntry{pre.pending, pre.queue} {
		for a, l := range m {
			if !isLocal(pre, a) {
				continue
			}
			for _, e := range l {
				if _, ok := post.all[e.id]; !ok && !replaced[e.id] {
					c.o.Fail(c.step, "local-evicted", fmt.Sprintf("op=%s acct=%d nonce=%d id=%d of a local account was dropped", what, a, e.nonce, e.id))
				}
			}
		}
	}
}

// reorg builds an old branch holding [discarded] (plus a few other known transactions) and a new
// branch holding some of them on a common ancestor, resets the pool from the old head to the new one
// and returns what reset() has to reinject: the discarded transactions, old head first, that the new
// branch does not include (TxDifference).
func (c *vCase) reorg(r *vRand, discarded []*vTx) []*vTx {
	for k := r.Intn(3); k > 0 && len(c.txs) > 0; k-- { // other txs seen before: still pooled, stale, or without a valid sender
		v := c.txs[r.Intn(len(c.txs))]
		dup := v.tx.Value().Sign() < 0 // not encodable: cannot sit in a block
		if v.from >= 1 && v.from <= vAccts && c.pool.all.Get(v.tx.Hash()) == nil && v.tx.Nonce() >= c.stateNonce(v.from) {
			dup = true // a block of the old branch cannot hold a nonce the old state had not reached
		}
		for _, d := range discarded {
			if d.id == v.id {
				dup = true
			}
		}
		if !dup {
			discarded = append(discarded, v)
		}
	}
	included := map[int]bool{}
	var inc []*types.Transaction
	for _, v := range discarded {
		// the new branch may hold what it has already executed (nonce below the new state nonce)
		if (v.from < 1 || v.from > vAccts || v.tx.Nonce() < c.stateNonce(v.from)) && r.Chance(1, 2) {
			included[v.id] = true
			inc = append(inc, v.tx)
		}
	}
	if len(c.txs) > 0 && r.Chance(1, 3) {
		v := c.txs[r.Intn(len(c.txs))]
		if !included[v.id] && v.tx.Value().Sign() >= 0 && (v.from < 1 || v.from > vAccts || v.tx.Nonce() < c.stateNonce(v.from)) {
			included[v.id] = true
			inc = append(inc, v.tx)
		}
	}
	base := c.chain.height
	c.salt++
	anc := c.chain.newBlock(common.Hash{}, base, c.salt, nil)
	// branch lengths; rarely the old branch is 65 or 66 blocks long (depth 64 is walked, 65 is skipped)
	lo, ln := 1+r.Intn(2), 1+r.Intn(2)
	deep := r.Pick(94, 3, 3)
	if deep == 1 {
		lo, ln = 65, 1
	} else if deep == 2 {
		lo, ln = 66, 1
	}
	split := func(l []*types.Transaction, n int) [][]*types.Transaction {
		parts := make([][]*types.Transaction, n)
		for _, tx := range l {
			i := n - 1 - r.Intn(2)
			if i < 0 {
				i = 0
			}
			parts[i] = append(parts[i], tx)
		}
		return parts
	}
	var dtx []*types.Transaction
	for _, v := range discarded {
		dtx = append(dtx, v.tx)
	}
	oparts, nparts := split(dtx, lo), split(inc, ln)
	parent, old := anc.Hash(), anc
	for i := 0; i < lo; i++ {
		c.salt++
		old = c.chain.newBlock(parent, base+uint64(i)+1, c.salt, oparts[i])
		parent = old.Hash()
	}
	parent = anc.Hash()
	nb := anc
	for i := 0; i < ln; i++ {
		c.salt++
		nb = c.chain.newBlock(parent, base+uint64(i)+1, c.salt, nparts[i])
		parent = nb.Hash()
	}
	c.chain.height = base + uint64(ln)
	// expected reinjection: blocks of the old branch from the head down, each in block order
	var want []*vTx
	if lo-ln <= 64 {
		byHash := map[common.Hash]*vTx{}
		for _, v := range discarded {
			byHash[v.tx.Hash()] = v
		}
		for i := lo - 1; i >= 0; i-- {
			for _, tx := range oparts[i] {
				if v := byHash[tx.Hash()]; !included[v.id] {
					want = append(want, v)
				}
			}
		}
		nw := len(want)
		if nw > 3 {
			nw = 3
		}
		c.o.Count(fmt.Sprintf("reset:reorg reinjected=%d", nw))
	} else {
		c.o.Count("reset:reorg-too-deep")
	}
	if deep == 1 {
		c.o.Count("reset:reorg-depth-64")
	}
	<-c.pool.requestReset(old.Header(), nb.Header())
	c.head = nb
	return want
}

func (c *vCase) opReset(r *vRand) {
	pre := c.snapshot()
	sdb := c.chain.statedb
	var discarded []*vTx
	oldHeight := c.chain.height
	// 0: reset(nil, nil) as the package's tests do; 1: the new head extends the old one;
	// 2: reorg - the old branch held every transaction between the new and the old state nonce of the
	// rolled-back accounts (the ones the pool saw leave as mined, fresh ones for the rest)
	mode := r.Pick(40, 25, 35)
	for a := 1; a <= vAccts; a++ {
		addr := vAddrs[a-1]
		sn := sdb.GetNonce(addr)
		np := uint64(len(pre.pending[a]))
		switch r.Pick(40, 35, 10, 10, 5) {
		case 1: // some pending txs were mined
			if np > 0 {
				k := uint64(1 + r.Intn(int(np)))
				spent := new(big.Int)
				for _, e := range pre.pending[a][:k] {
					spent.Add(spent, e.tx.Cost())
				}
				sdb.SetNonce(addr, sn+k)
				for _, e := range pre.pending[a][:k] {
					if c.mined[a] == nil {
						c.mined[a] = map[uint64]*vTx{}
					}
					if e.id > 0 {
						c.mined[a][e.nonce] = c.txs[e.id-1]
					}
				}
				if r.Chance(2, 3) {
					nb := new(big.Int).Sub(sdb.GetBalance(addr), spent)
					if nb.Sign() < 0 {
						nb.SetInt64(0)
					}
					sdb.SetBalance(addr, nb)
				}
			}
		case 2: // mined beyond what we had (txs from elsewhere)
			sdb.SetNonce(addr, sn+np+uint64(1+r.Intn(3)))
		case 3: // reorg to a lower nonce
			if sn > 0 {
				nn := sn - uint64(1+r.Intn(int(sn)))
				sdb.SetNonce(addr, nn)
				for n := nn; n < sn; n++ {
					v, ok := c.mined[a][n]
					delete(c.mined[a], n)
					if mode != 2 {
						continue
					}
					if !ok {
						tx, err := types.SignTx(types.HomesteadSigner{}, types.NewTransaction(n, common.Address{byte(a)}, big.NewInt(int64(r.Intn(2)*100)),
							[]uint64{30000, 50000, 100000}[r.Intn(3)], big.NewInt(vPrices[r.Intn(len(vPrices))]), nil), vKeys[a-1])
						if err != nil {
							panic(err)
						}
						v = c.register(tx)
					}
					discarded = append(discarded, v)
				}
			}
		case 4:
			sdb.SetNonce(addr, sn+1)
		}
		switch r.Pick(76, 6, 3, 5, 10) {
		case 1:
			sdb.SetBalance(addr, big.NewInt(int64(r.Intn(400000))))
		case 2:
			sdb.SetBalance(addr, big.NewInt(0))
		case 3:
			sdb.SetBalance(addr, big.NewInt(1000000000))
		case 4: // just below / at the cost of one of its pending or queued txs
			cands := append(append([]vEntry{}, pre.pending[a]...), pre.queue[a]...)
			if len(cands) > 0 {
				e := cands[r.Intn(len(cands))]
				b := new(big.Int).Set(e.tx.Cost())
				if r.Chance(1, 2) {
					b.Sub(b, big.NewInt(1))
				}
				if b.Sign() >= 0 {
					sdb.SetBalance(addr, b)
				}
			}
		}
	}
	if r.Chance(15, 100) {
		c.chain.gasLimit = []uint64{30000, 50000, 100000, 1000000, 200000, 1000000}[r.Intn(6)]
	} else if r.Chance(8, 100) && pre.allCount > 0 {
		// the block gas limit lands exactly on / just below the gas of a pooled tx
		var ids []int
		for id := range pre.all {
			ids = append(ids, id)
		}
		sort.Ints(ids)
		g := c.txs[ids[r.Intn(len(ids))]-1].tx.Gas()
		if r.Chance(1, 2) && g > 0 {
			g--
		}
		c.chain.gasLimit = g
		c.o.Count("reset:gaslimit-boundary")
	}
	if r.Chance(10, 100) {
		c.chain.height = []uint64{0, 6039390, 6039391, 6039392, 7000000}[r.Intn(5)]
	}
	heap := c.heapLine()
	var reinject []*vTx
	switch mode {
	case 0: // as the package's tests do
		<-c.pool.requestReset(nil, nil)
		c.head = nil
		c.o.Count("reset:nil-heads")
	case 1: // the new head extends the old one: nothing to reinject
		if c.head == nil {
			c.salt++
			c.head = c.chain.newBlock(common.Hash{}, c.chain.height, c.salt, nil)
		}
		c.salt++
		nb := c.chain.newBlock(c.head.Hash(), c.chain.height, c.salt, nil)
		<-c.pool.requestReset(c.head.Header(), nb.Header())
		c.head = nb
		c.o.Count("reset:extends-head")
	case 2: // reorg: the old branch is discarded, its transactions (minus those of the new branch) are reinjected
		reinject = c.reorg(r, discarded)
	}
	post := c.snapshot()
	for _, v := range reinject {
		// (known finding) a reorged-out run that comes back only in part - one of its transactions no
		// longer passes validateTx - is promoted below the still-pending higher nonces: internal gap
		if l := post.pending[v.from]; len(l) > 0 && l[len(l)-1].nonce-l[0].nonce+1 != uint64(len(l)) {
			c.reinjGap[v.from] = true
		} else if v.from >= 1 && v.from <= vAccts && len(l) > 0 && post.nonces[v.from] != l[len(l)-1].nonce+1 {
			// the same, when truncatePending has already cut the part above the gap within this reset:
			// Nonce() still points above the hole.  Only when the account's run really came back in part.
			for _, w := range reinject {
				if _, in := post.all[w.id]; w.from == v.from && w.tx.Nonce() >= c.stateNonce(w.from) && !in {
					c.reinjGap[v.from] = true
				}
			}
		}
	}
	ids := ""
	for _, v := range reinject {
		ids += fmt.Sprintf(" %d", v.id)
	}
	c.emit(fmt.Sprintf("RESET %s R %d%s", c.chainSpec(), len(reinject), ids), heap, nil, post)
	c.kinds = append(c.kinds, "R")
	// a reorged-out transaction that is valid and executable on the new state is offered again
	// (judged when the pool has room for all of them and nothing competes for its nonce)
	if uint64(pre.slots+len(reinject)) <= c.pool.config.GlobalSlots+c.pool.config.GlobalQueue && pre.slots == pre.allCount {
		for _, v := range reinject {
			if v.from < 1 || v.from > vAccts || specSlots(v.tx) != 1 || v.tx.Nonce() != c.stateNonce(v.from) {
				continue
			}
			if _, held := pre.all[v.id]; held {
				continue
			}
			nh := c.chain.height
			c.chain.height = oldHeight // reset() validates the reinjected txs before it updates the fork flag
			bad := c.specInvalid(v, isLocal(pre, v.from), pre.gasPrice)
			c.chain.height = nh
			if len(bad) > 0 {
				continue
			}
			rival := false
			for _, m := range []map[int][]vEntry{pre.pending, pre.queue} {
				for _, e := range m[v.from] {
					if e.nonce == v.tx.Nonce() {
						rival = true
					}
				}
			}
			for _, w := range reinject {
				if w != v && w.from == v.from && w.tx.Nonce() == v.tx.Nonce() {
					rival = true
				}
			}
			if rival {
				continue
			}
			c.o.Count("reset:reinject-judged")
			if post.status[v.id-1] != TxStatusPending {
				c.o.Fail(c.step, "reinject-lost", fmt.Sprintf("id=%d acct=%d nonce=%d was reorged out, is valid and executable on the new state, but is not pending (status=%d)", v.id, v.from, v.tx.Nonce(), post.status[v.id-1]))
			}
		}
	}
	// AccountQueue is enforced by promoteExecutables, which runReorg calls BEFORE demoteUnexecutables:
	// txs demoted by this very reset are not capped until the account's next promotion run.
	c.invariant(post, true, nil)
}

func (c *vCase) opPrice(r *vRand) {
	pre := c.snapshot()
	price := int64([]int{1, 2, 3, 5, 8, 10, 11, 12, 15, 20}[r.Intn(10)])
	if pre.allCount > 0 && r.Chance(1, 3) {
		var ids []int
		for id := range pre.all {
			ids = append(ids, id)
		}
		sort.Ints(ids)
		if gp := c.txs[ids[r.Intn(len(ids))]-1].tx.GasPrice(); gp.IsInt64() && gp.Int64() < 1<<40 {
			price = gp.Int64() + int64(r.Intn(2))
			c.o.Count("price:on-pooled-tx")
		}
	}
	heap := c.heapLine()
	c.pool.SetGasPrice(big.NewInt(price))
	post := c.snapshot()
	c.emit(fmt.Sprintf("PRICE %d", price), heap, nil, post)
	c.kinds = append(c.kinds, "P")
	c.localsExempt(pre, post, nil, "setprice")
	// nothing but remote txs below the new floor may disappear (plus nothing appears)
	for id := range pre.all {
		if _, ok := post.all[id]; !ok {
			v := c.txs[id-1]
			if v.tx.GasPrice().Cmp(big.NewInt(price)) >= 0 || pre.all[id] {
				c.o.Fail(c.step, "setprice-dropped", fmt.Sprintf("id=%d price=%s local=%v dropped by SetGasPrice(%d)", id, v.tx.GasPrice(), pre.all[id], price))
			}
		}
	}
	for id, loc := range post.all {
		if !loc && c.txs[id-1].tx.GasPrice().Cmp(big.NewInt(price)) < 0 && c.pool.gasPrice.Cmp(big.NewInt(price)) == 0 && pre.gasPrice.Cmp(big.NewInt(price)) < 0 {
			c.o.Fail(c.step, "setprice-kept", fmt.Sprintf("remote id=%d price=%s survives SetGasPrice(%d)", id, c.txs[id-1].tx.GasPrice(), price))
		}
	}
	// SetGasPrice does not run the reorg: limits are checked under their own class
	c.invariantX(post, !c.overLimit(pre), nil, "-deferred", "after=setprice ")
}

func (c *vCase) opExpire(r *vRand) {
	pre := c.snapshot()
	var chosen []int
	for a := 1; a <= vAccts; a++ {
		if r.Chance(1, 2) {
			chosen = append(chosen, a)
		}
	}
	heap := c.heapLine()
	p := c.pool
	saved := map[common.Address]time.Time{}
	var expect []common.Address
	p.mu.Lock()
	for _, a := range chosen {
		addr := vAddrs[a-1]
		if _, ok := p.queue[addr]; ok {
			saved[addr] = p.beats[addr]
			p.beats[addr] = time.Now().Add(-2 * p.config.Lifetime)
			if !p.locals.contains(addr) {
				expect = append(expect, addr)
			}
		}
	}
	p.mu.Unlock()
	deadline := time.Now().Add(5 * time.Second)
	for len(saved) > 0 {
		time.Sleep(evictionInterval)
		p.mu.RLock()
		left := 0
		for _, addr := range expect {
			if _, ok := p.queue[addr]; ok {
				left++
			}
		}
		p.mu.RUnlock()
		if left == 0 {
			break
		}
		if time.Now().After(deadline) {
			c.o.Fail(c.step, "expiry-not-run", "queued txs of a non-local account with an expired heartbeat were not evicted within 5s")
			break
		}
	}
	if len(saved) > 0 {
		time.Sleep(2 * evictionInterval) // let a full pass finish
	}
	p.mu.Lock()
	for addr, t := range saved {
		if _, ok := p.beats[addr]; ok {
			p.beats[addr] = t
		}
	}
	p.mu.Unlock()
	post := c.snapshot()
	c.emit(fmt.Sprintf("EXPIRE %d %s", len(chosen), strings.Trim(fmt.Sprint(chosen), "[]")), heap, nil, post)
	c.kinds = append(c.kinds, "E")
	c.localsExempt(pre, post, nil, "expire")
	for a, l := range pre.queue {
		backdated := false
		for _, x := range chosen {
			if x == a {
				backdated = true
			}
		}
		if !backdated && len(post.queue[a]) != len(l) {
			c.o.Fail(c.step, "expiry-evicted-live", fmt.Sprintf("acct=%d heartbeat within Lifetime but its queue went from %d to %d", a, len(l), len(post.queue[a])))
		}
	}
	c.invariant(post, false, nil)
}

func (c *vCase) opReload() {
	heap := c.heapLine()
	c.pool.Stop()
	var ids []int
	if f, err := os.Open(c.jpath); err == nil && c.cfg.Journal != "" && !c.cfg.NoLocals {
		stream := rlp.NewStream(f, 0)
		for {
			tx := new(types.Transaction)
			if err := stream.Decode(tx); err != nil {
				break
			}
			if v, ok := c.byHash[tx.Hash()]; ok {
				ids = append(ids, v.id)
			}
		}
		f.Close()
	}
	c.newPool()
	post := c.snapshot()
	c.emit(strings.TrimSpace(fmt.Sprintf("RELOAD %d %s", len(ids), strings.Trim(fmt.Sprint(ids), "[]"))), heap, nil, post)
	c.kinds = append(c.kinds, "J")
	c.invariant(post, true, nil)
}

// ---------------------------------------------------------------- generators

var vPrices = []int64{1, 2, 2, 3, 5, 5, 5, 8, 10, 10, 11, 12, 15, 20, 30}

func (c *vCase) genTx(r *vRand, pre *vSnap) *types.Transaction {
	a := 1 + r.Pick(3, 3, 2, 2)
	key := vKeys[a-1]
	addr := vAddrs[a-1]
	sn := c.stateNonce(a)
	base := pre.nonces[a]
	var old *vEntry
	var nonce uint64
	switch r.Pick(52, 22, 14, 4, 8) {
	case 0:
		nonce = base
	case 1: // same nonce as an existing tx
		cands := append(append([]vEntry{}, pre.pending[a]...), pre.queue[a]...)
		if len(cands) > 0 {
			e := cands[r.Intn(len(cands))]
			old, nonce = &e, e.nonce
		} else {
			nonce = base
		}
	case 2:
		nonce = base + uint64(1+r.Intn(3))
	case 3:
		if sn > 0 {
			nonce = sn - 1
		}
	case 4:
		nonce = uint64(r.Intn(9))
		if r.Chance(1, 8) { // far future: the largest nonces there are
			nonce = ^uint64(0) - uint64(r.Intn(2))
			c.o.Count("gen:nonce-max")
		}
	}
	price := big.NewInt(vPrices[r.Intn(len(vPrices))])
	if old != nil {
		th := new(big.Int).Add(big.NewInt(100), new(big.Int).SetUint64(c.pool.config.PriceBump))
		th.Mul(th, old.tx.GasPrice()).Div(th, big.NewInt(100))
		switch r.Pick(25, 20, 15, 10, 10, 20) {
		case 0:
			price = th
		case 1:
			price = new(big.Int).Sub(th, big.NewInt(1))
		case 2:
			price = new(big.Int).Add(th, big.NewInt(1))
		case 3:
			price = new(big.Int).Set(old.tx.GasPrice())
		case 4:
			price = new(big.Int).Add(old.tx.GasPrice(), big.NewInt(1))
		}
		if price.Sign() < 0 {
			price = big.NewInt(0)
		}
	} else if r.Chance(1, 12) {
		price = new(big.Int).Set(c.pool.gasPrice)
		if r.Chance(1, 2) && price.Sign() > 0 {
			price.Sub(price, big.NewInt(1))
		}
	}
	var data []byte
	switch r.Pick(88, 6, 3, 1, 2) {
	case 1:
		data = make([]byte, 1+r.Intn(12))
		for i := range data {
			if r.Chance(2, 3) {
				data[i] = byte(1 + r.Intn(255))
			}
		}
	case 2:
		data = make([]byte, 33000) // two slots, zero bytes
	case 3:
		data = make([]byte, 70000) // three slots
	case 4:
		data = make([]byte, 131100) // oversized
	}
	create := r.Chance(1, 20)
	intr, _ := IntrinsicGas(data, create, !c.pool.isGalaxias)
	var gas uint64
	switch r.Pick(30, 4, 25, 25, 3, 3, 5) {
	case 0:
		gas = intr
	case 1:
		gas = intr - 1
	case 2:
		gas = intr + 1000
	case 3:
		gas = 50000
	case 4:
		gas = c.chain.gasLimit
	case 5:
		gas = c.chain.gasLimit + 1
	case 6:
		gas = 21000 + uint64(r.Intn(8001)) // around both base costs
	}
	value := big.NewInt(int64([]int{0, 0, 100, 1000}[r.Intn(4)]))
	switch r.Pick(93, 2, 3, 2) {
	case 1:
		value = big.NewInt(-1)
	case 2, 3: // balance boundary
		v := new(big.Int).Mul(price, new(big.Int).SetUint64(gas))
		v.Sub(c.chain.statedb.GetBalance(addr), v)
		if r.Chance(1, 2) {
			v.Add(v, big.NewInt(1))
		}
		if v.Sign() >= 0 {
			value = v
		}
	}
	var signer types.Signer
	switch r.Pick(48, 48, 3, 1) {
	case 0:
		signer = types.HomesteadSigner{}
	case 1:
		signer = types.NewChainIDSigner(configs.TestChainConfig.ChainID)
	case 2:
		signer = types.NewChainIDSigner(big.NewInt(7)) // wrong chain id
	case 3:
		signer = types.NewChainIDSigner(big.NewInt(243))
	}
	// several defects at once (which error wins is the order of validateTx)
	if r.Chance(3, 100) {
		c.o.Count("gen:multi-defect")
		for k := 0; k < 2+r.Intn(2); k++ {
			switch r.Intn(8) {
			case 0:
				value = big.NewInt(-1)
			case 1:
				gas = c.chain.gasLimit + 1
			case 2:
				signer = types.NewChainIDSigner(big.NewInt(7))
			case 3:
				if c.pool.gasPrice.Sign() > 0 {
					price = new(big.Int).Sub(c.pool.gasPrice, big.NewInt(1))
				}
			case 4:
				if sn > 0 {
					nonce = sn - 1
				}
			case 5:
				v := new(big.Int).Mul(price, new(big.Int).SetUint64(gas))
				v.Sub(c.chain.statedb.GetBalance(addr), v).Add(v, big.NewInt(1))
				if v.Sign() >= 0 {
					value = v
				}
			case 6:
				if gas >= intr && intr > 0 {
					gas = intr - 1
				}
			case 7:
				data = make([]byte, 131100)
			}
		}
	}
	build := func(d []byte) *types.Transaction {
		var tx *types.Transaction
		if create {
			tx = types.NewContractCreation(nonce, value, gas, price, d)
		} else {
			tx = types.NewTransaction(nonce, common.Address{byte(a)}, value, gas, price, d)
		}
		stx, err := types.SignTx(signer, tx, key)
		if err != nil {
			panic(err)
		}
		return stx
	}
	// encoded size exactly on / one byte over a slot boundary (1..4 slots; 4 slots = txMaxSize)
	if r.Chance(3, 100) {
		target := (1+r.Intn(4))*32*1024 + r.Intn(2)
		if r.Chance(1, 3) {
			target = 4*32*1024 + r.Intn(2)
		}
		n := target - 110
		var stx *types.Transaction
		for it := 0; it < 8; it++ {
			d := make([]byte, n)
			if n > 0 {
				d[0] = 1
			}
			ig, _ := IntrinsicGas(d, create, !c.pool.isGalaxias)
			gas = ig + uint64(r.Intn(2))*1000
			stx = build(d)
			diff := target - int(uint64(stx.Size()))
			if diff == 0 {
				c.o.Count(fmt.Sprintf("gen:size-boundary slots=%d over=%d", target/(32*1024), target%(32*1024)))
				break
			}
			n += diff
		}
		return stx
	}
	return build(data)
}

func (c *vCase) genBatch(r *vRand) []*types.Transaction {
	k := 1
	if r.Chance(3, 10) {
		k = 2 + r.Intn(3)
	}
	var txs []*types.Transaction
	for i := 0; i < k; i++ {
		if len(c.txs) > 0 && r.Chance(1, 10) { // resubmit something seen before
			txs = append(txs, c.txs[r.Intn(len(c.txs))].tx)
			continue
		}
		pre := c.snapshot()
		if i > 0 && r.Chance(1, 2) {
			// continue the previous tx's sequence so that batches build runs
			prev := txs[i-1]
			if from, err := types.Sender(c.pool.signer, prev); err == nil && vAddrI[from] != 0 {
				pre.nonces[vAddrI[from]] = prev.Nonce() + 1
			}
		}
		tx := c.genTx(r, pre)
		if v, ok := c.byHash[tx.Hash()]; ok && v.tx != tx {
			tx = v.tx // degenerate hash (e.g. negative value): reuse the first one
		}
		for _, prev := range txs {
			if prev.Hash() == tx.Hash() {
				tx = prev
			}
		}
		txs = append(txs, tx)
	}
	return txs
}

func runCaseC17(o *vOut, r *vRand, n int, tmp string) {
	c := &vCase{o: o, r: r, byHash: map[common.Hash]*vTx{}}
	cfg := DefaultTxPoolConfig
	cfg.Journal = ""
	cfg.Rejournal = time.Hour
	cfg.Lifetime = time.Hour
	cfg.AccountSlots = uint64(1 + r.Intn(4))
	cfg.GlobalSlots = uint64(3 + r.Intn(6))
	cfg.AccountQueue = uint64(1 + r.Intn(3))
	cfg.GlobalQueue = uint64(2 + r.Intn(5))
	cfg.PriceLimit = []uint64{1, 1, 2, 5}[r.Intn(4)]
	cfg.PriceBump = []uint64{10, 10, 1, 25, 100}[r.Intn(5)]
	if r.Chance(3, 100) { // sanitize() paths
		switch r.Intn(6) {
		case 0:
			cfg.AccountSlots = 0
		case 1:
			cfg.GlobalSlots = 0
		case 2:
			cfg.AccountQueue = 0
		case 3:
			cfg.GlobalQueue = 0
		case 4:
			cfg.PriceLimit = 0
		case 5:
			cfg.PriceBump = 0
		}
	}
	cfg.NoLocals = r.Chance(1, 10)
	journal := r.Chance(3, 10)
	if journal {
		c.jpath = filepath.Join(tmp, fmt.Sprintf("journal_%d.rlp", n))
		os.Remove(c.jpath)
		cfg.Journal = c.jpath
	}
	var locals []int
	if r.Chance(1, 10) {
		a := 1 + r.Intn(vAccts)
		locals = []int{a}
		cfg.Locals = []common.Address{vAddrs[a-1]}
	}
	c.cfg = cfg
	statedb, _ := state.New(common.Hash{}, state.NewDatabase(memorydb.New()), nil)
	c.chain = &vChain{statedb, []uint64{100000, 1000000, 50000, 200000, 1000000}[r.Intn(5)], []uint64{0, 0, 6039391, 6039392, 7000000}[r.Intn(5)], new(event.Feed), nil}
	c.mined = map[int]map[uint64]*vTx{}
	c.reinjGap = map[int]bool{}
	for a := 1; a <= vAccts; a++ {
		statedb.SetNonce(vAddrs[a-1], uint64(r.Pick(5, 2, 2, 1)))
		switch r.Pick(85, 8, 4, 3) {
		case 0:
			statedb.SetBalance(vAddrs[a-1], big.NewInt(1000000000))
		case 1:
			statedb.SetBalance(vAddrs[a-1], big.NewInt(int64(100000+r.Intn(900000))))
		case 2:
			statedb.SetBalance(vAddrs[a-1], big.NewInt(int64(r.Intn(60000))))
		}
	}
	b2i := func(b bool) int {
		if b {
			return 1
		}
		return 0
	}
	o.Case(n, fmt.Sprintf("CASE %d %d %d %d %d %d %d %d %d %s", n, cfg.PriceLimit, cfg.PriceBump, cfg.AccountSlots, cfg.GlobalSlots,
		cfg.AccountQueue, cfg.GlobalQueue, b2i(cfg.NoLocals), b2i(journal), csvInts(locals)))
	c.newPool()
	defer func() {
		c.pool.Stop()
		if c.jpath != "" {
			os.Remove(c.jpath)
			os.Remove(c.jpath + ".new")
		}
	}()
	defer func() {
		if x := recover(); x != nil {
			o.Fail(c.step, "panic", fmt.Sprint(x))
			o.Op("PANIC", "PANIC")
		}
	}()
	s0 := c.snapshot()
	c.emit("INIT "+c.chainSpec(), "H 0", nil, s0)
	c.invariant(s0, true, nil)
	steps := 10 + r.Intn(21)
	for i := 0; i < steps; i++ {
		wReload := 1
		if journal {
			wReload = 5
		}
		switch r.Pick(50, 15, 15, 7, 7, wReload) {
		case 0:
			c.opAdd(false, c.genBatch(r))
		case 1:
			c.opAdd(true, c.genBatch(r))
		case 2:
			c.opReset(r)
		case 3:
			c.opPrice(r)
		case 4:
			c.opExpire(r)
		case 5:
			c.opReload()
		}
	}
	o.Count("cases:journal=" + fmt.Sprint(journal))
	sig := strings.Join(c.kinds, "") + "|" + strings.Join(c.outs, ";")
	nontrivial := false
	for _, x := range c.outs {
		if strings.Contains(x, "replace") || strings.Contains(x, "full") || strings.Contains(x, "underpriced") {
			nontrivial = true
		}
	}
	fin := c.snapshot()
	if nontrivial || (fin.statP > 0 && fin.statQ > 0) {
		o.Mark(fmt.Sprintf("%d/%d/%d/%d|%s", cfg.AccountSlots, cfg.GlobalSlots, cfg.AccountQueue, cfg.GlobalQueue, sig))
	}
}

func TestVerifC17(t *testing.T) {
	if *vFacts != "" {
		body := "(* GENERATED from /repo's working tree by the harness (-facts); do not edit. *)\n" +
			"From Coq Require Import ZArith.\n" +
			fmt.Sprintf("Definition tx_slot_size : Z := %d%%Z.\n", txSlotSize) +
			fmt.Sprintf("Definition tx_max_size : Z := %d%%Z.\n", txMaxSize) +
			fmt.Sprintf("Definition def_price_limit : Z := %d%%Z.\n", DefaultTxPoolConfig.PriceLimit) +
			fmt.Sprintf("Definition def_price_bump : Z := %d%%Z.\n", DefaultTxPoolConfig.PriceBump) +
			fmt.Sprintf("Definition def_account_slots : Z := %d%%Z.\n", DefaultTxPoolConfig.AccountSlots) +
			fmt.Sprintf("Definition def_global_slots : Z := %d%%Z.\n", DefaultTxPoolConfig.GlobalSlots) +
			fmt.Sprintf("Definition def_account_queue : Z := %d%%Z.\n", DefaultTxPoolConfig.AccountQueue) +
			fmt.Sprintf("Definition def_global_queue : Z := %d%%Z.\n", DefaultTxPoolConfig.GlobalQueue) +
			fmt.Sprintf("Definition tx_gas : Z := %d%%Z.\n", configs.TxGas) +
			fmt.Sprintf("Definition tx_gas_legacy : Z := %d%%Z.\n", configs.TxGasLegacy) +
			fmt.Sprintf("Definition tx_gas_creation : Z := %d%%Z.\n", configs.TxGasContractCreation) +
			fmt.Sprintf("Definition tx_data_zero_gas : Z := %d%%Z.\n", configs.TxDataZeroGas) +
			fmt.Sprintf("Definition tx_data_nonzero_gas : Z := %d%%Z.\n", configs.TxDataNonZeroGas) +
			fmt.Sprintf("Definition galaxias_block : Z := %d%%Z.\n", *configs.TestChainConfig.GalaxiasBlock)
		if err := os.WriteFile(*vFacts, []byte(body), 0o644); err != nil {
			t.Fatal(err)
		}
		return
	}
	if *vDir == "" {
		t.Skip("-out required")
	}
	log.Root().SetHandler(log.DiscardHandler())
	evictionInterval = 3 * time.Millisecond
	for i := 0; i < vAccts; i++ {
		k, err := crypto.ToECDSA(crypto.Keccak256([]byte(fmt.Sprintf("verif-c17-key-%d", i))))
		if err != nil {
			t.Fatal(err)
		}
		vKeys = append(vKeys, k)
		vAddrs = append(vAddrs, crypto.PubkeyToAddress(k.PublicKey))
		vAddrI[vAddrs[i]] = i + 1
	}
	tmp, err := os.MkdirTemp("", "verif_c17_")
	if err != nil {
		t.Fatal(err)
	}
	defer os.RemoveAll(tmp)
	o := vOpen()
	o.Rule = "a case is one pool history (config, fake-chain state, 10-30 operations: AddRemotesSync/AddLocals batches, head resets (nil heads | extending head | reorg with reinjection), SetGasPrice, lifetime expiry, journal reload); non-trivial = the history meets a replacement/pool-full/underpriced outcome or ends with both pending and queued txs; distinct by (limits, op-kind string, error string)"
	root := vNew(*vSeed)
	for n := 0; n < *vN; n++ {
		if *vOnly >= 0 && *vOnly != n {
			continue
		}
		runCaseC17(o, root.Fork(uint64(n)), n, tmp)
	}
	o.Close()
	_ = io.EOF
}
