//go:build verif

// C10 harness (in-package: the jump tables' `operation` fields are unexported).
//
//   -facts <file>  print both KVM jump tables exactly as the code builds them, plus the gas
//                  constants, into Generated/C10Facts.v (translator half)
//   otherwise      generate programs, run them on the real KVM (twice: with and without tracer),
//                  on go-ethereum v1.9.15 core/vm (arbiter / direct oracle) and write
//                  in.txt / impl.txt / oracle.txt / stats.json for the model comparison.
package kvm

import (
	"bufio"
	"bytes"
	"encoding/hex"
	"encoding/json"
	"flag"
	"fmt"
	"math/big"
	"os"
	"path/filepath"
	"sort"
	"strings"
	"syscall"
	"testing"
	"time"

	gcommon "github.com/ethereum/go-ethereum/common"
	grawdb "github.com/ethereum/go-ethereum/core/rawdb"
	gstate "github.com/ethereum/go-ethereum/core/state"
	gvm "github.com/ethereum/go-ethereum/core/vm"
	gparams "github.com/ethereum/go-ethereum/params"

	"github.com/kardiachain/go-kardia/configs"
	"github.com/kardiachain/go-kardia/kai/kaidb/memorydb"
	"github.com/kardiachain/go-kardia/kai/state"
	"github.com/kardiachain/go-kardia/lib/common"
	"github.com/kardiachain/go-kardia/lib/crypto"
)

var (
	c10Seed  = flag.Uint64("seed", 1, "PRNG seed")
	c10N     = flag.Int("n", 100, "number of generated cases")
	c10Dir   = flag.String("out", "", "output directory")
	c10Only  = flag.Int("only", -1, "generate and run only this case index")
	c10Tier  = flag.String("tier", "quick", "quick|thorough")
	c10Facts = flag.String("facts", "", "write Generated/C10Facts.v to this path and exit")
)

// ---------------------------------------------------------------------------- PRNG (copy of harness/internal/gen)

type c10Rand struct{ s uint64 }

func c10NewRand(seed uint64) *c10Rand { return &c10Rand{s: seed*0x9E3779B97F4A7C15 + 0x1234567} }
func (r *c10Rand) Fork(i uint64) *c10Rand {
	return &c10Rand{s: r.s ^ (i+1)*0xBF58476D1CE4E5B9}
}
func (r *c10Rand) U64() uint64 {
	r.s += 0x9E3779B97F4A7C15
	z := r.s
	z = (z ^ (z >> 30)) * 0xBF58476D1CE4E5B9
	z = (z ^ (z >> 27)) * 0x94D049BB133111EB
	return z ^ (z >> 31)
}
func (r *c10Rand) Intn(n int) int {
	if n <= 0 {
		return 0
	}
	return int(r.U64() % uint64(n))
}
func (r *c10Rand) Chance(num, den int) bool { return r.Intn(den) < num }
func (r *c10Rand) Pick(weights ...int) int {
	t := 0
	for _, w := range weights {
		t += w
	}
	x := r.Intn(t)
	for i, w := range weights {
		if x < w {
			return i
		}
		x -= w
	}
	return len(weights) - 1
}
func (r *c10Rand) Bytes(n int) []byte {
	b := make([]byte, n)
	for i := range b {
		b[i] = byte(r.U64())
	}
	return b
}

// ---------------------------------------------------------------------------- output files (copy of harness/internal/out)

type c10Out struct {
	dir              string
	fin, fimpl, forc *os.File
	In, Impl, Orc    *bufio.Writer
	Dist             map[string]int
	Samples          []string
	Cases, Ops       int
	Nontrivial       map[string]bool
	Rule             string
	Fails            int
	curCase          int
}

func c10Open() *c10Out {
	os.MkdirAll(*c10Dir, 0o755)
	o := &c10Out{dir: *c10Dir, Dist: map[string]int{}, Nontrivial: map[string]bool{}}
	o.fin, _ = os.Create(filepath.Join(*c10Dir, "in.txt"))
	o.fimpl, _ = os.Create(filepath.Join(*c10Dir, "impl.txt"))
	o.forc, _ = os.Create(filepath.Join(*c10Dir, "oracle.txt"))
	o.In, o.Impl, o.Orc = bufio.NewWriterSize(o.fin, 1<<20), bufio.NewWriterSize(o.fimpl, 1<<20), bufio.NewWriterSize(o.forc, 1<<16)
	return o
}
func (o *c10Out) Fail(step int, class, detail string) {
	o.Fails++
	fmt.Fprintf(o.Orc, "FAIL case=%d step=%d class=%s %s\n", o.curCase, step, class, detail)
}
func (o *c10Out) Count(k string) { o.Dist[k]++ }
func (o *c10Out) Mark(k string)  { o.Nontrivial[k] = true }
func (o *c10Out) Close() {
	o.In.Flush()
	o.Impl.Flush()
	o.Orc.Flush()
	o.fin.Close()
	o.fimpl.Close()
	o.forc.Close()
	st := map[string]interface{}{
		"cases": o.Cases, "ops": o.Ops, "distinct_nontrivial": len(o.Nontrivial),
		"rule": o.Rule, "dist": o.Dist, "samples": o.Samples, "oracle_failures": o.Fails, "seed": *c10Seed,
	}
	b, _ := json.MarshalIndent(st, "", " ")
	os.WriteFile(filepath.Join(o.dir, "stats.json"), b, 0o644)
}

// ---------------------------------------------------------------------------- translator: jump tables -> Coq

func c10b(b bool) string {
	if b {
		return "true"
	}
	return "false"
}

func c10Table(name string, jt JumpTable) string {
	var sb strings.Builder
	fmt.Fprintf(&sb, "Definition %s : list (option opinfo) := [\n", name)
	for i := 0; i < 256; i++ {
		op := jt[i]
		sep := ";"
		if i == 255 {
			sep = ""
		}
		if op == nil {
			fmt.Fprintf(&sb, "  (* 0x%02x *) None%s\n", i, sep)
			continue
		}
		fmt.Fprintf(&sb, "  (* 0x%02x %s *) Some (mk_opinfo %d %d %d %s %s %s %s %s %s %s)%s\n", i, OpCode(i).String(),
			op.constantGas, op.minStack, op.maxStack, c10b(op.halts), c10b(op.jumps), c10b(op.writes), c10b(op.reverts),
			c10b(op.returns), c10b(op.memorySize != nil), c10b(op.dynamicGas != nil), sep)
	}
	sb.WriteString("].\n")
	return sb.String()
}

func c10WriteFacts(path string) error {
	var sb strings.Builder
	sb.WriteString("(* GENERATED from /repo's working tree by the harness (-facts); do not edit. *)\n")
	sb.WriteString("(* kvm/instruction_set.go: v1InstructionSet (pre-Galaxias) and v2InstructionSet (Galaxias) as built by the code;\n")
	sb.WriteString("   configs/params.go: gas constants and limits. *)\n")
	sb.WriteString("From Coq Require Import ZArith List.\nImport ListNotations.\nLocal Open Scope Z_scope.\n")
	sb.WriteString("Record opinfo := mk_opinfo { oi_gas : Z; oi_min : Z; oi_max : Z; oi_halts : bool; oi_jumps : bool;\n")
	sb.WriteString("  oi_writes : bool; oi_reverts : bool; oi_returns : bool; oi_mem : bool; oi_dyn : bool }.\n")
	sb.WriteString(c10Table("table_v1", v1InstructionSet))
	sb.WriteString(c10Table("table_v2", v2InstructionSet))
	consts := []struct {
		n string
		v uint64
	}{
		{"stack_limit", configs.StackLimit}, {"call_create_depth", configs.CallCreateDepth}, {"max_code_size", uint64(configs.MaxCodeSize)},
		{"g_memory", configs.MemoryGas}, {"g_quad_coeff_div", configs.QuadCoeffDiv}, {"g_copy", configs.CopyGas},
		{"g_sha3_word", configs.Sha3WordGas}, {"g_exp", configs.ExpGas}, {"g_exp_byte", configs.ExpByte},
		{"g_log", configs.LogGas}, {"g_log_topic", configs.LogTopicGas}, {"g_log_data", configs.LogDataGas},
		{"g_sstore_set", configs.SstoreSetGas}, {"g_sstore_reset", configs.SstoreResetGas}, {"g_sstore_clear", configs.SstoreClearGas},
		{"g_call_value_transfer", configs.CallValueTransferGas}, {"g_call_new_account", configs.CallNewAccountGas},
		{"g_call_stipend", configs.CallStipend}, {"g_create_data", configs.CreateDataGas},
		{"g_create_by_selfdestruct", configs.CreateBySelfdestructGas},
		{"g_identity_base", configs.IdentityBaseGas}, {"g_identity_word", configs.IdentityPerWordGas},
	}
	for _, c := range consts {
		fmt.Fprintf(&sb, "Definition %s : Z := %d.\n", c.n, c.v)
	}
	return os.WriteFile(path, []byte(sb.String()), 0o644)
}

// ---------------------------------------------------------------------------- cases

type c10Acct struct {
	addr  common.Address
	nonce uint64
	bal   *big.Int
	code  []byte
	st    [][2]common.Hash
}

type c10Case struct {
	v2       bool
	create   bool
	gas      uint64
	value    *big.Int
	origin   common.Address
	target   common.Address
	coinbase common.Address
	number   uint64
	time     uint64
	gaslimit uint64
	gasprice *big.Int
	accts    []c10Acct
	input    []byte
	kind     string
	// oracle-only family: expected return data by the EVM specification; the model comparison is skipped
	specRet   []byte
	specName  string // oracle class reported when specRet is not met (default: kvm-identity-returndata-aliased)
	specClass string // the error class the run must end with (direct oracle, reported under specName)
	specWhat  string
	skipModel string
	extra     []c10Acct // further pre-state accounts of a boundary family
	accts0bal *big.Int  // balance of the called contract, when the family fixes it
	ecHighS   bool      // input of the ECRECOVER precompile with s in the upper half of the group order
	absent    []common.Address // accounts that must not exist (or be empty, without storage) after the run: failed creations
	// exact-gas family: the program was first run with ample gas and used exactly `exactUsed`; the case proper
	// is given exactUsed+exactDelta and must end the same way with exactDelta left (or out of gas when < 0)
	exactOn    bool
	exactDelta int64
	exactClass string
	exactRet   []byte
}

const c10ChainID = 1337

func c10BlockHash(n uint64) common.Hash {
	// deterministic block hash function shared by KVM, geth and the model: 2^255 + 2^128*7 + n
	v := new(big.Int).Lsh(big.NewInt(1), 255)
	v.Add(v, new(big.Int).Lsh(big.NewInt(7), 128))
	v.Add(v, new(big.Int).SetUint64(n))
	return common.BigToHash(v)
}

type c10Result struct {
	class   string
	ret     []byte
	gasLeft uint64
	accts   []string // "A addr nonce balance codehex k=v,..."
	logs    []string // "L addr topics data"
	panic   string
	timeout bool
	// tracer facts
	sawOOG        bool
	sawPrecompile bool
	sawIdentity   bool
	gasCreated    string // a callee was handed more gas than the CALL asked for (+ stipend)
	gasTaint      bool
	foreignOp     bool // executed an opcode the other VM does not define the same way
	gethAlias     bool // read RETURNDATA of an identity call after the caller's memory changed: go-ethereum v1.9.15 itself aliases there
	steps         int
	maxDepth      int
	ops           map[byte]int
	errs          map[string]int
}

func c10ClassOf(err error) string {
	if err == nil {
		return "ok"
	}
	switch err {
	case ErrExecutionReverted:
		return "revert"
	case ErrOutOfGas, ErrGasUintOverflow, ErrCodeStoreOutOfGas:
		return "oog"
	case ErrInvalidJump:
		return "badjump"
	case ErrWriteProtection:
		return "static"
	case ErrReturnDataOutOfBounds:
		return "retoob"
	case ErrDepth:
		return "depth"
	case ErrInsufficientBalance:
		return "balance"
	case ErrContractAddressCollision:
		return "collision"
	case ErrMaxCodeSizeExceeded:
		return "codesize"
	}
	switch err.(type) {
	case *ErrInvalidOpCode:
		return "badop"
	case *ErrStackUnderflow:
		return "underflow"
	case *ErrStackOverflow:
		return "overflow"
	}
	return "other:" + err.Error()
}

func c10GethClassOf(err error) string {
	if err == nil {
		return "ok"
	}
	s := err.Error()
	switch {
	case err == gvm.ErrExecutionReverted:
		return "revert"
	case err == gvm.ErrOutOfGas || err == gvm.ErrGasUintOverflow || err == gvm.ErrCodeStoreOutOfGas:
		return "oog"
	case err == gvm.ErrInvalidJump:
		return "badjump"
	case err == gvm.ErrWriteProtection:
		return "static"
	case err == gvm.ErrReturnDataOutOfBounds:
		return "retoob"
	case err == gvm.ErrDepth:
		return "depth"
	case err == gvm.ErrInsufficientBalance:
		return "balance"
	case err == gvm.ErrContractAddressCollision:
		return "collision"
	case err == gvm.ErrMaxCodeSizeExceeded:
		return "codesize"
	case strings.HasPrefix(s, "invalid opcode"):
		return "badop"
	case strings.HasPrefix(s, "stack underflow"):
		return "underflow"
	case strings.HasPrefix(s, "stack limit reached"):
		return "overflow"
	}
	return "other:" + s
}

// ---- KVM tracer

type c10Tracer struct {
	res     *c10Result
	cands   map[common.Address]bool
	keys    map[common.Address]map[common.Hash]bool
	lastGas map[int]bool
	depth   int
	crt     []bool
	topCrt  bool
	deadline time.Time // KVM.Cancel is only polled every 1000 steps of ONE frame: call-heavy runs never see it
	reqGas  *big.Int // gas argument of the CALL-family opcode being executed
	reqVal  bool     // ... which transfers value (callee also gets the stipend)
	// RETURNDATA of the frame at this depth is the output of the identity precompile (idPending) and the
	// frame's memory was written since (idDirty): the arbiter (go-ethereum v1.9.15, dataCopy.Run returns its
	// input slice uncopied; fixed upstream in v1.9.17 and in /repo by 8287a54) may read something else there
	idPending, idDirty map[int]bool
	curDepth           int
	reqRetSize         bool // the CALL-family opcode being executed has a non-empty output range
}

func c10IsPrecompileAddr(a common.Address) bool {
	_, ok := PrecompiledContractsV0[a]
	return ok
}

// precompiles outside the Coq model: everything except the identity function 0x04
func c10IsUnmodelledPrecompile(a common.Address) bool {
	return c10IsPrecompileAddr(a) && a != common.BytesToAddress([]byte{4})
}

func (t *c10Tracer) noteErr(err error) {
	if err == nil {
		return
	}
	c := c10ClassOf(err)
	t.res.errs[c]++
	if c == "oog" {
		t.res.sawOOG = true
	}
}
func (t *c10Tracer) addKey(a common.Address, k common.Hash) {
	if t.keys[a] == nil {
		t.keys[a] = map[common.Hash]bool{}
	}
	t.keys[a][k] = true
}
func (t *c10Tracer) CaptureStart(env *KVM, from common.Address, to common.Address, create bool, input []byte, gas uint64, value *big.Int) {
	t.cands[from], t.cands[to] = true, true
	t.topCrt = create
	if !create && c10IsUnmodelledPrecompile(to) {
		t.res.sawPrecompile = true
	}
}
func (t *c10Tracer) CaptureState(pc uint64, op OpCode, gas, cost uint64, scope *ScopeContext, rData []byte, depth int, err error) {
	t.res.steps++
	if t.res.steps&4095 == 0 && !t.deadline.IsZero() && time.Now().After(t.deadline) {
		panic(c10HangSentinel)
	}
	t.res.ops[byte(op)]++
	if depth > t.res.maxDepth {
		t.res.maxDepth = depth
	}
	t.noteErr(err)
	if err != nil {
		return
	}
	st := scope.Stack
	t.reqGas = nil
	t.curDepth = depth
	if t.idPending[depth] {
		switch op {
		case RETURNDATACOPY:
			if t.idDirty[depth] {
				t.res.gethAlias = true
			}
			t.idDirty[depth] = true
		case MSTORE, MSTORE8, CALLDATACOPY, CODECOPY, EXTCODECOPY:
			t.idDirty[depth] = true
		case CALL, CALLCODE, DELEGATECALL, STATICCALL, CREATE, CREATE2:
			t.idPending[depth], t.idDirty[depth] = false, false
		}
	}
	switch op {
	case CALL, CALLCODE, DELEGATECALL, STATICCALL:
		if st.len() >= 3 {
			t.reqGas = st.Back(0).ToBig()
			t.reqVal = (op == CALL || op == CALLCODE) && !st.Back(2).IsZero()
		}
		t.reqRetSize = true
		if (op == CALL || op == CALLCODE) && st.len() >= 7 {
			t.reqRetSize = !st.Back(6).IsZero()
		} else if (op == DELEGATECALL || op == STATICCALL) && st.len() >= 6 {
			t.reqRetSize = !st.Back(5).IsZero()
		}
	}
	if t.lastGas[depth] {
		switch op {
		case CALL, CALLCODE, DELEGATECALL, STATICCALL:
		default:
			t.res.gasTaint = true
		}
		t.lastGas[depth] = false
	}
	switch op {
	case GAS:
		t.lastGas[depth] = true
	case SSTORE:
		if st.len() >= 1 {
			t.addKey(scope.Contract.Address(), common.Hash(st.Back(0).Bytes32()))
		}
	case SELFDESTRUCT:
		if st.len() >= 1 {
			t.cands[common.Address(st.Back(0).Bytes20())] = true
		}
	case CHAINID:
		// defined only in the Galaxias table; geth Istanbul always has it
		t.res.foreignOp = t.res.foreignOp || !c10CurV2
	}
}
func (t *c10Tracer) CaptureEnter(typ OpCode, from common.Address, to common.Address, input []byte, gas uint64, value *big.Int) {
	t.cands[from], t.cands[to] = true, true
	t.crt = append(t.crt, typ == CREATE || typ == CREATE2)
	if typ != CREATE && typ != CREATE2 && t.reqGas != nil {
		lim := new(big.Int).Set(t.reqGas)
		if t.reqVal {
			lim.Add(lim, new(big.Int).SetUint64(configs.CallStipend))
		}
		if new(big.Int).SetUint64(gas).Cmp(lim) > 0 {
			t.res.gasCreated = fmt.Sprintf("%s asked for %s gas (value transfer: %v) but the callee received %d", typ, t.reqGas, t.reqVal, gas)
		}
	}
	t.reqGas = nil
	if typ != CREATE && typ != CREATE2 && c10IsUnmodelledPrecompile(to) {
		t.res.sawPrecompile = true
	}
	if typ != CREATE && typ != CREATE2 && to == common.BytesToAddress([]byte{4}) {
		t.res.sawIdentity = true
		if len(input) > 0 {
			t.idPending[t.curDepth], t.idDirty[t.curDepth] = true, t.reqRetSize
		}
	} else {
		// a new frame starts one level below: whatever was recorded for an earlier frame there is gone
		t.idPending[t.curDepth+1], t.idDirty[t.curDepth+1] = false, false
	}
}
func (t *c10Tracer) CaptureExit(output []byte, gasUsed uint64, err error) {
	t.noteErr(err)
	if n := len(t.crt); n > 0 {
		if t.crt[n-1] && len(output) > 24576 {
			t.res.foreignOp = true // configs.MaxCodeSize is 39231 on KVM, 24576 on Ethereum: chain parameter
		}
		t.crt = t.crt[:n-1]
	}
}
func (t *c10Tracer) CaptureFault(pc uint64, op OpCode, gas, cost uint64, scope *ScopeContext, depth int, err error) {
	t.noteErr(err)
}
func (t *c10Tracer) CaptureEnd(output []byte, gasUsed uint64, d time.Duration, err error) {
	t.noteErr(err)
	if t.topCrt && len(output) > 24576 {
		t.res.foreignOp = true
	}
}

func c10ChainConfig(v2 bool) *configs.ChainConfig {
	g := uint64(0)
	if !v2 {
		g = 1 << 40
	}
	return &configs.ChainConfig{ChainID: big.NewInt(c10ChainID), GalaxiasBlock: &g}
}

func c10CanTransfer(db StateDB, addr common.Address, amount *big.Int) bool {
	return db.GetBalance(addr).Cmp(amount) >= 0
}
func c10Transfer(db StateDB, sender, recipient common.Address, amount *big.Int) {
	db.SubBalance(sender, amount)
	db.AddBalance(recipient, amount)
}

func c10Hex(b []byte) string {
	if len(b) == 0 {
		return "-"
	}
	return hex.EncodeToString(b)
}

func c10AcctLine(addr []byte, nonce uint64, bal *big.Int, code []byte, kv [][2]string) string {
	sort.Slice(kv, func(i, j int) bool { return kv[i][0] < kv[j][0] })
	parts := make([]string, 0, len(kv))
	for _, p := range kv {
		parts = append(parts, p[0]+"="+p[1])
	}
	st := "-"
	if len(parts) > 0 {
		st = strings.Join(parts, ",")
	}
	return fmt.Sprintf("A %s %d %s %s %s", hex.EncodeToString(addr), nonce, bal.String(), c10Hex(code), st)
}

// runKVM executes the case on the real KVM. withTracer=false runs the plain configuration
// (determinism oracle: must give the same class/ret/gas/state for the candidate sets of the traced run).
func c10RunKVM(c *c10Case, withTracer bool, cands map[common.Address]bool, keys map[common.Address]map[common.Hash]bool) (res *c10Result, oc map[common.Address]bool, ok map[common.Address]map[common.Hash]bool) {
	res = &c10Result{ops: map[byte]int{}, errs: map[string]int{}}
	sdb, _ := state.New(common.Hash{}, state.NewDatabase(memorydb.New()), nil)
	tr := &c10Tracer{res: res, cands: map[common.Address]bool{}, keys: map[common.Address]map[common.Hash]bool{}, lastGas: map[int]bool{},
		idPending: map[int]bool{}, idDirty: map[int]bool{}}
	for _, a := range c.accts {
		sdb.CreateAccount(a.addr)
		sdb.SetNonce(a.addr, a.nonce)
		sdb.SetBalance(a.addr, a.bal)
		if len(a.code) > 0 {
			sdb.SetCode(a.addr, a.code)
		}
		for _, kv := range a.st {
			sdb.SetState(a.addr, kv[0], kv[1])
			tr.addKey(a.addr, kv[0])
		}
		tr.cands[a.addr] = true
	}
	tr.cands[c.origin], tr.cands[c.target], tr.cands[c.coinbase] = true, true, true
	sdb.Finalise(false)
	ctx := BlockContext{CanTransfer: c10CanTransfer, Transfer: c10Transfer, GetHash: c10BlockHash,
		Coinbase: c.coinbase, GasLimit: c.gaslimit, BlockHeight: new(big.Int).SetUint64(c.number), Time: new(big.Int).SetUint64(c.time)}
	cfg := Config{}
	if withTracer {
		cfg = Config{Debug: true, Tracer: tr}
	}
	vm := NewKVM(ctx, TxContext{Origin: c.origin, GasPrice: c.gasprice}, sdb, c10ChainConfig(c.v2), cfg)
	c10CurV2 = c.v2
	// wall-clock guard only (the machine may be heavily loaded); the hang oracle itself uses CPU time
	timer := time.AfterFunc(10*time.Second, func() { res.timeout = true; vm.Cancel() })
	func() {
		defer func() {
			if r := recover(); r != nil {
				if r == c10HangSentinel {
					res.timeout = true
					res.class = "HANG"
					return
				}
				res.panic = fmt.Sprint(r)
			}
		}()
		tr.deadline = time.Now().Add(10 * time.Second)
		var err error
		if c.create {
			res.ret, _, res.gasLeft, err = vm.Create(AccountRef(c.origin), c.input, c.gas, c.value)
		} else {
			res.ret, res.gasLeft, err = vm.Call(AccountRef(c.origin), c.target, c.input, c.gas, c.value)
		}
		res.class = c10ClassOf(err)
	}()
	timer.Stop()
	if res.panic != "" {
		res.class = "PANIC"
		return res, tr.cands, tr.keys
	}
	if res.class == "HANG" {
		return res, tr.cands, tr.keys
	}
	if c.create {
		// the created address is a candidate even when the tracer is off
		tr.cands[common.Address{}] = true
	}
	func() {
		defer func() {
			if r := recover(); r != nil {
				res.panic = "finalise: " + fmt.Sprint(r)
				res.class = "PANIC"
			}
		}()
		sdb.Finalise(true)
	}()
	if cands == nil {
		cands, keys = tr.cands, tr.keys
	}
	addrs := make([]common.Address, 0, len(cands))
	for a := range cands {
		addrs = append(addrs, a)
	}
	sort.Slice(addrs, func(i, j int) bool { return bytes.Compare(addrs[i][:], addrs[j][:]) < 0 })
	for _, a := range addrs {
		var kv [][2]string
		for k := range keys[a] {
			v := sdb.GetState(a, k)
			if v != (common.Hash{}) {
				kv = append(kv, [2]string{hex.EncodeToString(k[:]), hex.EncodeToString(v[:])})
			}
		}
		if sdb.Empty(a) && len(kv) == 0 {
			continue
		}
		res.accts = append(res.accts, c10AcctLine(a[:], sdb.GetNonce(a), sdb.GetBalance(a), sdb.GetCode(a), kv))
	}
	for _, l := range sdb.Logs() {
		ts := make([]string, 0, len(l.Topics))
		for _, tp := range l.Topics {
			ts = append(ts, hex.EncodeToString(tp[:]))
		}
		tss := "-"
		if len(ts) > 0 {
			tss = strings.Join(ts, ",")
		}
		res.logs = append(res.logs, fmt.Sprintf("L %s %s %s", hex.EncodeToString(l.Address[:]), tss, c10Hex(l.Data)))
	}
	return res, tr.cands, tr.keys
}

var c10CurV2 bool

const c10HangSentinel = "verif-c10: wall-clock budget of one program exhausted"

// ---- geth arbiter

type c10GethTracer struct {
	res      *c10Result
	cands    map[common.Address]bool
	keys     map[common.Address]map[common.Hash]bool
	lastGas  map[int]bool
	lastCrt  map[int]bool
	v2       bool
}

func (t *c10GethTracer) noteErr(err error) {
	if err == nil {
		return
	}
	c := c10GethClassOf(err)
	t.res.errs[c]++
	if c == "oog" {
		t.res.sawOOG = true
	}
}
func (t *c10GethTracer) CaptureStart(from gcommon.Address, to gcommon.Address, create bool, input []byte, gas uint64, value *big.Int) error {
	t.cands[common.Address(from)], t.cands[common.Address(to)] = true, true
	return nil
}
func (t *c10GethTracer) CaptureState(env *gvm.EVM, pc uint64, op gvm.OpCode, gas, cost uint64, memory *gvm.Memory, stack *gvm.Stack, rStack *gvm.ReturnStack, contract *gvm.Contract, depth int, err error) error {
	t.res.steps++
	t.noteErr(err)
	if err != nil {
		return nil
	}
	d := stack.Data()
	back := func(n int) *big.Int { return d[len(d)-1-n] }
	if t.lastCrt[depth] {
		if len(d) >= 1 {
			t.cands[common.BigToAddress(back(0))] = true
		}
		t.lastCrt[depth] = false
	}
	if t.lastGas[depth] {
		switch op {
		case gvm.CALL, gvm.CALLCODE, gvm.DELEGATECALL, gvm.STATICCALL:
		default:
			t.res.gasTaint = true
		}
		t.lastGas[depth] = false
	}
	switch op {
	case gvm.GAS:
		t.lastGas[depth] = true
	case gvm.SSTORE:
		if len(d) >= 1 {
			a := common.Address(contract.Address())
			if t.keys[a] == nil {
				t.keys[a] = map[common.Hash]bool{}
			}
			t.keys[a][common.BigToHash(back(0))] = true
		}
	case gvm.SELFDESTRUCT:
		if len(d) >= 1 {
			t.cands[common.BigToAddress(back(0))] = true
		}
	case gvm.CALL, gvm.CALLCODE, gvm.DELEGATECALL, gvm.STATICCALL:
		if len(d) >= 2 {
			a := common.BigToAddress(back(1))
			t.cands[a] = true
			if c10IsPrecompileAddr(a) || a == common.BytesToAddress([]byte{9}) {
				t.res.sawPrecompile = true
			}
		}
	case gvm.CREATE, gvm.CREATE2:
		t.lastCrt[depth] = true
	case gvm.DIFFICULTY, gvm.GASLIMIT:
		t.res.foreignOp = true // KVM numbers GASLIMIT 0x44 (Ethereum's DIFFICULTY) and leaves 0x45 undefined
	case gvm.CHAINID:
		if !t.v2 {
			t.res.foreignOp = true // pre-Galaxias table has no CHAINID
		}
	}
	return nil
}
func (t *c10GethTracer) CaptureFault(env *gvm.EVM, pc uint64, op gvm.OpCode, gas, cost uint64, memory *gvm.Memory, stack *gvm.Stack, rStack *gvm.ReturnStack, contract *gvm.Contract, depth int, err error) error {
	t.noteErr(err)
	return nil
}
func (t *c10GethTracer) CaptureEnd(output []byte, gasUsed uint64, d time.Duration, err error) error {
	t.noteErr(err)
	return nil
}

func c10GethConfig() *gparams.ChainConfig {
	c := *gparams.AllEthashProtocolChanges
	c.ChainID = big.NewInt(c10ChainID)
	return &c
}

func c10RunGeth(c *c10Case, cands map[common.Address]bool, keys map[common.Address]map[common.Hash]bool) *c10Result {
	res := &c10Result{ops: map[byte]int{}, errs: map[string]int{}}
	sdb, _ := gstate.New(gcommon.Hash{}, gstate.NewDatabase(grawdb.NewMemoryDatabase()), nil)
	tr := &c10GethTracer{res: res, cands: map[common.Address]bool{}, keys: map[common.Address]map[common.Hash]bool{}, lastGas: map[int]bool{}, lastCrt: map[int]bool{}, v2: c.v2}
	for _, a := range c.accts {
		ga := gcommon.Address(a.addr)
		sdb.CreateAccount(ga)
		sdb.SetNonce(ga, a.nonce)
		sdb.SetBalance(ga, a.bal)
		if len(a.code) > 0 {
			sdb.SetCode(ga, a.code)
		}
		for _, kv := range a.st {
			sdb.SetState(ga, gcommon.Hash(kv[0]), gcommon.Hash(kv[1]))
		}
	}
	sdb.Finalise(false)
	ctx := gvm.Context{
		CanTransfer: func(db gvm.StateDB, a gcommon.Address, v *big.Int) bool { return db.GetBalance(a).Cmp(v) >= 0 },
		Transfer: func(db gvm.StateDB, s, r gcommon.Address, v *big.Int) {
			db.SubBalance(s, v)
			db.AddBalance(r, v)
		},
		GetHash:  func(n uint64) gcommon.Hash { return gcommon.Hash(c10BlockHash(n)) },
		Origin:   gcommon.Address(c.origin), GasPrice: c.gasprice, Coinbase: gcommon.Address(c.coinbase), GasLimit: c.gaslimit,
		BlockNumber: new(big.Int).SetUint64(c.number), Time: new(big.Int).SetUint64(c.time), Difficulty: big.NewInt(1),
	}
	evm := gvm.NewEVM(ctx, sdb, c10GethConfig(), gvm.Config{Debug: true, Tracer: tr})
	timer := time.AfterFunc(20*time.Second, func() { res.timeout = true; evm.Cancel() })
	func() {
		defer func() {
			if r := recover(); r != nil {
				res.panic = fmt.Sprint(r)
			}
		}()
		var err error
		if c.create {
			res.ret, _, res.gasLeft, err = evm.Create(gvm.AccountRef(c.origin), c.input, c.gas, c.value)
		} else {
			res.ret, res.gasLeft, err = evm.Call(gvm.AccountRef(c.origin), gcommon.Address(c.target), c.input, c.gas, c.value)
		}
		res.class = c10GethClassOf(err)
	}()
	timer.Stop()
	if res.panic != "" {
		res.class = "PANIC"
		return res
	}
	sdb.Finalise(true)
	all := map[common.Address]bool{}
	for a := range cands {
		all[a] = true
	}
	for a := range tr.cands {
		all[a] = true
	}
	addrs := make([]common.Address, 0, len(all))
	for a := range all {
		addrs = append(addrs, a)
	}
	sort.Slice(addrs, func(i, j int) bool { return bytes.Compare(addrs[i][:], addrs[j][:]) < 0 })
	for _, a := range addrs {
		ga := gcommon.Address(a)
		ks := map[common.Hash]bool{}
		for k := range keys[a] {
			ks[k] = true
		}
		for k := range tr.keys[a] {
			ks[k] = true
		}
		var kv [][2]string
		for k := range ks {
			v := sdb.GetState(ga, gcommon.Hash(k))
			if v != (gcommon.Hash{}) {
				kv = append(kv, [2]string{hex.EncodeToString(k[:]), hex.EncodeToString(v[:])})
			}
		}
		if sdb.Empty(ga) && len(kv) == 0 {
			continue
		}
		res.accts = append(res.accts, c10AcctLine(a[:], sdb.GetNonce(ga), sdb.GetBalance(ga), sdb.GetCode(ga), kv))
	}
	for _, l := range sdb.Logs() {
		ts := make([]string, 0, len(l.Topics))
		for _, tp := range l.Topics {
			ts = append(ts, hex.EncodeToString(tp[:]))
		}
		tss := "-"
		if len(ts) > 0 {
			tss = strings.Join(ts, ",")
		}
		res.logs = append(res.logs, fmt.Sprintf("L %s %s %s", hex.EncodeToString(l.Address[:]), tss, c10Hex(l.Data)))
	}
	return res
}

// ---------------------------------------------------------------------------- assembler

type c10Asm struct {
	buf    []byte
	labels map[int]int
	fixups [][2]int // (position of the 2 bytes, label)
	nlab   int
}

func newAsm() *c10Asm { return &c10Asm{labels: map[int]int{}} }
func (a *c10Asm) op(ops ...OpCode) *c10Asm {
	for _, o := range ops {
		a.buf = append(a.buf, byte(o))
	}
	return a
}
func (a *c10Asm) raw(b ...byte) *c10Asm { a.buf = append(a.buf, b...); return a }
func (a *c10Asm) pushBytes(b []byte) *c10Asm {
	for len(b) > 1 && b[0] == 0 {
		b = b[1:]
	}
	if len(b) == 0 {
		b = []byte{0}
	}
	if len(b) > 32 {
		b = b[len(b)-32:]
	}
	a.buf = append(a.buf, byte(PUSH1)+byte(len(b)-1))
	a.buf = append(a.buf, b...)
	return a
}
func (a *c10Asm) push(v uint64) *c10Asm { return a.pushBytes(new(big.Int).SetUint64(v).Bytes()) }
func (a *c10Asm) pushBig(v *big.Int) *c10Asm {
	return a.pushBytes(v.Bytes())
}
func (a *c10Asm) pushAddr(x common.Address) *c10Asm { return a.pushBytes(x[:]) }
func (a *c10Asm) newLabel() int                      { a.nlab++; return a.nlab }
func (a *c10Asm) pushLabel(l int) *c10Asm {
	a.buf = append(a.buf, byte(PUSH2), 0, 0)
	a.fixups = append(a.fixups, [2]int{len(a.buf) - 2, l})
	return a
}
func (a *c10Asm) label(l int) *c10Asm {
	a.labels[l] = len(a.buf)
	a.buf = append(a.buf, byte(JUMPDEST))
	return a
}
func (a *c10Asm) bytes() []byte {
	for _, f := range a.fixups {
		p := a.labels[f[1]]
		a.buf[f[0]] = byte(p >> 8)
		a.buf[f[0]+1] = byte(p)
	}
	return a.buf
}

// ---------------------------------------------------------------------------- generators

var (
	c10Two256 = new(big.Int).Lsh(big.NewInt(1), 256)
	c10Max    = new(big.Int).Sub(c10Two256, big.NewInt(1))
)

// interesting word: boundary values with high probability
func c10Word(r *c10Rand) *big.Int {
	switch r.Pick(10, 8, 6, 6, 8, 6, 6, 6, 4) {
	case 0:
		return big.NewInt(int64(r.Intn(4)))
	case 1:
		return big.NewInt(int64(r.Intn(300)))
	case 2: // all ones / near
		return new(big.Int).Sub(c10Max, big.NewInt(int64(r.Intn(3))))
	case 3: // around 2^255
		v := new(big.Int).Lsh(big.NewInt(1), 255)
		return v.Add(v, big.NewInt(int64(r.Intn(3)-1)))
	case 4: // random 32 bytes
		return new(big.Int).SetBytes(r.Bytes(32))
	case 5: // power of two +-1
		v := new(big.Int).Lsh(big.NewInt(1), uint(r.Intn(257)))
		v.Add(v, big.NewInt(int64(r.Intn(3)-1)))
		return v.Mod(v, c10Two256)
	case 6: // random n bytes
		return new(big.Int).SetBytes(r.Bytes(1 + r.Intn(31)))
	case 7: // negative small
		return new(big.Int).Sub(c10Two256, big.NewInt(int64(1+r.Intn(300))))
	default: // around 2^64 / 2^32
		v := new(big.Int).Lsh(big.NewInt(1), uint(32*(1+r.Intn(2))))
		return v.Add(v, big.NewInt(int64(r.Intn(65)-32)))
	}
}

var c10Bin = []OpCode{ADD, MUL, SUB, DIV, SDIV, MOD, SMOD, EXP, SIGNEXTEND, LT, GT, SLT, SGT, EQ, AND, OR, XOR, BYTE, SHL, SHR, SAR}
var c10Un = []OpCode{ISZERO, NOT}
var c10Ter = []OpCode{ADDMOD, MULMOD}
var c10Env = []OpCode{ADDRESS, ORIGIN, CALLER, CALLVALUE, CALLDATASIZE, CODESIZE, GASPRICE, COINBASE, TIMESTAMP, NUMBER, GASLIMIT, PC, MSIZE, RETURNDATASIZE, SELFBALANCE, CHAINID}

type c10Gen struct {
	r       *c10Rand
	callees []common.Address
	self    common.Address
	depth   int
	o       *c10Out
	noCalls bool // no CALL-family / CREATE / GAS (the outcome must not depend on the gas supplied, except running out)
}

// small-ish operand for shifts / byte / signextend
func (g *c10Gen) smallOperand() *big.Int {
	r := g.r
	switch r.Pick(5, 3, 2) {
	case 0:
		return big.NewInt(int64(r.Intn(34)))
	case 1:
		return big.NewInt(int64(250 + r.Intn(10)))
	default:
		return c10Word(r)
	}
}

// expr pushes exactly one word
func (g *c10Gen) expr(a *c10Asm, d int) {
	r := g.r
	if d <= 0 {
		a.pushBig(c10Word(r))
		return
	}
	switch r.Pick(30, 10, 8, 10, 6, 6, 4, 3) {
	case 0: // binary
		op := c10Bin[r.Intn(len(c10Bin))]
		g.expr(a, d-1)
		switch op {
		case BYTE, SHL, SHR, SAR, SIGNEXTEND:
			a.pushBig(g.smallOperand())
		case EXP:
			if r.Chance(1, 2) {
				a.pushBig(big.NewInt(int64(r.Intn(12))))
				a.op(SWAP1) // small exponent, arbitrary base
			} else {
				g.expr(a, d-1)
			}
		default:
			g.expr(a, d-1)
		}
		a.op(op)
	case 1:
		g.expr(a, d-1)
		a.op(c10Un[r.Intn(2)])
	case 2:
		g.expr(a, d-1)
		g.expr(a, d-1)
		g.expr(a, d-1)
		a.op(c10Ter[r.Intn(2)])
	case 3:
		a.op(c10Env[r.Intn(len(c10Env))])
	case 4: // calldataload
		a.push(uint64(r.Intn(70)))
		a.op(CALLDATALOAD)
	case 5: // mload / sload
		if r.Chance(1, 2) {
			a.push(uint64(32 * r.Intn(8)))
			a.op(MLOAD)
		} else {
			a.push(uint64(r.Intn(4)))
			a.op(SLOAD)
		}
	case 6: // account queries
		tgt := g.anyAddr()
		a.pushAddr(tgt)
		a.op([]OpCode{BALANCE, EXTCODESIZE, EXTCODEHASH}[r.Intn(3)])
	default: // sha3 / blockhash
		if r.Chance(1, 2) {
			a.push(uint64(r.Intn(70)))
			a.push(uint64(r.Intn(64)))
			a.op(SHA3)
		} else {
			a.op(NUMBER)
			a.push(uint64(r.Intn(300)))
			a.op(SWAP1, SUB, BLOCKHASH)
		}
	}
}

func (g *c10Gen) anyAddr() common.Address {
	r := g.r
	switch r.Pick(6, 2, 2, 1) {
	case 0:
		if len(g.callees) > 0 {
			return g.callees[r.Intn(len(g.callees))]
		}
		return g.self
	case 1:
		return g.self
	case 2:
		return common.BytesToAddress([]byte{0xde, 0xad, byte(r.Intn(3))})
	default:
		return common.BytesToAddress([]byte{0xaa, 0xaa, 0x01})
	}
}

// sink consumes one word
func (g *c10Gen) sink(a *c10Asm) {
	r := g.r
	switch r.Pick(8, 6, 2, 1) {
	case 0:
		a.push(uint64(32 * r.Intn(8)))
		a.op(MSTORE)
	case 1:
		a.push(uint64(r.Intn(4)))
		a.op(SSTORE)
	case 2:
		a.push(uint64(r.Intn(260)))
		a.op(MSTORE8)
	default:
		a.op(POP)
	}
}

func (g *c10Gen) memRange(a *c10Asm) { // pushes size then offset (offset on top)
	r := g.r
	a.push(uint64(r.Intn(100)))
	a.push(uint64(r.Intn(200)))
}

// initCode builds constructor code that deploys `runtime`
func c10InitCode(runtime []byte, pre func(a *c10Asm)) []byte {
	a := newAsm()
	if pre != nil {
		pre(a)
	}
	l := a.newLabel()
	// CODECOPY(dest=0, off=<label>, len) ; RETURN(0, len)
	a.push(uint64(len(runtime)))
	a.pushLabel(l)
	a.push(0)
	a.op(CODECOPY)
	a.push(uint64(len(runtime)))
	a.push(0)
	a.op(RETURN)
	a.labels[l] = len(a.buf)
	a.bytes()
	return append(a.buf, runtime...)
}

// storeBytes emits code writing b into memory at offset 0.. using PUSH32/MSTORE
func c10StoreBytes(a *c10Asm, b []byte) {
	for off := 0; off < len(b); off += 32 {
		chunk := make([]byte, 32)
		copy(chunk, b[off:])
		a.buf = append(a.buf, byte(PUSH32))
		a.buf = append(a.buf, chunk...)
		a.push(uint64(off))
		a.op(MSTORE)
	}
}

func (g *c10Gen) stmt(a *c10Asm, d int) {
	r := g.r
	k := r.Pick(30, 8, 6, 6, 10, 5, 6, 3, 2)
	if d <= 0 && (k == 4 || k == 5 || k == 2 || k == 3) {
		k = 0
	}
	if g.noCalls && (k == 4 || k == 5 || k == 8) {
		k = 0
	}
	switch k {
	case 0: // expression -> sink
		g.expr(a, 1+r.Intn(3))
		g.sink(a)
	case 1: // copies
		switch r.Intn(4) {
		case 0:
			a.push(uint64(r.Intn(70))).push(uint64(r.Intn(80))).push(uint64(r.Intn(200)))
			a.op(CALLDATACOPY)
		case 1:
			a.push(uint64(r.Intn(70))).push(uint64(r.Intn(300))).push(uint64(r.Intn(200)))
			a.op(CODECOPY)
		case 2:
			a.push(uint64(r.Intn(70))).push(uint64(r.Intn(80))).push(uint64(r.Intn(200)))
			a.pushAddr(g.anyAddr())
			a.op(EXTCODECOPY)
		default:
			// RETURNDATACOPY within bounds most of the time: size = min(RETURNDATASIZE, k)
			if r.Chance(4, 5) {
				a.op(RETURNDATASIZE).push(0).push(uint64(r.Intn(100)))
				a.op(RETURNDATACOPY)
			} else {
				a.push(uint64(r.Intn(40))).push(uint64(r.Intn(40))).push(uint64(r.Intn(100)))
				a.op(RETURNDATACOPY)
			}
		}
	case 2: // if
		l := a.newLabel()
		g.expr(a, 1)
		a.pushLabel(l)
		a.op(JUMPI)
		n := 1 + r.Intn(3)
		for i := 0; i < n; i++ {
			g.stmt(a, d-1)
		}
		a.label(l)
	case 3: // bounded loop
		top, end := a.newLabel(), a.newLabel()
		a.push(uint64(1 + r.Intn(5)))
		a.label(top)
		a.op(DUP1, ISZERO)
		a.pushLabel(end)
		a.op(JUMPI)
		n := 1 + r.Intn(2)
		for i := 0; i < n; i++ {
			g.stmt(a, d-1)
		}
		a.push(1).op(SWAP1, SUB)
		a.pushLabel(top)
		a.op(JUMP)
		a.label(end)
		a.op(POP)
	case 4: // call
		if r.Chance(1, 8) {
			g.identity(a)
		} else {
			g.call(a)
		}
	case 5: // create
		g.create(a, d)
	case 6: // log
		n := r.Intn(5)
		for i := 0; i < n; i++ {
			a.pushBig(c10Word(r))
		}
		g.memRange(a)
		a.op(LOG0 + OpCode(n))
	case 7: // terminal in the middle
		g.terminal(a)
	default: // GAS observed
		a.op(GAS)
		g.sink(a)
	}
}

func (g *c10Gen) call(a *c10Asm) {
	r := g.r
	kind := []OpCode{CALL, CALLCODE, DELEGATECALL, STATICCALL}[r.Pick(5, 2, 3, 4)]
	a.push(uint64(r.Intn(100)))  // retSize
	a.push(uint64(r.Intn(200)))  // retOff
	a.push(uint64(r.Intn(70)))   // inSize
	a.push(uint64(r.Intn(100)))  // inOff
	if kind == CALL || kind == CALLCODE {
		if r.Chance(1, 4) {
			a.push(uint64(r.Intn(20)))
		} else {
			a.push(0)
		}
	}
	a.pushAddr(g.anyAddr())
	switch r.Pick(6, 2, 1) {
	case 0:
		a.op(GAS)
	case 1:
		a.push(uint64(100000 + r.Intn(100000)))
	default:
		a.push(uint64(r.Intn(30000)))
	}
	a.op(kind)
	g.sink(a)
	if r.Chance(1, 3) {
		a.op(RETURNDATASIZE)
		g.sink(a)
	}
}

// identity precompile 0x04: copy a memory range through it and read the result back at once. Half of
// the time a following call to an absent account resets RETURNDATA; otherwise it stays live while the
// rest of the program writes memory (RETURNDATA must be a copy: model comparison; the arbiter is skipped
// when such a run reads it again, see c10Tracer.idDirty; family boundary:identity-returndata checks
// the copy semantics with a direct oracle)
func (g *c10Gen) identity(a *c10Asm) {
	r := g.r
	inSize := uint64(r.Intn(70))
	a.push(0).push(0)                 // retSize retOff
	a.push(inSize).push(uint64(r.Intn(100))) // inSize inOff
	kind := []OpCode{CALL, STATICCALL, DELEGATECALL, CALLCODE}[r.Intn(4)]
	if kind == CALL || kind == CALLCODE {
		a.push(0)
	}
	a.push(4)
	if r.Chance(3, 4) {
		a.op(GAS)
	} else {
		a.push(uint64(r.Intn(40))) // sometimes not enough gas: 15 + 3 per word
	}
	a.op(kind)
	a.op(RETURNDATASIZE).push(0).push(uint64(r.Intn(200))).op(RETURNDATACOPY)
	if r.Chance(1, 2) {
		// reset RETURNDATA before anything else touches memory
		a.push(0).push(0).push(0).push(0).push(0).pushAddr(common.BytesToAddress([]byte{0xde, 0xad, 0x09})).push(0).op(CALL, POP)
	}
	g.sink(a) // the success flag of the identity call
}

func (g *c10Gen) create(a *c10Asm, d int) {
	r := g.r
	sub := &c10Gen{r: r, callees: g.callees, self: g.self, depth: g.depth + 1, o: g.o}
	runtime := sub.contract(d-1, 2)
	var init []byte
	switch r.Pick(6, 1, 1, 1) {
	case 0:
		init = c10InitCode(runtime, func(x *c10Asm) {
			if r.Chance(1, 2) {
				sub.stmt(x, 0)
			}
		})
	case 1: // constructor reverts
		x := newAsm()
		x.push(uint64(r.Intn(40))).push(0).op(REVERT)
		init = x.bytes()
	case 2: // constructor hits invalid
		x := newAsm()
		sub.stmt(x, 0)
		x.raw(0xfe)
		init = x.bytes()
	default: // random bytes
		init = r.Bytes(1 + r.Intn(20))
	}
	if len(init) > 400 {
		init = init[:400]
	}
	c10StoreBytes(a, init)
	if r.Chance(1, 2) {
		a.push(uint64(len(init))).push(0)
		a.push(uint64(r.Intn(3) / 2 * r.Intn(10)))
		a.op(CREATE)
	} else {
		a.pushBig(big.NewInt(int64(r.Intn(3))))
		a.push(uint64(len(init))).push(0)
		a.push(uint64(r.Intn(3) / 2 * r.Intn(10)))
		a.op(CREATE2)
	}
	if r.Chance(1, 2) {
		// call the created contract
		a.op(DUP1)
		a.push(32).push(0).push(0).push(0).push(0)
		a.op(DUP6, GAS, CALL, POP, POP)
	}
	g.sink(a)
}

func (g *c10Gen) terminal(a *c10Asm) {
	r := g.r
	switch r.Pick(3, 8, 4, 1, 1) {
	case 0:
		a.op(STOP)
	case 1:
		a.push(uint64(32 * (1 + r.Intn(8)))).push(uint64(r.Intn(40)))
		a.op(RETURN)
	case 2:
		a.push(uint64(r.Intn(80))).push(uint64(r.Intn(40)))
		a.op(REVERT)
	case 3:
		a.pushAddr(g.anyAddr())
		a.op(SELFDESTRUCT)
	default:
		a.raw(0xfe)
	}
}

func (g *c10Gen) contract(d int, maxStmts int) []byte {
	a := newAsm()
	n := 1 + g.r.Intn(maxStmts)
	for i := 0; i < n; i++ {
		g.stmt(a, d)
	}
	g.terminal(a)
	return a.bytes()
}

// weighted: a sequence of valid opcodes with plausible operands (not stack-safe)
func c10Weighted(r *c10Rand, v2 bool) []byte {
	a := newAsm()
	for i, n := 0, r.Intn(4); i < n; i++ {
		a.pushBig(c10Word(r))
	}
	n := 3 + r.Intn(40)
	present := make([]byte, 0, 256)
	for i := 0; i < 256; i++ {
		if v1InstructionSet[i] != nil || (v2 && v2InstructionSet[i] != nil) {
			present = append(present, byte(i))
		}
	}
	for i := 0; i < n; i++ {
		switch r.Pick(35, 30, 10, 10, 12, 3) {
		case 0:
			if r.Chance(1, 2) {
				a.pushBig(c10Word(r))
			} else {
				a.push(uint64(r.Intn(128)))
			}
		case 1:
			switch r.Intn(8) {
			case 0:
				a.op(c10Un[r.Intn(2)])
			case 1:
				a.op(c10Ter[r.Intn(2)])
			default:
				a.op(c10Bin[r.Intn(len(c10Bin))])
			}
		case 2:
			if r.Chance(1, 2) {
				a.op(DUP1 + OpCode(r.Intn(16)))
			} else {
				a.op(SWAP1 + OpCode(r.Intn(16)))
			}
		case 3:
			a.op([]OpCode{MLOAD, MSTORE, MSTORE8, SLOAD, SSTORE, MSIZE, SHA3, CALLDATALOAD, CALLDATACOPY, CODECOPY, POP, JUMPDEST, PC, LOG0, LOG1, RETURNDATASIZE}[r.Intn(16)])
		case 4:
			op := present[r.Intn(len(present))]
			a.raw(op)
			if op >= byte(PUSH1) && op <= byte(PUSH32) {
				a.raw(r.Bytes(int(op-byte(PUSH1)) + 1)...)
			}
		default:
			a.raw(byte(r.U64()))
		}
	}
	if r.Chance(2, 3) {
		a.push(uint64(32 * (1 + r.Intn(4)))).push(0).op(RETURN)
	}
	return a.bytes()
}

// boundary programs named in DESIGN.md / the task text
func c10Boundary(r *c10Rand, c *c10Case, self, other common.Address) (code []byte, otherCode []byte, name string) {
	a := newAsm()
	ret32 := func() { a.push(0).op(MSTORE).push(32).push(0).op(RETURN) }
	word32 := func(v uint64) []byte { return common.BigToHash(new(big.Int).SetUint64(v)).Bytes() }
	switch k := r.Intn(43); k {
	case 23, 24, 25, 27, 28: // systematic offset/length matrix for every offset-taking opcode
		name = "offset-matrix"
		two := func(n uint) *big.Int { return new(big.Int).Lsh(big.NewInt(1), n) }
		var offs []*big.Int
		for _, v := range []int64{0, 1, 31, 32, 33} {
			offs = append(offs, big.NewInt(v))
		}
		for _, n := range []uint{32, 63} {
			for d := int64(-1); d <= 1; d++ {
				offs = append(offs, new(big.Int).Add(two(n), big.NewInt(d)))
			}
		}
		for d := int64(-33); d <= 1; d++ {
			offs = append(offs, new(big.Int).Add(two(64), big.NewInt(d)))
		}
		offs = append(offs, two(128), new(big.Int).Set(c10Max))
		lens := []*big.Int{big.NewInt(0), big.NewInt(1), big.NewInt(32), big.NewInt(33)}
		bigOff := func() *big.Int {
			if r.Chance(1, 3) {
				return offs[r.Intn(5)]
			}
			return offs[r.Intn(len(offs))]
		}
		smallOff := func() *big.Int { return big.NewInt(int64([]int{0, 1, 31, 32, 33, 64}[r.Intn(6)])) }
		ln := func() *big.Int {
			if r.Chance(1, 8) {
				return offs[r.Intn(len(offs))]
			}
			return lens[r.Intn(len(lens))]
		}
		// where the extreme value goes: 0 = first offset, 1 = second offset (if any), 2 = both
		pick := func(i int, which int) *big.Int {
			if which == 2 || which == i {
				return bigOff()
			}
			return smallOff()
		}
		which := r.Intn(3)
		// optional return data from a previous call
		if r.Chance(2, 3) {
			w := newAsm()
			w.push(0x1122334455).push(0).op(MSTORE)
			w.push(uint64([]int{0, 1, 32, 33, 64}[r.Intn(5)])).push(0)
			w.op([]OpCode{RETURN, REVERT}[r.Pick(3, 1)])
			otherCode = w.bytes()
			a.push(0).push(0).push(0).push(0).push(0).pushAddr(other).op(GAS, CALL, POP)
		}
		a.push(0xa1a2a3a4).push(0).op(MSTORE)
		op := []OpCode{RETURNDATACOPY, RETURNDATACOPY, RETURNDATACOPY, RETURNDATACOPY, CALLDATACOPY, CALLDATACOPY, CODECOPY, CODECOPY,
			EXTCODECOPY, EXTCODECOPY, CALLDATALOAD, MLOAD, MSTORE, MSTORE8, SHA3,
			LOG0, LOG2, RETURN, REVERT, CREATE, CREATE2, CALL, CALLCODE, DELEGATECALL, STATICCALL}[r.Intn(25)]
		// source offsets of the copy opcodes: half of the time within 33 of 2^64 (offset + length wraps in uint64)
		nearD := int64(-1) // distance of the source offset below 2^64, when chosen near it
		srcOff := func() *big.Int {
			if r.Chance(2, 3) {
				nearD = int64(r.Intn(35)) - 1
				return new(big.Int).Sub(two(64), big.NewInt(nearD))
			}
			return pick(1, which)
		}
		cpLen := func() *big.Int { // call after srcOff
			if nearD >= 0 && r.Chance(1, 2) {
				return big.NewInt(nearD + int64(r.Intn(3)) - 1 + 1) // length around the distance to 2^64: sum = 2^64 - 1, 2^64, 2^64 + 1
			}
			if r.Chance(3, 4) {
				return lens[1+r.Intn(3)]
			}
			return ln()
		}
		switch op {
		case RETURNDATACOPY, CALLDATACOPY, CODECOPY:
			so := srcOff()
			cl := cpLen()
			a.pushBig(cl).pushBig(so).pushBig(pick(0, which)).op(op)
		case EXTCODECOPY:
			so := srcOff()
			cl := cpLen()
			a.pushBig(cl).pushBig(so).pushBig(pick(0, which)).pushAddr(other).op(op)
		case CALLDATALOAD, MLOAD:
			a.pushBig(bigOff()).op(op).push(32).op(MSTORE) // the loaded word is part of the returned memory
		case MSTORE, MSTORE8:
			a.push(0xbeef).pushBig(bigOff()).op(op)
		case SHA3:
			a.pushBig(ln()).pushBig(bigOff()).op(op).push(32).op(MSTORE)
		case LOG0:
			a.pushBig(ln()).pushBig(bigOff()).op(op)
		case LOG2:
			a.push(7).push(8).pushBig(ln()).pushBig(bigOff()).op(op)
		case RETURN, REVERT:
			a.pushBig(ln()).pushBig(bigOff()).op(op)
		case CREATE:
			a.pushBig(ln()).pushBig(bigOff()).push(0).op(op).op(POP)
		case CREATE2:
			a.push(uint64(r.Intn(3))).pushBig(ln()).pushBig(bigOff()).push(0).op(op).op(POP)
		default: // CALL family: in and out regions
			a.pushBig(ln()).pushBig(pick(1, which)) // retSize retOff
			a.pushBig(ln()).pushBig(pick(0, which)) // inSize inOff
			if op == CALL || op == CALLCODE {
				a.push(0)
			}
			a.pushAddr([]common.Address{other, common.BytesToAddress([]byte{4}), common.BytesToAddress([]byte{0xde, 0xad, 0x01})}[r.Intn(3)])
			a.op(GAS).op(op).push(32).op(MSTORE)
		}
		a.op(MSIZE).push(64).op(MSTORE)
		a.push(96).push(0).op(RETURN)
		if r.Chance(1, 3) {
			c.gas = 20000000
		}
	case 26: // several CALL-family opcodes in one frame with different explicit gas arguments
		name = "call-gas-sequence"
		w := newAsm()
		w.op(GAS).push(0).op(MSTORE).push(32).push(0).op(RETURN) // callee reports the gas it received
		otherCode = w.bytes()
		gases := []uint64{1000000, 100000, 50000, 20000, 5000, 2300, 700, 100, 0}
		n := 2 + r.Intn(3)
		for i := 0; i < n; i++ {
			kind := []OpCode{CALL, CALLCODE, DELEGATECALL, STATICCALL}[r.Intn(4)]
			a.push(32).push(uint64(32 * i)).push(0).push(0)
			if kind == CALL || kind == CALLCODE {
				a.push(uint64(r.Intn(4) / 3)) // value 1 now and then (stipend)
			}
			a.pushAddr(other)
			switch r.Pick(1, 4, 1) {
			case 0:
				a.op(GAS)
			case 1:
				a.push(gases[r.Intn(len(gases))])
			default: // a request of 2^64 or more means "all but one 64th", whatever its low 64 bits say
				a.pushBig([]*big.Int{new(big.Int).Lsh(big.NewInt(1), 64), new(big.Int).Add(new(big.Int).Lsh(big.NewInt(1), 64), big.NewInt(int64(r.Intn(5000)))),
					new(big.Int).Add(new(big.Int).Lsh(big.NewInt(1), 128), big.NewInt(700)), c10Max}[r.Intn(4)])
			}
			a.op(kind)
			a.push(uint64(i)).op(SSTORE)
		}
		a.push(uint64(32 * n)).push(0).op(RETURN)
	case 22: // identity precompile: RETURNDATA must be a copy (EVM specification)
		name = "identity-returndata"
		A, B := r.Bytes(32), r.Bytes(32)
		a.raw(byte(PUSH32)).raw(A...).push(0).op(MSTORE)
		a.push(0).push(0).push(32).push(0)
		kind := []OpCode{CALL, STATICCALL, DELEGATECALL, CALLCODE}[r.Intn(4)]
		if kind == CALL || kind == CALLCODE {
			a.push(0)
		}
		a.push(4).op(GAS).op(kind).op(POP)
		if r.Chance(3, 4) {
			// overwrite the memory the input came from (the model is compared like in any other family; the
			// arbiter is not: go-ethereum v1.9.15 has the aliasing defect itself, see c10Tracer.idDirty)
			switch r.Intn(4) {
			case 0:
				a.raw(byte(PUSH32)).raw(B...).push(0).op(MSTORE)
			case 1:
				a.push(uint64(B[0]) | 1).push(uint64(r.Intn(32))).op(MSTORE8)
			case 2:
				a.push(32).push(0).push(0).op(CODECOPY)
			default:
				a.push(32).push(uint64(r.Intn(4))).push(uint64(r.Intn(16))).op(CALLDATACOPY)
			}
		}
		a.push(32).push(0).push(64).op(RETURNDATACOPY)
		a.push(32).push(64).op(RETURN)
		c.specRet = A
	case 0: // stack overflow by pushing in a loop
		name = "stack-overflow-push-loop"
		l := a.newLabel()
		a.label(l).push(uint64(r.Intn(5))).pushLabel(l).op(JUMP)
	case 1: // stack filled to exactly 1022..1025 items by straight-line code, then one opcode at the limit
		name = "stack-1023-1024"
		n := 1022 + r.Intn(4)
		for i := 0; i < n; i++ {
			a.op(PC)
		}
		switch r.Pick(5, 3, 4) {
		case 0:
			a.op(DUP1 + OpCode(r.Intn(16)))
		case 1:
			a.op(SWAP1 + OpCode(r.Intn(16)))
		default:
			a.op([]OpCode{PUSH1, MSIZE, ADDRESS, POP, ADD, JUMPDEST, CALLDATASIZE, ISZERO, PUSH32}[r.Intn(9)])
		}
		// a transient 1025th item would go unnoticed if the program stopped here: every opcode
		// re-validates the stack, POP accepts 1025 items
		a.op(POP, POP, POP)
		a.push(1).push(0).op(SSTORE).op(STOP)
	case 2: // call depth recursion until the limit
		name = "call-depth-1024"
		c.gas = 1000000000000000 + uint64(r.Intn(1000))
		// slot0 += 1 in own storage is too expensive; use memory-free recursion: call self, return success flag + depth in returndata
		a.push(32).push(0).push(0).push(0)
		kind := []OpCode{CALL, DELEGATECALL, STATICCALL, CALLCODE}[r.Intn(4)]
		if kind == CALL || kind == CALLCODE {
			a.push(0)
		}
		a.op(ADDRESS, GAS).op(kind)
		// mem[0] = returned counter; result = flag*(mem[0]+1)  (0 when the call failed)
		a.push(0).op(MLOAD).push(1).op(ADD).op(MUL)
		ret32()
	case 3: // static call into a writer
		name = "static-write"
		w := newAsm()
		switch r.Intn(12) {
		case 9: // CALLCODE with value inside a static frame is not a state change: allowed (fails only for lack of balance)
			w.push(0).push(0).push(0).push(0).push(uint64(1 + r.Intn(3))).pushAddr(self).op(GAS, CALLCODE)
		case 10, 11: // an inner static call that returns must leave the outer static frame read-only
			w.push(0).push(0).push(0).push(0).pushAddr([]common.Address{c.origin, self, common.BytesToAddress([]byte{0xc0, 0xde, 0x00, 0x02}), common.BytesToAddress([]byte{4})}[r.Intn(4)]).push(20000).op(STATICCALL, POP)
			if r.Chance(1, 2) {
				w.push(1).push(0).op(SSTORE)
			} else {
				w.push(0).push(0).op(LOG0)
			}
		case 0:
			w.push(1).push(0).op(SSTORE)
		case 1:
			w.push(0).push(0).op(LOG0)
		case 2:
			w.push(5).push(0).push(0).op(LOG1)
		case 3:
			w.push(0).push(0).push(0).op(CREATE)
		case 4:
			w.push(0).push(0).push(0).push(0).op(CREATE2)
		case 5:
			w.pushAddr(other).op(SELFDESTRUCT)
		case 6: // CALL with value inside static
			w.push(0).push(0).push(0).push(0).push(uint64(1 + r.Intn(3))).pushAddr(self).op(GAS, CALL)
		case 7: // CALL without value inside static is fine
			w.push(0).push(0).push(0).push(0).push(0).pushAddr(self).push(1000).op(CALL)
		default: // nested: static -> call -> sstore
			w.push(0).push(0).push(0).push(0).push(0).pushAddr(common.BytesToAddress([]byte{0xc0, 0xde, 0x00, 0x02})).op(GAS, CALL)
		}
		w.push(7).push(0).op(MSTORE).push(32).push(0).op(RETURN)
		otherCode = w.bytes()
		a.push(32).push(0).push(0).push(0).pushAddr(other).op(GAS, STATICCALL)
		a.push(0).op(MLOAD).op(ADD)
		a.push(3).op(SSTORE)
		a.op(RETURNDATASIZE)
		ret32()
	case 4: // jump into push data
		name = "jump-into-pushdata"
		// PUSH1 4 JUMP PUSH2 0x5b5b ... : destination 4/5 are JUMPDEST bytes inside push data
		a.push(uint64(4 + r.Intn(3))).op(JUMP).raw(byte(PUSH2), 0x5b, 0x5b).op(JUMPDEST).push(1)
		ret32()
	case 5: // jump targets: end of code, beyond, huge
		name = "jump-edge"
		switch r.Intn(4) {
		case 0:
			a.pushBig(c10Word(r)).op(JUMP)
		case 1:
			a.push(1).pushBig(c10Word(r)).op(JUMPI)
		case 2:
			a.push(0).pushBig(c10Word(r)).op(JUMPI).push(9)
			ret32()
		default:
			a.push(3).op(JUMP).op(JUMPDEST) // JUMPDEST is the last byte
		}
	case 6: // truncated push at the end of code
		name = "push-truncated"
		a.push(uint64(r.Intn(9))).push(0).op(MSTORE)
		n := 1 + r.Intn(32)
		a.raw(byte(PUSH1) + byte(n-1))
		a.raw(r.Bytes(r.Intn(n))...)
	case 7: // memory expansion at large offsets
		name = "mem-large-offset"
		offs := []*big.Int{big.NewInt(1 << 16), big.NewInt(1 << 20), big.NewInt(1<<32 - 32), big.NewInt(1 << 32), new(big.Int).SetUint64(0x1FFFFFFFE0 - 31), new(big.Int).SetUint64(0x1FFFFFFFE0), new(big.Int).SetUint64(1<<63 - 1), new(big.Int).SetUint64(1<<64 - 32), new(big.Int).SetUint64(1<<64 - 1), new(big.Int).Lsh(big.NewInt(1), 64), c10Max}
		a.pushBig(offs[r.Intn(len(offs))])
		switch r.Intn(5) {
		case 0:
			a.op(MLOAD)
		case 1:
			a.push(1).op(SWAP1, MSTORE)
		case 2:
			a.push(1).op(SWAP1, MSTORE8)
		case 3:
			a.push(uint64(r.Intn(2))).op(SWAP1, SHA3)
		default:
			a.push(uint64(r.Intn(2))).op(SWAP1, RETURN)
		}
		a.op(MSIZE)
		ret32()
	case 8: // copy with huge source offsets / sizes
		name = "copy-edge"
		cp := []OpCode{CALLDATACOPY, CODECOPY, RETURNDATACOPY}[r.Intn(3)]
		a.pushBig([]*big.Int{big.NewInt(0), big.NewInt(1), big.NewInt(33), c10Word(r)}[r.Intn(4)])                                   // size
		a.pushBig([]*big.Int{big.NewInt(0), big.NewInt(int64(r.Intn(100))), new(big.Int).SetUint64(1<<64 - 1), new(big.Int).Lsh(big.NewInt(1), 64), c10Word(r)}[r.Intn(5)]) // src
		a.push(uint64(r.Intn(64)))                                                                                                    // dst
		a.op(cp)
		a.push(64).push(0).op(RETURN)
	case 9: // arithmetic edge: one op on two boundary words
		name = "arith-edge"
		for i := 0; i < 8; i++ {
			op := c10Bin[r.Intn(len(c10Bin))]
			a.pushBig(c10Word(r)).pushBig(c10Word(r)).op(op)
			a.push(uint64(32 * i)).op(MSTORE)
		}
		a.push(256).push(0).op(RETURN)
	case 10:
		name = "arith-edge3"
		for i := 0; i < 8; i++ {
			a.pushBig(c10Word(r)).pushBig(c10Word(r)).pushBig(c10Word(r)).op(c10Ter[r.Intn(2)])
			a.push(uint64(32 * i)).op(MSTORE)
		}
		a.push(256).push(0).op(RETURN)
	case 11, 38: // shifts / byte / signextend at the limits
		name = "shift-edge"
		half := new(big.Int).Lsh(big.NewInt(1), 255)
		for i := 0; i < 16; i++ {
			op := []OpCode{SHL, SHR, SAR, SAR, BYTE, SIGNEXTEND}[r.Intn(6)]
			// value classes: zero, one, small, largest positive, smallest negative, minus one, bytes with/without the sign bit, anything
			vals := []*big.Int{big.NewInt(0), big.NewInt(1), big.NewInt(int64(2 + r.Intn(300))), new(big.Int).Sub(half, big.NewInt(1)), half, c10Max,
				big.NewInt(0x80), big.NewInt(0x7f), big.NewInt(0x8000), new(big.Int).Add(half, big.NewInt(1)), c10Word(r), c10Word(r)}
			// shift / index classes: 0, 1, byte limits, 255, 256, just above, far above (64-bit and beyond)
			shs := []*big.Int{big.NewInt(0), big.NewInt(1), big.NewInt(int64([]int{7, 8, 30, 31, 32, 33}[r.Intn(6)])), big.NewInt(int64(254 + r.Intn(2))), big.NewInt(256), big.NewInt(257),
				[]*big.Int{new(big.Int).SetUint64(1<<32 + 1), new(big.Int).SetUint64(1 << 63), new(big.Int).Lsh(big.NewInt(1), 64), new(big.Int).Add(new(big.Int).Lsh(big.NewInt(1), 64), big.NewInt(1)), c10Max}[r.Intn(5)]}
			a.pushBig(vals[r.Intn(len(vals))]).pushBig(shs[r.Intn(len(shs))]).op(op)
			a.push(uint64(32 * i)).op(MSTORE)
		}
		a.push(512).push(0).op(RETURN)
	case 12: // EXP with large exponent (gas) and result
		name = "exp-edge"
		a.pushBig(c10Word(r)).pushBig(c10Word(r)).op(EXP)
		ret32()
	case 13: // returndata: call other which returns/reverts n bytes then copy with offsets around the end
		name = "returndata-edge"
		w := newAsm()
		n := r.Intn(70)
		w.push(0x1122334455).push(0).op(MSTORE)
		w.push(uint64(n)).push(uint64(r.Intn(32)))
		if r.Chance(1, 3) {
			w.op(REVERT)
		} else {
			w.op(RETURN)
		}
		otherCode = w.bytes()
		a.push(uint64(r.Intn(40))).push(uint64(r.Intn(40))).push(0).push(0)
		kind := []OpCode{CALL, STATICCALL, DELEGATECALL, CALLCODE}[r.Intn(4)]
		if kind == CALL || kind == CALLCODE {
			a.push(0)
		}
		a.pushAddr(other).op(GAS).op(kind).op(POP)
		a.push(uint64(n + r.Intn(3) - 1)).push(uint64(r.Intn(3))).push(64).op(RETURNDATACOPY)
		a.op(RETURNDATASIZE).push(128).op(MSTORE)
		a.push(160).push(0).op(RETURN)
	case 14: // reverted/failed sub-frame leaves no trace
		name = "failed-frame-no-change"
		w := newAsm()
		w.push(uint64(1 + r.Intn(9))).push(uint64(r.Intn(3))).op(SSTORE)
		w.push(1).push(2).push(0).push(0).op(LOG2)
		if r.Chance(1, 2) {
			w.push(0).push(0).push(0).push(0).push(1).pushAddr(common.BytesToAddress([]byte{0xde, 0xad, 0x01})).op(GAS, CALL, POP)
		}
		if r.Chance(1, 3) {
			w.push(0).push(0).push(0).op(CREATE, POP)
		}
		switch r.Intn(6) {
		case 0:
			w.push(4).push(0).op(REVERT)
		case 1:
			w.raw(0xfe)
		case 2:
			w.op(POP) // underflow
		case 3:
			w.push(77).op(JUMP)
		case 4:
			w.push(0).op(MLOAD, NOT, MLOAD) // out of gas via memory
		default:
			w.push(32).push(0).op(RETURN)
		}
		otherCode = w.bytes()
		a.push(5).push(1).op(SSTORE)
		a.push(32).push(0).push(0).push(0)
		kind := []OpCode{CALL, DELEGATECALL, CALLCODE}[r.Intn(3)]
		if kind == CALL || kind == CALLCODE {
			a.push(uint64(r.Intn(2)))
		}
		a.pushAddr(other).op(GAS).op(kind)
		a.push(9).op(SSTORE)
		a.push(32).push(0).op(RETURN)
	case 15: // create collision / nonce / create2 same salt twice
		name = "create2-twice"
		init := c10InitCode([]byte{byte(PUSH1), 1, byte(PUSH1), 0, byte(SSTORE), byte(STOP)}, nil)
		c10StoreBytes(a, init)
		for i := 0; i < 2; i++ {
			a.push(5).push(uint64(len(init))).push(0).push(0).op(CREATE2)
			a.push(uint64(i)).op(SSTORE)
		}
		a.push(uint64(len(init))).push(0).push(0).op(CREATE)
		a.push(2).op(SSTORE).op(STOP)
	case 16: // insufficient balance for value call / create
		name = "insufficient-balance"
		a.push(0).push(0).push(0).push(0).pushBig(big.NewInt(1000000)).pushAddr(other).op(GAS, CALL)
		a.push(0).op(SSTORE)
		a.push(0).push(0).pushBig(big.NewInt(1000000)).op(CREATE)
		a.push(1).op(SSTORE).op(STOP)
	case 17: // selfdestruct then more calls into the same contract
		name = "selfdestruct"
		w := newAsm()
		// beneficiary: self, the caller, absent, an existing EMPTY account (pre-state, or touched earlier in this run), a precompile
		ee := common.BytesToAddress([]byte{0xc0, 0xde, 0x00, 0x0e})
		c.extra = append(c.extra, c10Acct{addr: ee, bal: big.NewInt(0)})
		dead := common.BytesToAddress([]byte{0xde, 0xad, 0x02})
		ben := []common.Address{self, other, dead, dead, ee, ee, common.BytesToAddress([]byte{4})}[r.Intn(7)]
		w.pushAddr(ben).op(SELFDESTRUCT)
		otherCode = w.bytes()
		if r.Chance(1, 3) {
			a.push(0).push(0).push(0).push(0).pushAddr(ben).op(GAS, STATICCALL, POP) // touch: the beneficiary now exists and is empty
		}
		for i := 0; i < 2; i++ {
			a.push(0).push(0).push(0).push(0).push(uint64(r.Intn(3))).pushAddr(other).op(GAS, CALL)
			a.push(uint64(i)).op(SSTORE)
		}
		a.pushAddr(other).op(BALANCE).push(2).op(SSTORE)
		a.pushAddr(other).op(EXTCODESIZE).push(3).op(SSTORE).op(STOP)
	case 18: // gas-limited sub call runs out of gas, parent continues
		name = "subcall-oog"
		w := newAsm()
		l := w.newLabel()
		w.label(l).push(1).push(0).op(SSTORE).pushLabel(l).op(JUMP)
		otherCode = w.bytes()
		a.push(0).push(0).push(0).push(0).push(0).pushAddr(other).push(uint64(r.Intn(60000))).op(CALL)
		a.push(0).op(SSTORE).op(GAS).push(1).op(SSTORE).op(STOP)
	case 19: // code deposit: return large runtime / not enough gas for deposit
		name = "code-deposit"
		x := newAsm()
		size := []int{0, 1, 100, 1000, 24576, 24577, 39231, 39232, 39232, 39233, 50000}[r.Intn(11)]
		if r.Chance(1, 2) { // the constructor leaves traces of its own before returning the code
			x.push(7).push(1).op(SSTORE)
			x.push(3).push(0).push(0).op(LOG1)
		}
		x.push(uint64(size)).push(0).op(RETURN)
		init := x.bytes()
		c10StoreBytes(a, init)
		endow := uint64(r.Intn(2) * (1 + r.Intn(20)))
		c.accts0bal = big.NewInt(int64(50 + r.Intn(50)))
		two := r.Chance(1, 3)
		var created common.Address
		if two {
			a.push(5).push(uint64(len(init))).push(0).push(endow).op(CREATE2)
			created = crypto.CreateAddress2(self, common.BigToHash(big.NewInt(5)), crypto.Keccak256(init))
		} else {
			a.push(uint64(len(init))).push(0).push(endow).op(CREATE)
			created = crypto.CreateAddress(self, 1)
		}
		a.op(DUP1).op(EXTCODESIZE).push(1).op(SSTORE)
		a.push(0).op(SSTORE)
		a.pushAddr(created).op(BALANCE).push(2).op(SSTORE).op(STOP)
		if r.Chance(1, 2) {
			c.gas = 100000 + uint64(r.Intn(400000))
		} else {
			c.gas = 20000000
		}
		if size > configs.MaxCodeSize {
			// the creation fails (exceptional halt of the create frame): nothing of it may remain
			c.absent = append(c.absent, created)
		}
	case 20: // invalid / undefined opcodes
		name = "undefined-opcode"
		a.push(1).push(2)
		a.raw([]byte{0x0c, 0x1e, 0x21, 0x44, 0x46, 0x48, 0x49, 0x5c, 0x5d, 0x5e, 0x5f, 0xa5, 0xb0, 0xf6, 0xf7, 0xfb, 0xfc, 0xfe}[r.Intn(18)])
		ret32()
	case 29: // BLOCKHASH window: NUMBER-256 .. NUMBER-1, around both ends, heights below/around 256, 64-bit wrap
		name = "blockhash-edge"
		c.number = []uint64{1, 2, 255, 256, 257, 258, 300, 600, 1 << 32}[r.Intn(9)]
		var arg *big.Int
		switch r.Pick(8, 2, 2) {
		case 0:
			d := []int64{-258, -257, -256, -255, -254, -2, -1, 0, 1}[r.Intn(9)]
			arg = new(big.Int).Add(new(big.Int).SetUint64(c.number), big.NewInt(d))
			if arg.Sign() < 0 {
				arg = big.NewInt(0)
			}
		case 1: // low 64 bits inside the window, but the value is >= 2^64
			arg = new(big.Int).Add(new(big.Int).Lsh(big.NewInt(1), uint(64*(1+r.Intn(3)))), new(big.Int).SetUint64(c.number-1))
		default:
			arg = []*big.Int{big.NewInt(0), new(big.Int).SetUint64(1<<64 - 1), new(big.Int).Lsh(big.NewInt(1), 64), c10Max}[r.Intn(4)]
		}
		a.pushBig(arg).op(BLOCKHASH)
		ret32()
	case 30: // EXTCODEHASH / EXTCODESIZE / BALANCE of absent, touched-but-empty, codeless, contract, precompile, self, destructed accounts
		name = "extcodehash-edge"
		dead := common.BytesToAddress([]byte{0xde, 0xad, 0x05})
		tgt := []common.Address{dead, dead, dead, common.BytesToAddress([]byte{4}), common.BytesToAddress([]byte{4}), c.origin, other, self,
			common.BytesToAddress([]byte{byte(1 + r.Intn(8))}), common.BytesToAddress([]byte{0xc0, 0xde, 0x00, 0x07})}[r.Intn(10)]
		touch := []int{0, 1, 1, 1, 2, 3, 4, 4, 5}[r.Intn(9)]
		if c10IsUnmodelledPrecompile(tgt) && touch != 4 {
			touch = 0 // never CALL a precompile that is outside the model; querying it is fine
		}
		w := newAsm() // other: self-destructs to the target or just stops
		if r.Chance(3, 4) {
			w.pushAddr(tgt).op(SELFDESTRUCT)
		} else {
			w.op(STOP)
		}
		otherCode = w.bytes()
		switch touch {
		case 0: // nothing before
		case 1: // STATICCALL touches the target
			a.push(0).push(0).push(0).push(0).pushAddr(tgt).op(GAS, STATICCALL, POP)
		case 2: // CALL without value
			a.push(0).push(0).push(0).push(0).push(0).pushAddr(tgt).op(GAS, CALL, POP)
		case 3: // CALL with value 0/1 (self balance may be 0: then it fails)
			a.push(0).push(0).push(0).push(0).push(1).pushAddr(tgt).op(GAS, CALL, POP)
		case 4: // other runs (and maybe self-destructs to the target, with or without balance)
			a.push(0).push(0).push(0).push(0).push(uint64(r.Intn(2))).pushAddr(other).op(GAS, CALL, POP)
		default: // DELEGATECALL / CALLCODE to the target
			if r.Chance(1, 2) {
				a.push(0).push(0).push(0).push(0).pushAddr(tgt).op(GAS, DELEGATECALL, POP)
			} else {
				a.push(0).push(0).push(0).push(0).push(0).pushAddr(tgt).op(GAS, CALLCODE, POP)
			}
		}
		q := tgt
		if r.Chance(1, 4) {
			q = other
		}
		a.pushAddr(q).op(EXTCODEHASH).push(0).op(MSTORE)
		a.pushAddr(q).op(EXTCODESIZE).push(32).op(MSTORE)
		a.pushAddr(q).op(BALANCE).push(64).op(MSTORE)
		a.push(96).push(0).op(RETURN)
	case 31: // push-data aware jump destinations: every PUSHn at every alignment of the bitmap, targets in and around the data
		name = "jumpdest-bitmap"
		pre := r.Intn(18)
		n := 1 + r.Intn(32)
		body := []byte{}
		for i := 0; i < pre; i++ {
			body = append(body, byte(JUMPDEST))
		}
		pl := 4 // PUSH2 hi lo JUMP
		cond := r.Chance(1, 4)
		if cond {
			pl = 6 // PUSH1 1 PUSH2 hi lo JUMPI
		}
		pushAt := pl + len(body)
		body = append(body, byte(PUSH1)+byte(n-1))
		for i := 0; i < n; i++ {
			body = append(body, byte(JUMPDEST))
		}
		after := pl + len(body)
		body = append(body, byte(JUMPDEST), byte(PUSH1), 1, byte(PUSH1), 0, byte(MSTORE), byte(PUSH1), 32, byte(PUSH1), 0, byte(RETURN))
		if r.Chance(1, 2) { // code ends inside the data of a push
			m := 1 + r.Intn(32)
			body = append(body, byte(JUMPDEST), byte(PUSH1)+byte(m-1))
			for i, k := 0, r.Intn(m+1); i < k; i++ {
				body = append(body, byte(JUMPDEST))
			}
		}
		total := pl + len(body)
		var tgt int
		switch r.Pick(6, 2, 2, 2, 3) {
		case 0:
			tgt = pushAt + 1 + r.Intn(n) // inside the data
		case 1:
			tgt = after // the real JUMPDEST behind the data
		case 2:
			tgt = pushAt - r.Intn(2) // the PUSH opcode itself / the byte before it
		case 3:
			tgt = pl + r.Intn(total-pl)
		default:
			tgt = total - 2 + r.Intn(4) // last bytes, len(code), len(code)+1
		}
		if cond {
			a.push(1).raw(byte(PUSH2), byte(tgt>>8), byte(tgt)).op(JUMPI)
		} else {
			a.raw(byte(PUSH2), byte(tgt>>8), byte(tgt)).op(JUMP)
		}
		a.raw(body...)
	case 32: // jump-destination analysis is per CODE: caller and callee differ exactly at the jump target
		name = "jumpdest-per-code"
		P := 3 + r.Intn(30)
		kind := []OpCode{CALL, DELEGATECALL, CALLCODE, STATICCALL}[r.Intn(4)]
		callOther := func(x *c10Asm, slot uint64) {
			x.push(32).push(0).push(0).push(0)
			if kind == CALL || kind == CALLCODE {
				x.push(0)
			}
			x.pushAddr(other).push(60000).op(kind) // a failing callee burns only what it was handed
			x.push(0).op(MLOAD).push(2).op(MUL).op(ADD).push(slot).op(SSTORE) // flag + 2*returned word
			x.push(0).push(0).op(MSTORE)
		}
		good := func() []byte { // PUSH1 P JUMP, JUMPDESTs up to P, then return 1
			x := newAsm()
			x.push(uint64(P)).op(JUMP)
			for len(x.buf) <= P {
				x.op(JUMPDEST)
			}
			x.push(1).push(0).op(MSTORE).push(32).push(0).op(RETURN)
			return x.bytes()
		}
		if r.Chance(1, 2) {
			// self: position P is a JUMPDEST (and is jumped to, so the analysis of self is cached first);
			// other: the same position is a 0x5b inside PUSH32 data -> its jump must fail
			a.push(uint64(P)).op(JUMP)
			for len(a.buf) < P {
				a.op(JUMPDEST)
			}
			a.op(JUMPDEST)
			w := newAsm()
			w.push(uint64(P)).op(JUMP).raw(byte(PUSH32))
			for i := 0; i < 32; i++ {
				w.raw(byte(JUMPDEST))
			}
			w.push(1).push(0).op(MSTORE).push(32).push(0).op(RETURN)
			otherCode = w.bytes()
		} else {
			// self: bytes 1..32 are push data (0x5b), it jumps elsewhere first; other: position P is a real JUMPDEST
			a.raw(byte(PUSH32))
			for i := 0; i < 32; i++ {
				a.raw(byte(JUMPDEST))
			}
			a.op(POP).push(38).op(JUMP).op(STOP).op(JUMPDEST) // 33 POP, 34-35 PUSH1 38, 36 JUMP, 37 STOP, 38 JUMPDEST
			otherCode = good()
		}
		callOther(a, 0)
		callOther(a, 1) // second call: analysis taken from the cache
		a.push(1).push(2).op(SSTORE).op(STOP)
	case 33: // RETURNDATA after an operation that must replace (or clear) it
		name = "returndata-after-op"
		c.gas = 5000000
		w := newAsm()
		w.raw(byte(PUSH32)).raw(r.Bytes(32)...).push(0).op(MSTORE).push(32).push(0).op(RETURN)
		otherCode = w.bytes()
		a.push(0).push(0).push(0).push(0).push(0).pushAddr(other).op(GAS, CALL, POP) // RETURNDATA = 32 bytes
		mkCreate := func(init []byte, value uint64, salt int) {
			c10StoreBytes(a, init)
			if salt >= 0 {
				a.push(uint64(salt))
			}
			a.push(uint64(len(init))).push(0).push(value)
			if salt >= 0 {
				a.op(CREATE2)
			} else {
				a.op(CREATE)
			}
		}
		rt := c10InitCode([]byte{byte(PUSH1), 1, byte(PUSH1), 0, byte(SSTORE), byte(STOP), 1}, nil) // 7 bytes of runtime code
		rv := newAsm()
		rv.push(0x0102030405060708).push(0).op(MSTORE).push(uint64(r.Intn(40))).push(uint64(r.Intn(32))).op(REVERT)
		salt := -1
		if r.Chance(1, 2) {
			salt = r.Intn(3)
		}
		switch r.Intn(11) {
		case 0: // call to an absent account
			a.push(0).push(0).push(0).push(0).push(0).pushAddr(common.BytesToAddress([]byte{0xde, 0xad, 0x06})).op(GAS, CALL)
		case 1: // value call that cannot be paid
			a.push(0).push(0).push(0).push(0).pushBig(big.NewInt(5000000)).pushAddr(other).op(GAS, CALL)
		case 2: // call to an account without code
			a.push(0).push(0).push(0).push(0).push(0).pushAddr(c.origin).op(GAS, []OpCode{CALL, CALLCODE}[r.Intn(2)])
		case 3: // successful creation: RETURNDATA must be empty, not the deployed code
			mkCreate(rt, 0, salt)
		case 4: // reverting constructor: RETURNDATA is the revert data
			mkCreate(rv.bytes(), 0, salt)
		case 5: // failing constructor
			mkCreate([]byte{0xfe}, 0, salt)
		case 6: // creation that cannot be paid
			mkCreate(rt, 5000000, salt)
		case 7: // the same CREATE2 twice: the second one collides
			mkCreate(rt, 0, 1)
			a.op(POP)
			mkCreate(rt, 0, 1)
		case 8: // identity precompile
			a.push(0).push(0).push(uint64(r.Intn(3) * 5)).push(0).push(4).op(GAS, []OpCode{STATICCALL, DELEGATECALL}[r.Intn(2)])
		case 9: // callee that reverts with data
			a.push(0).push(0).push(0).push(0)
			a.pushAddr(common.BytesToAddress([]byte{0xc0, 0xde, 0x00, 0x02})).op(GAS, STATICCALL)
		default: // empty init code
			mkCreate(nil, 0, salt)
		}
		a.op(ISZERO, ISZERO).push(0).op(MSTORE)
		a.op(RETURNDATASIZE).push(32).op(MSTORE)
		a.op(RETURNDATASIZE).push(0).push(64).op(RETURNDATACOPY)
		a.push(128).push(0).op(RETURN)
	case 34: // identity precompile with exactly / one less / one more than the gas it needs
		name = "identity-gas-exact"
		if r.Chance(1, 4) {
			// a value-bearing CALL whose precompile run fails for lack of gas: the transfer is undone. The stipend (2300)
			// always comes on top of the requested gas, so the input has to cost more than that: > 766 words
			words := 767 + r.Intn(40)
			cost := 15 + 3*words
			req := cost - 2300 + []int{-1, 0, 1}[r.Intn(3)]
			a.push(0).push(0).push(uint64(32 * words)).push(0).push(uint64(1 + r.Intn(3))).push(4).push(uint64(req)).op(CALL)
			a.push(0).op(SSTORE)
			a.push(4).op(BALANCE).push(1).op(SSTORE)
			a.op(SELFBALANCE).push(2).op(SSTORE)
			a.op(RETURNDATASIZE).push(3).op(SSTORE)
			a.op(STOP)
			c.accts0bal = big.NewInt(int64(r.Intn(2) * 100)) // half of the time the caller cannot pay either
			break
		}
		size := []int{0, 1, 31, 32, 33, 64, 65}[r.Intn(7)]
		delta := []int{-1, 0, 0, 1}[r.Intn(4)]
		cost := 15 + 3*((size+31)/32)
		data := r.Bytes(96)
		c10StoreBytes(a, data)
		a.push(0).push(0).push(uint64(size)).push(0)
		kind := []OpCode{CALL, STATICCALL, DELEGATECALL, CALLCODE}[r.Intn(4)]
		if kind == CALL || kind == CALLCODE {
			a.push(0)
		}
		a.push(4).push(uint64(cost + delta)).op(kind)
		a.push(96).op(MSTORE)
		a.op(RETURNDATASIZE).push(128).op(MSTORE)
		a.op(RETURNDATASIZE).push(0).push(160).op(RETURNDATACOPY)
		a.push(128).push(96).op(RETURN)
		exp := make([]byte, 128)
		if delta >= 0 {
			exp[31] = 1
			exp[63] = byte(size)
			copy(exp[64:], data[:size])
		}
		c.specRet, c.specName = exp, "kvm-identity-gas"
		c.specWhat = fmt.Sprintf("a call to the identity precompile 0x04 with %d input bytes and %d gas (needs %d) must %s", size, cost+delta, cost, map[bool]string{true: "succeed and return its input", false: "fail with empty return data"}[delta >= 0])
	case 35: // creation at an address that already has a nonce / code / only a balance
		name = "create-collision"
		c.gas = 20000000 // a collision burns the 63/64 handed to the creation
		rt := c10InitCode([]byte{byte(PUSH1), 1, byte(PUSH1), 0, byte(SSTORE), byte(STOP)}, nil)
		two := r.Chance(1, 2)
		salt := common.BigToHash(big.NewInt(int64(r.Intn(3))))
		var addr common.Address
		if two {
			addr = crypto.CreateAddress2(self, salt, crypto.Keccak256(rt))
		} else {
			addr = crypto.CreateAddress(self, 1) // the pre-state nonce of every generated contract is 1
		}
		x := c10Acct{addr: addr, bal: big.NewInt(0)}
		switch r.Intn(6) {
		case 0:
			x.nonce = 1
		case 1:
			x.code = []byte{byte(STOP)}
		case 2:
			x.bal = big.NewInt(int64(1 + r.Intn(9)))
		case 3:
			x.nonce, x.code, x.bal = 5, []byte{byte(PUSH1), 0, byte(POP)}, big.NewInt(3)
		case 4:
			x.nonce, x.bal = uint64(1+r.Intn(3)), big.NewInt(2)
		default:
			x.addr = common.BytesToAddress([]byte{0xde, 0xad, 0x07}) // control: nothing at the address
			x.bal = big.NewInt(1)
		}
		c.extra = append(c.extra, x)
		c10StoreBytes(a, rt)
		if two {
			a.pushBig(new(big.Int).SetBytes(salt[:]))
		}
		a.push(uint64(len(rt))).push(0).push(uint64(r.Intn(2) * 3))
		if two {
			a.op(CREATE2)
		} else {
			a.op(CREATE)
		}
		a.push(0).op(SSTORE)
		a.pushAddr(addr).op(EXTCODESIZE).push(1).op(SSTORE)
		a.pushAddr(addr).op(BALANCE).push(2).op(SSTORE)
		a.push(0).push(0).push(0).push(0).push(0).pushAddr(addr).op(GAS, CALL).push(3).op(SSTORE)
		a.op(STOP)
	case 36: // the depth limit for EVERY frame-creating operation: recursion to the limit, then one operation per frame on the way back
		name = "depth-boundary"
		c.gas = 1000000000000000 + uint64(r.Intn(1000))
		kind := []OpCode{CALL, DELEGATECALL, STATICCALL, CALLCODE}[r.Intn(4)]
		xs := []string{"create", "create2", "call-code", "call-nocode", "call-absent", "staticcall", "delegatecall", "callcode", "identity"}
		xop := xs[r.Intn(len(xs))]
		if kind == STATICCALL && (xop == "create" || xop == "create2") {
			xop = "staticcall"
		}
		w := newAsm()
		w.op(STOP)
		otherCode = w.bytes()
		// recursive call first; the callee's counter lands in mem[0..32)
		a.push(32).push(0).push(0).push(0)
		if kind == CALL || kind == CALLCODE {
			a.push(0)
		}
		a.op(ADDRESS, GAS).op(kind).op(POP)
		callX := func(k OpCode, to common.Address) {
			a.push(0).push(0).push(0).push(0)
			if k == CALL || k == CALLCODE {
				a.push(0)
			}
			a.pushAddr(to).op(GAS).op(k)
		}
		switch xop {
		case "create":
			a.push(0).push(0).push(0).op(CREATE).op(ISZERO, ISZERO)
		case "create2":
			a.push(0).op(MLOAD).push(0).push(0).push(0).op(CREATE2).op(ISZERO, ISZERO) // salt = the callee's counter: differs per frame
		case "call-code":
			callX(CALL, other)
		case "call-nocode":
			callX(CALL, c.origin)
		case "call-absent":
			callX(CALL, common.BytesToAddress([]byte{0xde, 0xad, 0x08}))
		case "staticcall":
			callX(STATICCALL, other)
		case "delegatecall":
			callX(DELEGATECALL, other)
		case "callcode":
			callX(CALLCODE, other)
		default:
			callX(STATICCALL, common.BytesToAddress([]byte{4}))
		}
		a.push(0).op(MLOAD).op(ADD)
		ret32()
		c.specRet, c.specName = word32(1024), "kvm-depth-limit"
		c.specWhat = "frames 1..1024 may start one more call/creation (" + xop + "), frame 1025 may not: the count returned through the " + kind.String() + " recursion must be 1024"
	case 37: // a self-destruct inside a frame that later fails is undone (balance, code, destruct mark, beneficiary)
		name = "selfdestruct-in-failed-frame"
		c.gas = 3000000
		bomb := common.BytesToAddress([]byte{0xc0, 0xde, 0x00, 0x09})
		ben := []common.Address{common.BytesToAddress([]byte{0xde, 0xad, 0x0a}), self, other, bomb, c.origin}[r.Intn(5)]
		bc := newAsm()
		bc.push(7).push(0).op(SSTORE).pushAddr(ben).op(SELFDESTRUCT)
		c.extra = append(c.extra, c10Acct{addr: bomb, nonce: 1, bal: big.NewInt(int64(r.Intn(2) * (1 + r.Intn(50)))), code: bc.bytes()})
		w := newAsm()
		w.push(0).push(0).push(0).push(0).push(0).pushAddr(bomb).push(200000).op(CALL).push(0).op(SSTORE)
		if r.Chance(1, 3) { // a second call into the destructed contract within the same frame
			w.push(0).push(0).push(0).push(0).push(0).pushAddr(bomb).push(200000).op(CALL).push(1).op(SSTORE)
		}
		switch r.Intn(5) {
		case 0:
			w.push(0).push(0).op(REVERT)
		case 1:
			w.raw(0xfe)
		case 2:
			w.push(99).op(JUMP)
		default:
			w.op(STOP)
		}
		otherCode = w.bytes()
		a.push(0).push(0).push(0).push(0)
		kind := []OpCode{CALL, CALL, DELEGATECALL, CALLCODE}[r.Intn(4)]
		if kind == CALL || kind == CALLCODE {
			a.push(0)
		}
		a.pushAddr(other).push(1000000).op(kind).push(0).op(SSTORE)
		a.pushAddr(bomb).op(BALANCE).push(1).op(SSTORE)
		a.pushAddr(bomb).op(EXTCODESIZE).push(2).op(SSTORE)
		a.pushAddr(ben).op(BALANCE).push(3).op(SSTORE)
		a.push(32).push(0).push(0).push(0).push(0).pushAddr(bomb).push(200000).op(CALL).push(4).op(SSTORE)
		a.op(STOP)
	case 39: // offsets of 2^64 and more whose LOW 64 bits are a perfectly valid offset: nothing may be read / reached there
		name = "offset-high-bits"
		c.value = big.NewInt(0) // the run itself must start: its outcome is the oracle
		hi := func(k uint64) *big.Int {
			return new(big.Int).Add(new(big.Int).Lsh(big.NewInt(1), uint(64*(1+r.Intn(3)))), new(big.Int).SetUint64(k))
		}
		c.input = r.Bytes(64 + r.Intn(40))
		for i := range c.input {
			c.input[i] |= 1
		}
		c.specName = "kvm-offset-truncated"
		switch r.Intn(4) {
		case 0: // JUMP / JUMPI to 2^64k + (a valid JUMPDEST position)
			x := newAsm()
			x.op(JUMPDEST).push(1).push(0).op(MSTORE).push(32).push(0).op(RETURN)
			if r.Chance(1, 2) {
				a.pushBig(hi(0x22)).op(JUMP) // PUSH9.. is at most 34 bytes: pad to 0x22 below
			} else {
				a.push(1).pushBig(hi(0x24)).op(JUMPI)
			}
			for len(a.buf) < 0x22 {
				a.op(STOP)
			}
			if a.buf[0] == byte(PUSH1) { // the JUMPI variant starts with PUSH1 1: its landing pad is 2 further
				a.op(STOP, STOP)
			}
			a.raw(x.bytes()...)
			c.specClass = "badjump"
			c.specWhat = "a jump to 2^64k + p, p a JUMPDEST position, is invalid"
		case 1: // RETURNDATACOPY: offset beyond 64 bits is out of bounds even for length 0
			w := newAsm()
			w.push(64).push(0).op(RETURN)
			otherCode = w.bytes()
			a.push(0).push(0).push(0).push(0).push(0).pushAddr(other).op(GAS, CALL, POP)
			a.push(uint64(r.Intn(3) * 16)).pushBig(hi(uint64(r.Intn(32)))).push(0).op(RETURNDATACOPY)
			a.push(32).push(0).op(RETURN)
			c.specClass = "retoob"
			c.specWhat = "RETURNDATACOPY from offset 2^64k + small is out of bounds"
		default: // CALLDATALOAD / CALLDATACOPY / CODECOPY / EXTCODECOPY: only zeros can come from there
			for i := 0; i < 8; i++ {
				a.pushBig(c10Max).push(uint64(32 * i)).op(MSTORE)
			}
			for i := 0; i < 8; i++ {
				k := uint64(r.Intn(24))
				switch r.Intn(4) {
				case 0:
					a.pushBig(hi(k)).op(CALLDATALOAD).push(uint64(32 * i)).op(MSTORE)
				case 1:
					a.push(32).pushBig(hi(k)).push(uint64(32 * i)).op(CALLDATACOPY)
				case 2:
					a.push(32).pushBig(hi(k)).push(uint64(32 * i)).op(CODECOPY)
				default:
					a.push(32).pushBig(hi(k)).push(uint64(32 * i)).pushAddr([]common.Address{self, other}[r.Intn(2)]).op(EXTCODECOPY)
				}
			}
			a.push(256).push(0).op(RETURN)
			c.specRet = make([]byte, 256)
			c.specWhat = "call data / code read at offsets 2^64k + small are zeros"
			oc := newAsm()
			oc.pushBig(c10Max).pushBig(c10Max).op(POP, POP, STOP)
			otherCode = oc.bytes()
		}
	case 40: // the precompiled contracts 0x01..0x08 on empty, short, structured, oversized and random inputs (not modelled:
		// no panic, no hang, same result twice, same result as go-ethereum's implementations)
		name = "precompile-call"
		c.gas = 30000000
		p := []int{1, 2, 3, 5, 5, 5, 6, 7, 8}[r.Intn(9)]
		var in []byte
		w32 := func(v *big.Int) []byte { return common.BigToHash(new(big.Int).Mod(v, c10Two256)).Bytes() }
		lenWord := func() []byte {
			return w32([]*big.Int{big.NewInt(0), big.NewInt(1), big.NewInt(2), big.NewInt(31), big.NewInt(32), big.NewInt(33), big.NewInt(64), big.NewInt(int64(r.Intn(70))),
				new(big.Int).SetUint64(1 << 32), new(big.Int).SetUint64(1<<64 - 1), new(big.Int).Lsh(big.NewInt(1), 64), c10Max}[r.Pick(4, 4, 3, 2, 4, 2, 2, 6, 1, 1, 1, 1)])
		}
		g1 := func() []byte { // a point of G1: infinity, the generator, garbage
			switch r.Intn(4) {
			case 0:
				return make([]byte, 64)
			case 1, 2:
				return append(w32(big.NewInt(1)), w32(big.NewInt(2))...)
			default:
				return r.Bytes(64)
			}
		}
		switch r.Pick(3, 2, 6) {
		case 0:
			in = nil
		case 1:
			in = r.Bytes(r.Intn(300))
		default:
			switch p {
			case 1:
				in = append(r.Bytes(32), w32(big.NewInt(int64(26+r.Intn(4))))...)
				in = append(in, r.Bytes(64)...)
			case 5:
				in = append(append(lenWord(), lenWord()...), lenWord()...)
				switch r.Intn(3) {
				case 0:
					in = append(in, r.Bytes(r.Intn(140))...)
				case 1: // base and exponent present, modulus missing or zero
					in = append(in, r.Bytes(1+r.Intn(40))...)
					in = append(in, make([]byte, r.Intn(40))...)
				default:
					in = append(in, make([]byte, r.Intn(100))...)
				}
			case 6:
				in = append(g1(), g1()...)
			case 7:
				in = append(g1(), w32(c10Word(r))...)
			case 8:
				for i, n := 0, r.Intn(3); i < n; i++ {
					in = append(in, g1()...)
					if r.Chance(1, 2) {
						in = append(in, make([]byte, 128)...)
					} else {
						in = append(in, r.Bytes(128)...)
					}
				}
			default:
				in = r.Bytes([]int{1, 31, 32, 33, 55, 56, 63, 64, 65, 119, 120, 128}[r.Intn(12)])
			}
			if r.Chance(1, 5) && len(in) > 0 {
				in = in[:r.Intn(len(in))]
			}
		}
		if p == 1 && len(in) >= 97 {
			sb := make([]byte, 32)
			copy(sb, in[96:])
			halfN := new(big.Int).Rsh(crypto.S256().Params().N, 1)
			c.ecHighS = new(big.Int).SetBytes(sb).Cmp(halfN) > 0
		}
		c10StoreBytes(a, in)
		base := uint64((len(in) + 31) / 32 * 32)
		a.push(64).push(base).push(uint64(len(in))).push(0)
		kind := []OpCode{CALL, STATICCALL, DELEGATECALL, CALLCODE}[r.Intn(4)]
		if kind == CALL || kind == CALLCODE {
			a.push(0)
		}
		a.push(uint64(p)).op(GAS).op(kind)
		a.push(base + 64).op(MSTORE)
		a.op(RETURNDATASIZE).push(base + 96).op(MSTORE)
		a.push(160).push(base).op(RETURN)
	case 21: // ECRECOVER (precompile 0x01) on real signatures: as signed (low s), the equally valid high-s twin, wrong v
		name = "ecrecover-signature"
		c.gas = 1000000
		w32 := func(v *big.Int) []byte { return common.BigToHash(v).Bytes() }
		key, _ := crypto.HexToECDSA("b71c71a67e1177ad4e901695e1b4b9ee17ae16c6668d313eac2f96dbcda3f291")
		hash := r.Bytes(32)
		sig, err := crypto.Sign(hash, key)
		if err != nil {
			a.op(STOP)
			break
		}
		rr, ss, v := new(big.Int).SetBytes(sig[:32]), new(big.Int).SetBytes(sig[32:64]), sig[64]
		variant := r.Pick(4, 4, 1, 1)
		if variant == 1 { // (r, N-s, v^1): just as valid for ECRECOVER — EIP-2's low-s rule is about transaction signatures only
			ss.Sub(crypto.S256().Params().N, ss)
			v ^= 1
		}
		if variant == 2 {
			v ^= 1 // wrong recovery id: some other address (or nothing) comes out; compared with the arbiter only
		}
		vw := w32(big.NewInt(int64(27 + v)))
		if variant == 3 {
			vw[r.Intn(31)] = 1 // non-zero high bytes in the v word: no recovery
		}
		in := append(append(append(append([]byte{}, hash...), vw...), w32(rr)...), w32(ss)...)
		exp := make([]byte, 160)
		switch variant {
		case 0, 1:
			copy(exp[12:32], crypto.PubkeyToAddress(key.PublicKey).Bytes())
			exp[95], exp[127] = 1, 32
			c.specRet, c.specName = exp, "kvm-ecrecover"
			c.specWhat = "ECRECOVER (precompile 0x01) of a valid signature must return the signer's address"
			if variant == 1 {
				c.specName = "kvm-ecrecover-rejects-high-s"
				c.specWhat = "ECRECOVER (precompile 0x01) of the high-s twin (r, N-s, v^1) of a valid signature must return the signer's address, as the reference EVM does (the low-s rule of EIP-2 applies to transaction signatures only)"
				c.ecHighS = true
			}
		case 3:
			exp[95] = 1
			c.specRet, c.specName = exp, "kvm-ecrecover"
			c.specWhat = "ECRECOVER with a v word that has non-zero high bytes must return nothing"
		}
		c10StoreBytes(a, in)
		a.push(64).push(128).push(128).push(0)
		kind := []OpCode{CALL, STATICCALL, DELEGATECALL, CALLCODE}[r.Intn(4)]
		if kind == CALL || kind == CALLCODE {
			a.push(0)
		}
		a.push(1).op(GAS).op(kind)
		a.push(192).op(MSTORE)
		a.op(RETURNDATASIZE).push(224).op(MSTORE)
		a.push(160).push(128).op(RETURN)
	case 41: // execution context (ADDRESS, CALLER, CALLVALUE) through two nested calls of every kind
		name = "call-context"
		c.gas = 1000000
		c.value = big.NewInt(int64(r.Intn(3) * (1 + r.Intn(40))))
		c.accts0bal = big.NewInt(int64(100 + r.Intn(100)))
		leaf := common.BytesToAddress([]byte{0xc0, 0xde, 0x00, 0x0a})
		lf := newAsm()
		lf.op(ADDRESS).push(0).op(MSTORE).op(CALLER).push(32).op(MSTORE).op(CALLVALUE).push(64).op(MSTORE).push(96).push(0).op(RETURN)
		c.extra = append(c.extra, c10Acct{addr: leaf, nonce: 1, bal: big.NewInt(0), code: lf.bytes()})
		kinds := []OpCode{CALL, CALLCODE, DELEGATECALL, DELEGATECALL, STATICCALL}
		emit := func(x *c10Asm, to common.Address, retSize uint64) {
			k := kinds[r.Intn(len(kinds))]
			x.push(retSize).push(0).push(0).push(0)
			if k == CALL || k == CALLCODE {
				x.push(uint64(r.Intn(2) * (1 + r.Intn(9))))
			}
			x.pushAddr(to).op(GAS).op(k)
		}
		w := newAsm()
		emit(w, leaf, 96)
		w.push(96).op(MSTORE)
		w.op(ADDRESS).push(128).op(MSTORE).op(CALLER).push(160).op(MSTORE).op(CALLVALUE).push(192).op(MSTORE)
		w.push(224).push(0).op(RETURN)
		otherCode = w.bytes()
		emit(a, other, 224)
		a.push(224).op(MSTORE)
		a.push(256).push(0).op(RETURN)
	default: // value transfer to non-existent / existing / self
		name = "value-transfer"
		ee := common.BytesToAddress([]byte{0xc0, 0xde, 0x00, 0x0e}) // exists in the pre-state and is empty
		c.extra = append(c.extra, c10Acct{addr: ee, bal: big.NewInt(0)})
		dead := common.BytesToAddress([]byte{0xde, 0xad, 0x00})
		tgt := []common.Address{other, self, dead, dead, ee, ee, common.BytesToAddress([]byte{4}), common.BytesToAddress([]byte{0xaa, 0xaa, 0x01})}[r.Intn(8)]
		if r.Chance(1, 3) {
			a.push(0).push(0).push(0).push(0).pushAddr(tgt).op(GAS, STATICCALL, POP) // touch: an absent target now exists and is empty
		}
		a.push(0).push(0).push(0).push(0).push(uint64(r.Intn(30))).pushAddr(tgt).push(uint64(r.Intn(3) * 20000)).op([]OpCode{CALL, CALLCODE}[r.Intn(2)])
		a.push(0).op(SSTORE)
		a.pushAddr(tgt).op(BALANCE).push(1).op(SSTORE)
		a.op(SELFBALANCE).push(2).op(SSTORE).op(STOP)
	}
	return a.bytes(), otherCode, name
}

func c10Addr(i int) common.Address { return common.BytesToAddress([]byte{0xc0, 0xde, 0x00, byte(i)}) }

func c10GenCase(r *c10Rand, o *c10Out) *c10Case {
	c := &c10Case{
		v2:       r.Chance(1, 2),
		gas:      uint64([]int{400000, 150000, 2000000, 60000}[r.Pick(6, 2, 1, 1)]),
		value:    big.NewInt(0),
		origin:   common.BytesToAddress([]byte{0xaa, 0xaa, 0x01}),
		target:   c10Addr(0),
		coinbase: common.BytesToAddress([]byte{0xcb}),
		number:   uint64(1 + r.Intn(600)),
		time:     uint64(1600000000 + r.Intn(1000000)),
		gaslimit: uint64(20000000 + r.Intn(1000)),
		gasprice: big.NewInt(int64(r.Intn(1000))),
	}
	if r.Chance(1, 5) {
		c.value = big.NewInt(int64(r.Intn(50)))
	}
	originBal := big.NewInt(int64(r.Intn(100000)))
	if r.Chance(1, 20) {
		originBal = big.NewInt(int64(r.Intn(30)))
	}
	c.input = r.Bytes([]int{0, 4, 32, 36, 68, 100}[r.Intn(6)])
	if r.Chance(1, 4) {
		c.input = r.Bytes(r.Intn(80))
	}
	nC := 1 + r.Intn(4)
	addrs := make([]common.Address, nC)
	for i := range addrs {
		addrs[i] = c10Addr(i)
	}
	codes := make([][]byte, nC)
	kind := r.Pick(12, 17, 36, 31, 4)
	switch kind {
	case 0:
		c.kind = "random-bytes"
		codes[0] = r.Bytes(r.Intn(100))
	case 1:
		c.kind = "opcode-weighted"
		codes[0] = c10Weighted(r, c.v2)
	case 2:
		c.kind = "grammar"
		g := &c10Gen{r: r, callees: addrs, self: addrs[0], o: o}
		codes[0] = g.contract(2, 6)
	case 4:
		// programs whose outcome cannot depend on the gas supplied (no GAS, no calls, no creations): run once with
		// ample gas, then give exactly what was used, one less, or a little more
		c.kind = "exact-gas"
		g := &c10Gen{r: r, callees: addrs, self: addrs[0], o: o, noCalls: true}
		codes[0] = g.contract(2, 5)
		c.exactOn = true
	default:
		if nC < 2 {
			nC = 2
			addrs = append(addrs, c10Addr(1))
			codes = append(codes, nil)
		}
		var oc []byte
		var name string
		codes[0], oc, name = c10Boundary(r, c, addrs[0], addrs[1])
		c.kind = "boundary:" + name
		if oc != nil {
			codes[1] = oc
		}
	}
	for i := 1; i < nC; i++ {
		if codes[i] != nil {
			continue
		}
		switch r.Pick(6, 2, 1, 1) {
		case 0:
			g := &c10Gen{r: r, callees: addrs, self: addrs[i], o: o}
			codes[i] = g.contract(1, 4)
		case 1:
			codes[i] = c10Weighted(r, c.v2)
		case 2:
			codes[i] = r.Bytes(r.Intn(40))
		default:
			codes[i] = nil // account without code
		}
	}
	for i := 0; i < nC; i++ {
		a := c10Acct{addr: addrs[i], nonce: 1, bal: big.NewInt(int64(r.Intn(3) / 2 * r.Intn(1000))), code: codes[i]}
		for j, n := 0, r.Intn(3); j < n; j++ {
			a.st = append(a.st, [2]common.Hash{common.BigToHash(big.NewInt(int64(r.Intn(4)))), common.BigToHash(c10Word(r))})
		}
		// deduplicate keys (last wins is ambiguous): keep first
		seen := map[common.Hash]bool{}
		var st [][2]common.Hash
		for _, kv := range a.st {
			if !seen[kv[0]] && kv[1] != (common.Hash{}) {
				seen[kv[0]] = true
				st = append(st, kv)
			}
		}
		a.st = st
		c.accts = append(c.accts, a)
	}
	c.accts = append(c.accts, c.extra...)
	if c.accts0bal != nil {
		c.accts[0].bal = c.accts0bal
	}
	c.accts = append(c.accts, c10Acct{addr: c.origin, nonce: uint64(r.Intn(3)), bal: originBal})
	if c.exactOn {
		c.exactOn = false
		c.gas = 3000000
		pre, _, _ := c10RunKVM(c, false, map[common.Address]bool{}, nil)
		if pre.panic == "" && !pre.timeout && (pre.class == "ok" || pre.class == "revert") && pre.gasLeft <= c.gas {
			used := c.gas - pre.gasLeft
			c.exactDelta = []int64{-1, 0, 0, 1, int64(2 + r.Intn(50))}[r.Intn(5)]
			if int64(used)+c.exactDelta >= 0 {
				c.exactOn, c.exactClass, c.exactRet = true, pre.class, pre.ret
				c.gas = uint64(int64(used) + c.exactDelta)
			}
		}
	}
	if r.Chance(1, 10) && !strings.HasPrefix(c.kind, "boundary") && c.kind != "exact-gas" {
		// contract-creation entry: the target's code is used as init code
		c.create = true
		c.kind += "+create-entry"
		init := codes[0]
		if r.Chance(2, 3) {
			init = c10InitCode(codes[0], nil)
		}
		c.input = init
		c.accts[0].code = nil
		c.accts[0].st = nil
	}
	return c
}

// ---------------------------------------------------------------------------- main

func c10CaseInput(i int, c *c10Case) []string {
	v := 1
	if c.v2 {
		v = 2
	}
	k := "call"
	if c.create {
		k = "create"
	}
	lines := []string{fmt.Sprintf("CASE %d %d %s %d %s %s %s %s %d %d %d %s %d %d", i, v, k, c.gas, c.value.String(),
		hex.EncodeToString(c.origin[:]), hex.EncodeToString(c.target[:]), hex.EncodeToString(c.coinbase[:]),
		c.number, c.time, c.gaslimit, c.gasprice.String(), c10ChainID, len(c.accts))}
	for _, a := range c.accts {
		lines = append(lines, fmt.Sprintf("ACC %s %d %s %s %d", hex.EncodeToString(a.addr[:]), a.nonce, a.bal.String(), c10Hex(a.code), len(a.st)))
		for _, kv := range a.st {
			lines = append(lines, fmt.Sprintf("ST %s %s", hex.EncodeToString(kv[0][:]), hex.EncodeToString(kv[1][:])))
		}
	}
	lines = append(lines, "IN "+c10Hex(c.input))
	return lines
}

func c10ObsLines(r *c10Result, withGas bool) []string {
	g := "-"
	if withGas {
		g = fmt.Sprint(r.gasLeft)
	}
	l := []string{fmt.Sprintf("R %s %s %s", r.class, g, c10Hex(r.ret))}
	l = append(l, r.accts...)
	l = append(l, r.logs...)
	return l
}

func c10Coarse(class string) string {
	switch class {
	case "ok", "revert", "PANIC":
		return class
	}
	return "fail"
}

func TestVerifC10(t *testing.T) {
	if *c10Facts != "" {
		if err := c10WriteFacts(*c10Facts); err != nil {
			t.Fatal(err)
		}
		return
	}
	if *c10Dir == "" {
		t.Skip("-out required")
	}
	o := c10Open()
	defer o.Close()
	o.Rule = "per case: small pre-state (1-4 contracts + origin), one top-level Call/Create on KVM with generous gas under the pre- or post-Galaxias table; " +
		"grammar = expressions, if/loops with valid jumps, nested CALL/CALLCODE/DELEGATECALL/STATICCALL, CREATE/CREATE2, logs, revert/selfdestruct; " +
		"observables: error class, gas left, return data, non-empty accounts (nonce, balance, code, non-zero storage) and logs; " +
		"code = uniformly random bytes | opcode-weighted | grammar-generated | programs free of GAS/CALL/CREATE run with exactly the gas they need +-1 | 40 boundary families (stack 1023/1024, depth limit for every frame-creating operation, jump-destination bitmap per PUSH width/alignment and per code, offsets at 2^32/2^63/2^64 and 2^64k+valid, RETURNDATA after every operation that replaces it, identity precompile gas and copy semantics, address collisions, BLOCKHASH window, EXTCODEHASH of absent/empty/destructed accounts, self-destruct inside failed frames, precompiles 0x01-0x08, ...); " +
		"oracles: no panic, < 2 s of CPU per program, same result with and without tracer, per-family expected result (depth count 1024, identity gas/copy, zeros beyond 2^64, exact gas), agreement with go-ethereum v1.9.15 core/vm (Istanbul) on class/return data/state/logs whenever no frame ran out of gas and no fork-specific opcode (GAS value, DIFFICULTY, CHAINID pre-Galaxias, precompiles' gas) was observed"
	root := c10NewRand(*c10Seed)
	opsCovered := map[byte]int{}
	// per-case family and outcome, for reading a run by hand (not compared with anything)
	var kindsLog *bufio.Writer
	if f, err := os.Create(filepath.Join(*c10Dir, "kinds.txt")); err == nil {
		kindsLog = bufio.NewWriter(f)
		defer func() { kindsLog.Flush(); f.Close() }()
	}
	hangs := 0
	for i := 0; i < *c10N; i++ {
		if *c10Only >= 0 && *c10Only != i {
			continue
		}
		r := root.Fork(uint64(i))
		c := c10GenCase(r, o)
		o.curCase = i
		o.Cases++
		o.Count("kind:" + strings.SplitN(c.kind, ":", 2)[0])
		if strings.HasPrefix(c.kind, "boundary:") {
			o.Count(c.kind)
		}
		if c.v2 {
			o.Count("table:v2-galaxias")
		} else {
			o.Count("table:v1")
		}
		in := c10CaseInput(i, c)
		t0 := c10CPU()
		res, cands, keys := c10RunKVM(c, true, nil, nil)
		dt := c10CPU() - t0
		// ---- direct oracles on the implementation
		if res.panic != "" {
			o.Fail(0, "kvm-panic", fmt.Sprintf("kind=%s panic=%q", c.kind, res.panic))
		}
		if res.timeout || dt > 2*time.Second {
			o.Fail(0, "kvm-hang", fmt.Sprintf("kind=%s used %v of CPU (limit 2s)", c.kind, dt))
		}
		if c.specRet != nil && c.specName != "" && res.panic == "" && res.class == "ok" && !bytes.Equal(res.ret, c.specRet) {
			o.Fail(0, c.specName, fmt.Sprintf("kind=%s %s: got %x, expected %x", c.kind, c.specWhat, res.ret, c.specRet))
		}
		if c.specClass != "" && res.panic == "" && !res.timeout && res.class != c.specClass {
			o.Fail(0, c.specName, fmt.Sprintf("kind=%s %s: must end with %s, got class=%s ret=%x", c.kind, c.specWhat, c.specClass, res.class, res.ret))
		}
		for _, ad := range c.absent {
			pre := "A " + hex.EncodeToString(ad[:]) + " "
			for _, l := range res.accts {
				if strings.HasPrefix(l, pre) && res.panic == "" {
					o.Fail(0, "kvm-failed-create-leaves-state", fmt.Sprintf("kind=%s a creation whose constructor returned more than %d bytes of code fails; the account must not exist afterwards, found [%s]", c.kind, configs.MaxCodeSize, c10Trunc(l)))
				}
			}
		}
		if c.exactOn && res.panic == "" && !res.timeout {
			o.Count(fmt.Sprintf("exact-gas:delta%+d", func() int64 {
				if c.exactDelta > 1 {
					return 2
				}
				return c.exactDelta
			}()))
			if c.exactDelta >= 0 && (res.class != c.exactClass || res.gasLeft != uint64(c.exactDelta) || !bytes.Equal(res.ret, c.exactRet)) {
				o.Fail(0, "kvm-exact-gas", fmt.Sprintf("kind=%s with 3000000 gas the program ended %s using %d; given %d it must end the same way with %d left, got class=%s gasLeft=%d ret=%x (expected ret=%x)",
					c.kind, c.exactClass, int64(c.gas)-c.exactDelta, c.gas, c.exactDelta, res.class, res.gasLeft, res.ret, c.exactRet))
			}
			if c.exactDelta < 0 && (res.class != "oog" || res.gasLeft != 0) {
				o.Fail(0, "kvm-exact-gas", fmt.Sprintf("kind=%s with 3000000 gas the program ended %s using %d; given %d it must run out of gas, got class=%s gasLeft=%d",
					c.kind, c.exactClass, int64(c.gas)-c.exactDelta, c.gas, res.class, res.gasLeft))
			}
		}
		if c.specRet != nil && c.specName == "" && res.panic == "" && res.class == "ok" && !bytes.Equal(res.ret, c.specRet) {
			o.Fail(0, "kvm-identity-returndata-aliased", fmt.Sprintf("kind=%s RETURNDATA after a call to the identity precompile 0x04 changed when the caller overwrote its own memory: got %x, EVM specification %x (dataCopy.Run must return a copy of its input)", c.kind, res.ret, c.specRet))
		}
		if res.gasCreated != "" {
			o.Fail(0, "kvm-callee-gas-exceeds-request", fmt.Sprintf("kind=%s %s", c.kind, res.gasCreated))
		}
		if res.gasLeft > c.gas {
			o.Fail(0, "kvm-gas-increase", fmt.Sprintf("gas %d -> %d", c.gas, res.gasLeft))
		}
		if res.timeout {
			// already reported as kvm-hang: no second run, no arbiter run; stop early once the evidence is ample
			hangs++
			for _, l := range in {
				fmt.Fprintln(o.In, l)
			}
			fmt.Fprintln(o.In, "SKIP hang")
			fmt.Fprintf(o.Impl, "CASE %d\nSKIP hang\n", i)
			o.Ops++
			if hangs >= 5 {
				break
			}
			continue
		}
		res2, _, _ := c10RunKVM(c, false, cands, keys)
		l1, l2 := strings.Join(c10ObsLines(res, true), "\n"), strings.Join(c10ObsLines(res2, true), "\n")
		if l1 != l2 {
			o.Fail(0, "kvm-nondeterministic", fmt.Sprintf("kind=%s first=%q second=%q", c.kind, l1, l2))
		}
		gres := c10RunGeth(c, cands, keys)
		// re-read KVM state over the union of candidates if geth found more
		skip := ""
		switch {
		case res.class == "oog" || gres.class == "oog" || res.sawOOG || gres.sawOOG:
			skip = "out-of-gas-in-some-frame"
		case res.gasTaint || gres.gasTaint:
			skip = "gas-value-observed"
		case res.foreignOp || gres.foreignOp:
			skip = "fork-specific-opcode"
		case res.gethAlias:
			skip = "arbiter-aliases-identity-returndata"
		case gres.timeout:
			skip = "arbiter-timeout"
		}
		if res.panic == "" && !res.timeout {
			if skip != "" {
				o.Count("arbiter-skipped:" + skip)
			} else {
				o.Count("arbiter-compared")
				ka := append([]string{"R " + c10Coarse(res.class) + " " + c10Hex(res.ret)}, append(append([]string{}, res.accts...), res.logs...)...)
				ga := append([]string{"R " + c10Coarse(gres.class) + " " + c10Hex(gres.ret)}, append(append([]string{}, gres.accts...), gres.logs...)...)
				ks, gs := strings.Join(ka, " | "), strings.Join(ga, " | ")
				if ks != gs && c.ecHighS {
					o.Fail(0, "kvm-ecrecover-rejects-high-s", fmt.Sprintf("kind=%s ECRECOVER input with s in the upper half of the group order: kvm=[%s] geth=[%s]", c.kind, c10Trunc(ks), c10Trunc(gs)))
				} else if ks != gs {
					o.Fail(0, "kvm-differs-from-reference-evm", fmt.Sprintf("kind=%s kvm=[%s] geth=[%s] kvmclass=%s gethclass=%s", c.kind, c10Trunc(ks), c10Trunc(gs), res.class, gres.class))
				}
			}
		}
		// ---- files for the model comparison
		for _, l := range in {
			fmt.Fprintln(o.In, l)
		}
		fmt.Fprintf(o.Impl, "CASE %d\n", i)
		o.Ops++
		var obs []string
		if res.sawPrecompile && res.panic == "" {
			fmt.Fprintln(o.In, "SKIP precompile")
			obs = []string{"SKIP precompile"}
			o.Count("model-skipped:precompile-other-than-identity")
		} else if c.skipModel != "" && res.panic == "" {
			fmt.Fprintln(o.In, "SKIP "+c.skipModel)
			obs = []string{"SKIP " + c.skipModel}
			o.Count("model-skipped:" + c.skipModel)
		} else {
			fmt.Fprintln(o.In, "RUN")
			obs = c10ObsLines(res, true)
		}
		for _, l := range obs {
			fmt.Fprintln(o.Impl, l)
		}
		if len(o.Samples) < 3 && c.kind == "grammar" {
			o.Samples = append(o.Samples, strings.Join(in, "\n")+"\n  =>  "+strings.Join(obs, " ; "))
		}
		o.Count("result:" + res.class)
		for e, n := range res.errs {
			o.Dist["frame-error:"+e] += n
		}
		if res.sawIdentity {
			o.Count("identity-precompile-called")
		}
		if res.maxDepth >= 3 {
			o.Count("depth>=3")
		}
		if res.maxDepth >= 1024 {
			o.Count("depth>=1024")
		}
		for op, n := range res.ops {
			opsCovered[op] += n
		}
		o.Mark(fmt.Sprintf("%s/%s/%d/%d", c.kind, res.class, len(res.accts), len(res.logs)))
		if kindsLog != nil {
			fmt.Fprintf(kindsLog, "%d %s %s %d %s\n", i, c.kind, res.class, res.gasLeft, c10Trunc(c10Hex(res.ret)))
		}
	}
	names := make([]string, 0, len(opsCovered))
	for op := range opsCovered {
		names = append(names, OpCode(op).String())
	}
	sort.Strings(names)
	o.Dist["opcodes-executed-distinct"] = len(names)
	for op, n := range opsCovered {
		o.Dist["op:"+OpCode(op).String()] = n
	}
}

// CPU time (user+system) consumed by this process so far
func c10CPU() time.Duration {
	var ru syscall.Rusage
	if err := syscall.Getrusage(syscall.RUSAGE_SELF, &ru); err != nil {
		return 0
	}
	return time.Duration(ru.Utime.Nano() + ru.Stime.Nano())
}

func c10Trunc(s string) string {
	if len(s) > 600 {
		return s[:600] + "..."
	}
	return s
}
