//go:build verif

package autofile

// Test-only exports for the C15 harness (injected with -overlay; never part of /repo).
// checkHeadSizeLimit is what the group's ticker runs; calling it directly makes the rotation
// points deterministic.

func (g *Group) VerifCheckHeadSizeLimit() { g.checkHeadSizeLimit() }

func (g *Group) VerifHeadBufSize() int { return g.headBuf.Size() }

// headSizeLimit can only be chosen when the group is opened; the harness sets it to the exact
// size of the head file (and one below / above) to hit the boundary of the size comparison.
func (g *Group) VerifSetHeadSizeLimit(limit int64) {
	g.mtx.Lock()
	g.headSizeLimit = limit
	g.mtx.Unlock()
}

// checkTotalSizeLimit is the second thing the group's ticker runs (after checkHeadSizeLimit); the
// total size limit can only be chosen when the group is opened.
func (g *Group) VerifCheckTotalSizeLimit() { g.checkTotalSizeLimit() }

func (g *Group) VerifSetTotalSizeLimit(limit int64) {
	g.mtx.Lock()
	g.totalSizeLimit = limit
	g.mtx.Unlock()
}

func VerifMaxFilesToRemove() int { return maxFilesToRemove }

// what AutoFile's closeFileRoutine does every autoFileClosePeriod (and on SIGHUP): the head file is
// closed and transparently re-opened by the next Write/Sync/Size.
func (g *Group) VerifCloseHeadFile() error { return g.Head.closeFile() }
