//go:build verif

package autofile

// Test-only exports for the C15 harness (injected with -overlay; never part of /repo).
// checkHeadSizeLimit is what the group's ticker runs; calling it directly makes the rotation
// points deterministic.

func (g *Group) VerifCheckHeadSizeLimit() { g.checkHeadSizeLimit() }

func (g *Group) VerifHeadBufSize() int { return g.headBuf.Size() }
