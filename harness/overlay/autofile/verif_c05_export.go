//go:build verif

package autofile

// Test-only export for the C05 harness (injected with -overlay; never part of /repo).
// checkHeadSizeLimit is what the group's ticker runs every groupCheckDuration; the C05 harness
// calls it between two WAL writes of the consensus code, which makes the instants at which the
// WAL head is rotated deterministic (a ticker firing at that instant).

func (g *Group) VerifC05CheckHeadSizeLimit() { g.checkHeadSizeLimit() }
