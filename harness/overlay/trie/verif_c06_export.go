//go:build verif

package trie

// Test-only export for the C06 harness (injected with -overlay; never part of /repo).
// The harness opens thousands of short-lived chains in one process; fastcache keeps its
// off-heap chunks until Reset is called, so a closed node hands them back explicitly.
func (db *Database) VerifReleaseCache() {
	if db.cleans != nil {
		db.cleans.Reset()
	}
}
