//go:build verif

// C06 harness, part 5 (J lines): chains of blocks of StateDB operations — the sequences the KVM
// and the state transition issue (CreateAccount over an existing / a deleted / a missing account,
// transfers, touches of empty accounts, SetState with unchanged values, self-destructs, nested
// Snapshot / RevertToSnapshot frames that succeed or fail, Finalise between transactions) —
// executed on the REAL kai/state.StateDB over the REAL snapshot tree in several configurations:
//
//	snap      snapshots on, Tree.Cap(root, keep) after every block (keep from 0: everything flattened
//	          into the disk layer, to 128: what StateDB.Commit does by itself)
//	trie      no snapshot tree: every read goes to the tries
//	prefetch  snapshots on and the trie prefetcher started for every block
//	reopen    snapshots on; after every block the tries are flushed, the snapshot tree is journalled
//	          and both are opened again from the database
//
// Model line (JC): the reads of the block, the digest of the whole universe (every address, every
// slot key) read through a fresh StateDB that uses the snapshot layers, and the same digest read
// through a StateDB that has only the tries.  Direct oracles: roots, reads and digests are the
// same in every configuration; the two digests of one node are equal.
package blockchain

import (
	"fmt"
	"math/big"
	"strings"

	"github.com/kardiachain/go-kardia/kai/kaidb"
	"github.com/kardiachain/go-kardia/kai/kaidb/memorydb"
	"github.com/kardiachain/go-kardia/kai/state"
	"github.com/kardiachain/go-kardia/kai/state/snapshot"
	"github.com/kardiachain/go-kardia/lib/common"
	"github.com/kardiachain/go-kardia/lib/crypto"
	"github.com/kardiachain/go-kardia/trie"
	"github.com/kardiachain/go-kardia/types"
)

type jNode struct {
	mode  string
	keep  int
	disk  kaidb.Database
	sdb   state.Database
	snaps *snapshot.Tree
	root  common.Hash
}

func newJNode(mode string, keep int) *jNode {
	n := &jNode{mode: mode, keep: keep, disk: memorydb.New(), root: types.EmptyRootHash}
	n.sdb = state.NewDatabaseWithConfig(n.disk, &trie.Config{Cache: 0})
	return n
}

func (n *jNode) wantSnaps() bool { return n.mode != "trie" }

func (n *jNode) openSnaps() error {
	t, err := snapshot.New(snapshot.Config{CacheSize: 1, AsyncBuild: false}, n.disk, n.sdb.TrieDB(), n.root)
	if err != nil {
		return err
	}
	n.snaps = t
	return nil
}

func (n *jNode) release() {
	if n.snaps != nil {
		n.snaps.VerifReleaseCache()
	}
	n.sdb.TrieDB().VerifReleaseCache()
}

func jCode(id int) []byte {
	if id == 0 {
		return nil
	}
	return []byte{0x60, byte(id), 0x00}
}
func jCodeNum(id int) string {
	if id == 0 {
		return "0"
	}
	return hnum(crypto.Keccak256Hash(jCode(id)))
}

type jOp struct {
	k       string
	a, b    int // address indices
	key     int
	v       int64
	n       int
	comment string
}

type jUniverse struct {
	addrs []common.Address
	keys  []common.Hash
}

func (u *jUniverse) opLine(op jOp) string {
	A := func(i int) string { return anum(u.addrs[i]) }
	switch op.k {
	case "ca", "ra":
		return fmt.Sprintf("%s %s", op.k, A(op.a))
	case "ab", "sb":
		return fmt.Sprintf("%s %s %d", op.k, A(op.a), op.v)
	case "tr":
		return fmt.Sprintf("tr %s %s %d", A(op.a), A(op.b), op.v)
	case "sn":
		return fmt.Sprintf("sn %s %d", A(op.a), op.n)
	case "sc":
		return fmt.Sprintf("sc %s %s", A(op.a), jCodeNum(op.n))
	case "ss":
		return fmt.Sprintf("ss %s %s %d", A(op.a), hnum(u.keys[op.key]), op.v)
	case "sd":
		return fmt.Sprintf("sd %s %s", A(op.a), A(op.b))
	case "rv":
		return fmt.Sprintf("rv %d", op.n)
	case "rs":
		return fmt.Sprintf("rs %s %s", A(op.a), hnum(u.keys[op.key]))
	}
	return op.k // sp, fi
}

func jView(s *state.StateDB, a common.Address) string {
	if !s.Exist(a) {
		return "-"
	}
	return fmt.Sprintf("%d/%s/%s", s.GetNonce(a), s.GetBalance(a), codeNum(s.GetCodeHash(a)))
}

// exec applies one block of operations and commits; returns the reads.
func (n *jNode) exec(u *jUniverse, ops []jOp) (reads []string, err error) {
	defer func() {
		if e := recover(); e != nil {
			err = fmt.Errorf("PANIC %v", e)
		}
	}()
	var snaps *snapshot.Tree
	if n.wantSnaps() {
		snaps = n.snaps
	}
	s, err := state.New(n.root, n.sdb, snaps)
	if err != nil {
		return nil, err
	}
	if n.mode == "prefetch" {
		s.StartPrefetcher("c06")
		defer s.StopPrefetcher()
	}
	var ids []int
	for _, op := range ops {
		a := u.addrs[op.a]
		switch op.k {
		case "ca":
			s.CreateAccount(a)
		case "ab":
			s.AddBalance(a, big.NewInt(op.v))
		case "sb":
			s.SubBalance(a, big.NewInt(op.v))
		case "tr":
			if s.GetBalance(a).Cmp(big.NewInt(op.v)) >= 0 {
				s.SubBalance(a, big.NewInt(op.v))
				s.AddBalance(u.addrs[op.b], big.NewInt(op.v))
			}
		case "sn":
			s.SetNonce(a, uint64(op.n))
		case "sc":
			s.SetCode(a, jCode(op.n))
		case "ss":
			s.SetState(a, u.keys[op.key], common.BigToHash(big.NewInt(op.v)))
		case "sd":
			s.AddBalance(u.addrs[op.b], s.GetBalance(a))
			s.Suicide(a)
		case "sp":
			ids = append(ids, s.Snapshot())
		case "rv":
			i := len(ids) - 1 - op.n
			s.RevertToSnapshot(ids[i])
			ids = ids[:i]
		case "fi":
			s.Finalise(true)
			ids = nil
		case "ra":
			reads = append(reads, "a"+jView(s, a))
		case "rs":
			reads = append(reads, "s"+new(big.Int).SetBytes(s.GetState(a, u.keys[op.key]).Bytes()).String())
		}
	}
	root, err := s.Commit(true)
	if err != nil {
		return reads, err
	}
	n.root = root
	switch n.mode {
	case "snap":
		if n.keep != 128 && n.snaps.Snapshot(root) != nil {
			n.snaps.Cap(root, n.keep) // an error only says that there is nothing to cap
		}
	case "reopen":
		if err := n.sdb.TrieDB().Commit(root, false); err != nil {
			return reads, err
		}
		if n.snaps.Snapshot(root) != nil {
			if _, err := n.snaps.Journal(root); err != nil {
				return reads, fmt.Errorf("journal: %v", err)
			}
		}
		n.release()
		n.sdb = state.NewDatabaseWithConfig(n.disk, &trie.Config{Cache: 0})
		if err := n.openSnaps(); err != nil {
			return reads, fmt.Errorf("reopen: %v", err)
		}
	}
	return reads, nil
}

// digest: the whole universe through a fresh StateDB, with or without the snapshot tree
func (n *jNode) digest(u *jUniverse, withSnaps bool) (string, error) {
	var snaps *snapshot.Tree
	if withSnaps {
		snaps = n.snaps
	}
	s, err := state.New(n.root, n.sdb, snaps)
	if err != nil {
		return "", err
	}
	var sb strings.Builder
	for _, a := range u.addrs {
		v := jView(s, a)
		if v == "-" {
			fmt.Fprintf(&sb, "%s:-;", anum(a))
			continue
		}
		fmt.Fprintf(&sb, "%s:%s:[", anum(a), v)
		for _, k := range u.keys {
			fmt.Fprintf(&sb, "%s=%s,", hnum(k), new(big.Int).SetBytes(s.GetState(a, k).Bytes()))
		}
		sb.WriteString("];")
	}
	return sha8(sb.String()), nil
}

// ---------------------------------------------------------------- generator

type jGen struct {
	r      *rnd
	u      *jUniverse
	ops    []jOp
	depth  int // number of revisions on the stack
	o      *outT
	na     int // the generator's addresses: the first na of the universe
	hotA   int // half of the operations of a chain go to one address and one slot key, so that
	hotKey int // consecutive layers carry entries (and deletions) for the same account and slot
}

func (g *jGen) emit(op jOp) { g.ops = append(g.ops, op) }
func (g *jGen) addr() int {
	if g.r.Bool() {
		return g.hotA
	}
	return g.r.Intn(g.na)
}
func (g *jGen) key() int {
	if g.r.Bool() {
		return g.hotKey
	}
	return g.r.Intn(len(g.u.keys))
}
func (g *jGen) amount() int64 { return int64(g.r.Pick(2, 5, 2) * (1 + g.r.Intn(40))) }

// body of a frame executing "as" address b
func (g *jGen) body(b int, nest int) {
	for i := g.r.Intn(6); i > 0; i-- {
		switch g.r.Pick(8, 4, 2, 2, 2, 2, 2, 1) {
		case 0:
			v := int64(0)
			if !g.r.Chance(1, 3) {
				v = int64(1 + g.r.Intn(5))
			}
			g.emit(jOp{k: "ss", a: b, key: g.key(), v: v})
		case 1:
			g.emit(jOp{k: "rs", a: b, key: g.key()})
		case 2:
			g.emit(jOp{k: "ra", a: g.addr()})
		case 3:
			if nest < 3 {
				g.create(b, nest+1)
			}
		case 4:
			if nest < 3 {
				g.call(b, nest+1)
			}
		case 5:
			g.emit(jOp{k: "tr", a: b, b: g.addr(), v: g.amount()})
		case 6:
			g.emit(jOp{k: "ab", a: g.addr(), v: 0}) // zero-value call: touch
		default:
			g.emit(jOp{k: "sd", a: b, b: g.addr()})
			g.o.Count("jstate:selfdestruct")
		}
	}
}

// kvm.create: nonce of the creator, Snapshot, CreateAccount, SetNonce(1), Transfer, constructor,
// then SetCode or RevertToSnapshot
func (g *jGen) create(from int, nest int) {
	b := g.addr()
	g.emit(jOp{k: "sn", a: from, n: 1 + g.r.Intn(6)})
	pos := g.depth
	g.emit(jOp{k: "sp"})
	g.depth++
	g.emit(jOp{k: "ca", a: b})
	g.emit(jOp{k: "sn", a: b, n: 1})
	g.emit(jOp{k: "tr", a: from, b: b, v: g.amount()})
	g.body(b, nest)
	if g.r.Chance(1, 2) {
		g.emit(jOp{k: "rv", n: g.depth - 1 - pos})
		g.depth = pos
		g.o.Count("jstate:create-frame-reverted")
	} else {
		g.emit(jOp{k: "sc", a: b, n: 1 + g.r.Intn(3)})
		g.o.Count("jstate:create-frame-kept")
	}
}

// kvm.Call: Snapshot, (CreateAccount when the callee does not exist is left to AddBalance's
// GetOrNewStateObject), Transfer, the callee's code, RevertToSnapshot on failure
func (g *jGen) call(from int, nest int) {
	b := g.addr()
	pos := g.depth
	g.emit(jOp{k: "sp"})
	g.depth++
	g.emit(jOp{k: "tr", a: from, b: b, v: g.amount()})
	g.body(b, nest)
	if g.r.Chance(1, 3) {
		g.emit(jOp{k: "rv", n: g.depth - 1 - pos})
		g.depth = pos
		g.o.Count("jstate:call-frame-reverted")
	}
}

func (g *jGen) tx() {
	from := g.addr()
	switch g.r.Pick(3, 2, 4, 4, 1, 1, 4) {
	case 6: // a call that only writes (or clears) a slot of an existing contract
		v := int64(0)
		if g.r.Bool() {
			v = int64(1 + g.r.Intn(5))
		}
		g.emit(jOp{k: "ab", a: from, v: 1})
		g.emit(jOp{k: "ss", a: from, key: g.key(), v: v})
	case 0:
		g.emit(jOp{k: "tr", a: from, b: g.addr(), v: g.amount()})
	case 1:
		g.emit(jOp{k: "ab", a: g.addr(), v: 1 + g.amount()}) // a reward
	case 2:
		g.create(from, 0)
	case 3:
		g.call(from, 0)
	case 4:
		g.emit(jOp{k: "ab", a: g.addr(), v: 0})
	default:
		g.emit(jOp{k: "sb", a: g.addr(), v: 0})
	}
	for i := g.r.Intn(3); i > 0; i-- { // what the next transaction would see
		if g.r.Bool() {
			g.emit(jOp{k: "ra", a: g.addr()})
		} else {
			g.emit(jOp{k: "rs", a: g.addr(), key: g.key()})
		}
	}
	g.emit(jOp{k: "fi"})
	g.depth = 0
}

func (g *jGen) block(ntx int) []jOp {
	g.ops = nil
	for i := 0; i < ntx; i++ {
		g.tx()
	}
	if g.r.Chance(1, 3) { // a block whose last transaction is not followed by Finalise: Commit does it
		g.ops = g.ops[:len(g.ops)-1]
	}
	return g.ops
}

// ---------------------------------------------------------------- one J chain

func genJ(o *outT, r *rnd, step int, long bool) {
	u := &jUniverse{}
	na := 3 + r.Intn(4)
	for i := 0; i < na; i++ {
		u.addrs = append(u.addrs, common.BigToAddress(big.NewInt(int64(0xA100+i))))
	}
	// one more address, outside the generator's reach: its nonce is the block number, so that no
	// two states of a chain have the same root (as in a real chain, where every block mints and
	// nonces only grow; the snapshot tree is keyed by root and Tree.Cap does not survive a chain
	// whose state returns to an earlier root — reported separately)
	clock := na
	u.addrs = append(u.addrs, common.BigToAddress(big.NewInt(int64(0xA1FF))))
	for i := 0; i < 3; i++ {
		u.keys = append(u.keys, common.BigToHash(big.NewInt(int64(i))))
	}
	keep := []int{128, 0, 1, 1, 2, 3}[r.Intn(6)]
	nb := 2 + r.Intn(7)
	if long {
		nb = 131 + r.Intn(12) // beyond the 128 diff layers StateDB.Commit keeps
		keep = 128
		o.Count("jstate:long-chain")
		o.Mark("jstate-long")
	}
	o.Count(fmt.Sprintf("jstate:cap-keep=%d", keep))
	var an, kn []string
	for _, a := range u.addrs {
		an = append(an, anum(a))
	}
	for _, k := range u.keys {
		kn = append(kn, hnum(k))
	}
	o.InOnly(fmt.Sprintf("J %d | %s | %s", keep, strings.Join(an, " "), strings.Join(kn, " ")))

	modes := []string{"snap", "trie", "prefetch", "reopen"}
	if long {
		modes = []string{"snap", "trie"}
	}
	var nodes []*jNode
	for _, m := range modes {
		nodes = append(nodes, newJNode(m, keep))
	}
	defer func() {
		for _, n := range nodes {
			n.release()
		}
	}()
	g := &jGen{r: r, u: u, o: o, na: na, hotA: r.Intn(na), hotKey: r.Intn(3)}

	// genesis: some accounts with balances, code, storage — committed without a snapshot tree, which
	// is then generated from the tries (the disk layer)
	var gops []jOp
	for i := 0; i < na; i++ {
		switch r.Pick(3, 2, 2, 2) {
		case 1:
			gops = append(gops, jOp{k: "ab", a: i, v: int64(1 + r.Intn(200))})
		case 2:
			gops = append(gops, jOp{k: "ab", a: i, v: int64(1 + r.Intn(200))}, jOp{k: "ss", a: i, key: r.Intn(3), v: int64(1 + r.Intn(5))})
			if r.Bool() {
				gops = append(gops, jOp{k: "ss", a: i, key: r.Intn(3), v: int64(1 + r.Intn(5))})
			}
		case 3:
			gops = append(gops, jOp{k: "sn", a: i, n: 1}, jOp{k: "sc", a: i, n: 1 + r.Intn(3)}, jOp{k: "ss", a: i, key: r.Intn(3), v: int64(1 + r.Intn(5))})
		}
	}
	for _, op := range gops {
		o.InOnly("JO " + u.opLine(op))
	}
	o.InOnly("JG")
	for _, n := range nodes {
		saved := n.mode
		n.mode = "trie"
		_, err := n.exec(u, gops)
		n.mode = saved
		if err == nil && n.wantSnaps() {
			if err = n.sdb.TrieDB().Commit(n.root, false); err == nil {
				err = n.openSnaps()
			}
		}
		if err != nil {
			o.Fail(step, "harness", "J genesis: "+err.Error())
			return
		}
	}

	for b := 1; b <= nb; b++ {
		ntx := 1 + r.Intn(4)
		if long {
			ntx = 1 + r.Intn(2)
		}
		ops := append([]jOp{{k: "sn", a: clock, n: b}, {k: "fi"}}, g.block(ntx)...)
		for _, op := range ops {
			o.InOnly("JO " + u.opLine(op))
		}
		o.Count("jstate:block")
		var ref []string
		var refRoot common.Hash
		var sDig, tDig string
		for i, n := range nodes {
			reads, err := n.exec(u, ops)
			if err != nil {
				o.Fail(step, "statedb-error", fmt.Sprintf("J chain block %d, configuration %s: %v", b, n.mode, err))
				return
			}
			if i == 0 {
				ref, refRoot = reads, n.root
				if n.snaps.Snapshot(n.root) == nil {
					o.Fail(step, "snapshot-layer-missing", fmt.Sprintf("J chain block %d: no snapshot layer for the new root", b))
				}
				sDig, _ = n.digest(u, true)
				tDig, _ = n.digest(u, false)
				continue
			}
			if n.root != refRoot {
				o.Fail(step, "nondeterministic-across-configurations", fmt.Sprintf("J chain block %d: root %x with snapshots, %x in configuration %s", b, refRoot[:6], n.root[:6], n.mode))
			}
			if strings.Join(reads, ",") != strings.Join(ref, ",") {
				o.Fail(step, "nondeterministic-across-configurations", fmt.Sprintf("J chain block %d: reads [%s] with snapshots, [%s] in configuration %s", b, strings.Join(ref, ","), strings.Join(reads, ","), n.mode))
			}
			if d, _ := n.digest(u, n.wantSnaps()); d != tDig {
				o.Fail(step, "nondeterministic-across-configurations", fmt.Sprintf("J chain block %d: state digest %s in configuration %s, %s in the tries of the snapshot node", b, d, n.mode, tDig))
			}
		}
		if sDig != tDig {
			o.Fail(step, "snapshot-differs-from-trie", fmt.Sprintf("J chain block %d (keep=%d): digest of the universe through the snapshot layers %s, through the tries %s", b, keep, sDig, tDig))
		}
		o.Op("JC", fmt.Sprintf("j r=[%s] S=%s T=%s", strings.Join(ref, ","), sDig, tDig))
	}
}
