//go:build verif

// C06 harness, part 4: the snapshot layers against the tries (direct oracle), on the nodes of the
// chain cases.  A node that keeps snapshots reads accounts and slots through them
// (StateDB.getDeletedStateObject, stateObject.GetCommittedState); a node without reads the tries.
// "Same result in every snapshot configuration" therefore needs the two views to agree after
// every block: for every address / slot the chain has touched so far (and the pre-funded
// addresses of future creations), and — on the reference node — for the whole enumeration.
package blockchain

import (
	"bytes"
	"fmt"
	"math/big"
	"sort"

	"github.com/kardiachain/go-kardia/lib/common"
	"github.com/kardiachain/go-kardia/lib/crypto"
	"github.com/kardiachain/go-kardia/lib/rlp"
	"github.com/kardiachain/go-kardia/trie"
	"github.com/kardiachain/go-kardia/types"
)

// interestT: addresses and (hashed) slot keys seen so far in a chain
type interestT struct {
	slots map[common.Address]map[common.Hash]bool
}

func newInterest() *interestT { return &interestT{slots: map[common.Address]map[common.Hash]bool{}} }

func (it *interestT) add(a common.Address, d acctDump) {
	if it.slots[a] == nil {
		it.slots[a] = map[common.Hash]bool{}
	}
	for k := range d.slots {
		it.slots[a][k] = true
	}
}
func (it *interestT) slot(a common.Address, hk common.Hash) {
	if it.slots[a] == nil {
		it.slots[a] = map[common.Hash]bool{}
	}
	it.slots[a][hk] = true
}
func (it *interestT) addrs() []common.Address {
	as := make([]common.Address, 0, len(it.slots))
	for a := range it.slots {
		as = append(as, a)
	}
	sort.Slice(as, func(i, j int) bool { return bytes.Compare(as[i][:], as[j][:]) < 0 })
	return as
}

func normCode(b []byte) common.Hash {
	if len(b) == 0 {
		return types.EmptyCodeHash
	}
	return common.BytesToHash(b)
}
func normRoot(b []byte) common.Hash {
	if len(b) == 0 || common.BytesToHash(b) == (common.Hash{}) {
		return types.EmptyRootHash
	}
	return common.BytesToHash(b)
}

// snapVsTrie: point lookups.  Nodes without a snapshot tree, layers that do not exist (the tree
// fell back to the tries) and accounts the generator has not covered yet are counted, not judged.
func snapVsTrie(o *outT, step int, n *node, root common.Hash, it *interestT) {
	if n.bc.snaps == nil {
		return
	}
	defer func() {
		if e := recover(); e != nil {
			o.Fail(step, "panic", "snapshot lookup: "+fmt.Sprint(e))
		}
	}()
	snap := n.bc.snaps.Snapshot(root)
	if snap == nil {
		o.Count("snapshot:no-layer-for-root")
		return
	}
	checked := 0
	for _, a := range it.addrs() {
		ah := crypto.Keccak256Hash(a[:])
		acc, err := snap.Account(ah)
		if err != nil {
			o.Count("snapshot:lookup-not-covered")
			continue
		}
		d, err := dumpAcct(n.bc, root, a)
		if err != nil {
			o.Fail(step, "harness", "dump: "+err.Error())
			continue
		}
		checked++
		switch {
		case acc == nil && !d.exists:
		case acc == nil:
			o.Fail(step, "snapshot-differs-from-trie", fmt.Sprintf("node %s, account %x: absent in the snapshot, nonce=%d balance=%s in the trie", n.name, a, d.nonce, d.balance))
			continue
		case !d.exists:
			o.Fail(step, "snapshot-differs-from-trie", fmt.Sprintf("node %s, account %x: nonce=%d balance=%s in the snapshot, absent in the trie", n.name, a, acc.Nonce, acc.Balance))
			continue
		default:
			droot := d.root
			if droot == (common.Hash{}) {
				droot = types.EmptyRootHash
			}
			dcode := d.codeHash
			if dcode == (common.Hash{}) {
				dcode = types.EmptyCodeHash
			}
			if acc.Nonce != d.nonce || acc.Balance.Cmp(d.balance) != 0 || normCode(acc.CodeHash) != dcode || normRoot(acc.Root) != droot {
				o.Fail(step, "snapshot-differs-from-trie", fmt.Sprintf("node %s, account %x: snapshot nonce=%d balance=%s code=%x root=%x, trie nonce=%d balance=%s code=%x root=%x",
					n.name, a, acc.Nonce, acc.Balance, h8(normCode(acc.CodeHash).Bytes()), h8(normRoot(acc.Root).Bytes()), d.nonce, d.balance, h8(dcode[:]), h8(droot[:])))
				continue
			}
		}
		for hk := range it.slots[a] {
			enc, err := snap.Storage(ah, hk)
			if err != nil {
				o.Count("snapshot:lookup-not-covered")
				continue
			}
			sv := new(big.Int)
			if len(enc) > 0 {
				_, content, _, err := rlp.Split(enc)
				if err != nil {
					o.Fail(step, "snapshot-differs-from-trie", fmt.Sprintf("node %s, slot %x/%x: undecodable snapshot value %x", n.name, a, hk[:6], enc))
					continue
				}
				sv.SetBytes(content)
			}
			tv := d.slots[hk]
			if tv == nil {
				tv = new(big.Int)
			}
			if sv.Cmp(tv) != 0 {
				o.Fail(step, "snapshot-differs-from-trie", fmt.Sprintf("node %s, slot %x/%x: snapshot %s, trie %s", n.name, a, hk[:6], sv, tv))
			}
		}
	}
	if checked > 0 {
		o.Count("snapshot:point-lookups-compared")
	}
}

// snapEnumVsTrie: the enumeration of the snapshot at root (account iterator over all layers, storage
// iterators) lists exactly the accounts and slots the tries hold.
func snapEnumVsTrie(o *outT, step int, n *node, root common.Hash) {
	if n.bc.snaps == nil || n.bc.snaps.Snapshot(root) == nil {
		return
	}
	defer func() {
		if e := recover(); e != nil {
			o.Fail(step, "panic", "snapshot enumeration: "+fmt.Sprint(e))
		}
	}()
	ait, err := n.bc.snaps.AccountIterator(root, common.Hash{})
	if err != nil {
		o.Count("snapshot:enumeration-not-available")
		return
	}
	defer ait.Release()
	tr, err := n.bc.stateCache.OpenTrie(root)
	if err != nil {
		o.Fail(step, "harness", err.Error())
		return
	}
	tit := trie.NewIterator(tr.NodeIterator(nil))
	naccts := 0
	for tit.Next() {
		var acc types.StateAccount
		if err := rlp.DecodeBytes(tit.Value, &acc); err != nil {
			o.Fail(step, "harness", err.Error())
			return
		}
		// the snapshot's next live account
		var sh common.Hash
		var blob []byte
		ok := false
		for ait.Next() {
			if b := ait.Account(); len(b) > 0 {
				sh, blob, ok = ait.Hash(), common.CopyBytes(b), true
				break
			}
		}
		if !ok {
			o.Fail(step, "snapshot-differs-from-trie", fmt.Sprintf("node %s: the snapshot enumeration ends after %d accounts, the trie goes on with %x (%v)", n.name, naccts, tit.Key[:6], ait.Error()))
			return
		}
		if !bytes.Equal(sh[:], tit.Key) {
			o.Fail(step, "snapshot-differs-from-trie", fmt.Sprintf("node %s: account #%d of the enumeration: snapshot %x, trie %x", n.name, naccts, sh[:6], tit.Key[:6]))
			return
		}
		if want := types.SlimAccountRLP(acc); !bytes.Equal(want, blob) {
			full, _ := types.FullAccount(blob)
			o.Fail(step, "snapshot-differs-from-trie", fmt.Sprintf("node %s: account %x: snapshot %+v, trie %+v", n.name, sh[:6], full, acc))
			return
		}
		naccts++
		// storage
		if acc.Root == types.EmptyRootHash {
			continue
		}
		st, err := n.bc.stateCache.OpenStorageTrie(root, sh, acc.Root)
		if err != nil {
			o.Fail(step, "harness", err.Error())
			return
		}
		sit, err := n.bc.snaps.StorageIterator(root, sh, common.Hash{})
		if err != nil {
			o.Fail(step, "snapshot-differs-from-trie", fmt.Sprintf("node %s: no storage iterator for %x: %v", n.name, sh[:6], err))
			return
		}
		stit := trie.NewIterator(st.NodeIterator(nil))
		ns := 0
		for stit.Next() {
			got := false
			for sit.Next() {
				if len(sit.Slot()) > 0 {
					got = true
					break
				}
			}
			if !got || sit.Hash() != common.BytesToHash(stit.Key) || !bytes.Equal(sit.Slot(), stit.Value) {
				o.Fail(step, "snapshot-differs-from-trie", fmt.Sprintf("node %s: account %x, slot #%d: trie %x=%x, snapshot has-next=%v", n.name, sh[:6], ns, stit.Key[:6], stit.Value, got))
				sit.Release()
				return
			}
			ns++
		}
		for sit.Next() {
			if len(sit.Slot()) > 0 {
				o.Fail(step, "snapshot-differs-from-trie", fmt.Sprintf("node %s: account %x: the snapshot lists slot %x beyond the %d of the trie", n.name, sh[:6], sit.Hash().Bytes()[:6], ns))
				break
			}
		}
		sit.Release()
	}
	for ait.Next() {
		if len(ait.Account()) > 0 {
			o.Fail(step, "snapshot-differs-from-trie", fmt.Sprintf("node %s: the snapshot lists account %x beyond the %d of the trie", n.name, ait.Hash().Bytes()[:6], naccts))
			return
		}
	}
	o.Count("snapshot:enumeration-compared")
}
