//go:build verif

package blockchain

import (
	"bytes"
	"crypto/ecdsa"
	"encoding/hex"
	"encoding/json"
	"fmt"
	"math/big"
	"os"
	"os/exec"
	"runtime"
	"sort"
	"strings"
	"sync"
	"sync/atomic"
	"testing"
	"time"

	gcommon "github.com/ethereum/go-ethereum/common"
	gmemdb "github.com/ethereum/go-ethereum/ethdb/memorydb"
	gtrie "github.com/ethereum/go-ethereum/trie"

	"github.com/kardiachain/go-kardia/configs"
	"github.com/kardiachain/go-kardia/kai/kaidb"
	"github.com/kardiachain/go-kardia/kai/rawdb"
	"github.com/kardiachain/go-kardia/kai/state"
	"github.com/kardiachain/go-kardia/kai/state/cstate"
	"github.com/kardiachain/go-kardia/kvm"
	"github.com/kardiachain/go-kardia/lib/common"
	"github.com/kardiachain/go-kardia/lib/crypto"
	"github.com/kardiachain/go-kardia/lib/rlp"
	stypes "github.com/kardiachain/go-kardia/mainchain/staking/types"
	kproto "github.com/kardiachain/go-kardia/proto/kardiachain/types"
	"github.com/kardiachain/go-kardia/trie"
	"github.com/kardiachain/go-kardia/types"
)

// ---------------------------------------------------------------- content dumps

type acctDump struct {
	exists   bool
	nonce    uint64
	balance  *big.Int
	codeHash common.Hash
	root     common.Hash
	slots    map[common.Hash]*big.Int // hashed slot key -> value
}

func slotsOfTrie(tr state.Trie) (map[common.Hash]*big.Int, error) {
	res := map[common.Hash]*big.Int{}
	if tr == nil {
		return res, nil
	}
	it := trie.NewIterator(tr.NodeIterator(nil))
	for it.Next() {
		_, content, _, err := rlp.Split(it.Value)
		if err != nil {
			return nil, err
		}
		res[common.BytesToHash(it.Key)] = new(big.Int).SetBytes(content)
	}
	return res, it.Err
}

// dumpAcct reads one account and its whole storage from the tries below root.
func dumpAcct(bc *BlockChain, root common.Hash, a common.Address) (acctDump, error) {
	d := acctDump{balance: new(big.Int), slots: map[common.Hash]*big.Int{}}
	tr, err := bc.stateCache.OpenTrie(root)
	if err != nil {
		return d, err
	}
	acc, err := tr.GetAccount(a)
	if err != nil {
		return d, err
	}
	if acc == nil {
		return d, nil
	}
	d.exists, d.nonce, d.balance, d.codeHash, d.root = true, acc.Nonce, acc.Balance, common.BytesToHash(acc.CodeHash), acc.Root
	if acc.Root != types.EmptyRootHash && acc.Root != (common.Hash{}) {
		st, err := bc.stateCache.OpenStorageTrie(root, crypto.Keccak256Hash(a[:]), acc.Root)
		if err != nil {
			return d, err
		}
		if d.slots, err = slotsOfTrie(st); err != nil {
			return d, err
		}
	}
	return d, nil
}

func codeNum(h common.Hash) string {
	if h == types.EmptyCodeHash || h == (common.Hash{}) {
		return "0"
	}
	return hnum(h)
}

func sortedKeys(m map[common.Hash]*big.Int) []common.Hash {
	ks := make([]common.Hash, 0, len(m))
	for k := range m {
		ks = append(ks, k)
	}
	sort.Slice(ks, func(i, j int) bool { return bytes.Compare(ks[i][:], ks[j][:]) < 0 })
	return ks
}

// canonical rendering shared with the model driver: accounts by ascending address, slots by
// ascending hashed key
func renderContent(addrs []common.Address, get func(common.Address) acctDump) string {
	as := append([]common.Address{}, addrs...)
	sort.Slice(as, func(i, j int) bool { return bytes.Compare(as[i][:], as[j][:]) < 0 })
	var sb strings.Builder
	for _, a := range as {
		d := get(a)
		if !d.exists {
			continue
		}
		fmt.Fprintf(&sb, "%s:%d:%s:%s:[", anum(a), d.nonce, d.balance, codeNum(d.codeHash))
		for _, k := range sortedKeys(d.slots) {
			fmt.Fprintf(&sb, "%s=%s,", hnum(k), d.slots[k])
		}
		sb.WriteString("];")
	}
	return sb.String()
}

// contentRoot recomputes the state root from the dumped content alone with go-ethereum's trie
// (an implementation that shares no code with /repo's trie), inserting in a random order.
func contentRoot(bc *BlockChain, root common.Hash, r *rnd) (common.Hash, int, error) {
	tr, err := bc.stateCache.OpenTrie(root)
	if err != nil {
		return common.Hash{}, 0, err
	}
	type kv struct{ k, v []byte }
	var accts []kv
	it := trie.NewIterator(tr.NodeIterator(nil))
	for it.Next() {
		var acc types.StateAccount
		if err := rlp.DecodeBytes(it.Value, &acc); err != nil {
			return common.Hash{}, 0, err
		}
		if acc.Root != types.EmptyRootHash {
			st, err := bc.stateCache.OpenStorageTrie(root, common.BytesToHash(it.Key), acc.Root)
			if err != nil {
				return common.Hash{}, 0, err
			}
			var slots []kv
			sit := trie.NewIterator(st.NodeIterator(nil))
			for sit.Next() {
				slots = append(slots, kv{common.CopyBytes(sit.Key), common.CopyBytes(sit.Value)})
			}
			if sit.Err != nil {
				return common.Hash{}, 0, sit.Err
			}
			g, _ := gtrie.New(gcommon.Hash{}, gtrie.NewDatabase(gmemdb.New()))
			for _, i := range r.Perm(len(slots)) {
				g.Update(slots[i].k, slots[i].v)
			}
			if gr := g.Hash(); !bytes.Equal(gr[:], acc.Root[:]) {
				return common.Hash{}, 0, fmt.Errorf("storage root of %x: stored %x, from content %x", it.Key[:6], acc.Root, gr)
			}
		}
		accts = append(accts, kv{common.CopyBytes(it.Key), common.CopyBytes(it.Value)})
	}
	if it.Err != nil {
		return common.Hash{}, 0, it.Err
	}
	g, _ := gtrie.New(gcommon.Hash{}, gtrie.NewDatabase(gmemdb.New()))
	for _, i := range r.Perm(len(accts)) {
		g.Update(accts[i].k, accts[i].v)
	}
	gr := g.Hash()
	return common.BytesToHash(gr[:]), len(accts), nil
}

// ---------------------------------------------------------------- commits

func keyOfVal(a common.Address) int {
	for i, x := range valAddrs {
		if x == a {
			return i
		}
	}
	return -1
}

func makeCommit(vals *types.ValidatorSet, height uint64, bid types.BlockID, base time.Time, r *rnd) *types.Commit {
	vs := types.NewVoteSet(chainName, height, 1, kproto.PrecommitType, vals)
	total := vals.TotalVotingPower()
	signed := total
	absent := map[int]bool{}
	for i, v := range vals.Validators {
		if r.Chance(1, 4) && (signed-v.VotingPower)*3 > total*2+3 {
			absent[i] = true
			signed -= v.VotingPower
		}
	}
	for i, v := range vals.Validators {
		if absent[i] {
			continue
		}
		k := keyOfVal(v.Address)
		if k < 0 {
			panic("validator without a key")
		}
		vote := &types.Vote{ValidatorAddress: v.Address, ValidatorIndex: uint32(i), Height: height, Round: 1,
			Type: kproto.PrecommitType, BlockID: bid, Timestamp: base.Add(time.Duration(1+r.Intn(5000)) * time.Millisecond)}
		p := vote.ToProto()
		if err := types.NewMockPVWithParams(valKeys[k], false, false).SignVote(chainName, p); err != nil {
			panic(err)
		}
		vote.Signature = p.Signature
		if _, err := vs.AddVote(vote); err != nil {
			panic(err)
		}
	}
	return vs.MakeCommit()
}

// ---------------------------------------------------------------- transactions

type txGen struct {
	r         *rnd
	cfg       *configs.ChainConfig
	live      *state.StateDB
	nonce     map[common.Address]uint64
	contracts []common.Address
	plain     []common.Address
	valSmc    []common.Address // validator contracts, by position in spec.Vals
	spec      *caseSpec
	cg        *codeGen
	made      []*types.Transaction
	o         *outT
	hot       []common.Address // pre-funded addresses of future creations, and whatever the scenario adds
	scen      bool             // scenario case: sender `creator` is reserved for the scripted transactions, no validator leaves
	creator   int
}

func kai(n int64) *big.Int { return new(big.Int).Mul(big.NewInt(n), big.NewInt(1e18)) }

func (g *txGen) sign(tx *types.Transaction, key *ecdsa.PrivateKey, badChain bool) *types.Transaction {
	var signer types.Signer = types.LatestSigner(g.cfg)
	if badChain {
		signer = types.LatestSignerForChainID(big.NewInt(7777))
	}
	stx, err := types.SignTx(signer, tx, key)
	if err != nil {
		panic(err)
	}
	return stx
}

func (g *txGen) next() *types.Transaction {
	r := g.r
	price := new(big.Int).Mul(big.NewInt(int64(1+r.Intn(3))), big.NewInt(1e9))
	si := r.Pick(4, 4, 4, 2, 1, 2)
	for g.scen && si == g.creator {
		si = r.Intn(3)
	}
	from, key := sndAddrs[si], sndKeys[si]
	n := g.nonce[from]
	var tx *types.Transaction
	kind := ""
	bad := false
	badChain := false
	kindPick := r.Pick(6, 8, 4, 4, 2, 3, 1, 7)
	if g.scen && (kindPick == 4 || kindPick == 5 || kindPick == 6) {
		kindPick = r.Pick(3, 3, 2) // a halted chain (known finding) would cut the scenario short
	}
	switch kindPick {
	case 0:
		kind = "transfer"
		var to common.Address
		tsel := r.Intn(4)
		if len(g.hot) > 0 && r.Chance(1, 3) {
			tsel = 4
		}
		switch tsel {
		case 4:
			to = g.hot[r.Intn(len(g.hot))]
			kind = "transfer-to-future-address"
		case 0:
			to = g.plain[r.Intn(len(g.plain))]
		case 1:
			to = sndAddrs[r.Intn(len(sndAddrs))]
		case 2:
			to = common.BigToAddress(new(big.Int).SetUint64(0xF0000000 + r.U64()%0xFFFFFF))
		default:
			to = g.contracts[r.Intn(len(g.contracts))]
		}
		gas := uint64(100000)
		if r.Chance(1, 4) {
			gas = 21000
		}
		tx = types.NewTransaction(n, to, big.NewInt(int64(r.Intn(1000000))), gas, price, nil)
	case 1:
		kind = "call"
		to := g.contracts[r.Intn(len(g.contracts))]
		tx = types.NewTransaction(n, to, big.NewInt(int64(r.Intn(3)*1000)), uint64(40000+r.Intn(400000)), price, r.Bytes(r.Intn(5)))
	case 2:
		kind = "create"
		tx = types.NewContractCreation(n, big.NewInt(int64(r.Intn(2)*777)), uint64(80000+r.Intn(600000)), price, g.cg.initCode(0))
	case 3:
		kind = "stk-delegate"
		data, _ := valABI.Pack("delegate")
		to := g.valSmc[r.Intn(len(g.valSmc))]
		tx = types.NewTransaction(n, to, kai(int64(1+r.Intn(3))*int64([]int{1, 1000, 30000}[r.Intn(3)])), 3000000, price, data)
	case 4:
		kind = "stk-start"
		// the owner of a validator that did not start with genesis (or of a running one: reverts)
		vi := r.Intn(len(g.spec.Vals))
		for i, v := range g.spec.Vals {
			if !v.Start && r.Chance(3, 4) {
				vi = i
			}
		}
		k := g.spec.Vals[vi].Key
		from, key = valAddrs[k], valKeys[k]
		n = g.nonce[from]
		data, _ := valABI.Pack("start")
		tx = types.NewTransaction(n, g.valSmc[vi], new(big.Int), 3000000, price, data)
	case 5:
		m := []string{"undelegate", "withdrawRewards", "stop", "withdraw", "withdrawCommission", "unjail"}[r.Intn(6)]
		kind = "stk-" + m
		vi := r.Intn(len(g.spec.Vals))
		if r.Bool() {
			k := g.spec.Vals[vi].Key
			from, key = valAddrs[k], valKeys[k]
			n = g.nonce[from]
		}
		data, _ := valABI.Pack(m)
		tx = types.NewTransaction(n, g.valSmc[vi], new(big.Int), 3000000, price, data)
	case 6:
		kind = "stk-create-validator"
		from, key = sndAddrs[0], sndKeys[0]
		n = g.nonce[from]
		var name [32]byte
		copy(name[:], fmt.Sprintf("new-validator-%d", r.Intn(100)))
		data, err := stkABI.Pack("createValidator", name, big.NewInt(5), big.NewInt(20), big.NewInt(5))
		if err != nil {
			panic(err)
		}
		tx = types.NewTransaction(n, stkAddr, kai(12500000+int64(r.Intn(3))*1000000), 9000000, price, data)
	default:
		bad = true
		switch r.Intn(8) {
		case 0:
			kind = "bad-nonce-high"
			tx = types.NewTransaction(n+1+uint64(r.Intn(4)), g.plain[0], big.NewInt(1), 100000, price, nil)
		case 1:
			kind = "bad-nonce-low"
			if n == 0 {
				n = 1
			}
			tx = types.NewTransaction(n-1, g.plain[0], big.NewInt(1), 100000, price, nil)
		case 2:
			kind = "bad-intrinsic"
			tx = types.NewTransaction(n, g.plain[0], big.NewInt(1), uint64(r.Intn(21000)), price, []byte{1, 2, 3})
		case 3:
			kind = "bad-funds"
			from, key = sndAddrs[4], sndKeys[4]
			n = g.nonce[from]
			tx = types.NewTransaction(n, g.plain[0], big.NewInt(1), 100000, price, nil)
		case 4:
			kind = "bad-chainid-sig"
			badChain = true
			tx = types.NewTransaction(n, g.plain[0], big.NewInt(1), 100000, price, nil)
		case 5:
			kind = "bad-duplicate"
			if len(g.made) > 0 {
				g.o.Count("tx:" + kind)
				return g.made[r.Intn(len(g.made))]
			}
			tx = types.NewTransaction(n, g.plain[0], big.NewInt(1), 100000, price, nil)
		case 6:
			kind = "bad-gas-above-limit"
			tx = types.NewTransaction(n, g.plain[0], big.NewInt(1), configs.BlockGasLimitGalaxias+1+uint64(r.Intn(100)), price, nil)
		default:
			kind = "bad-value-above-balance"
			tx = types.NewTransaction(n, g.plain[0], new(big.Int).Lsh(big.NewInt(1), 200), 100000, price, nil)
		}
	}
	g.o.Count("tx:" + kind)
	if !bad {
		g.nonce[from] = n + 1 // optimistic: a later rejection simply makes the followers "nonce too high"
	}
	stx := g.sign(tx, key, badChain)
	g.made = append(g.made, stx)
	return stx
}

// ---------------------------------------------------------------- model lines

// emitU: the flush of the dirty objects (model part (a)).
func emitU(o *outT, r *rnd, h uint64, pre, post func(common.Address) acctDump, pend []state.VerifPendingObject) (touched []string) {
	var addrs []common.Address
	for _, p := range pend {
		addrs = append(addrs, p.Addr)
	}
	o.InOnly(fmt.Sprintf("U %d %d", h, len(pend)))
	for _, a := range addrs {
		d := pre(a)
		if !d.exists {
			continue
		}
		var sb strings.Builder
		fmt.Fprintf(&sb, "A %s %d %s %s %d", anum(a), d.nonce, d.balance, codeNum(d.codeHash), len(d.slots))
		for _, k := range sortedKeys(d.slots) {
			fmt.Fprintf(&sb, " %s %s", hnum(k), d.slots[k])
		}
		o.InOnly(sb.String())
	}
	nslots, ndel, nreset := 0, 0, 0
	for _, p := range pend {
		d := pre(p.Addr)
		reset := 0
		if p.BaseRoot == types.EmptyRootHash {
			reset = 1
			if d.exists && len(d.slots) > 0 {
				nreset++
			}
		} else if !d.exists || d.root != p.BaseRoot {
			o.Fail(int(h), "flush-base-root", fmt.Sprintf("object %x flushes onto storage root %x, parent content has %x", p.Addr, p.BaseRoot, d.root))
		}
		del := 0
		if p.Deleted {
			del = 1
			ndel++
		}
		var sb strings.Builder
		fmt.Fprintf(&sb, "P %s %d %d %d %s %s %d", anum(p.Addr), del, reset, p.Nonce, p.Balance, codeNum(p.CodeHash), len(p.Slots))
		for _, s := range p.Slots {
			fmt.Fprintf(&sb, " %s %s", hnum(crypto.Keccak256Hash(s.Key[:])), new(big.Int).SetBytes(s.Value[:]))
			touched = append(touched, p.Addr.Hex()+"/"+s.Key.Hex())
			nslots++
		}
		o.InOnly(sb.String())
		touched = append(touched, p.Addr.Hex())
	}
	perm := r.Perm(len(pend))
	ps := make([]string, len(perm))
	for i, x := range perm {
		ps[i] = fmt.Sprint(x)
	}
	o.InOnly("Q " + strings.Join(ps, " "))
	dg := sha8(renderContent(addrs, post))
	o.Op("UE", fmt.Sprintf("u %s %s", dg, dg))
	o.Count(fmt.Sprintf("flush:objects=%d", minInt(len(pend)/4*4, 24)))
	if ndel > 0 {
		o.Count("flush:with-deleted-object")
		o.Mark("flush-deleted")
	}
	if nreset > 0 {
		o.Count("flush:recreated-over-storage")
		o.Mark("flush-reset")
	}
	if nslots > 0 {
		o.Count("flush:with-slots")
	}
	return touched
}

func bloomBits(b types.Bloom) []int {
	var res []int
	for i := 0; i < types.BloomByteLength; i++ {
		for j := 0; j < 8; j++ {
			if b[i]&(1<<uint(j)) != 0 {
				res = append(res, (types.BloomByteLength-1-i)*8+j)
			}
		}
	}
	sort.Ints(res)
	return res
}
func bitsStr(b types.Bloom) string {
	bs := bloomBits(b)
	if len(bs) == 0 {
		return "-"
	}
	ss := make([]string, len(bs))
	for i, x := range bs {
		ss[i] = fmt.Sprint(x)
	}
	return strings.Join(ss, ",")
}

// emitR: receipts, cumulative gas, bloom as a function of the per-transaction results (part (c)).
func emitR(o *outT, h uint64, txs types.Transactions, info *types.BlockInfo) {
	o.InOnly(fmt.Sprintf("R %d %d", h, len(txs)))
	p := 0
	skipped := 0
	for _, tx := range txs {
		if p < len(info.Receipts) && info.Receipts[p].TxHash == tx.Hash() {
			rc := info.Receipts[p]
			p++
			o.InOnly(fmt.Sprintf("T 0 %d %d %d", rc.Status, rc.GasUsed, len(rc.Logs)))
			for _, l := range rc.Logs {
				var sb strings.Builder
				fmt.Fprintf(&sb, "L %s %d", anum(l.Address), len(l.Topics))
				for _, t := range l.Topics {
					fmt.Fprintf(&sb, " %s", hnum(t))
				}
				o.InOnly(sb.String())
			}
			if rc.Status == 0 {
				o.Count("exec:failed-tx")
			} else {
				o.Count("exec:ok-tx")
			}
			if len(rc.Logs) > 0 {
				o.Count("exec:tx-with-logs")
				o.Mark("logs")
			}
		} else {
			o.InOnly("T 1 0 0 0")
			skipped++
			o.Count("exec:skipped-tx")
		}
	}
	if p != len(info.Receipts) {
		o.Fail(int(h), "receipts-not-in-tx-order", fmt.Sprintf("%d receipts, %d matched in order", len(info.Receipts), p))
	}
	var cum, rbs []string
	for _, rc := range info.Receipts {
		cum = append(cum, fmt.Sprint(rc.CumulativeGasUsed))
		rbs = append(rbs, sha8(bitsStr(rc.Bloom)))
	}
	o.Op("RE", fmt.Sprintf("r gas=%d cum=[%s] n=%d bloom=%s rb=[%s]", info.GasUsed, strings.Join(cum, ","), len(info.Receipts),
		sha8(bitsStr(info.Bloom)), strings.Join(rbs, ",")))
}

func bidNum(b types.BlockID) string {
	if b.Hash == (common.Hash{}) && b.PartsHeader.Total == 0 && b.PartsHeader.Hash == (common.Hash{}) {
		return "0"
	}
	return hnum(crypto.Keccak256Hash(b.Hash[:], []byte{byte(b.PartsHeader.Total >> 8), byte(b.PartsHeader.Total)}, b.PartsHeader.Hash[:]))
}

func validateClass(err error) string {
	if err == nil {
		return "ok"
	}
	s := err.Error()
	switch {
	case err == cstate.ErrLastCommitSig:
		return "commitsig"
	case strings.Contains(s, "wrong Block.Header.Height"):
		return "height"
	case strings.Contains(s, "wrong Block.Header.LastBlockID"):
		return "lastid"
	case strings.Contains(s, "wrong Block.Header.AppHash"):
		return "apphash"
	case strings.Contains(s, "wrong Block.Header.ValidatorsHash"):
		return "valhash"
	case strings.Contains(s, "wrong Block.Header.NextValidatorHash"):
		return "nextvalhash"
	case s == "nil LastCommit":
		return "nilcommit"
	case strings.Contains(s, "not greater than last block time"):
		return "time-notafter"
	case strings.Contains(s, "invalid block time"):
		return "time-median"
	case strings.Contains(s, "not equal to genesis time"):
		return "time-genesis"
	case strings.Contains(s, "lower than initial height"):
		return "height-low"
	case strings.Contains(s, "block proposer is not a validator"):
		return "proposer"
	case strings.Contains(s, "vidence"):
		return "evidence"
	}
	return "commit"
}

// emitB: validateBlock's verdict on a block, against the model's transcription (part (d)).
func emitB(o *outT, n *node, blk *types.Block, tag string) string {
	st := n.st
	basic := 1
	if err := blk.ValidateBasic(trie.NewStackTrie(nil)); err != nil {
		basic = 0
	}
	hd := blk.Header()
	lc := blk.LastCommit()
	commitNil, nsigs, commitOK := 1, 0, 0
	var median int64
	if lc != nil {
		commitNil, nsigs = 0, len(lc.Signatures)
		if blk.Height() > st.InitialHeight && st.LastValidators != nil {
			func() {
				defer func() { recover() }()
				if st.LastValidators.VerifyCommit(st.ChainID, st.LastBlockID, blk.Height()-1, lc) == nil {
					commitOK = 1
				}
				median = cstate.MedianTime(lc, st.LastValidators).UnixNano()
			}()
		}
	}
	maxEv, _ := types.MaxEvidencePerBlock(int64(st.ConsensusParams.Block.MaxBytes))
	propIn := 0
	if st.Validators.HasAddress(hd.ProposerAddress) {
		propIn = 1
	}
	var err error
	cls := "PANIC"
	func() {
		defer func() { recover() }()
		err = cstate.VerifValidateBlock(n.store, st, blk)
		cls = "b " + validateClass(err)
		if basic == 0 && err != nil {
			cls = "b basic"
		}
	}()
	in := fmt.Sprintf("B %d %d %s %s %s %s %d | %d %s %s %s %s %d %d %d %d %d %d %d %d %d",
		st.LastBlockHeight, st.InitialHeight, bidNum(st.LastBlockID), hnum(st.AppHash), hnum(st.Validators.Hash()), hnum(st.NextValidators.Hash()), st.LastBlockTime.UnixNano(),
		hd.Height, bidNum(hd.LastBlockID), hnum(hd.AppHash), hnum(hd.ValidatorsHash), hnum(hd.NextValidatorsHash), hd.Time.UnixNano(),
		basic, commitNil, nsigs, commitOK, median, len(blk.Evidence().Evidence), maxEv, propIn)
	o.Op(in, cls)
	o.Count("validate:" + tag + ":" + strings.TrimPrefix(cls, "b "))
	return cls
}

// tamper returns a copy of blk with one header field changed (hashes recomputed by NewBlock).
func tamper(r *rnd, blk *types.Block, st cstate.LatestBlockState) (*types.Block, string) {
	h := types.CopyHeader(blk.Header())
	lc := blk.LastCommit()
	tag := ""
	switch r.Intn(10) {
	case 0:
		h.Height += uint64(1 + r.Intn(2))
		tag = "height+"
	case 1:
		if h.Height > 0 {
			h.Height--
		}
		tag = "height-"
	case 2:
		h.LastBlockID.Hash[3] ^= 1
		tag = "lastid"
	case 3:
		h.AppHash[5] ^= 1
		tag = "apphash"
	case 4:
		h.ValidatorsHash[5] ^= 1
		tag = "valhash"
	case 5:
		h.NextValidatorsHash[5] ^= 1
		tag = "nextvalhash"
	case 6:
		h.Time = h.Time.Add(time.Duration(1+r.Intn(3)) * time.Millisecond)
		tag = "time+"
	case 7:
		h.Time = st.LastBlockTime.Add(-time.Duration(r.Intn(2)) * time.Second)
		tag = "time-old"
	case 8:
		h.ProposerAddress = sndAddrs[r.Intn(len(sndAddrs))]
		tag = "proposer"
	default:
		h.LastCommitHash[0] ^= 1 // no longer the hash of the commit: ValidateBasic
		tag = "commithash"
	}
	var ev []types.Evidence
	if blk.Evidence() != nil {
		ev = blk.Evidence().Evidence
	}
	return types.NewBlock(h, blk.Transactions(), lc, ev, trie.NewStackTrie(nil)), tag
}

// ---------------------------------------------------------------- validator-set updates (part (b))

func valLine(tag string, vs []*types.Validator, prio bool) string {
	var sb strings.Builder
	fmt.Fprintf(&sb, "%s %d", tag, len(vs))
	for _, v := range vs {
		if prio {
			fmt.Fprintf(&sb, " %s %d %d", anum(v.Address), v.VotingPower, v.ProposerPriority)
		} else {
			fmt.Fprintf(&sb, " %s %d", anum(v.Address), v.VotingPower)
		}
	}
	return sb.String()
}

func valsObs(vs []*types.Validator) string {
	var parts []string
	for _, v := range vs {
		parts = append(parts, fmt.Sprintf("%s:%d:%d", anum(v.Address), v.VotingPower, v.ProposerPriority))
	}
	return strings.Join(parts, ",")
}

func permVals(r *rnd, vs []*types.Validator) []*types.Validator {
	res := make([]*types.Validator, len(vs))
	for i, j := range r.Perm(len(vs)) {
		res[i] = vs[j].Copy()
	}
	return res
}

// one V operation: last set (with priorities), the list the application reports; observable:
// the set after calculateValidatorSetUpdates + UpdateWithChangeSet (as updateState applies it),
// or "err".  Direct oracle: permuting the reported list and the change set changes nothing,
// neither here nor in the state updateState returns.
func runV(o *outT, r *rnd, step int, last *types.ValidatorSet, reported []*types.Validator, tag string) {
	o.Count("valset:" + tag)
	doit := func(rep []*types.Validator, permuteChanges bool) (string, string) {
		defer func() {
			if e := recover(); e != nil {
				o.Fail(step, "panic", fmt.Sprint(e))
			}
		}()
		ups := cstate.VerifCalculateValidatorSetUpdates(last.Validators, rep)
		if permuteChanges {
			ups = permVals(r, ups)
		}
		nvs := last.Copy()
		res := "v ok "
		if len(ups) > 0 {
			if err := nvs.UpdateWithChangeSet(ups); err != nil {
				res = "v err "
				if os.Getenv("C06_DEBUG") != "" {
					fmt.Fprintln(os.Stderr, "DEBUG UpdateWithChangeSet:", err, valLine("rep", rep, false), valLine("ups", ups, false))
				}
			}
		}
		res += valsObs(nvs.Validators)
		// what consensus keeps: updateState's result
		st := cstate.LatestBlockState{ChainID: chainName, InitialHeight: 1, NextValidators: last.Copy(), Validators: last.Copy(), LastValidators: last.Copy()}
		st2, err := cstate.VerifUpdateState(c06log, st, types.BlockID{}, &types.Header{Height: 5}, ups)
		full := "err"
		if err == nil {
			full = fmt.Sprintf("%x %s lhc=%d", st2.NextValidators.Hash(), valsStr(st2.NextValidators, false), st2.LastHeightValidatorsChanged)
		}
		return res, full
	}
	res, full := doit(reported, false)
	o.InOnly(valLine("VL", last.Validators, true))
	o.Op(valLine("VR", reported, false), res)
	if strings.HasPrefix(res, "v err") {
		o.Count("valset:rejected")
	} else if len(reported) > 0 {
		o.Count("valset:accepted")
	}
	// the orders compared with the order given: three shuffles, the report listed in CURRENT-RANK
	// order (position p carries the power the current set has at p wherever that is possible — what a
	// contract that ranks by power produces after a swap of powers or an equal-power replacement),
	// that order reversed, and the report sorted by address
	aligned := alignByPower(last.Validators, reported)
	rev := make([]*types.Validator, len(aligned))
	for i, v := range aligned {
		rev[len(aligned)-1-i] = v.Copy()
	}
	byAddr := permVals(r, reported)
	sort.Slice(byAddr, func(i, j int) bool { return bytes.Compare(byAddr[i].Address[:], byAddr[j].Address[:]) < 0 })
	orders := [][]*types.Validator{permVals(r, reported), permVals(r, reported), permVals(r, reported), aligned, rev, byAddr}
	for k, ord := range orders {
		res2, full2 := doit(ord, k > 0 && k < 3)
		if res2 != res || full2 != full {
			cls := "valset-order-dependent"
			seenA := map[common.Address]bool{}
			for _, v := range reported {
				if seenA[v.Address] {
					cls = "valset-order-dependent-duplicate-report"
				}
				seenA[v.Address] = true
			}
			o.Fail(step, cls, fmt.Sprintf("reported order / change-set order changes the result: %s | %s  vs  %s | %s", res, full, res2, full2))
			break
		}
	}
}

// alignByPower: a permutation of rep in which position p carries the voting power last[p] has,
// wherever an unused entry with that power exists (entries of other validators preferred); the rest
// follows in the given order.
func alignByPower(last []*types.Validator, rep []*types.Validator) []*types.Validator {
	used := make([]bool, len(rep))
	var res []*types.Validator
	for p := 0; p < len(last) && len(res) < len(rep); p++ {
		pick := -1
		for i, v := range rep {
			if !used[i] && v.VotingPower == last[p].VotingPower {
				if pick < 0 || (rep[pick].Address == last[p].Address && v.Address != last[p].Address) {
					pick = i
				}
			}
		}
		if pick < 0 {
			for i := range rep {
				if !used[i] {
					pick = i
					break
				}
			}
		}
		used[pick] = true
		res = append(res, rep[pick].Copy())
	}
	for i, v := range rep {
		if !used[i] {
			res = append(res, v.Copy())
		}
	}
	return res
}

func genV(o *outT, r *rnd, step int) {
	nv := 1 + r.Intn(6)
	if r.Chance(1, 8) {
		nv = 12 + r.Intn(8) // beyond Go's insertion-sort threshold
	}
	var vals []*types.Validator
	used := map[uint64]bool{}
	addr := func() common.Address {
		for {
			x := uint64(1 + r.Intn(40))
			if r.Chance(1, 6) {
				x = r.U64()
			}
			if !used[x] {
				used[x] = true
				return common.BigToAddress(new(big.Int).SetUint64(x))
			}
		}
	}
	power := func() int64 {
		switch r.Pick(6, 3, 1, 1) {
		case 0:
			return int64(1 + r.Intn(1000))
		case 1:
			return int64(1 + r.U64()%1000000000000)
		case 2:
			return types.MaxTotalVotingPower / int64(2+r.Intn(20))
		default:
			return 1
		}
	}
	for i := 0; i < nv; i++ {
		vals = append(vals, types.NewValidator(addr(), power()))
	}
	var last *types.ValidatorSet
	func() {
		defer func() {
			if recover() != nil {
				last = nil
			}
		}()
		last = types.NewValidatorSet(vals)
		if r.Bool() {
			last.IncrementProposerPriority(int64(1 + r.Intn(7)))
		}
	}()
	if last == nil || last.Size() == 0 {
		vals = []*types.Validator{types.NewValidator(common.BigToAddress(big.NewInt(77)), 10)}
		last = types.NewValidatorSet(vals)
	}
	// what the application reports: the whole new set
	var rep []*types.Validator
	tag := "plain"
	for _, v := range last.Validators {
		switch r.Pick(6, 3, 2) {
		case 0:
			rep = append(rep, types.NewValidator(v.Address, v.VotingPower))
		case 1:
			rep = append(rep, types.NewValidator(v.Address, power()))
		default: // dropped
		}
	}
	for k := r.Intn(3); k > 0; k-- {
		rep = append(rep, types.NewValidator(addr(), power()))
	}
	// same multiset of powers, other owners: two members swap their powers (stake moved from one to
	// the other), three rotate them, a member is replaced by a newcomer with exactly its power —
	// rank by rank the powers of the report are those of the current set, the addresses are not
	special := r.Pick(12, 3, 1, 3, 1)
	if special > 0 {
		rep = nil
		for _, v := range last.Validators {
			rep = append(rep, types.NewValidator(v.Address, v.VotingPower))
		}
		n := len(rep)
		switch {
		case special == 1 && n >= 2:
			i, j := r.Intn(n), r.Intn(n)
			if rep[i].VotingPower != rep[j].VotingPower {
				rep[i].VotingPower, rep[j].VotingPower = rep[j].VotingPower, rep[i].VotingPower
				tag = "power-swap"
			}
		case special == 2 && n >= 3:
			p := r.Perm(n)
			a, b, c := rep[p[0]], rep[p[1]], rep[p[2]]
			a.VotingPower, b.VotingPower, c.VotingPower = b.VotingPower, c.VotingPower, a.VotingPower
			tag = "power-rotation"
		case special == 3:
			i := r.Intn(n)
			rep[i] = types.NewValidator(addr(), rep[i].VotingPower)
			tag = "same-power-replacement"
		case special == 4 && n >= 2:
			i, j := r.Intn(n), r.Intn(n)
			if i != j {
				rep[i] = types.NewValidator(addr(), rep[i].VotingPower)
				rep[j].VotingPower, rep[i].VotingPower = rep[i].VotingPower, rep[j].VotingPower
				tag = "replacement-and-swap"
			}
		}
		if r.Bool() { // listed in current-rank order (as built), or shuffled
			runV(o, r, step, last, alignByPower(last.Validators, rep), tag+"/rank-order")
		} else {
			runV(o, r, step, last, permVals(r, rep), tag+"/shuffled")
		}
		return
	}
	switch r.Pick(14, 2, 1, 1, 1, 1, 1) {
	case 1:
		if len(rep) > 0 {
			d := rep[r.Intn(len(rep))]
			rep = append(rep, types.NewValidator(d.Address, power()))
			tag = "duplicate"
		}
	case 2:
		rep = append(rep, types.NewValidator(common.Address{}, power()))
		tag = "zero-address"
	case 3:
		if len(rep) > 0 {
			rep[r.Intn(len(rep))].VotingPower = -int64(1 + r.Intn(5))
			tag = "negative-power"
		}
	case 4:
		if len(rep) > 0 {
			rep[r.Intn(len(rep))].VotingPower = types.MaxTotalVotingPower + int64(1+r.Intn(5))
			tag = "power-above-cap"
		}
	case 5:
		rep = nil
		tag = "empty-report"
	case 6:
		if len(rep) > 0 {
			rep[r.Intn(len(rep))].VotingPower = 0
			tag = "zero-power-reported"
		}
	}
	rep = permVals(r, rep)
	runV(o, r, step, last, rep, tag)
}

// ---------------------------------------------------------------- child process

func runChild(path string) error {
	f, err := os.Open(path)
	if err != nil {
		return err
	}
	defer f.Close()
	outf, err := os.Create(path + ".out")
	if err != nil {
		return err
	}
	defer outf.Close()
	dec := json.NewDecoder(f)
	enc := json.NewEncoder(outf)
	for dec.More() {
		var spec caseSpec
		if err := dec.Decode(&spec); err != nil {
			return err
		}
		res := childResult{Idx: spec.Idx}
		func() {
			defer func() {
				if e := recover(); e != nil {
					res.Err = "PANIC " + fmt.Sprint(e)
				}
			}()
			n, err := openNode(&spec, spec.Cfg, false, nil)
			if err != nil {
				res.Err = err.Error()
				return
			}
			defer n.close()
			for bi, bs := range spec.Blocks {
				blk, seen, err := decodeBlock(bs)
				if err != nil {
					res.Err = err.Error()
					return
				}
				if spec.Reopen > 0 && bi > 0 {
					if err := n.reopen(spec.Reopen == 2); err != nil {
						res.Err = "reopen: " + err.Error()
						return
					}
				}
				res.Obs = append(res.Obs, n.apply(blk, blk.MakePartSet(types.BlockPartSizeBytes), seen, spec.Touched[bi]))
			}
		}()
		enc.Encode(&res)
	}
	return nil
}

func encodeBlock(blk *types.Block, seen *types.Commit) blockSpec {
	pb, err := blk.ToProto()
	if err != nil {
		panic(err)
	}
	bz, err := pb.Marshal()
	if err != nil {
		panic(err)
	}
	cz, err := seen.ToProto().Marshal()
	if err != nil {
		panic(err)
	}
	return blockSpec{Block: hex.EncodeToString(bz), Commit: hex.EncodeToString(cz)}
}

func decodeBlock(bs blockSpec) (*types.Block, *types.Commit, error) {
	bz, err := hex.DecodeString(bs.Block)
	if err != nil {
		return nil, nil, err
	}
	var pb kproto.Block
	if err := pb.Unmarshal(bz); err != nil {
		return nil, nil, err
	}
	blk, err := types.BlockFromProto(&pb, trie.NewStackTrie(nil))
	if err != nil {
		return nil, nil, err
	}
	cz, _ := hex.DecodeString(bs.Commit)
	var pc kproto.Commit
	if err := pc.Unmarshal(cz); err != nil {
		return nil, nil, err
	}
	seen, err := types.CommitFromProto(&pc)
	return blk, seen, err
}

type childBatch struct {
	specs []*caseSpec
	want  map[int][]string
}

func (cb *childBatch) run(o *outT, tag string) {
	if len(cb.specs) == 0 {
		return
	}
	path := fmt.Sprintf("%s/child-%s.jsonl", *c06Dir, tag)
	f, err := os.Create(path)
	if err != nil {
		o.Fail(-1, "harness", err.Error())
		return
	}
	enc := json.NewEncoder(f)
	for _, s := range cb.specs {
		enc.Encode(s)
	}
	f.Close()
	cmd := exec.Command(os.Args[0], "-test.run", "^TestVerifC06$", "-test.timeout", "0", "-child", path)
	out, err := cmd.CombinedOutput()
	if err != nil {
		o.curCase = cb.specs[0].Idx
		o.Fail(-1, "child-process", fmt.Sprintf("%v: %s", err, clip(string(out))))
		return
	}
	rf, err := os.Open(path + ".out")
	if err != nil {
		o.Fail(-1, "child-process", err.Error())
		return
	}
	dec := json.NewDecoder(rf)
	seen := 0
	for dec.More() {
		var res childResult
		if err := dec.Decode(&res); err != nil {
			break
		}
		seen++
		o.curCase = res.Idx
		want := cb.want[res.Idx]
		if res.Err != "" {
			o.Fail(-1, "child-process", res.Err)
			continue
		}
		for i := range want {
			got := "<missing>"
			if i < len(res.Obs) {
				got = res.Obs[i]
			}
			if got != want[i] {
				o.Fail(i+1, "nondeterministic-across-processes", diffObs(want[i], got))
			}
		}
		o.Count("exec:child-process-case")
	}
	rf.Close()
	if seen != len(cb.specs) {
		o.Fail(-1, "child-process", fmt.Sprintf("%d results for %d cases", seen, len(cb.specs)))
	}
	if os.Getenv("C06_KEEP") == "" {
		os.Remove(path)
		os.Remove(path + ".out")
	}
	cb.specs, cb.want = nil, map[int][]string{}
}

func diffObs(a, b string) string {
	fa, fb := strings.Fields(a), strings.Fields(b)
	var d []string
	for i := 0; i < len(fa) || i < len(fb); i++ {
		x, y := "<none>", "<none>"
		if i < len(fa) {
			x = fa[i]
		}
		if i < len(fb) {
			y = fb[i]
		}
		if x != y {
			d = append(d, clipN(x, 90)+" != "+clipN(y, 90))
		}
	}
	return strings.Join(d, " ; ")
}
func clipN(s string, n int) string {
	if len(s) > n {
		return s[:n] + ".."
	}
	return s
}

// ---------------------------------------------------------------- one case

func randBalance(r *rnd) *big.Int {
	switch r.Pick(1, 1, 3, 6) {
	case 0:
		return big.NewInt(0)
	case 1:
		return big.NewInt(int64(r.Intn(60000)))
	case 2:
		return new(big.Int).SetUint64(1000000 + r.U64()%1000000000000)
	default:
		return new(big.Int).Lsh(big.NewInt(1), uint(70+r.Intn(30)))
	}
}

// prefund: the account a FUTURE creation will land on exists already (createObject then takes its
// "reset" branch: the old account is marked destructed and the balance carried over): balance only,
// balance and storage without code (the creation must wipe it), or a nonce (address collision).
func prefund(r *rnd, o *outT, a common.Address) acctSpec {
	as := acctSpec{Addr: a.Hex(), Balance: big.NewInt(int64(1 + r.Intn(100000))).String()}
	switch r.Pick(5, 3, 1) {
	case 1:
		for j := 0; j < 1+r.Intn(3); j++ {
			as.Storage = append(as.Storage, [2]string{common.BigToHash(big.NewInt(int64(j))).Hex(), common.BigToHash(big.NewInt(int64(1 + r.Intn(9)))).Hex()})
		}
		o.Count("genesis:prefunded-future-address-with-storage")
	case 2:
		as.Nonce = 1
		o.Count("genesis:prefunded-future-address-with-nonce")
	default:
		o.Count("genesis:prefunded-future-address")
	}
	return as
}

func genSpec(r *rnd, idx int, o *outT) (*caseSpec, []common.Address, []common.Address, []common.Address) {
	spec := &caseSpec{Idx: idx, Time: 1600000000 + int64(r.Intn(1000000))}
	var hot []common.Address
	switch r.Pick(3, 5, 2) {
	case 0:
		spec.Galaxias = -1
	case 1:
		spec.Galaxias = 0
	default:
		spec.Galaxias = 2
	}
	o.Count(fmt.Sprintf("genesis:galaxias=%d", spec.Galaxias))
	nStarted := 1 + r.Pick(2, 2, 3, 3)
	perm := r.Perm(len(valKeys))
	for i := 0; i < nStarted; i++ {
		stake := new(big.Int).Mul(kai(12500000), big.NewInt(int64(1+r.Intn(4))))
		spec.Vals = append(spec.Vals, valSpec{Key: perm[i], Start: true, Stake: stake.String()})
	}
	if r.Chance(2, 3) {
		spec.Vals = append(spec.Vals, valSpec{Key: perm[nStarted], Start: false, Stake: kai(12500000 * int64(1+r.Intn(2))).String()})
		o.Count("genesis:has-unstarted-validator")
	}
	o.Count(fmt.Sprintf("genesis:started-validators=%d", nStarted))
	for _, v := range spec.Vals {
		spec.Accounts = append(spec.Accounts, acctSpec{Addr: valAddrs[v.Key].Hex(), Balance: kai(500000000).String()})
	}
	// senders: 0 rich, 1-2 normal, 3 small, 4 broke, 5 random
	for i, a := range sndAddrs {
		var bal *big.Int
		switch i {
		case 0:
			bal = kai(100000000)
		case 1, 2:
			bal = kai(int64(1000 + r.Intn(100000)))
		case 3:
			bal = new(big.Int).SetUint64(r.U64() % 400000000000000)
		case 4:
			bal = big.NewInt(int64(r.Intn(1000)))
		default:
			bal = randBalance(r)
		}
		as := acctSpec{Addr: a.Hex(), Balance: bal.String()}
		if r.Chance(1, 3) {
			as.Nonce = uint64(1 + r.Intn(5))
		}
		spec.Accounts = append(spec.Accounts, as)
		// addresses of this sender's next creations, funded before they exist
		if i < 3 {
			for j := uint64(0); j < 4; j++ {
				if r.Chance(2, 5) {
					f := crypto.CreateAddress(a, as.Nonce+j)
					hot = append(hot, f)
					spec.Accounts = append(spec.Accounts, prefund(r, o, f))
				}
			}
		}
	}
	var plain, contracts []common.Address
	for i := 0; i < 3; i++ {
		a := common.BigToAddress(big.NewInt(int64(0x10000 + i)))
		plain = append(plain, a)
		if i > 0 {
			spec.Accounts = append(spec.Accounts, acctSpec{Addr: a.Hex(), Balance: randBalance(r).String()})
		}
	}
	nC := 2 + r.Intn(3)
	for i := 0; i < nC; i++ {
		contracts = append(contracts, common.BigToAddress(big.NewInt(int64(0xC0000+i))))
	}
	targets := append(append([]common.Address{}, contracts...), plain...)
	targets = append(targets, sndAddrs[1], common.BytesToAddress([]byte{2}), common.BytesToAddress([]byte{3}), common.BytesToAddress([]byte{4}))
	// the contracts' own future creations (CREATE: address from the contract's nonce, 1 at genesis)
	for _, a := range contracts {
		for j := uint64(1); j < 3; j++ {
			if r.Chance(1, 3) {
				f := crypto.CreateAddress(a, j)
				hot = append(hot, f)
				spec.Accounts = append(spec.Accounts, prefund(r, o, f))
			}
		}
	}
	cg := &codeGen{r: r, targets: targets, hot: hot}
	for _, a := range contracts {
		cg.self, cg.futures = a, nil
		code, clears := cg.contractCode()
		for _, f := range cg.futures { // CREATE2 addresses of this contract
			dup := false
			for _, h := range hot {
				dup = dup || h == f
			}
			if !dup && r.Chance(1, 2) {
				hot = append(hot, f)
				spec.Accounts = append(spec.Accounts, prefund(r, o, f))
			}
		}
		cg.hot = hot
		as := acctSpec{Addr: a.Hex(), Balance: randBalance(r).String(), Nonce: 1, Code: hex.EncodeToString(code)}
		for j := 0; j < clears; j++ {
			as.Storage = append(as.Storage, [2]string{common.BigToHash(big.NewInt(int64(j))).Hex(), common.BigToHash(big.NewInt(int64(1 + r.Intn(9)))).Hex()})
		}
		if r.Chance(1, 3) {
			as.Storage = append(as.Storage, [2]string{common.BigToHash(big.NewInt(int64(16 + r.Intn(3)))).Hex(), common.BigToHash(big.NewInt(int64(1 + r.Intn(9)))).Hex()})
		}
		spec.Accounts = append(spec.Accounts, as)
	}
	return spec, plain, contracts, hot
}

func beginBlockInfo(n *node, blk *types.Block) stypes.LastCommitInfo {
	return cstate.VerifBeginBlockInfo(n.bc.chainConfig, blk, n.store)
}

func runCase(o *outT, idx int, seed uint64) (rspec *caseSpec, rwant []string) {
	r := newRnd(seed).Fork(uint64(idx))
	spec, plain, contracts, hot := genSpec(r, idx, o)
	nBlocks := 2 + r.Pick(3, 1)
	long := false
	if idx%97 == 13 && *c06Tier == "thorough" || (idx == 0 && *c06Tier == "thorough") {
		nBlocks, long = 132, true // beyond TriesInMemory: trie GC (dereference, cap, timed flush) becomes active
		o.Count("chain:long-gc")
		o.Mark("long-gc")
	}
	// scenario cases (a third): block 1 funds the addresses the creator's next contract creations will
	// get, block 2 carries those creations (mostly with constructors that fail inside the VM), blocks
	// 3 and 4 touch the addresses again (transfers, BALANCE / EXTCODEHASH probes)
	scen := !long && r.Chance(1, 3)
	scCreator, scFunder := r.Intn(3), 0
	scFunder = (scCreator + 1 + r.Intn(2)) % 3
	var scF []common.Address
	var scN0 uint64
	if scen {
		nBlocks = 4
		o.Count("chain:scenario-prefunded-creation")
	}
	o.Case(idx, fmt.Sprintf("CASE %d gal=%d vals=%d blocks=%d", idx, spec.Galaxias, len(spec.Vals), nBlocks))

	// ---- nodes
	R, err := openNode(spec, 0, true, nil)
	var genesisDB kaidb.Database
	if err == nil {
		genesisDB = R.genesisDB
	}
	if err != nil {
		o.Fail(0, "harness", "genesis: "+err.Error())
		return
	}
	defer R.close()
	type peer struct {
		n      *node
		reopen int // 0 never, 1 reopen same db before every block > 1, 2 reopen on a copy
	}
	var peers []*peer
	cfgs := r.Perm(len(cacheConfigs) - 2)
	np := 3
	if long {
		np = 2
	}
	for i := 0; i < np; i++ {
		ci := 1 + cfgs[i]
		if i == 0 && r.Chance(1, 8) {
			ci = len(cacheConfigs) - 1
		}
		var from kaidb.Database
		if i > 0 {
			from = genesisDB // peers[0] executes the genesis itself (cross-check), the others start on a copy
		}
		n, err := openNode(spec, ci, false, from)
		if err != nil {
			o.Fail(0, "harness", "genesis: "+err.Error())
			return
		}
		p := &peer{n: n}
		if !long {
			p.reopen = r.Pick(3, 2, 2)
		}
		peers = append(peers, p)
		o.Count("config:" + n.name + fmt.Sprintf("/reopen=%d", p.reopen))
	}
	// a second node in the reference configuration that is re-opened: cold caches only
	if !long {
		n, err := openNode(spec, 0, false, genesisDB)
		if err == nil {
			peers = append(peers, &peer{n: n, reopen: 1 + r.Intn(2)})
		}
	}
	if g0, g1 := R.bc.Genesis().Hash(), peers[0].n.bc.Genesis().Hash(); g0 != g1 {
		o.Fail(0, "genesis-nondeterministic", fmt.Sprintf("%x vs %x", g0, g1))
	}
	if a0, a1 := R.bc.Genesis().AppHash(), peers[0].n.bc.Genesis().AppHash(); a0 != a1 {
		o.Fail(0, "genesis-nondeterministic", fmt.Sprintf("app hash %x vs %x", a0, a1))
	}

	// validator contracts
	gst, err := R.bc.State()
	if err != nil {
		o.Fail(0, "harness", err.Error())
		return
	}
	var valSmc []common.Address
	for _, v := range spec.Vals {
		a, _ := stkUtil.GetValFromOwner(gst, R.bc.CurrentBlock().Header(), nil, kvm.Config{}, valAddrs[v.Key])
		valSmc = append(valSmc, a)
	}
	targets := append(append([]common.Address{}, contracts...), plain...)
	tg := &txGen{r: r, cfg: R.bc.chainConfig, contracts: contracts, plain: plain, valSmc: valSmc, spec: spec, o: o,
		cg: &codeGen{r: r, targets: targets, hot: hot}, hot: hot, scen: scen, creator: scCreator}
	// everything the chain has touched so far is read back after every block (on every node, through
	// a fresh StateDB) and compared between the snapshot layers and the tries
	touchedAll := map[string]bool{}
	interest := newInterest()
	for _, a := range hot {
		touchedAll[a.Hex()] = true
		if d, err := dumpAcct(R.bc, R.bc.Genesis().AppHash(), a); err == nil {
			interest.add(a, d)
		}
	}

	childSpec := *spec
	childSpec.Cfg = r.Intn(len(cacheConfigs) - 1)
	childSpec.Reopen = r.Pick(3, 1, 1)
	var want []string
	var lastCommit *types.Commit = types.NewCommit(0, 0, types.BlockID{}, nil)
	valChanged := false
	prevStop := false

	for h := uint64(1); h <= uint64(nBlocks); h++ {
		step := int(h)
		live, err := R.bc.State()
		if err != nil {
			o.Fail(step, "harness", err.Error())
			return
		}
		tg.live = live
		tg.nonce = map[common.Address]uint64{}
		for _, a := range sndAddrs {
			tg.nonce[a] = live.GetNonce(a)
		}
		for _, a := range valAddrs {
			tg.nonce[a] = live.GetNonce(a)
		}
		tg.made = nil

		// ---- the block
		var blk *types.Block
		proposer := R.st.Validators.GetProposer().Address
		viaPool := !long && !scen && r.Chance(1, 3)
		ntx := r.Pick(1, 2, 3, 3, 3, 2, 2, 1, 1)
		if long {
			ntx = r.Pick(6, 2, 1)
		}
		if viaPool {
			// proposer path: only transactions the pool admits; distinct prices make the pool's
			// price heap order independent of its own map iteration (so that the case replays)
			var txs []*types.Transaction
			usedSender := map[int]bool{}
			for i := 0; i < ntx; i++ {
				si := r.Intn(3)
				if usedSender[si] {
					continue
				}
				usedSender[si] = true
				price := new(big.Int).Mul(big.NewInt(int64(2+si)), big.NewInt(1e9))
				var tx *types.Transaction
				if r.Bool() {
					tx = types.NewTransaction(tg.nonce[sndAddrs[si]], contracts[r.Intn(len(contracts))], big.NewInt(int64(r.Intn(1000))), uint64(60000+r.Intn(300000)), price, nil)
				} else {
					tx = types.NewTransaction(tg.nonce[sndAddrs[si]], plain[r.Intn(len(plain))], big.NewInt(int64(r.Intn(1000))), 100000, price, nil)
				}
				txs = append(txs, tg.sign(tx, sndKeys[si], false))
			}
			R.pool.AddRemotesSync(txs)
			func() {
				defer func() {
					if e := recover(); e != nil {
						o.Fail(step, "panic", "CreateProposalBlock: "+fmt.Sprint(e))
					}
				}()
				blk, _ = R.bo.CreateProposalBlock(h, R.st, proposer, lastCommit)
			}()
			if blk == nil {
				return
			}
			o.Count("block:via-pool-proposal")
			if len(blk.Transactions()) > 0 {
				o.Mark("pool-proposal-with-txs")
			}
		} else {
			var txs []*types.Transaction
			if scen {
				S, T := sndAddrs[scCreator], sndAddrs[scFunder]
				script := func(si int, tx func(nonce uint64) *types.Transaction) {
					a := sndAddrs[si]
					txs = append(txs, tg.sign(tx(tg.nonce[a]), sndKeys[si], false))
					tg.nonce[a]++
				}
				price := big.NewInt(2e9)
				fund := func(f common.Address) {
					script(scFunder, func(n uint64) *types.Transaction {
						return types.NewTransaction(n, f, big.NewInt(int64(1+r.Intn(100000))), 100000, price, nil)
					})
					o.Count("tx:scenario-fund-future-address")
				}
				_ = T
				switch h {
				case 1:
					scN0 = tg.nonce[S]
					for j := 0; j < 1+r.Intn(3); j++ {
						scF = append(scF, crypto.CreateAddress(S, scN0+uint64(j)))
					}
					tg.hot = append(tg.hot, scF...)
					tg.cg.hot = tg.hot
					for _, f := range scF {
						touchedAll[f.Hex()] = true
						if r.Chance(2, 3) {
							fund(f)
						}
					}
				case 2:
					for j, f := range scF {
						if r.Chance(1, 4) {
							fund(f) // funded in the very block that creates on it
						}
						init, kind := tg.cg.failingInit(), "failing"
						if r.Chance(1, 3) {
							init, kind = tg.cg.initCode(0), "random"
						}
						_ = j
						script(scCreator, func(n uint64) *types.Transaction {
							return types.NewContractCreation(n, big.NewInt(int64(r.Intn(2)*777)), uint64(100000+r.Intn(600000)), price, init)
						})
						o.Count("tx:scenario-create-" + kind)
					}
				default:
					for _, f := range scF {
						switch r.Pick(3, 3, 1) {
						case 0:
							fund(f)
						case 1: // a creation whose constructor stores what it sees at f
							init := (&asm{}).probe(f, 0).pushN(0).pushN(0).op(0xf3).b
							script(scFunder, func(n uint64) *types.Transaction {
								return types.NewContractCreation(n, new(big.Int), 300000, price, init)
							})
							o.Count("tx:scenario-probe-future-address")
						}
					}
				}
			}
			for i := 0; i < ntx; i++ {
				txs = append(txs, tg.next())
			}
			var ts time.Time
			if h == 1 {
				ts = R.st.LastBlockTime
			} else {
				ts = cstate.MedianTime(lastCommit, R.st.LastValidators)
			}
			hd := R.bo.newHeader(ts, h, 0, R.st.LastBlockID, proposer, R.st.Validators.Hash(), R.st.NextValidators.Hash(), R.st.AppHash)
			glPick := r.Pick(6, 2, 2)
			if scen {
				glPick = 0
			}
			switch glPick {
			case 0:
				hd.GasLimit = configs.BlockGasLimit
				if R.bc.chainConfig.IsGalaxias(&h) {
					hd.GasLimit = configs.BlockGasLimitGalaxias
				}
			case 1:
				hd.GasLimit = uint64(50000 + r.Intn(600000)) // the pool runs dry inside the block
				o.Count("block:small-gas-limit")
			default:
				hd.GasLimit = uint64(r.Intn(60000))
				o.Count("block:tiny-gas-limit")
			}
			if long {
				hd.GasLimit = configs.BlockGasLimitGalaxias
			}
			blk = R.bo.newBlock(hd, txs, lastCommit, nil)
			o.Count("block:hand-built")
		}
		parts := blk.MakePartSet(types.BlockPartSizeBytes)
		bid := types.BlockID{Hash: blk.Hash(), PartsHeader: parts.Header()}
		o.Count(fmt.Sprintf("block:txs=%d", len(blk.Transactions())))

		// ---- (d) the proposer's block is valid for everybody (before anybody applies it)
		if !long || h <= 3 {
			if cls := emitB(o, R, blk, "own"); cls != "b ok" {
				o.Fail(step, "own-block-rejected", "ValidateBlock on the proposer's node: "+cls)
			}
			for _, p := range peers {
				func() {
					defer func() {
						if e := recover(); e != nil {
							o.Fail(step, "panic", "ValidateBlock: "+fmt.Sprint(e))
						}
					}()
					if err := p.n.exec.ValidateBlock(p.n.st, blk); err != nil {
						o.Fail(step, "own-block-rejected", fmt.Sprintf("node %s rejects the proposer's block: %v", p.n.name, err))
					}
				}()
			}
			for k := 0; k < 2; k++ {
				tb, tag := tamper(r, blk, R.st)
				emitB(o, R, tb, "tampered-"+tag)
			}
		}

		// ---- replica of the execution on R (cold caches), keeping the state before the flush
		var (
			pend      []state.VerifPendingObject
			repRoot   common.Hash
			repInfo   *types.BlockInfo
			repVals   []*types.Validator
			parentApp = rawdb.ReadAppHash(R.db, h-1)
			touched   []string
		)
		func() {
			defer func() {
				if e := recover(); e != nil {
					o.Fail(step, "panic", "commitBlock replica: "+fmt.Sprint(e))
				}
			}()
			sdb, err := R.bc.State()
			if err != nil {
				o.Fail(step, "harness", err.Error())
				return
			}
			vals, info, err := R.bo.commitBlock(sdb, blk.Transactions(), blk.Header(), beginBlockInfo(R, blk), nil)
			if err != nil {
				o.Count("exec:commitBlock-error")
				if os.Getenv("C06_DEBUG") != "" {
					d, _ := R.bc.State()
					_, e1 := stkUtil.Mint(d, blk.Header(), R.bc, kvm.Config{})
					ci := beginBlockInfo(R, blk)
					e2 := stkUtil.FinalizeCommit(d, blk.Header(), R.bc, kvm.Config{}, ci)
					_, e3 := stkUtil.ApplyAndReturnValidatorSets(d, blk.Header(), R.bc, kvm.Config{})
					fmt.Fprintln(os.Stderr, "DEBUG commitBlock:", err, "mint:", e1, "finalize:", e2, "valsets:", e3, "votes:", len(ci.Votes), valsStr(R.st.LastValidators, false), "cur", valsStr(R.st.Validators, false), "next", valsStr(R.st.NextValidators, false))
					for _, v := range ci.Votes {
						fmt.Fprintln(os.Stderr, "   vote", v.Address.Hex(), v.VotingPower, v.SignedLastBlock)
					}
				}
				return
			}
			if sdb.VerifJournalLen() != 0 {
				o.Fail(step, "unfinalised-journal", "journal entries survive commitBlock")
			}
			pend = sdb.VerifPending()
			repRoot = sdb.IntermediateRoot(true)
			repInfo, repVals = info, vals
		}()

		// ---- real execution everywhere
		seen := makeCommit(R.st.Validators, h, bid, blk.Time().Add(10*time.Second), r)
		preCache := map[common.Address]acctDump{}
		if repInfo != nil && (!long || h%16 == 1) {
			for _, p := range pend {
				d, err := dumpAcct(R.bc, parentApp, p.Addr)
				if err != nil {
					o.Fail(step, "harness", "dump: "+err.Error())
				}
				preCache[p.Addr] = d
			}
		}
		// touched keys for the read-back (before emitU, which needs the post content)
		for _, p := range pend {
			touchedAll[p.Addr.Hex()] = true
			for _, s := range p.Slots {
				touchedAll[p.Addr.Hex()+"/"+s.Key.Hex()] = true
			}
			if d, ok := preCache[p.Addr]; ok {
				interest.add(p.Addr, d)
			} else {
				interest.add(p.Addr, acctDump{})
			}
			for _, s := range p.Slots {
				interest.slot(p.Addr, crypto.Keccak256Hash(s.Key[:]))
			}
		}
		if !long {
			for t := range touchedAll {
				touched = append(touched, t)
			}
		} else {
			for _, p := range pend {
				touched = append(touched, p.Addr.Hex())
				for _, s := range p.Slots {
					touched = append(touched, p.Addr.Hex()+"/"+s.Key.Hex())
				}
			}
		}
		sort.Strings(touched)
		prevNV := R.st.NextValidators.Hash()
		ref := R.apply(blk, parts, seen, touched)
		want = append(want, ref)
		childSpec.Blocks = append(childSpec.Blocks, encodeBlock(blk, seen))
		childSpec.Touched = append(childSpec.Touched, touched)
		if strings.HasPrefix(ref, "PANIC") {
			o.Fail(step, "panic", ref)
			return
		}
		if strings.HasPrefix(ref, "apply=") {
			// nobody can apply this block: it must at least fail identically everywhere
			for _, p := range peers {
				if got := p.n.apply(blk, parts, seen, touched); got != ref {
					o.Fail(step, "nondeterministic-across-configurations", fmt.Sprintf("%s vs default: %s", p.n.name, diffObs(ref, got)))
				}
			}
			// known finding, kept narrow: the previous block carried a SUCCESSFUL stop() or
			// undelegate() on a validator contract and it is the staking contract's finalize() that now reverts
			// (mint still succeeds); anything else is a plain violation
			cls := "own-block-not-applied"
			if prevStop && strings.Contains(ref, "commit failed for application: execution reverted") {
				func() {
					defer func() { recover() }()
					d, err := R.bc.State()
					if err != nil {
						return
					}
					if _, e1 := stkUtil.Mint(d, blk.Header(), R.bc, kvm.Config{}); e1 != nil {
						return
					}
					if e2 := stkUtil.FinalizeCommit(d, blk.Header(), R.bc, kvm.Config{}, beginBlockInfo(R, blk)); e2 != nil && strings.Contains(e2.Error(), "execution reverted") {
						cls = "own-block-unappliable-staking-revert"
					}
				}()
			}
			o.Fail(step, cls, ref)
			o.Count("exec:block-unappliable")
			break
		}
		// did this block carry a successful stop() / undelegate() on a validator contract
		// (the two calls by which a validator leaves the set)?
		prevStop = false
		if repInfo != nil {
			leaveIDs := [][]byte{valABI.Methods["stop"].ID, valABI.Methods["undelegate"].ID}
			p := 0
			for _, tx := range blk.Transactions() {
				if p < len(repInfo.Receipts) && repInfo.Receipts[p].TxHash == tx.Hash() {
					rc := repInfo.Receipts[p]
					p++
					if rc.Status == 1 && tx.To() != nil && len(tx.Data()) >= 4 &&
						(bytes.Equal(tx.Data()[:4], leaveIDs[0]) || bytes.Equal(tx.Data()[:4], leaveIDs[1])) {
						for _, vs := range valSmc {
							if vs == *tx.To() {
								prevStop = true
								o.Count("exec:successful-validator-stop")
							}
						}
					}
				}
			}
		}
		if R.st.NextValidators.Hash() != prevNV {
			valChanged = true
			o.Count("exec:validator-set-changed")
			o.Mark("valset-changed-by-block")
		}
		for _, p := range peers {
			if p.reopen > 0 && h > 1 {
				if err := p.n.reopen(p.reopen == 2); err != nil {
					o.Fail(step, "reopen-failed", p.n.name+": "+err.Error())
					return
				}
			}
			got := p.n.apply(blk, parts, seen, touched)
			if got != ref {
				o.Fail(step, "nondeterministic-across-configurations", fmt.Sprintf("%s (reopen=%d) vs default: %s", p.n.name, p.reopen, diffObs(ref, got)))
			}
		}

		// ---- the snapshot layers of every node that keeps them say what the tries say
		if !long || h%16 == 1 {
			snapVsTrie(o, step, R, R.st.AppHash, interest)
			for _, p := range peers {
				snapVsTrie(o, step, p.n, R.st.AppHash, interest)
			}
			snapEnumVsTrie(o, step, R, R.st.AppHash)
		}

		// ---- replica (cold, no write) == real (warm, committed)
		newRoot := R.st.AppHash
		info := readInfo(R, blk)
		if repInfo != nil && info != nil {
			if repRoot != newRoot {
				o.Fail(step, "rerun-differs", fmt.Sprintf("root of the first run %x, of the second %x", repRoot, newRoot))
			}
			a, b := receiptsStr(repInfo), receiptsStr(info)
			if api := rawdb.ReadBlockInfo(R.db, blk.Hash(), h, R.bc.chainConfig); api == nil {
				o.Count("exec:ReadBlockInfo-nil")
			}
			if a != b {
				o.Fail(step, "rerun-differs", "receipts: "+diffObs(a, b))
			}
			// validator updates as reported, in order and sorted
			ups := cstate.VerifCalculateValidatorSetUpdates(R.st.LastValidators.Validators, repVals)
			_ = ups
		}
		if info == nil {
			o.Fail(step, "harness", "no block info stored")
			return
		}

		// ---- model lines
		if len(preCache) > 0 || (repInfo != nil && len(pend) == 0) {
			postCache := map[common.Address]acctDump{}
			for _, p := range pend {
				d, err := dumpAcct(R.bc, newRoot, p.Addr)
				if err != nil {
					o.Fail(step, "harness", "dump: "+err.Error())
				}
				postCache[p.Addr] = d
				interest.add(p.Addr, d)
			}
			emitU(o, r, h, func(a common.Address) acctDump { return preCache[a] }, func(a common.Address) acctDump { return postCache[a] }, pend)
		}
		if repInfo != nil {
			emitR(o, h, blk.Transactions(), repInfo)
		}

		// ---- content-only root
		if !long || h%32 == 0 {
			cr, na, err := contentRoot(R.bc, newRoot, r)
			if err != nil {
				o.Fail(step, "content-root", err.Error())
			} else if cr != newRoot {
				o.Fail(step, "content-root", fmt.Sprintf("app hash %x, root recomputed from the dumped content (%d accounts) %x", newRoot, na, cr))
			}
		}
		lastCommit = seen
	}
	if valChanged {
		o.Count("case:validator-set-changed")
	}
	for _, p := range peers {
		p.n.close()
	}

	// ---- the same chain in a fresh process (run by the caller, in batches)
	cs := childSpec
	o.Count(fmt.Sprintf("child:cfg=%s/reopen=%d", cacheConfigs[cs.Cfg].name, cs.Reopen))

	// ---- validator-set update order freedom on synthetic sets
	nV := 6
	for k := 0; k < nV; k++ {
		genV(o, r, 1000+k)
	}

	// ---- chains of StateDB operations over the snapshot tree in several configurations
	for k := 0; k < 3; k++ {
		genJ(o, r, 2000+k, false)
	}
	if idx%16 == 5 {
		genJ(o, r, 2003, true)
	}
	return &cs, want
}

func receiptsStr(info *types.BlockInfo) string {
	var sb strings.Builder
	rew := "nil"
	if info.Rewards != nil {
		rew = info.Rewards.String()
	}
	fmt.Fprintf(&sb, "gas=%d rew=%s bloom=%s ", info.GasUsed, rew, sha8(string(info.Bloom[:])))
	for _, rc := range info.Receipts {
		fmt.Fprintf(&sb, "%d:%d:%d:%s ", rc.Status, rc.CumulativeGasUsed, len(rc.Logs), sha8(string(rc.Bloom[:])))
	}
	return sb.String()
}

// ---------------------------------------------------------------- entry point

func TestVerifC06(t *testing.T) {
	if *c06Facts != "" {
		if err := os.WriteFile(*c06Facts, []byte(c06FactsText()), 0o644); err != nil {
			t.Fatal(err)
		}
		return
	}
	if err := c06Init(); err != nil {
		t.Fatal(err)
	}
	if *c06Child != "" {
		if err := runChild(*c06Child); err != nil {
			t.Fatal(err)
		}
		return
	}
	if *c06Dir == "" {
		t.Skip("-out required")
	}
	o := openOut(*c06Dir)
	o.Rule = "C06: U — digest of the content of the flushed accounts after applying the pending objects in the enumeration order of Go's maps and in a permuted order; R — gas used, cumulative gas, receipt count, bloom bits of the block and of every receipt from the per-transaction results; V — validator set after calculateValidatorSetUpdates + UpdateWithChangeSet; B — verdict class of validateBlock.  Direct oracles: identical observables (app hash, stored receipts, bloom, gas, reward, block hash, validator sets with priorities, read-back) in every cache configuration, after re-opening, and in a fresh process; proposer's block valid on every node; content-only root; order-free validator updates"
	type result struct {
		o    *outT
		buf  *caseBuf
		spec *caseSpec
		want []string
	}
	var idxs []int
	for i := 0; i < *c06N; i++ {
		if *c06Only < 0 || *c06Only == i {
			idxs = append(idxs, i)
		}
	}
	results := make([]*result, len(idxs))
	workers := runtime.NumCPU() / 2
	if *c06Tier == "thorough" {
		workers = 2 // the shards already run side by side
	}
	if workers < 1 {
		workers = 1
	}
	var wg sync.WaitGroup
	next := int32(-1)
	for w := 0; w < workers; w++ {
		wg.Add(1)
		go func() {
			defer wg.Done()
			for {
				k := int(atomic.AddInt32(&next, 1))
				if k >= len(idxs) {
					return
				}
				i := idxs[k]
				co, buf := newCaseOut()
				res := &result{o: co, buf: buf}
				func() {
					defer func() {
						if e := recover(); e != nil {
							co.curCase = i
							co.Fail(-1, "panic", strings.ReplaceAll(fmt.Sprint(e), "\n", " "))
						}
					}()
					res.spec, res.want = runCase(co, i, *c06Seed)
				}()
				results[k] = res
			}
		}()
	}
	wg.Wait()
	// the same chains in fresh processes, a batch of cases per process, batches side by side
	var batches []*childBatch
	cb := &childBatch{want: map[int][]string{}}
	for _, res := range results {
		o.merge(res.o, res.buf)
		if res.spec != nil {
			cb.specs = append(cb.specs, res.spec)
			cb.want[res.spec.Idx] = res.want
			if len(cb.specs) >= 16 {
				batches = append(batches, cb)
				cb = &childBatch{want: map[int][]string{}}
			}
		}
	}
	if len(cb.specs) > 0 {
		batches = append(batches, cb)
	}
	bouts := make([]*outT, len(batches))
	bbufs := make([]*caseBuf, len(batches))
	sem := make(chan struct{}, workers)
	for bi, b := range batches {
		bouts[bi], bbufs[bi] = newCaseOut()
		wg.Add(1)
		sem <- struct{}{}
		go func(bi int, b *childBatch) {
			defer wg.Done()
			defer func() { <-sem }()
			b.run(bouts[bi], fmt.Sprint(bi))
		}(bi, b)
	}
	wg.Wait()
	for bi := range batches {
		o.merge(bouts[bi], bbufs[bi])
	}
	o.Close()
}

func minInt(a, b int) int {
	if a < b {
		return a
	}
	return b
}
