//go:build verif

// Injected with `go test -overlay` (tag verif) next to the real sources of package blockchain;
// nothing in /repo is edited.  It exposes the block-sync processor FSM (pcState.handle with the real
// pContext: ValidatorSet.VerifyCommit, blockStore.SaveBlock, blockApplier.ApplyBlock) to the
// consensus network harness (harness/overlay/consensus/verif_net_test.go), which plays the
// scheduler: it hands blocks received from peers to the processor and asks it to process.
package blockchain

import (
	"fmt"

	"github.com/kardiachain/go-kardia/kai/state/cstate"
	"github.com/kardiachain/go-kardia/lib/p2p"
	"github.com/kardiachain/go-kardia/types"
)

// VerifBlockStore / VerifBlockApplier are the (unexported) dependencies of the processor context.
type VerifBlockStore interface {
	Base() uint64
	Height() uint64
	LoadBlock(height uint64) *types.Block
	SaveBlock(*types.Block, *types.PartSet, *types.Commit)
}
type VerifBlockApplier interface {
	ApplyBlock(state cstate.LatestBlockState, blockID types.BlockID, block *types.Block) (cstate.LatestBlockState, uint64, error)
}

type VerifProcessor struct{ st *pcState }

func VerifNewProcessor(store VerifBlockStore, applier VerifBlockApplier, state cstate.LatestBlockState) *VerifProcessor {
	return &VerifProcessor{st: newPcState(newProcessorContext(store, applier, state))}
}

// BlockReceived is the scheduler's scBlockReceived event. Returns "dup" when the processor panics on
// a duplicate enqueue (the scheduler never sends one), "" otherwise.
func (p *VerifProcessor) BlockReceived(peer p2p.ID, b *types.Block) (res string) {
	defer func() {
		if r := recover(); r != nil {
			res = "panic:" + fmt.Sprint(r)
		}
	}()
	p.st.handle(scBlockReceived{peerID: peer, block: b})
	return ""
}

// Process is the reactor's rProcessBlock tick: "processed <h>", "refused <h>", "idle", or "panic:...".
func (p *VerifProcessor) Process() (res string, height uint64) {
	defer func() {
		if r := recover(); r != nil {
			res = "panic:" + fmt.Sprint(r)
		}
	}()
	ev, _ := p.st.handle(rProcessBlock{})
	switch e := ev.(type) {
	case pcBlockProcessed:
		return "processed", e.height
	case pcBlockVerificationFailure:
		return "refused", e.height
	}
	return "idle", 0
}

func (p *VerifProcessor) Height() uint64                { return p.st.height() }
func (p *VerifProcessor) State() cstate.LatestBlockState { return p.st.context.kaiState() }
func (p *VerifProcessor) QueueLen() int                  { return len(p.st.queue) }
func (p *VerifProcessor) PeerError(peer p2p.ID)          { p.st.handle(scPeerError{peerID: peer}) }
