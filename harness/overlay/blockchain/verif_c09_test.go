//go:build verif

package blockchain

import (
	"fmt"
	"math/big"
	"testing"
	"time"

	"github.com/kardiachain/go-kardia/configs"
	"github.com/kardiachain/go-kardia/kai/kaidb/memorydb"
	"github.com/kardiachain/go-kardia/lib/common"
	"github.com/kardiachain/go-kardia/lib/crypto"
	"github.com/kardiachain/go-kardia/lib/log"
	"github.com/kardiachain/go-kardia/mainchain/genesis"
	"github.com/kardiachain/go-kardia/mainchain/staking"
	stypes "github.com/kardiachain/go-kardia/mainchain/staking/types"
	"github.com/kardiachain/go-kardia/mainchain/tx_pool"
	"github.com/kardiachain/go-kardia/types"
)

func TestVerifC09(t *testing.T) {
	t0 := time.Now()
	configs.AddDefaultContract()
	configs.AddDefaultStakingContractAddress()
	key, _ := crypto.ToECDSA(common.Hex2Bytes("ae1a52546294bed6e734185775dbc84009de00bdf51b709471e2415c31ceeed7"))
	addr := crypto.PubkeyToAddress(key.PublicKey)
	g := &genesis.Genesis{Config: configs.TestChainConfig, GasLimit: configs.BlockGasLimit,
		Alloc: genesis.GenesisAlloc{addr: genesis.GenesisAccount{Balance: genesis.ToCell(1000)}}}
	db := memorydb.New()
	bc, err := NewBlockChain(db, nil, g)
	if err != nil {
		t.Fatal(err)
	}
	fmt.Println("genesis", time.Since(t0))
	su, err := staking.NewSmcStakingUtil()
	if err != nil {
		t.Fatal(err)
	}
	txPool := tx_pool.NewTxPool(tx_pool.DefaultTxPoolConfig, bc.chainConfig, bc)
	bo := NewBlockOperations(log.New(), bc, txPool, nil, su)
	st, err := bc.State()
	if err != nil {
		t.Fatal(err)
	}
	fmt.Println("setup", time.Since(t0))
	h := &types.Header{Height: 1, GasLimit: 1000000, Time: time.Unix(1000, 0), ProposerAddress: common.HexToAddress("0xc0ffee")}
	to := common.HexToAddress("0xbeef")
	tx, _ := types.SignTx(types.MakeSigner(bc.chainConfig, &h.Height), types.NewTransaction(0, to, big.NewInt(5), 30000, big.NewInt(2), nil), key)
	tx2, _ := types.SignTx(types.MakeSigner(bc.chainConfig, &h.Height), types.NewTransaction(1, to, big.NewInt(5), 100, big.NewInt(2), nil), key)
	for i := 0; i < 3; i++ {
		t1 := time.Now()
		s := st.Copy()
		vals, bi, err := bo.commitBlock(s, types.Transactions{tx, tx2}, h, stypes.LastCommitInfo{}, nil)
		fmt.Println(len(vals), bi, err, time.Since(t1))
		if bi != nil {
			fmt.Println(bi.GasUsed, len(bi.Receipts), bi.Rewards, s.GetBalance(to), s.GetBalance(h.ProposerAddress), s.IntermediateRoot(true).Hex())
		}
	}
}
