//go:build verif

package blockchain

import (
	"math/big"

	"github.com/kardiachain/go-kardia/configs"
	"github.com/kardiachain/go-kardia/lib/common"
	"github.com/kardiachain/go-kardia/lib/crypto"
)

// ---------------------------------------------------------------- byte-code generator

type asm struct{ b []byte }

func (a *asm) op(o ...byte) *asm { a.b = append(a.b, o...); return a }
func (a *asm) push(v *big.Int) *asm {
	bs := v.Bytes()
	if len(bs) == 0 {
		bs = []byte{0}
	}
	if len(bs) > 32 {
		bs = bs[len(bs)-32:]
	}
	a.b = append(a.b, byte(0x5f+len(bs)))
	a.b = append(a.b, bs...)
	return a
}
func (a *asm) pushN(n uint64) *asm { return a.push(new(big.Int).SetUint64(n)) }
func (a *asm) pushAddr(x common.Address) *asm {
	a.b = append(a.b, 0x73)
	a.b = append(a.b, x[:]...)
	return a
}

// CALL(gas, target, value, 0,0,0,0); POP
func (a *asm) call(target common.Address, value *big.Int, gasAll bool, gasAmt uint64) *asm {
	a.pushN(0).pushN(0).pushN(0).pushN(0).push(value).pushAddr(target)
	if gasAll {
		a.op(0x5a)
	} else {
		a.pushN(gasAmt)
	}
	return a.op(0xf1, 0x50)
}
func (a *asm) sstore(slot, val uint64) *asm { return a.pushN(val).pushN(slot).op(0x55) }

// LOGn with n small topics and an empty data area (C06: receipts, logs and bloom)
func (a *asm) logN(topics []uint64) *asm {
	for i := len(topics) - 1; i >= 0; i-- {
		a.pushN(topics[i])
	}
	return a.pushN(0).pushN(0).op(byte(0xa0 + len(topics)))
}

// SLOAD slot, add 1, SSTORE slot: the result depends on what earlier transactions of the block left
func (a *asm) bump(slot uint64) *asm {
	return a.pushN(slot).op(0x54).pushN(1).op(0x01).pushN(slot).op(0x55)
}

// CREATE(value, 0, len(init)) with init written to memory in 32-byte chunks; POP
func (a *asm) create(init []byte, value *big.Int) *asm {
	for i := 0; i < len(init); i += 32 {
		chunk := make([]byte, 32)
		copy(chunk, init[i:])
		a.b = append(a.b, 0x7f)
		a.b = append(a.b, chunk...)
		a.pushN(uint64(i)).op(0x52)
	}
	return a.pushN(uint64(len(init))).pushN(0).push(value).op(0xf0, 0x50)
}

// CREATE2(value, 0, len(init), salt) with init written to memory in 32-byte chunks; POP
func (a *asm) create2(init []byte, value *big.Int, salt uint64) *asm {
	for i := 0; i < len(init); i += 32 {
		chunk := make([]byte, 32)
		copy(chunk, init[i:])
		a.b = append(a.b, 0x7f)
		a.b = append(a.b, chunk...)
		a.pushN(uint64(i)).op(0x52)
	}
	return a.pushN(salt).pushN(uint64(len(init))).pushN(0).push(value).op(0xf5, 0x50)
}

// probe: what the world looks like at `target` is written to storage, so that a stale view of
// that account (balance, code hash, code size, existence) changes the state root:
// SSTORE(slot, BALANCE(t)); SSTORE(slot+1, EXTCODEHASH(t)); SSTORE(slot+2, EXTCODESIZE(t))
func (a *asm) probe(target common.Address, slot uint64) *asm {
	a.pushAddr(target).op(0x31).pushN(slot).op(0x55)
	a.pushAddr(target).op(0x3f).pushN(slot + 1).op(0x55)
	return a.pushAddr(target).op(0x3b).pushN(slot + 2).op(0x55)
}

type codeGen struct {
	r       *rnd
	targets []common.Address // addresses byte code may refer to
	hot     []common.Address // addresses of future creations (pre-funded): preferred targets
	self    common.Address   // the contract whose code is being generated (CREATE2 addresses)
	futures []common.Address // CREATE2 addresses the generated code will create at
}

func (g *codeGen) target() common.Address {
	if len(g.hot) > 0 && g.r.Chance(1, 3) {
		return g.hot[g.r.Intn(len(g.hot))]
	}
	return g.targets[g.r.Intn(len(g.targets))]
}

// failing constructors (the creation is rolled back inside the VM): REVERT, INVALID, out of gas,
// runtime above MaxCodeSize, runtime whose deposit cannot be paid
func (g *codeGen) failingInit() []byte {
	a := &asm{}
	switch g.r.Pick(3, 1, 2, 2, 2, 2) {
	case 0:
		a.pushN(0).pushN(0).op(0xfd)
	case 1:
		a.op(0xfe)
	case 2:
		g.terminate(a, 6)
	case 3:
		a.pushN(uint64(configs.MaxCodeSize + 1 + g.r.Intn(3))).pushN(0).op(0xf3)
	case 4: // writes, pays somebody, then reverts: everything has to be undone
		a.sstore(uint64(g.r.Intn(3)), 1+uint64(g.r.Intn(5)))
		a.call(g.target(), g.smallVal(), true, 0)
		a.pushN(0).pushN(0).op(0xfd)
	default: // 24000 bytes of runtime: 4.8M gas of code deposit, more than any transaction here carries
		a.pushN(uint64(configs.MaxCodeSize - g.r.Intn(3))).pushN(0).op(0xf3)
	}
	return a.b
}
func (g *codeGen) smallVal() *big.Int {
	switch g.r.Pick(4, 3, 2, 1) {
	case 0:
		return big.NewInt(0)
	case 1:
		return big.NewInt(int64(1 + g.r.Intn(1000)))
	case 2:
		return new(big.Int).SetUint64(g.r.U64() % 1000000000000)
	default:
		return new(big.Int).Lsh(big.NewInt(1), uint(60+g.r.Intn(40))) // more than most accounts own
	}
}

// terminator kinds: how a piece of code ends
func (g *codeGen) terminate(a *asm, kind int) {
	switch kind {
	case 0: // STOP
		a.op(0x00)
	case 1: // RETURN(0,0)
		a.pushN(0).pushN(0).op(0xf3)
	case 2: // REVERT(0,0)
		a.pushN(0).pushN(0).op(0xfd)
	case 3: // INVALID
		a.op(0xfe)
	case 4: // SELFDESTRUCT(self)
		a.op(0x30, 0xff)
	case 5: // SELFDESTRUCT(other)
		a.pushAddr(g.target()).op(0xff)
	case 6: // out-of-gas loop
		p := uint64(len(a.b))
		a.op(0x5b)
		a.b = append(a.b, 0x61, byte(p>>8), byte(p))
		a.op(0x56)
	default: // fall off the end
	}
}

// runtime code of a small child contract (at most 32 bytes so that an init code can return it)
func (g *codeGen) tinyRuntime() []byte {
	a := &asm{}
	switch g.r.Pick(3, 2, 2, 1, 2, 1) {
	case 0:
		a.op(0x00)
	case 1:
		a.op(0x30, 0xff)
	case 2:
		a.pushAddr(g.target()).op(0xff)
	case 3:
		a.pushN(0).pushN(0).op(0xfd)
	case 4:
		a.bump(uint64(g.r.Intn(3))).op(0x00)
	default:
		a.sstore(0, 1).op(0x00)
	}
	return a.b
}

// init code (for CREATE inside contracts and for contract-creation transactions)
func (g *codeGen) initCode(depth int) []byte {
	a := &asm{}
	switch g.r.Pick(4, 2, 2, 1, 2, 2, 2, 2, 2, 2, 3, 2) {
	case 10: // reads slots the address may have owned before the creation (must read zero), keeps the sums
		for j := 0; j < 1+g.r.Intn(2); j++ {
			a.bump(uint64(g.r.Intn(3)))
		}
		a.probe(g.target(), 4)
		a.pushN(0).pushN(0).op(0xf3)
	case 11:
		return g.failingInit()
	case 0: // return a tiny runtime
		rt := g.tinyRuntime()
		a.push(new(big.Int).SetBytes(rt))
		// PUSHn right-aligns: leading zero bytes of rt would be lost, none of ours start with 0
		// except STOP, which we store through MSTORE8-free path: size counts from the right
		a.pushN(0).op(0x52).pushN(uint64(len(rt))).pushN(uint64(32 - len(rt))).op(0xf3)
	case 1: // empty runtime
		a.op(0x00)
	case 2: // revert
		a.pushN(0).pushN(0).op(0xfd)
	case 3: // invalid
		a.op(0xfe)
	case 4: // self-destruct in the constructor
		if g.r.Bool() {
			a.op(0x30, 0xff)
		} else {
			a.pushAddr(g.target()).op(0xff)
		}
	case 5: // out of gas
		g.terminate(a, 6)
	case 6: // large runtime: code deposit gas matters (200 gas per byte)
		a.pushN(uint64(100 + g.r.Intn(1500))).pushN(0).op(0xf3)
	case 7: // runtime above MaxCodeSize
		a.pushN(uint64(configs.MaxCodeSize + 1 + g.r.Intn(3))).pushN(0).op(0xf3)
	case 8: // forwards value, then returns empty runtime
		a.call(g.target(), g.smallVal(), true, 0)
		a.sstore(uint64(g.r.Intn(3)), 1+uint64(g.r.Intn(5)))
		a.pushN(0).pushN(0).op(0xf3)
	default: // nested creation
		if depth < 2 {
			a.create(g.initCode(depth+1), g.smallVal())
		}
		a.op(0x00)
	}
	return a.b
}

// code of a pre-deployed contract; clears says how many pre-filled storage slots it zeroes
func (g *codeGen) contractCode() (code []byte, clears int) {
	a := &asm{}
	n := 1 + g.r.Intn(3)
	for i := 0; i < n; i++ {
		switch g.r.Pick(5, 2, 2, 2, 1, 4, 3, 3, 2) {
		case 7:
			a.probe(g.target(), uint64(24+3*g.r.Intn(2)))
		case 8:
			init := g.initCode(1)
			salt := uint64(g.r.Intn(2))
			a.create2(init, g.smallVal(), salt)
			var sb [32]byte
			sb[31] = byte(salt)
			g.futures = append(g.futures, crypto.CreateAddress2(g.self, sb, crypto.Keccak256(init)))
		case 5:
			nt := g.r.Intn(4)
			var tp []uint64
			for j := 0; j < nt; j++ {
				tp = append(tp, uint64(1+g.r.Intn(6)))
			}
			a.logN(tp)
		case 6:
			a.bump(uint64(16 + g.r.Intn(3)))
		case 0:
			a.call(g.target(), g.smallVal(), g.r.Chance(3, 4), uint64(g.r.Intn(60000)))
		case 1:
			a.sstore(uint64(8+g.r.Intn(4)), 1+uint64(g.r.Intn(100)))
		case 2:
			k := 1 + g.r.Intn(4)
			for j := 0; j < k; j++ {
				a.sstore(uint64(clears+j), 0)
			}
			clears += k
		case 3:
			a.create(g.initCode(1), g.smallVal())
		default:
			// call twice: e.g. a contract that self-destructs and is then paid again
			t := g.target()
			a.call(t, g.smallVal(), true, 0)
			a.call(t, g.smallVal(), true, 0)
		}
	}
	g.terminate(a, g.r.Pick(8, 2, 3, 1, 2, 2, 2, 1))
	return a.b, clears
}
