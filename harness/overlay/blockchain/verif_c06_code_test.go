//go:build verif

package blockchain

import (
	"math/big"

	"github.com/kardiachain/go-kardia/configs"
	"github.com/kardiachain/go-kardia/lib/common"
)

// ---------------------------------------------------------------- byte-code generator

type asm struct{ b []byte }

func (a *asm) op(o ...byte) *asm { a.b = append(a.b, o...); return a }
func (a *asm) push(v *big.Int) *asm {
	bs := v.Bytes()
	if len(bs) == 0 {
		bs = []byte{0}
	}
	if len(bs) > 32 {
		bs = bs[len(bs)-32:]
	}
	a.b = append(a.b, byte(0x5f+len(bs)))
	a.b = append(a.b, bs...)
	return a
}
func (a *asm) pushN(n uint64) *asm { return a.push(new(big.Int).SetUint64(n)) }
func (a *asm) pushAddr(x common.Address) *asm {
	a.b = append(a.b, 0x73)
	a.b = append(a.b, x[:]...)
	return a
}

// CALL(gas, target, value, 0,0,0,0); POP
func (a *asm) call(target common.Address, value *big.Int, gasAll bool, gasAmt uint64) *asm {
	a.pushN(0).pushN(0).pushN(0).pushN(0).push(value).pushAddr(target)
	if gasAll {
		a.op(0x5a)
	} else {
		a.pushN(gasAmt)
	}
	return a.op(0xf1, 0x50)
}
func (a *asm) sstore(slot, val uint64) *asm { return a.pushN(val).pushN(slot).op(0x55) }

// LOGn with n small topics and an empty data area (C06: receipts, logs and bloom)
func (a *asm) logN(topics []uint64) *asm {
	for i := len(topics) - 1; i >= 0; i-- {
		a.pushN(topics[i])
	}
	return a.pushN(0).pushN(0).op(byte(0xa0 + len(topics)))
}

// SLOAD slot, add 1, SSTORE slot: the result depends on what earlier transactions of the block left
func (a *asm) bump(slot uint64) *asm {
	return a.pushN(slot).op(0x54).pushN(1).op(0x01).pushN(slot).op(0x55)
}

// CREATE(value, 0, len(init)) with init written to memory in 32-byte chunks; POP
func (a *asm) create(init []byte, value *big.Int) *asm {
	for i := 0; i < len(init); i += 32 {
		chunk := make([]byte, 32)
		copy(chunk, init[i:])
		a.b = append(a.b, 0x7f)
		a.b = append(a.b, chunk...)
		a.pushN(uint64(i)).op(0x52)
	}
	return a.pushN(uint64(len(init))).pushN(0).push(value).op(0xf0, 0x50)
}

type codeGen struct {
	r       *rnd
	targets []common.Address // addresses byte code may refer to
}

func (g *codeGen) target() common.Address { return g.targets[g.r.Intn(len(g.targets))] }
func (g *codeGen) smallVal() *big.Int {
	switch g.r.Pick(4, 3, 2, 1) {
	case 0:
		return big.NewInt(0)
	case 1:
		return big.NewInt(int64(1 + g.r.Intn(1000)))
	case 2:
		return new(big.Int).SetUint64(g.r.U64() % 1000000000000)
	default:
		return new(big.Int).Lsh(big.NewInt(1), uint(60+g.r.Intn(40))) // more than most accounts own
	}
}

// terminator kinds: how a piece of code ends
func (g *codeGen) terminate(a *asm, kind int) {
	switch kind {
	case 0: // STOP
		a.op(0x00)
	case 1: // RETURN(0,0)
		a.pushN(0).pushN(0).op(0xf3)
	case 2: // REVERT(0,0)
		a.pushN(0).pushN(0).op(0xfd)
	case 3: // INVALID
		a.op(0xfe)
	case 4: // SELFDESTRUCT(self)
		a.op(0x30, 0xff)
	case 5: // SELFDESTRUCT(other)
		a.pushAddr(g.target()).op(0xff)
	case 6: // out-of-gas loop
		p := uint64(len(a.b))
		a.op(0x5b)
		a.b = append(a.b, 0x61, byte(p>>8), byte(p))
		a.op(0x56)
	default: // fall off the end
	}
}

// runtime code of a small child contract (at most 32 bytes so that an init code can return it)
func (g *codeGen) tinyRuntime() []byte {
	a := &asm{}
	switch g.r.Pick(3, 2, 2, 1, 1) {
	case 0:
		a.op(0x00)
	case 1:
		a.op(0x30, 0xff)
	case 2:
		a.pushAddr(g.target()).op(0xff)
	case 3:
		a.pushN(0).pushN(0).op(0xfd)
	default:
		a.sstore(0, 1).op(0x00)
	}
	return a.b
}

// init code (for CREATE inside contracts and for contract-creation transactions)
func (g *codeGen) initCode(depth int) []byte {
	a := &asm{}
	switch g.r.Pick(4, 2, 2, 1, 2, 2, 2, 2, 2, 2) {
	case 0: // return a tiny runtime
		rt := g.tinyRuntime()
		a.push(new(big.Int).SetBytes(rt))
		// PUSHn right-aligns: leading zero bytes of rt would be lost, none of ours start with 0
		// except STOP, which we store through MSTORE8-free path: size counts from the right
		a.pushN(0).op(0x52).pushN(uint64(len(rt))).pushN(uint64(32 - len(rt))).op(0xf3)
	case 1: // empty runtime
		a.op(0x00)
	case 2: // revert
		a.pushN(0).pushN(0).op(0xfd)
	case 3: // invalid
		a.op(0xfe)
	case 4: // self-destruct in the constructor
		if g.r.Bool() {
			a.op(0x30, 0xff)
		} else {
			a.pushAddr(g.target()).op(0xff)
		}
	case 5: // out of gas
		g.terminate(a, 6)
	case 6: // large runtime: code deposit gas matters (200 gas per byte)
		a.pushN(uint64(100 + g.r.Intn(1500))).pushN(0).op(0xf3)
	case 7: // runtime above MaxCodeSize
		a.pushN(uint64(configs.MaxCodeSize + 1 + g.r.Intn(3))).pushN(0).op(0xf3)
	case 8: // forwards value, then returns empty runtime
		a.call(g.target(), g.smallVal(), true, 0)
		a.sstore(uint64(g.r.Intn(3)), 1+uint64(g.r.Intn(5)))
		a.pushN(0).pushN(0).op(0xf3)
	default: // nested creation
		if depth < 2 {
			a.create(g.initCode(depth+1), g.smallVal())
		}
		a.op(0x00)
	}
	return a.b
}

// code of a pre-deployed contract; clears says how many pre-filled storage slots it zeroes
func (g *codeGen) contractCode() (code []byte, clears int) {
	a := &asm{}
	n := 1 + g.r.Intn(3)
	for i := 0; i < n; i++ {
		switch g.r.Pick(5, 2, 2, 2, 1, 4, 3) {
		case 5:
			nt := g.r.Intn(4)
			var tp []uint64
			for j := 0; j < nt; j++ {
				tp = append(tp, uint64(1+g.r.Intn(6)))
			}
			a.logN(tp)
		case 6:
			a.bump(uint64(16 + g.r.Intn(3)))
		case 0:
			a.call(g.target(), g.smallVal(), g.r.Chance(3, 4), uint64(g.r.Intn(60000)))
		case 1:
			a.sstore(uint64(8+g.r.Intn(4)), 1+uint64(g.r.Intn(100)))
		case 2:
			k := 1 + g.r.Intn(4)
			for j := 0; j < k; j++ {
				a.sstore(uint64(clears+j), 0)
			}
			clears += k
		case 3:
			a.create(g.initCode(1), g.smallVal())
		default:
			// call twice: e.g. a contract that self-destructs and is then paid again
			t := g.target()
			a.call(t, g.smallVal(), true, 0)
			a.call(t, g.smallVal(), true, 0)
		}
	}
	g.terminate(a, g.r.Pick(8, 2, 3, 1, 2, 2, 2, 1))
	return a.b, clears
}
