//go:build verif

package snapshot

// Test-only export for the C06 harness (injected with -overlay; never part of /repo):
// hands the off-heap chunks of the disk layer's cache back to fastcache when a node is closed.
func (t *Tree) VerifReleaseCache() {
	t.lock.Lock()
	defer t.lock.Unlock()
	for _, l := range t.layers {
		if dl, ok := l.(*diskLayer); ok && dl.cache != nil {
			dl.cache.Reset()
		}
	}
}
