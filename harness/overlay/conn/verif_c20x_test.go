//go:build verif

// C20 harness, external half (package conn_test so that it may import lib/p2p, which imports
// lib/p2p/conn): transport-level identity cases ("TP").
//
// A TP case runs a few scenarios.  In each, T is a real p2p.MultiplexTransport with node key
// `self`; it either dials (real TCP on 127.0.0.1) or accepts ONE connection whose far end is
//
//	transport  another real MultiplexTransport holding key `signer` whose NodeInfo announces the
//	           ID of identity `info` (an impostor when info != signer),
//	evil       a raw peer: dishonest secret-connection handshake (claims the public key of
//	           `claimed`, signs with `signer`, 0 = random bytes), then sends a NodeInfo for `info`,
//	noinfo     a raw peer that completes an honest secret-connection handshake and hangs up.
//
// Input line   T <self> <dialed|0=inbound> <claimed> <signer> <info|0=none> <valid> <compat>
// Observable   T ok <identity number of the accepted peer's ID> | T rej auth|invalid|self|incompat|... | T err
//
// Direct oracle (independent of the model): a peer is accepted under ID X only if the key
// authenticated by its secret connection hashes to X, the far end really holds that key, X is
// the dialed ID on outbound connections and X is not T's own ID; an honest far end is accepted.
package conn_test

import (
	"crypto/ecdsa"
	"fmt"
	"io"
	"net"
	"sync"
	"time"

	"github.com/kardiachain/go-kardia/lib/p2p"
	"github.com/kardiachain/go-kardia/lib/p2p/conn"
	"github.com/kardiachain/go-kardia/lib/protoio"
)

func init() { conn.C20TPCase = c20xCase }

const (
	c20xTimeout = 60 * time.Second  // transport dial/handshake timeouts: safety nets, far above what a loaded machine needs
	c20xWait    = 100 * time.Second // harness-side wait for an outcome (a hang, never "slow")
)

type c20xScen struct {
	name                  string
	out                   bool
	kind                  string
	self, dialed          int
	claimed, signer, info int
	valid, compat         bool
	badInfo, badCompat    int
}

func c20xID(x *conn.C20Ext, n int) p2p.ID { return p2p.PubKeyToID(x.Key(n - 1).PublicKey) }

func c20xIDNum(x *conn.C20Ext, id p2p.ID) int {
	for n := 1; n <= x.NKeys; n++ {
		if c20xID(x, n) == id {
			return n
		}
	}
	return 0
}

func c20xNodeInfo(id p2p.ID, s *c20xScen, remote bool) p2p.DefaultNodeInfo {
	ni := p2p.DefaultNodeInfo{
		ProtocolVersion: p2p.NewProtocolVersion(1, 1, 0),
		DefaultNodeID:   id,
		ListenAddr:      "127.0.0.1:26656",
		Network:         "verif-c20",
		Version:         "1.0.0",
		Channels:        []byte{0x20, 0x21},
		Moniker:         "c20",
		Other:           p2p.DefaultNodeInfoOther{TxIndex: "on", RPCAddress: "127.0.0.1:26657"},
	}
	if remote && !s.valid {
		switch s.badInfo {
		case 0:
			ni.Channels = []byte{0x20, 0x21, 0x20} // duplicate channel
		case 1:
			ni.Moniker = ""
		case 2:
			ni.ListenAddr = "not an address"
		case 3:
			ni.Channels = make([]byte, 17) // too many (and duplicates)
			for i := range ni.Channels {
				ni.Channels[i] = byte(0x20 + i)
			}
		}
	}
	if remote && !s.compat {
		switch s.badCompat {
		case 0:
			ni.Network = "another-network"
		case 1:
			ni.ProtocolVersion.Block = 2
		case 2:
			ni.Channels = []byte{0x55}
		}
	}
	return ni
}

func c20xTransport(key *ecdsa.PrivateKey, ni p2p.DefaultNodeInfo) *p2p.MultiplexTransport {
	mt := p2p.NewMultiplexTransport(ni, p2p.NodeKey{PrivKey: key}, conn.DefaulKAIConnConfig())
	p2p.VerifC20SetTimeouts(mt, c20xTimeout)
	return mt
}

func c20xListen(mt *p2p.MultiplexTransport, id p2p.ID) (net.Addr, error) {
	na, err := p2p.NewNetAddressString(p2p.IDAddressString(id, "127.0.0.1:0"))
	if err != nil {
		return nil, err
	}
	if err := mt.Listen(*na); err != nil {
		return nil, err
	}
	return p2p.VerifC20ListenAddr(mt), nil
}

func c20xClassify(x *conn.C20Ext, p p2p.Peer, err error) string {
	if err == nil && p != nil {
		return fmt.Sprintf("T ok %d", c20xIDNum(x, p.ID()))
	}
	if rej, ok := err.(p2p.ErrRejected); ok {
		switch {
		case rej.IsAuthFailure():
			return "T rej auth"
		case rej.IsNodeInfoInvalid():
			return "T rej invalid"
		case rej.IsSelf():
			return "T rej self"
		case rej.IsIncompatible():
			return "T rej incompat"
		case rej.IsDuplicate():
			return "T rej duplicate"
		case rej.IsFiltered():
			return "T rej filtered"
		}
		return "T rej other"
	}
	return "T err"
}

type c20xResult struct {
	p   p2p.Peer
	err error
}

// c20xRaw plays the far end by hand on an established TCP connection.
func c20xRaw(x *conn.C20Ext, c net.Conn, s *c20xScen, done <-chan struct{}) {
	defer c.Close()
	c.SetDeadline(time.Now().Add(c20xWait))
	var signer *ecdsa.PrivateKey
	if s.signer != 0 {
		signer = x.Key(s.signer - 1)
	}
	sc, err := x.Evil(c, x.Key(s.claimed-1).PublicKey, signer)
	if err != nil || sc == nil {
		return
	}
	if s.info == 0 {
		return // hang up after the secret-connection handshake
	}
	ni := c20xNodeInfo(c20xID(x, s.info), s, true)
	protoio.NewDelimitedWriter(sc).WriteMsg(ni.ToProto())
	<-done
}

func c20xRun(x *conn.C20Ext, step int, s *c20xScen) {
	selfKey := x.Key(s.self - 1)
	T := c20xTransport(selfKey, c20xNodeInfo(c20xID(x, s.self), s, false))
	done := make(chan struct{})
	var cleanup []func()
	defer func() {
		close(done)
		for _, f := range cleanup {
			f()
		}
	}()
	fail := func(class, detail string) { x.Fail(step, class, fmt.Sprintf("[%s] %s", s.name, detail)) }
	in := fmt.Sprintf("T %d %d %d %d %d %s %s", s.self, s.dialed, s.claimed, s.signer, s.info, c20xB(s.valid), c20xB(s.compat))
	resc := make(chan c20xResult, 1)
	var wg sync.WaitGroup
	setupErr := func(err error) {
		x.Op(in, "T setup-error")
		fail("harness", fmt.Sprintf("setup: %v", err))
	}
	if s.out {
		var addr net.Addr
		switch s.kind {
		case "transport":
			R := c20xTransport(x.Key(s.signer-1), c20xNodeInfo(c20xID(x, s.info), s, true))
			a, err := c20xListen(R, c20xID(x, s.info))
			if err != nil {
				setupErr(err)
				return
			}
			addr = a
			cleanup = append(cleanup, func() { R.Close() })
			go func() { // the far end's own view of us is honest: keep its accept side going
				for {
					p, err := p2p.VerifC20Accept(R)
					if _, closed := err.(p2p.ErrTransportClosed); closed {
						return
					}
					if p != nil {
						p.CloseConn()
					}
				}
			}()
		default:
			ln, err := net.Listen("tcp", "127.0.0.1:0")
			if err != nil {
				setupErr(err)
				return
			}
			addr = ln.Addr()
			cleanup = append(cleanup, func() { ln.Close() })
			wg.Add(1)
			go func() {
				defer wg.Done()
				c, err := ln.Accept()
				if err != nil {
					return
				}
				c20xRaw(x, c, s, done)
			}()
		}
		cleanup = append(cleanup, func() { T.Close() })
		go func() {
			p, err := p2p.VerifC20Dial(T, *p2p.NewNetAddress(c20xID(x, s.dialed), addr))
			resc <- c20xResult{p, err}
		}()
	} else {
		addr, err := c20xListen(T, c20xID(x, s.self))
		if err != nil {
			setupErr(err)
			return
		}
		cleanup = append(cleanup, func() { T.Close() })
		go func() {
			p, err := p2p.VerifC20Accept(T)
			resc <- c20xResult{p, err}
		}()
		switch s.kind {
		case "transport":
			R := c20xTransport(x.Key(s.signer-1), c20xNodeInfo(c20xID(x, s.info), s, true))
			cleanup = append(cleanup, func() { R.Close() })
			go func() {
				p, _ := p2p.VerifC20Dial(R, *p2p.NewNetAddress(c20xID(x, s.self), addr))
				<-done
				if p != nil {
					p.CloseConn()
				}
			}()
		default:
			c, err := net.DialTimeout("tcp", addr.String(), c20xTimeout)
			if err != nil {
				setupErr(err)
				return
			}
			wg.Add(1)
			go func() { defer wg.Done(); c20xRaw(x, c, s, done) }()
		}
	}
	var res c20xResult
	select {
	case res = <-resc:
	case <-time.After(c20xWait):
		x.Op(in, "T hang")
		fail("hang", "the transport neither accepted nor rejected the connection")
		return
	}
	obs := c20xClassify(x, res.p, res.err)
	x.Op(in, obs)
	x.Count("tp:" + s.name)
	x.Count("tp:outcome:" + obs[2:])
	x.Mark(fmt.Sprintf("tp:%s:%v:%s:%s", s.name, s.out, s.kind, obs))

	// ---- direct oracles
	legit := s.signer != 0 && s.claimed == s.signer && s.info == s.signer && s.valid && s.compat &&
		s.signer != s.self && (!s.out || s.dialed == s.signer)
	accepted := res.err == nil && res.p != nil
	if legit && !accepted {
		fail("handshake-honest-failed", fmt.Sprintf("an honest peer (key %d, NodeInfo ID %d) was refused: %v", s.signer, s.info, res.err))
	}
	if accepted {
		p := res.p
		defer p.CloseConn()
		key, ok := p2p.VerifC20PeerConnKey(p)
		if !ok {
			fail("identity", fmt.Sprintf("peer %v accepted over something that is not a SecretConnection", p.ID()))
		} else if connID := p2p.PubKeyToID(key); connID != p.ID() {
			fail("identity", fmt.Sprintf("peer accepted under ID %v (identity %d) although the key authenticated by its secret connection hashes to %v (identity %d)",
				p.ID(), c20xIDNum(x, p.ID()), connID, c20xIDNum(x, connID)))
		}
		if s.signer == 0 || c20xID(x, s.signer) != p.ID() {
			fail("identity", fmt.Sprintf("peer accepted under ID %v (identity %d) although the far end holds the private key of identity %d only",
				p.ID(), c20xIDNum(x, p.ID()), s.signer))
		}
		if s.out && p.ID() != c20xID(x, s.dialed) {
			fail("identity", fmt.Sprintf("dialed %v (identity %d), got a peer with ID %v", c20xID(x, s.dialed), s.dialed, p.ID()))
		}
		if !s.out {
			if sa := p.SocketAddr(); sa == nil || sa.ID != p.ID() {
				fail("identity", fmt.Sprintf("inbound peer %v: socket address carries ID %v", p.ID(), sa))
			}
		}
		if p.ID() == c20xID(x, s.self) {
			fail("identity", "a peer with our own ID was accepted")
		}
	}
	_ = wg
}

func c20xB(b bool) string {
	if b {
		return "1"
	}
	return "0"
}

func c20xCase(x *conn.C20Ext) {
	nops := 2 + x.Intn(3)
	for step := 1; step <= nops; step++ {
		pick := func(not ...int) int {
			for {
				n := 1 + x.Intn(x.NKeys)
				ok := true
				for _, m := range not {
					ok = ok && n != m
				}
				if ok {
					return n
				}
			}
		}
		self := pick()
		m := pick(self)
		v := pick(self, m)
		third := pick(self, m, v)
		s := &c20xScen{self: self, kind: "transport", claimed: m, signer: m, info: m, dialed: m, valid: true, compat: true,
			out: x.Intn(2) == 0, badInfo: x.Intn(4), badCompat: x.Intn(3)}
		switch x.Intn(16) {
		case 0, 1:
			s.name = "honest"
		case 2, 3, 4: // key m, NodeInfo claims v, v is dialed
			s.name, s.info, s.dialed = "impostor-claims-dialed", v, v
		case 5: // key m, NodeInfo claims v, m is dialed
			s.name, s.info = "nodeinfo-mismatch", v
		case 6, 14, 15: // honest far end, another ID dialed
			s.name, s.dialed, s.out = "wrong-id-dialed", v, true
		case 7: // key m, NodeInfo claims v, a third ID is dialed
			s.name, s.info, s.dialed = "impostor-third", v, third
		case 8: // raw peer claiming v's public key in the secret-connection handshake
			s.name, s.kind, s.claimed, s.info = "evil-sts", "evil", v, v
			if x.Intn(3) == 0 {
				s.signer = 0
			}
			s.dialed = []int{v, m}[x.Intn(2)]
		case 9: // raw peer, honest secret connection with key m, NodeInfo of v or of m
			s.name, s.kind = "raw-impostor", "evil"
			s.info = []int{v, v, m}[x.Intn(3)]
			s.dialed = []int{s.info, m}[x.Intn(2)]
			if s.info == m && s.dialed == m {
				s.name = "raw-honest"
			}
		case 10:
			s.name, s.kind, s.info = "no-nodeinfo", "noinfo", 0
		case 11: // the far end holds our own key
			s.name, s.claimed, s.signer, s.info, s.dialed = "self", self, self, self, self
		case 12:
			s.name, s.valid = "invalid-nodeinfo", false
			if x.Intn(2) == 0 {
				s.info, s.dialed = v, []int{v, m}[x.Intn(2)]
			}
		case 13:
			s.name, s.compat = "incompatible", false
		}
		if !s.out {
			s.dialed = 0
		}
		c20xRun(x, step, s)
	}
}

var _ = io.EOF
